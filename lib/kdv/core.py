"""Shared machinery of the checks: Coq obligations, extraction, C builds from
/repo's working tree, case running, shrinking, verdicts, evidence.

Nothing here decides a property: the Coq kernel decides the theorems, the
correspondence run ties the model to the code, and the spec search looks for a
concrete failing input when either is broken."""
import glob
import hashlib
import json
import os
import random
import re
import shutil
import subprocess
import sys
import time

VERIF = os.path.dirname(os.path.dirname(os.path.dirname(os.path.abspath(__file__))))
REPO = os.environ.get("VERIF_REPO", "/repo")
COQ = os.path.join(VERIF, "coq")
BUILD = os.environ.get("VERIF_BUILD", os.path.join(VERIF, "build"))
# VERIF_EVIDENCE redirects the evidence of a run against a scratch tree (bin/retest-seed, bin/confirm-seed), so
# that the committed evidence/ only ever comes from runs against /repo itself
EVID = os.environ.get("VERIF_EVIDENCE") or os.path.join(VERIF, "evidence")
REPLAY = os.path.join(VERIF, "replay")
GUARD = "LIBKDUMPFILE_VERIF"
NPROC = os.cpu_count() or 4

FORBIDDEN = re.compile(
    r"\b(Admitted|admit|Axiom|Axioms|Parameter|Parameters|Conjecture|Abort All)\b"
    r"|Admit Obligations|Unset Guard Checking|Unset Positivity Checking|Unset Universe Checking"
    r"|bypass_check|-type-in-type|-impredicative-set|native_compute")

SAN = ["-fsanitize=address,undefined", "-fno-sanitize=nonnull-attribute",
       "-fno-sanitize-recover=all"]
CFLAGS = ["-O1", "-g", "-DHAVE_CONFIG_H", "-D" + GUARD, "-D_GNU_SOURCE", "-w",
          "-I" + REPO, "-I" + REPO + "/include", "-I" + REPO + "/src",
          "-I" + REPO + "/src/kdumpfile", "-I" + REPO + "/src/addrxlat",
          "-I" + os.path.join(VERIF, "harness")]
LIBS = ["-lz", "-lsnappy", "-lzstd", "-lpthread"]


def sh(cmd, timeout=600, cwd=None, env=None, input=None):
    """Run a command; returns (exit code or 'timeout', stdout+stderr)."""
    try:
        p = subprocess.run(cmd, cwd=cwd, env=env, input=input, timeout=timeout,
                           stdout=subprocess.PIPE, stderr=subprocess.STDOUT,
                           universal_newlines=True, errors="replace")
        return p.returncode, p.stdout
    except subprocess.TimeoutExpired as e:
        out = e.stdout or ""
        if isinstance(out, bytes):
            out = out.decode(errors="replace")
        return "timeout", out


# ----------------------------------------------------------------------------
# Coq side
# ----------------------------------------------------------------------------

def coq_sources():
    return sorted(os.path.relpath(p, COQ) for p in
                  glob.glob(os.path.join(COQ, "theories", "**", "*.v"), recursive=True))


def coq_makefile():
    """_CoqProject is generated: every .v under coq/theories (coq_makefile/coqdep order them)."""
    cp = os.path.join(COQ, "_CoqProject")
    want = "-Q theories KdV\n-arg -w -arg -notation-overridden,-deprecated-hint-without-locality," \
           "-deprecated-instance-without-locality,-ambiguous-paths\n" + "\n".join(coq_sources()) + "\n"
    mk = os.path.join(COQ, "Makefile")
    if not os.path.exists(cp) or open(cp).read() != want or not os.path.exists(mk):
        with open(cp, "w") as f:
            f.write(want)
        rc, out = sh(["coq_makefile", "-f", "_CoqProject", "-o", "Makefile"], cwd=COQ)
        if rc != 0:
            raise RuntimeError("coq_makefile failed:\n" + out)


class build_lock:
    """Serialises Coq builds and driver extraction between concurrently running checks."""
    def __init__(self, name):
        os.makedirs(BUILD, exist_ok=True)
        self.path = os.path.join(COQ if name == "coq" else BUILD, ".%s.lock" % name)

    def __enter__(self):
        import fcntl
        self.f = open(self.path, "w")
        fcntl.flock(self.f, fcntl.LOCK_EX)
        return self

    def __exit__(self, *a):
        self.f.close()


def coq_make(targets, timeout=1800, keep_going=False):
    with build_lock("coq"):
        coq_makefile()
        cmd = ["make", "-j%d" % NPROC] + (["-k"] if keep_going else []) + list(targets)
        return sh(cmd, timeout=timeout, cwd=COQ)


def forbidden_scan():
    """Forbidden keywords anywhere in the development (comments stripped)."""
    hits = []
    for p in sorted(glob.glob(os.path.join(COQ, "theories", "**", "*.v"), recursive=True)):
        src = open(p, errors="replace").read()
        src = strip_coq_comments(src)
        for i, line in enumerate(src.split("\n"), 1):
            m = FORBIDDEN.search(line)
            if m:
                hits.append("%s:%d: %s" % (os.path.relpath(p, VERIF), i, m.group(0)))
    return hits


def strip_coq_comments(s):
    out = []
    depth = 0
    i = 0
    n = len(s)
    while i < n:
        if s.startswith("(*", i):
            depth += 1
            i += 2
        elif s.startswith("*)", i) and depth:
            depth -= 1
            i += 2
        else:
            if depth == 0:
                out.append(s[i])
            elif s[i] == "\n":
                out.append("\n")
            i += 1
    return "".join(out)


def coq_property(pid, clean=False, chk=False):
    """Re-check Properties_<pid>.v and its whole dependency cone.

    Returns dict(ok, theorems, axioms (per theorem), log, broken (names))."""
    res = {"ok": False, "theorems": [], "axioms": {}, "log": "", "broken": [],
           "checker_cmd": "make -C coq theories/Properties_%s.vo (coqc 8.16.1, full .vo build) "
                          "then coqc theories/Properties_%s.v to capture Print Assumptions" % (pid, pid)}
    pv = os.path.join(COQ, "theories", "Properties_%s.v" % pid)
    src = strip_coq_comments(open(pv).read())
    thms = re.findall(r"^\s*(?:Theorem|Lemma|Example)\s+([A-Za-z0-9_']+)", src, re.M)
    res["theorems"] = thms
    # the property files must contain statements closed by `exact`, nothing else
    for body in re.findall(r"Proof\.(.*?)Qed\.", src, re.S):
        b = body.strip()
        if not (b.startswith("exact ") or "vm_compute" in b or b.startswith("split")):
            res["log"] += "non-`exact` proof body in %s: %s\n" % (os.path.basename(pv), b[:80])
    if clean:
        coq_makefile()
        sh(["make", "clean"], cwd=COQ)
    rc, out = coq_make(["theories/Properties_%s.vo" % pid], keep_going=True)
    res["log"] += out[-4000:]
    if rc != 0:
        res["broken"] = broken_from_log(out) or ["Properties_%s.vo" % pid]
        return res
    rc, out = sh(["coqc", "-Q", "theories", "KdV", "-w", "-notation-overridden",
                  "theories/Properties_%s.v" % pid], cwd=COQ, timeout=900)
    res["log"] += out[-4000:]
    if rc != 0:
        res["broken"] = broken_from_log(out) or ["Properties_%s.v" % pid]
        return res
    # Print Assumptions output, in order of appearance
    blocks = re.split(r"(?m)^(?=Closed under the global context|Axioms:)", out)
    blocks = [b for b in blocks if b.startswith("Closed") or b.startswith("Axioms:")]
    printed = re.findall(r"Print Assumptions\s+([A-Za-z0-9_']+)", src)
    for name, b in zip(printed, blocks):
        if b.startswith("Closed"):
            res["axioms"][name] = []
        else:
            res["axioms"][name] = re.findall(r"(?m)^([A-Za-z0-9_.']+)\s*:", b[len("Axioms:"):])
    if chk:
        rc, out = sh(["coqchk", "-silent", "-o", "-Q", "theories", "KdV",
                      "KdV.Properties_%s" % pid], cwd=COQ, timeout=3600)
        res["coqchk"] = out[-3000:]
        if rc != 0:
            res["broken"] = ["coqchk KdV.Properties_%s" % pid]
            return res
    res["ok"] = True
    return res


def broken_from_log(out):
    names = []
    for m in re.finditer(r'File "\./?([^"]+)", line (\d+)', out):
        path, line = m.group(1), int(m.group(2))
        try:
            src = open(os.path.join(COQ, path)).read().split("\n")
        except OSError:
            continue
        nm = None
        for l in src[:line][::-1]:
            mm = re.match(r"\s*(?:Theorem|Lemma|Example|Definition|Fixpoint|Corollary)\s+([A-Za-z0-9_']+)", l)
            if mm:
                nm = mm.group(1)
                break
        names.append("%s:%d (%s)" % (path, line, nm or "?"))
    return names


# ----------------------------------------------------------------------------
# Extraction and the OCaml driver
# ----------------------------------------------------------------------------

def newest(paths):
    return max([os.path.getmtime(p) for p in paths] or [0])


def extract_fragments():
    """coq/extract.d/*.txt -> (modules, names); VERIF_ENGINES restricts to some fragments."""
    only = os.environ.get("VERIF_ENGINES")
    mods, names = [], []
    for p in sorted(glob.glob(os.path.join(COQ, "extract.d", "*.txt"))):
        if only and os.path.basename(p)[:-4] not in only.split(","):
            continue
        for l in open(p):
            l = l.split("#")[0].split()
            if len(l) == 2 and l[0] == "module" and l[1] not in mods:
                mods.append(l[1])
            elif len(l) == 2 and l[0] == "name" and l[1] not in names:
                names.append(l[1])
    return mods, names


def build_ml_driver():
    with build_lock("ml"):
        return _build_ml_driver()


def _build_ml_driver():
    """Extract the models (one Separate Extraction, ExtrOcamlBasic only) and build
    build/kdv_driver from ml/util.ml + ml/eng_*.ml.  Returns (ok, log)."""
    only = os.environ.get("VERIF_ENGINES")
    # a driver restricted to some engines (development) never replaces the full one
    tag = "" if not only else "-" + hashlib.sha256(only.encode()).hexdigest()[:8]
    gen = os.path.join(BUILD, "ml" + tag)
    exe = os.path.join(BUILD, "kdv_driver" + tag)
    mods, names = extract_fragments()
    base = [m.split(".")[-1] for m in mods]
    dups = sorted({b for b in base if base.count(b) > 1})
    if dups:
        return False, ("extracted Coq modules must have unique basenames (one OCaml module each); "
                       "clash: %s" % ", ".join(dups))
    only = os.environ.get("VERIF_ENGINES")
    engs = sorted(glob.glob(os.path.join(VERIF, "ml", "eng_*.ml")))
    if only:
        engs = [e for e in engs if os.path.basename(e)[4:-3] in only.split(",")]
    srcs = [os.path.join(COQ, "theories", m.replace(".", "/") + ".v") for m in mods] + engs + \
        [os.path.join(VERIF, "ml", "util.ml")] + glob.glob(os.path.join(COQ, "extract.d", "*.txt"))
    stamp = exe + ".stamp"
    sig = hashlib.sha256(repr((only, [(p, os.path.getmtime(p)) for p in srcs])).encode()).hexdigest()
    if os.path.exists(exe) and os.path.exists(stamp) and open(stamp).read() == sig:
        # also require the model .vo files to be current
        pass
    rc, out = coq_make(["theories/%s.vo" % m.replace(".", "/") for m in mods])
    if rc != 0:
        return False, out[-3000:]
    vos = [os.path.join(COQ, "theories", m.replace(".", "/") + ".vo") for m in mods]
    if os.path.exists(exe) and os.path.exists(stamp) and open(stamp).read() == sig \
            and os.path.getmtime(exe) >= newest(vos):
        return True, "up to date"
    shutil.rmtree(gen, ignore_errors=True)
    os.makedirs(gen)
    ev = "(* generated from coq/extract.d/*.txt: the only file with Extraction commands *)\n" \
         "From Coq Require Import Extraction ExtrOcamlBasic.\n" \
         "From KdV Require Import %s.\nExtraction Language OCaml.\n" \
         "Separate Extraction\n  nat\n  %s.\n" % (" ".join(mods), "\n  ".join(names))
    with open(os.path.join(gen, "Extract.v"), "w") as f:
        f.write(ev)
    rc, out = sh(["coqc", "-Q", os.path.join(COQ, "theories"), "KdV", "Extract.v"], cwd=gen, timeout=900)
    if rc != 0:
        return False, out[-3000:]
    shutil.copy(os.path.join(VERIF, "ml", "util.ml"), gen)
    for f in engs:
        shutil.copy(f, gen)
    with open(os.path.join(gen, "driver.ml"), "w") as f:
        f.write("(* generated: driver <engine> <casefile>: one output line per input line *)\n"
                "let engines : (string * (string -> string)) list = Stdlib.List.concat [\n%s]\n"
                "let () =\n  let eng = Sys.argv.(1) and path = Sys.argv.(2) in\n"
                "  let f = try Stdlib.List.assoc eng engines with Not_found -> failwith (\"unknown engine \" ^ eng) in\n"
                "  Stdlib.List.iter (fun l ->\n    let r = try f l with e -> \"EXC \" ^ Printexc.to_string e in\n"
                "    print_string r; print_newline ()) (Util.read_lines path)\n"
                % "".join("  %s.engines;\n" % os.path.basename(e)[:-3].capitalize() for e in engs))
    rc, out = sh(["sh", "-c", "ocamlfind ocamlopt -O3 -w -a -o ../kdv_driver.tmp%s "
                  "$(ocamlfind ocamldep -sort *.ml *.mli) 2>&1" % tag], cwd=gen, timeout=900)
    if rc != 0:
        return False, out[-3000:]
    os.replace(os.path.join(BUILD, "kdv_driver.tmp" + tag), exe)
    with open(stamp, "w") as f:
        f.write(sig)
    return True, out


def run_model(engine, casefile, timeout=1800):
    only = os.environ.get("VERIF_ENGINES")
    tag = "" if not only else "-" + hashlib.sha256(only.encode()).hexdigest()[:8]
    rc, out = sh([os.path.join(BUILD, "kdv_driver" + tag), engine, casefile], timeout=timeout)
    if rc != 0:
        raise RuntimeError("model driver failed (%s):\n%s" % (rc, out[-2000:]))
    return out.split("\n")[:-1]


# ----------------------------------------------------------------------------
# C side
# ----------------------------------------------------------------------------

def repo_hash(extra=()):
    h = hashlib.sha256()
    pats = ["src/*.h", "src/*/*.c", "src/*/*.h", "include/libkdumpfile/*.h", "config.h"]
    for pat in pats:
        for p in sorted(glob.glob(os.path.join(REPO, pat))):
            h.update(p.encode())
            h.update(open(p, "rb").read())
    for p in extra:
        h.update(p.encode())
        h.update(open(p, "rb").read())
    return h.hexdigest()[:20]


def lib_sources(which=("kdumpfile", "addrxlat"), exclude=()):
    out = []
    for d in which:
        for p in sorted(glob.glob(os.path.join(REPO, "src", d, "*.c"))):
            b = os.path.basename(p)
            if b.startswith("test-") or b in exclude:
                continue
            out.append(p)
    return out


def _compile_objects(sources, cmd, key):
    """Compile library sources to objects shared by every driver built from the same tree
    with the same flags: build/cc/objs-<hash>/<dir>_<file>.o.  Returns (objs or None, log)."""
    import fcntl
    h = hashlib.sha256((key + repr(cmd)).encode()).hexdigest()[:16]
    d = os.path.join(BUILD, "cc", "objs-" + h)
    os.makedirs(d, exist_ok=True)
    os.utime(d)
    objs = [os.path.join(d, os.path.basename(os.path.dirname(s)) + "_" + os.path.basename(s) + ".o")
            for s in sources]
    with open(os.path.join(d, ".lock"), "w") as lk:
        fcntl.flock(lk, fcntl.LOCK_EX)
        todo = [(s, o) for s, o in zip(sources, objs) if not os.path.exists(o)]
        log = ""
        bad = False
        for i in range(0, len(todo), NPROC):
            procs = [(o, subprocess.Popen(cmd + ["-c", s, "-o", o + ".tmp%d" % os.getpid()], stdout=subprocess.PIPE,
                                          stderr=subprocess.STDOUT, universal_newlines=True))
                     for s, o in todo[i:i + NPROC]]
            for o, p in procs:
                out, _ = p.communicate()
                if p.returncode != 0:
                    bad = True
                    log += out
                else:
                    os.replace(o + ".tmp%d" % os.getpid(), o)
        if bad:
            return None, log[-4000:]
    return objs, ""


def cc_build(name, driver, sources=(), flags=(), sanitize=True, libs=True, cc="gcc",
             timeout=900):
    """Compile harness/<driver> + sources from /repo's current working tree.

    Content-addressed under build/cc/<hash>/<name>; library objects are shared between
    drivers (build/cc/objs-<hash>/).  Returns (path or None, log)."""
    drv = os.path.join(VERIF, "harness", driver)
    hdrs = glob.glob(os.path.join(VERIF, "harness", "*.h"))
    key = repo_hash([drv] + sorted(hdrs))
    h = hashlib.sha256((key + name + repr(flags) + repr(sanitize) + cc +
                        repr([os.path.basename(s) for s in sources])).encode()).hexdigest()[:16]
    d = os.path.join(BUILD, "cc", h)
    exe = os.path.join(d, name)
    if os.path.exists(exe):
        os.utime(d)
        return exe, "cached"
    os.makedirs(d, exist_ok=True)
    cmd = [cc] + CFLAGS + (SAN if sanitize else []) + list(flags)
    srcs = list(sources)
    if len(sources) > 3:
        objs, log = _compile_objects(list(sources), cmd, repo_hash())
        if objs is None:
            shutil.rmtree(d, ignore_errors=True)
            return None, log
        srcs = objs
    rc, out = sh(cmd + ["-o", exe + ".tmp%d" % os.getpid(), drv] + srcs + (LIBS if libs else []), timeout=timeout)
    if rc != 0:
        shutil.rmtree(d, ignore_errors=True)
        return None, out[-4000:]
    os.replace(exe + ".tmp%d" % os.getpid(), exe)
    prune_cc_cache()
    return exe, out


def prune_cc_cache(keep=40):
    base = os.path.join(BUILD, "cc")
    ds = sorted(glob.glob(os.path.join(base, "*")), key=os.path.getmtime)
    for d in ds[:-keep]:
        shutil.rmtree(d, ignore_errors=True)


def run_impl(exe, args, timeout=1800, env=None):
    e = dict(os.environ)
    e["ASAN_OPTIONS"] = "detect_leaks=1:abort_on_error=0:exitcode=97"
    e["UBSAN_OPTIONS"] = "print_stacktrace=1:halt_on_error=1:exitcode=98"
    if env:
        e.update(env)
    try:
        p = subprocess.run([exe] + list(args), timeout=timeout, env=e,
                           stdout=subprocess.PIPE, stderr=subprocess.PIPE)
        return p.returncode, p.stdout.decode(errors="replace"), p.stderr.decode(errors="replace")
    except subprocess.TimeoutExpired as ex:
        return "timeout", (ex.stdout or b"").decode(errors="replace"), \
            (ex.stderr or b"").decode(errors="replace")


def run_impl_lines(exe, workdir, lines, pre_args=(), timeout=1800, env=None, per_case_timeout=None):
    """Run a line-per-case C driver over `lines`; survives crashes.

    The driver prints exactly one line per input line (stdout line-buffered).
    If it dies, the case it was working on gets the line 'CRASH <rc>' and the
    run resumes after it.  Returns (output lines, {index: (rc, stderr tail)})."""
    out_lines = []
    crashes = {}
    start = 0
    n = len(lines)
    guard = 0
    ntimeouts = 0
    # a violation is established by the first crash/hang: resume only a few times
    while start < n and guard < 8 and ntimeouts < 2:
        guard += 1
        cf = os.path.join(workdir, "impl-cases-%d.txt" % os.getpid())
        with open(cf, "w") as f:
            for l in lines[start:]:
                f.write(l + "\n")
        rc, out, err = run_impl(exe, list(pre_args) + [cf], timeout=timeout, env=env)
        got = out.split("\n")
        if got and got[-1] == "":
            got.pop()
        elif got:
            got.pop()           # partial last line
        got = got[:n - start]
        out_lines += got
        start += len(got)
        if start < n:
            if rc == "timeout":
                ntimeouts += 1
                timeout = min(timeout, 120)
            crashes[start] = (rc, err[-2500:])
            out_lines.append("CRASH %s" % rc)
            start += 1
        elif rc != 0:
            crashes[n - 1] = (rc, err[-2500:])      # e.g. leak report at exit
            break
    try:
        os.unlink(cf)
    except OSError:
        pass
    while len(out_lines) < n:
        out_lines.append("NOT-RUN")
    return out_lines, crashes


# ----------------------------------------------------------------------------
# Shrinking
# ----------------------------------------------------------------------------

def shrink_list(items, fails, max_tests=400, budget_s=240):
    """Delta debugging: smallest sublist (order kept) for which fails() holds
    (bounded by a number of tests and by wall time)."""
    items = list(items)
    tests = 0
    n = 2
    t_end = time.time() + budget_s
    while len(items) >= 2 and tests < max_tests and time.time() < t_end:
        chunk = max(1, len(items) // n)
        reduced = False
        for i in range(0, len(items), chunk):
            cand = items[:i] + items[i + chunk:]
            tests += 1
            if cand and fails(cand):
                items = cand
                n = max(n - 1, 2)
                reduced = True
                break
        if not reduced:
            if chunk == 1:
                break
            n = min(len(items), n * 2)
    return items


# ----------------------------------------------------------------------------
# A property run
# ----------------------------------------------------------------------------

class Run:
    def __init__(self, pid, argv):
        self.pid = pid
        self.t0 = time.time()
        self.tier = os.environ.get("VERIF_TIER", "quick")
        self.replay_path = None
        a = list(argv)
        while a:
            x = a.pop(0)
            if x == "--tier":
                self.tier = a.pop(0)
            elif x in ("quick", "thorough"):
                self.tier = x
            elif x == "--replay":
                self.replay_path = a.pop(0)
        if self.tier not in ("quick", "thorough"):
            self.tier = "quick"
        self.seed = int(os.environ.get("VERIF_SEED", "1"))
        self.rng = random.Random(self.seed * 1000003 + sum(map(ord, pid)))
        self.violations = []        # dict(kind, what, replay(dict), found_input(bool))
        self.known_printed = []
        self.cov = {"evaluations": 0, "samples": [], "histogram": {}, "engines": {}}
        self.coq = None
        self.assumptions = []
        self.trusted = []
        self.work = os.path.join(BUILD, "run", pid)
        os.makedirs(self.work, exist_ok=True)
        self.distinct = set()
        self.known = load_known(pid)

    # -- bookkeeping ---------------------------------------------------------
    def count(self, key, n=1):
        self.cov["histogram"][key] = self.cov["histogram"].get(key, 0) + n

    def sample(self, s, limit=6):
        if len(self.cov["samples"]) < limit:
            self.cov["samples"].append(s)

    def note_case(self, canon, nontrivial=True):
        self.cov["evaluations"] += 1
        if nontrivial:
            self.distinct.add(hashlib.md5(canon.encode()).digest()[:8])

    def casefile(self, name, lines):
        p = os.path.join(self.work, name)
        with open(p, "w") as f:
            for l in lines:
                f.write(l + "\n")
        return p

    # -- steps ---------------------------------------------------------------
    def check_coq(self):
        hits = forbidden_scan()
        self.coq = coq_property(self.pid, clean=False, chk=(self.tier == "thorough"))
        if hits:
            self.coq["ok"] = False
            self.coq["broken"] = ["forbidden keyword: " + h for h in hits]
        if not self.coq["ok"]:
            self.violation("proof", "Coq obligations of %s no longer check: %s"
                           % (self.pid, "; ".join(self.coq["broken"][:5])),
                           {"broken_theorems_or_files": self.coq["broken"],
                            "log_tail": self.coq["log"][-1500:]}, found_input=False)
        return self.coq["ok"]

    def need_ml(self):
        ok, log = build_ml_driver()
        if not ok:
            self.violation("tie", "model extraction / OCaml driver no longer builds",
                           {"log_tail": log[-1500:]}, found_input=False)
        return ok

    def need_cc(self, name, driver, **kw):
        exe, log = cc_build(name, driver, **kw)
        if exe is None:
            self.violation("tie", "C driver %s no longer compiles against /repo's working tree"
                           % driver, {"correspondence": name, "log_tail": log[-1500:]},
                           found_input=False)
        return exe

    def violation(self, kind, what, replay, found_input, signature=None):
        sig = signature or what
        for k in self.known:
            if k.get("status", "open") == "open" and re.search(k["match"], sig):
                if k["id"] not in self.known_printed:
                    self.known_printed.append(k["id"])
                    print("KNOWN-FINDING: property=%s %s" % (self.pid, k["what"]))
                return
        self.violations.append({"kind": kind, "what": what, "replay": replay,
                                "found_input": found_input, "signature": sig})

    def finish(self, level_extra=None, explanation=""):
        os.makedirs(EVID, exist_ok=True)
        coq = self.coq or {"theorems": [], "axioms": {}, "ok": False, "checker_cmd": "", "broken": []}
        nthm = len(coq["theorems"])
        disch = nthm if coq["ok"] else max(0, nthm - max(1, len(coq["broken"])))
        axioms = sorted({a for l in coq["axioms"].values() for a in l})
        tb = ["Coq 8.16.1 kernel (coqc; vm_compute used in Examples; no native_compute)"]
        tb.append("axioms reported by Print Assumptions: " + (", ".join(axioms) if axioms else "none (closed under the global context)"))
        tb += ["extraction: ExtrOcamlBasic only (bool, option, unit, list, prod, sumbool, comparison mapped "
               "to OCaml; N/Z/positive/nat stay extracted inductives), OCaml 4.13.1, ml/*.ml (parsing/printing)",
               "correspondence check: harness/*.c compiled from /repo's working tree with ASan+UBSan, "
               "lib/kdv generators and comparison (differential testing; bounds, does not eliminate, the model/code gap)"]
        tb += self.trusted
        cov = dict(self.cov)
        cov.update({
            "obligations": max(nthm, 1), "discharged": max(disch, 0) if nthm else 0,
            "checker_cmd": coq["checker_cmd"], "trusted_base": tb,
            "theorems": coq["theorems"], "axioms_per_theorem": coq["axioms"],
            "distinct_nontrivial": len(self.distinct),
            "rule": cov.get("rule", "distinct canonical case strings; non-trivial = reaches a non-default branch"),
            "explanation": explanation,
        })
        if level_extra:
            cov.update(level_extra)
        if not cov["samples"]:
            cov["samples"] = ["(no cases run)"]
        ev = {"property_id": self.pid, "tier": self.tier, "seed": self.seed, "level": "proof",
              "coverage": cov, "assumptions": self.assumptions,
              "wall_s": round(time.time() - self.t0, 2),
              "violations": len(self.violations),
              "known_findings_reported": self.known_printed}
        # a --replay run re-runs one stored case: its evidence goes beside the build, not over the
        # evidence of the last full run
        evdir = EVID if not self.replay_path else os.path.join(BUILD, "evidence-replay")
        os.makedirs(evdir, exist_ok=True)
        with open(os.path.join(evdir, self.pid + ".json"), "w") as f:
            json.dump(ev, f, indent=1, sort_keys=True, default=str)
        # every listed (open) finding of this property is reported on every run, met or not
        for k in self.known:
            if k.get("status", "open") == "open" and k["id"] not in self.known_printed:
                print("KNOWN-FINDING: property=%s %s (listed in known_findings.json; not met by the cases of this run)"
                      % (self.pid, k["what"]))
        if not self.violations:
            print("OK property=%s tier=%s seed=%d theorems=%d/%d cases=%d distinct=%d wall=%.1fs"
                  % (self.pid, self.tier, self.seed, disch, nthm, cov["evaluations"],
                     len(self.distinct), time.time() - self.t0))
            return 0
        os.makedirs(REPLAY, exist_ok=True)
        # prefer a violation with a concrete input
        vs = sorted(self.violations, key=lambda v: not v["found_input"])
        v = vs[0]
        path = os.path.join(REPLAY, "%s-seed%d-%s.json" % (self.pid, self.seed, self.tier))
        with open(path, "w") as f:
            json.dump({"property": self.pid, "seed": self.seed, "tier": self.tier,
                       "kind": v["kind"], "what": v["what"], "replay": v["replay"],
                       "failing_input_found": v["found_input"],
                       "other_violations": [x["what"] for x in vs[1:8]]}, f, indent=1, default=str)
        for x in vs[:8]:
            print("  violation (%s): %s" % (x["kind"], x["what"]))
        print("VIOLATION property=%s replay=%s%s" % (self.pid, path,
              "" if v["found_input"] else " no-failing-input-found"))
        return 1


def load_known(pid):
    p = os.path.join(VERIF, "known_findings.json")
    if not os.path.exists(p):
        return []
    try:
        data = json.load(open(p))
    except ValueError:
        return []
    return [k for k in data.get("findings", []) if k.get("property") == pid]


def diff_lines(a, b):
    """Indices where two line lists differ (including length mismatch)."""
    n = max(len(a), len(b))
    return [i for i in range(n) if (a[i] if i < len(a) else None) != (b[i] if i < len(b) else None)]
