"""C07, end to end (engine "pmap", harness/pmap_drv.c, public API only).

Dumps with chosen exclusion bitmaps / segment layouts / split windows are written with the
suite's own tools (mkdiskdump, mksadump, mkelf).  For every dump the page maps
(file.pagemap, memory.pagemap: get_bits, find_set, find_clear) are queried around every edge
of the ground truth, beyond the highest frame and at the ends of the 64-bit range, every
page near an edge is read with zero-fill off, and the page-map queries are repeated after the
reads.  The implementation is judged against the generator's own ground truth (which frames
it stored / listed as RAM) by the extracted spec (engine "pmap-spec"); for the formats that
have a model (diskdump bitmap geometry, ELF segment bitmaps) the answers are also compared
with the extracted model (engine "pmap")."""
import os
import struct
import subprocess

from . import core

M64 = (1 << 64) - 1

UTS = ("uts.sysname = Linux\nuts.nodename = n\nuts.release = 3.4.5\nuts.version = #1\n"
       "uts.machine = %s\nuts.domainname = (none)\n")


def tools_dir():
    t = os.environ.get("VERIF_TOOLS")
    if t:
        return t
    d = os.path.join(core.REPO, "tests")
    return d if os.path.exists(os.path.join(d, "mkdiskdump")) else "/repo/tests"


def tool(name, outfile, config):
    p = subprocess.run([os.path.join(tools_dir(), name), outfile], input=config,
                       stdout=subprocess.PIPE, stderr=subprocess.STDOUT, universal_newlines=True, timeout=120)
    if p.returncode != 0:
        raise RuntimeError("%s failed: %s" % (name, p.stdout[-500:]))


def runs_of(pfns):
    out = []
    for p in sorted(set(pfns)):
        if out and out[-1][1] == p:
            out[-1][1] = p + 1
        else:
            out.append([p, p + 1])
    return out


def runs_str(runs):
    return ",".join("%x-%x" % (a, b) for a, b in runs) or "-"


def rle(data):
    out = []
    i = 0
    n = len(data)
    while i < n:
        j = i
        while j < n and data[j] == data[i]:
            j += 1
        out.append("%02x*%x" % (data[i], j - i))
        i = j
    return ",".join(out) or "-"


def pick_pages(rng, limit, hot):
    """Listed frames below `limit`: runs near the hot spots and a few random ones."""
    pages = set()
    for h in hot:
        if rng.random() < 0.8:
            start = h + rng.randint(-12, 4)
            for p in range(start, start + rng.choice([1, 2, 3, 5, 9])):
                if 0 <= p < limit:
                    pages.add(p)
    for _ in range(rng.randint(0, 3)):
        start = rng.randrange(limit)
        for p in range(start, start + rng.choice([1, 1, 2, 4, 8, 17])):
            if p < limit:
                pages.add(p)
    if not pages:
        pages.add(rng.randrange(limit))
    return sorted(pages)


def make_ops(rng, stored, ram, limit, readable_limit, nmax=110):
    """Queries around every edge of the truth, at the limit, and far beyond."""
    edges = set([0, limit - 1, limit, limit + 1])
    for a, b in stored + ram:
        edges.update([a - 1, a, a + 1, b - 1, b, b + 1])
    edges = sorted(e for e in edges if 0 <= e <= M64)
    far = [limit + 7, limit + 64, 2 * limit, 2 * limit + 1, (1 << 32) + 5, (1 << 52) - 1, 1 << 52, (1 << 52) + 9,
           1 << 63, M64 - 40, M64 - 1, M64]
    ops = []
    pts = list(edges)
    rng.shuffle(pts)
    for e in pts[:26]:
        which = rng.choice("FFM")
        ops.append("%ss:%x" % (which, e))
        ops.append("%sc:%x" % (which, e))
    for e in rng.sample(far, 5):
        which = rng.choice("FM")
        ops.append("%ss:%x" % (which, e))
        ops.append("%sc:%x" % (which, e))
    for e in pts[:16]:
        which = rng.choice("FFM")
        f = max(0, e - rng.choice([0, 1, 3, 7, 8, 9, 20]))
        l = min(M64, f + rng.choice([0, 1, 6, 7, 8, 15, 16, 17, 31, 40, 63, 64, 70]))
        ops.append("%sg:%x:%x:%x" % (which, f, l, rng.choice([0, 0xff, 0xa5])))
    for e in rng.sample(far, 3):
        l = min(M64, e + rng.choice([0, 7, 30]))
        ops.append("%sg:%x:%x:%x" % (rng.choice("FM"), e, l, rng.choice([0, 0xff])))
    rd = [e for e in pts if e < readable_limit][:22] + [limit, limit + 1]
    for e in rd:
        if e < readable_limit:
            ops.append("R:%x" % e)
    rng.shuffle(ops)
    return ops[:nmax]


# -- diskdump -----------------------------------------------------------------

def gen_diskdump(rng, d, tag):
    bs, arch = rng.choice([(4096, "x86_64"), (4096, "x86_64"), (4096, "s390x"), (65536, "ppc64"), (4096, "ppc64")])
    h = rng.choice([1, 1, 1, 2]) if bs == 4096 else 1
    cap1 = h * bs * 8
    k = rng.random()
    explicit = False
    if k < 0.30:
        maxm = cap1                          # the bitmaps are exactly full
    elif k < 0.45:
        maxm = cap1 - 1
    elif k < 0.60:
        maxm = cap1 + 1                      # needs one more block per bitmap
    elif k < 0.75:
        maxm = cap1 - rng.randint(2, 300)
    elif k < 0.85:
        maxm = rng.choice([0x100, 0x40, 0x1234])
        explicit = rng.random() < 0.5        # larger bitmaps than necessary
    else:
        maxm = rng.randint(1, cap1)
    hot = [0, maxm, cap1 // 2, bs * 8 if h == 2 else maxm // 2]
    pages = pick_pages(rng, maxm, hot)[:60]
    kinds = {p: ("exclude" if rng.random() < 0.3 else rng.choice(["raw", "raw", "zlib"])) for p in pages}
    data = []
    for p in pages:
        if kinds[p] == "exclude":
            data.append("@0x%x exclude" % (p * bs))
        else:
            data.append("@0x%x %s" % (p * bs, kinds[p]))
            data.append("%02x*%d" % ((p & 0x7f) + 1, bs))
    dpath = os.path.join(d, tag + ".data")
    with open(dpath, "w") as f:
        f.write("\n".join(data) + "\n")
    version = rng.choice([3, 5, 6, 6])
    sub = 1
    base = ("version = %d\narch_name = %s\nblock_size = %d\nphys_base = 0\nmax_mapnr = 0x%x\n"
            "sub_hdr_size = %d\n%snr_cpus = 1\nDATA = %s\n" % (version, arch, bs, maxm, sub, UTS % arch, dpath))
    if explicit:
        base += "bitmap_blocks = %d\n" % (2 * h)
    stored = runs_of([p for p in pages if kinds[p] != "exclude"])
    ram = runs_of(pages)
    paths = []
    windows = []
    nfiles = 1 if rng.random() < 0.65 or maxm < 4 else rng.choice([2, 3])
    if nfiles == 1:
        path = os.path.join(d, tag)
        tool("mkdiskdump", path, base)
        paths.append(path)
        windows.append((0, M64))
    else:
        cuts = sorted(rng.sample(range(1, maxm), nfiles - 1))
        if stored and rng.random() < 0.6:
            # cut inside / at the end of a run of stored pages: runs cross file boundaries
            a, b = rng.choice(stored)
            c = rng.choice([b, a, (a + b) // 2])
            if 0 < c < maxm:
                cuts[rng.randrange(len(cuts))] = c
                cuts = sorted(set(cuts))
        bounds = [0] + cuts + [maxm]
        # empty members [c, c) (a split into more files than there are pages to share out):
        # at the top, in the middle, at a cut; they tie on end_pfn with their lower neighbour
        if rng.random() < 0.5:
            for _ in range(rng.randint(1, 2)):
                c = rng.choice(bounds[1:])
                bounds.insert(bounds.index(c), c)
        for i in range(len(bounds) - 1):
            path = os.path.join(d, "%s.%d" % (tag, i))
            tool("mkdiskdump", path, base + "split = 1\nstart_pfn = %d\nend_pfn = %d\n" % (bounds[i], bounds[i + 1]))
            paths.append(path)
            windows.append((bounds[i], bounds[i + 1]))
        order = list(range(len(paths)))
        rng.shuffle(order)
        paths = [paths[i] for i in order]
        windows = [windows[i] for i in order]
    # the bitmap area as the file has it (model input)
    raw = open(paths[0], "rb").read()
    bblocks = 2 * h if explicit else 2 * ((((maxm + 7) // 8) + bs - 1) // bs)
    area = raw[(1 + sub) * bs:(1 + sub + bblocks) * bs]
    model = "d %x:%x:%x:%s A=%s" % (bs, bblocks, maxm, ",".join("%x-%x" % w for w in windows), rle(area))
    ops = make_ops(rng, stored, ram, maxm, 1 << 40)
    return "E %s T %s;%s @ %s | %s" % (model, runs_str(stored), runs_str(ram), ",".join(paths), " ".join(ops))


# -- SADUMP -------------------------------------------------------------------

from .c11_e2e import SADUMP_CPU      # register block the SADUMP writer wants


def gen_sadump(rng, d, tag):
    """single partition, media backup, or a 2-4 disk set whose files are passed in a random
    order (disk #1, which holds the headers and both bitmaps, is often not first)."""
    bs = 4096
    k = rng.random()
    cap1 = bs * 8
    maxm = cap1 if k < 0.15 else cap1 - 1 if k < 0.22 else cap1 + 1 if k < 0.3 else rng.choice([16, 24, 40, 64, 100, 300])
    pages = pick_pages(rng, maxm, [0, maxm, 8, 32])[:50]
    kinds = {p: ("exclude" if rng.random() < 0.3 else "dump") for p in pages}
    data = []
    for p in pages:
        if kinds[p] == "dump":
            data.append("@0x%x" % (p * bs))
            data.append("%02x*%d" % ((p & 0x7f) + 1, bs))
        else:
            data.append("@0x%x exclude" % (p * bs))
    data.append(SADUMP_CPU)
    stored_p = [p for p in pages if kinds[p] == "dump"]
    stored = runs_of(stored_p)
    ram = runs_of(pages)
    base = ("block_size = %d\nmax_mapnr = 0x%x\nnr_cpus = 1\ntimestamp = 2024-02-03 04:05:06\n"
            "system_id = 00112233-4455-6677-8899-aabbccddeeff\ndisk_set_id = 0f1e2d3c-4b5a-6978-8796-a5b4c3d2e1f0\n"
            % (bs, maxm))
    kind = rng.choice(["single", "single", "media", "set", "set", "set"])
    if kind == "set" and len(stored_p) < 2:
        kind = "single"
    dpath = os.path.join(d, tag + ".data")
    if kind != "set":
        with open(dpath, "w") as f:
            f.write("\n".join(data) + "\n")
        path = os.path.join(d, tag)
        tool("mksadump", path, base + "DATA = %s\ntype = %s\n" % (dpath, kind))
        paths, nums = [path], [1]
    else:
        ndisk = rng.randint(2, min(4, len(stored_p)))
        # inclusive PFN windows: cut so that every disk holds at least one stored page
        cutidx = sorted(rng.sample(range(1, len(stored_p)), ndisk - 1))
        bounds = [0] + [stored_p[i] if rng.random() < 0.5 else rng.randint(stored_p[i - 1] + 1, stored_p[i])
                        for i in cutidx] + [maxm]
        wins = [(bounds[i], bounds[i + 1] - 1) for i in range(ndisk)]
        salt = rng.randrange(1, 0x0fffffff)
        vols = ["%08x-%04x-%04x-%04x-%012x" % (0xa0000000 + salt, i + 1, 0x4001 + i, 0x8000 + salt % 0x1000,
                                               0x112233440000 + 257 * (i + 1) + salt) for i in range(ndisk)]
        tb = ["@volume"]
        for v in vols:
            hx = v.replace("-", "")
            tb.append(" ".join(hx[i:i + 2] for i in range(0, 32, 2)) + " 00*16")
        with open(dpath, "w") as f:
            f.write("\n".join(data) + "\n" + "\n".join(tb) + "\n")
        members = []
        for i, (first, last) in enumerate(wins):
            path = os.path.join(d, "%s.%d" % (tag, i + 1))
            tool("mksadump", path, base + "DATA = %s\ntype = diskset\ndisk_num = %d\nset_disk_set = %d\n"
                 "volume_id = %s\nfirst_pfn = %d\nlast_pfn = %d\n" % (dpath, ndisk, i + 1, vols[i], first, last))
            members.append(path)
        order = list(range(ndisk))
        rng.shuffle(order)
        if rng.random() < 0.6 and order[0] == 0:            # disk #1 not first, most of the time
            j = rng.randrange(1, ndisk)
            order[0], order[j] = order[j], order[0]
        paths = [members[i] for i in order]
        nums = [i + 1 for i in order]
    # model input: header fields of disk #1 and, of every file in the order given, the bytes
    # where disk #1 keeps its bitmaps (the header part is not needed: zeroes)
    d1 = open(paths[nums.index(1)], "rb").read()
    hdr_pos = next(o for o in range(bs if kind == "single" else 2 * bs, len(d1), bs)
                   if d1[o:o + 8] == b"sadump\0\0")
    sub, bb, db = struct.unpack("<III", d1[hdr_pos + 48:hdr_pos + 60])
    mem_off = hdr_pos + bs * (1 + sub)
    areas = []
    for pth in paths:
        raw = open(pth, "rb").read()
        a = raw[mem_off:mem_off + bs * (bb + db)]
        a += bytes(bs * (bb + db) - len(a))
        areas.append("00*%x,%s" % (mem_off, rle(a)))
    model = "s %x:%x:%x:%x:%x:%x N=%s A=%s" % (bs, sub, bb, db, maxm, hdr_pos,
                                               ".".join("%x" % n for n in nums), ";".join(areas))
    ops = make_ops(rng, stored, ram, maxm, 1 << 40)
    # memory.pagemap is built at its first query: first, last, or through a clone
    mops = [o for o in ops if o[0] == "M"]
    if mops:
        r = rng.random()
        rest = [o for o in ops if o[0] != "M"]
        if r < 0.3:
            ops = mops + rest
        elif r < 0.6:
            ops = rest + mops
        elif r < 0.8:
            ops = ["C" + mops[0]] + rest + mops[1:]
        ops += ["C" + o for o in rng.sample(ops, min(4, len(ops))) if o[0] in "FM"]
    return "E %s T %s;%s @ %s | %s" % (model, runs_str(stored), runs_str(ram), ",".join(paths), " ".join(ops))


# -- ELF ----------------------------------------------------------------------

def gen_elf(rng, d, tag):
    npfn = rng.choice([8, 16, 40, 100])
    segs = []
    data = []
    pfn = rng.choice([0, 0, 1, 3])
    off = 0x1000
    stored = []
    ram = []
    while pfn < npfn and len(segs) < 6:
        n = rng.randint(1, 5)
        filepages = rng.choice([n, n, n, rng.randint(0, n)])      # memsz > filesz sometimes
        data.append("@phdr type=LOAD offset=0x%x vaddr=0x%x paddr=0x%x memsz=0x%x"
                    % (off, 0xffff880000000000 + pfn * 4096, pfn * 4096, n * 4096))
        for i in range(filepages):
            data.append("%02x*4096" % (((pfn + i) & 0x7f) + 1))
        off += filepages * 4096
        segs.append((pfn * 4096, filepages * 4096, n * 4096))
        stored += list(range(pfn, pfn + filepages))
        ram += list(range(pfn, pfn + n))
        pfn += n + rng.choice([0, 0, 1, 2, 7])                    # adjacent segments and gaps
    dpath = os.path.join(d, tag + ".data")
    with open(dpath, "w") as f:
        f.write("\n".join(data) + "\n")
    path = os.path.join(d, tag)
    tool("mkelf", path, "ei_class = 2\nei_data = 1\ne_machine = 62\ne_phoff = 64\nDATA = %s\n" % dpath)
    stored = runs_of(stored)
    ram = runs_of(ram)
    limit = max([b for a, b in ram] + [1])
    ops = make_ops(rng, stored, ram, limit, 1 << 40)
    model = "e c:%s" % ",".join("%x:%x:%x" % s for s in segs)
    return "E %s T %s;%s @ %s | %s" % (model, runs_str(stored), runs_str(ram), path, " ".join(ops))


def gen_case(rng, d, i, fmt=None):
    k = rng.random() if fmt is None else {"d": 0.0, "s": 0.6, "e": 0.9}[fmt]
    tag = "c%d" % i
    if k < 0.5:
        return gen_diskdump(rng, d, tag)
    if k < 0.78:
        return gen_sadump(rng, d, tag)
    return gen_elf(rng, d, tag)
