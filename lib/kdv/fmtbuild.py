"""Helper of the C01 check: library sources under unique basenames.

core.cc_build names objects after the basename of each source, and
src/kdumpfile and src/addrxlat both have x86_64.c, s390x.c, ... - so the whole
library cannot be passed as-is.  Symlinks with a directory prefix solve that
(relative #include's of the sources are all found through core.CFLAGS' -I)."""
import os
from . import core


def unique_lib_sources(exclude=()):
    d = os.path.join(core.BUILD, "fmtsrc", core.repo_hash()[:12])
    os.makedirs(d, exist_ok=True)
    out = []
    for p in core.lib_sources(exclude=exclude):
        name = os.path.basename(os.path.dirname(p)) + "_" + os.path.basename(p)
        l = os.path.join(d, name)
        if not os.path.islink(l):
            try:
                os.symlink(p, l)
            except FileExistsError:
                pass
        out.append(l)
    return out
