"""C11, end to end (engine "flat-e2e", harness/flat_e2e.c, public API only).

Plain diskdump / ELF dumps are written with the suite's own mkdiskdump / mkelf; each is
re-packaged (a) into flattened form by lib/kdv/flatten.py with random record sizes, order,
stale rewrites and holes, (b) for diskdump, into a split set of 1-4 files whose windows
partition [0, max_mapnr), each member plain or flattened, passed in every order.  All variants
are opened with kdump_open_fdset and dumped through the API (attribute tree, page maps, every
page frame, cross-page reads); every variant's dump must equal the plain twin's, except for
the attributes that name the packaging (DESIGN section 8, reading (i))."""
import itertools
import os
import random
import shutil
import subprocess

from . import core
from . import flatten as fl

TOOLS = os.environ.get("VERIF_TOOLS", "/repo/tests")

# attributes that describe the packaging itself or are cache statistics
EXCLUDED = ("file.set.", "file.description", "cache.", "file.mmap_cache.", "file.read_cache.",
            "file.mmap_policy")

SADUMP_CPU = """@cpu 0
0000000000000000*58
"gdth" "ldth" "idth"
00000000*3
"io_eip  "
0000000000000000*10
"cr4 "
00000000*18
"gdtl" "gdtx"
"idtl" "idtx"
"ldtl" "ldtx"
"ldti"
0000000000000000*6
"eptp    "
"eptp"
00000000*5
"smbs"
"smid"
"io"
"hl"
00000000*6
"r15     " "r14     " "r13     " "r12     "
"r11     " "r10     " "r9      " "r8      "
"rax     " "rcx     " "rdx     " "rbx     "
"rsp     " "rbp     " "rsi     " "rdi     "
"io_mem_a"
"io_m"
"es  " "cs  " "ss  " "ds  " "fs  " "gs  "
"ldtr"
"tr  "
"dr7     " "dr6     "
"rip     "
0000000000000d01
0000000000000046
"cr3     "
0000000080050033"""

UTS = """uts.sysname = Linux
uts.nodename = test-node
uts.release = 3.4.5-test
uts.version = #1 SMP Fri Jan 22 14:02:42 UTC 2016 (1234567)
uts.machine = %s
uts.domainname = (none)
"""


def tool(name, outfile, config, cwd):
    p = subprocess.run([os.path.join(TOOLS, name), outfile], input=config, cwd=cwd,
                       stdout=subprocess.PIPE, stderr=subprocess.STDOUT, universal_newlines=True,
                       timeout=120)
    if p.returncode != 0:
        raise RuntimeError("%s failed: %s" % (name, p.stdout[-500:]))


def page_text(rng, size):
    k = rng.random()
    if k < 0.15:
        return "00*%d" % size
    if k < 0.5:
        return "%02x*%d" % (rng.randrange(1, 256), size)
    a = rng.randrange(1, size // 8) * 4
    return "%08x*%d\n%02x*%d" % (rng.getrandbits(32), a // 4, rng.randrange(256), size - a)


class Scenario:
    """One plain dump and the recipe for its twins; everything derives from `seed`."""

    def __init__(self, seed, work, fmt=None):
        self.seed = seed
        self.rng = random.Random(seed)
        self.dir = os.path.join(work, "s%d" % seed)
        shutil.rmtree(self.dir, ignore_errors=True)
        os.makedirs(self.dir)
        self.variants = []          # (name, [paths], description)
        self.ref = {}               # variant index -> index of the variant it must equal (default 0)
        self.hdrs = {}              # variant index -> SADUMP headers in the order passed (model input)
        self.pagesize = 4096
        k = self.rng.random() if fmt is None else {"diskdump": 0.0, "elf": 0.6, "sadump": 0.9}[fmt]
        if k < 0.5:
            self.make_diskdump()
        elif k < 0.7:
            self.make_elf()
        else:
            self.make_sadump()

    def path(self, name):
        return os.path.join(self.dir, name)

    # -- diskdump ------------------------------------------------------------
    def make_diskdump(self):
        rng = self.rng
        self.fmt = "diskdump"
        arch = rng.choice(["x86_64", "x86_64", "ia32", "ppc64", "s390x"])
        version = rng.choice([2, 4, 5, 6, 6])
        self.npfn = rng.choice([8, 16, 40, 100, 200])
        pfns = sorted(rng.sample(range(self.npfn), rng.randint(1, min(self.npfn, 14))))
        meths = ["raw", "zlib", "snappy", "zstd", "", "exclude"]
        data = []
        for pfn in pfns:
            data.append("@0x%x %s" % (pfn * 4096, rng.choice(meths)))
            data.append(page_text(rng, 4096))
        with open(self.path("data"), "w") as f:
            f.write("\n".join(data) + "\n")
        self.base = ("version = %d\narch_name = %s\nblock_size = 4096\nphys_base = 0\n"
                     "max_mapnr = 0x%x\nsub_hdr_size = 1\n%snr_cpus = 1\ncompression = %d\n"
                     "DATA = %s\n" % (version, arch, self.npfn, UTS % arch,
                                      rng.choice([0, 0, 1, 3, 4]), self.path("data")))
        tool("mkdiskdump", self.path("plain"), self.base, self.dir)
        self.variants.append(("plain", [self.path("plain")], "plain single file"))
        self.flat_twins("plain")
        # the same dump written flattened by the suite's own writer
        tool("mkdiskdump", self.path("mkflat"), self.base + "flattened = yes\n", self.dir)
        self.variants.append(("mkflat", [self.path("mkflat")], "mkdiskdump flattened = yes"))
        # split sets: windows partition [0, npfn) (non-empty, disjoint), every window holds
        # at least one dumped page
        present = [p for p, l in zip(pfns, data[0::2]) if not l.endswith("exclude")]
        nfiles = rng.randint(1, 4)
        cuts = self.cut_windows(present, nfiles)
        if cuts:
            members = []
            for i, (s, e) in enumerate(cuts):
                name = "split%d" % i
                tool("mkdiskdump", self.path(name),
                     self.base + "split = 1\nstart_pfn = %d\nend_pfn = %d\n" % (s, e), self.dir)
                if rng.random() < 0.5:
                    recs = self.segmentation(open(self.path(name), "rb").read())
                    with open(self.path(name + "f"), "wb") as f:
                        f.write(fl.flatten(recs))
                    name += "f"
                members.append(name)
            for perm in itertools.permutations(range(len(members))):
                self.variants.append(("split-" + "".join(map(str, perm)),
                                      [self.path(members[i]) for i in perm],
                                      "split windows %s members %s order %s" % (cuts, members, perm)))

    def cut_windows(self, present, nfiles):
        rng = self.rng
        if not present:
            return None
        nfiles = min(nfiles, len(present))
        # choose nfiles-1 cut points so that each window contains a present page
        idx = sorted(rng.sample(range(1, len(present)), nfiles - 1)) if nfiles > 1 else []
        bounds = [0]
        for i in idx:
            lo, hi = present[i - 1] + 1, present[i]
            bounds.append(rng.randint(lo, hi))
        bounds.append(self.npfn)
        return [(bounds[i], bounds[i + 1]) for i in range(nfiles)]

    # -- SADUMP ---------------------------------------------------------------
    def make_sadump(self):
        """A single-partition SADUMP file and 2-, 3- and 4-disk sets of the same image
        (same system id, disk set id and time stamp; disk k holds the dumped pages of its
        inclusive PFN window, disk 1 also the headers and bitmaps).  Windows are cut where
        runs of dumped pages start, end, and in the middle of runs."""
        rng = self.rng
        self.fmt = "sadump"
        self.npfn = rng.choice([16, 24, 40, 64])
        # runs of dumped pages separated by excluded / absent frames
        kinds = []
        pfn = 0
        runs = []
        while pfn < self.npfn:
            gap = rng.choice([0, 1, 1, 2, 3]) if pfn else rng.choice([0, 0, 1])
            for _ in range(min(gap, self.npfn - pfn)):
                kinds.append(rng.choice(["exclude", None]))
            pfn = len(kinds)
            n = min(rng.choice([1, 1, 2, 3, 4, 6, 9]), self.npfn - pfn)
            if n <= 0:
                break
            runs.append((pfn, pfn + n))
            kinds += ["dump"] * n
            pfn = len(kinds)
            if len(runs) >= 8 and rng.random() < 0.5:
                break
        data = []
        for pfn, kd in enumerate(kinds):
            if kd == "dump":
                data.append("@0x%x" % (pfn * 4096))
                data.append(page_text(rng, 4096))
            elif kd == "exclude":
                data.append("@0x%x exclude" % (pfn * 4096))
        data.append(SADUMP_CPU)
        with open(self.path("data"), "w") as f:
            f.write("\n".join(data) + "\n")
        self.base = ("block_size = 4096\nmax_mapnr = 0x%x\nnr_cpus = 1\n"
                     "timestamp = 2024-02-03 04:05:%02d\n"
                     "system_id = 00112233-4455-6677-8899-aabbccddee%02x\n"
                     "disk_set_id = 0f1e2d3c-4b5a-6978-8796-a5b4c3d2e1%02x\n"
                     "DATA = %s\n" % (self.npfn, rng.randrange(60), rng.randrange(256),
                                      rng.randrange(256), self.path("data")))
        tool("mksadump", self.path("plain"), self.base + "type = single\n", self.dir)
        self.variants.append(("plain", [self.path("plain")], "single partition"))
        # interesting places to start a disk: first page of a run, the frame after a run,
        # inside a run
        starts = [a for a, b in runs if a > 0]
        ends = [b for a, b in runs if b < self.npfn]
        mids = [rng.randrange(a + 1, b) for a, b in runs if b - a >= 2]
        common = open(self.path("data")).read()

        def guid(k, salt):
            return "%08x-%04x-%04x-%04x-%012x" % (0xa0000000 + salt, k, 0x4000 + k, 0x8000 + salt % 0x1000,
                                                  0x112233440000 + 257 * k + salt)

        ids = {}

        def idn(x):
            return ids.setdefault(x, len(ids) + 1)

        stamp, sysid, setid = [l.split("=", 1)[1].strip() for l in self.base.split("\n")
                               if l.startswith(("timestamp", "system_id", "disk_set_id"))]

        def build_set(tag, nums, wins, vols, table, disk_num, over=None):
            """one disk set: every disk has its own volume id, disk #1 carries the table;
            `over` = {member index: {parameter: value}} makes one header disagree.
            -> (member file names, model headers)"""
            over = over or {}
            tb = ["@volume"]
            for v in table:
                hx = v.replace("-", "")
                tb.append(" ".join(hx[i:i + 2] for i in range(0, 32, 2)) + " 00*16")
            with open(self.path("data." + tag), "w") as f:
                f.write(common + "\n".join(tb) + "\n")
            members, hdrs = [], []
            for i, (first, last) in enumerate(wins):
                par = {"timestamp": stamp, "system_id": sysid, "disk_set_id": setid}
                par.update(over.get(i, {}))
                cfg = "\n".join(l for l in self.base.split("\n")
                                if not l.startswith(("timestamp", "system_id", "disk_set_id", "DATA")))
                cfg += ("timestamp = %s\nsystem_id = %s\ndisk_set_id = %s\nDATA = %s\n"
                        % (par["timestamp"], par["system_id"], par["disk_set_id"], self.path("data." + tag)))
                name = "%s.%d" % (tag, i + 1)
                tool("mksadump", self.path(name),
                     cfg + "type = diskset\ndisk_num = %d\nset_disk_set = %d\nvolume_id = %s\n"
                     "first_pfn = %d\nlast_pfn = %d\n" % (disk_num, nums[i], vols[i], first, last), self.dir)
                members.append(name)
                hdrs.append("%x:%x:%x:%x:%x:%x:%s" % (
                    nums[i], idn(vols[i]), disk_num if nums[i] == 1 else 0, idn(par["system_id"]),
                    idn(par["disk_set_id"]), idn(par["timestamp"]),
                    ".".join("%x" % idn(v) for v in table) if nums[i] == 1 else ""))
            return members, hdrs

        def orders(ndisk):
            perms = list(itertools.permutations(range(ndisk)))
            if ndisk == 4:
                rot = [tuple((i + r) % 4 for i in range(4)) for r in range(4)]
                perms = rot + [(3, 2, 1, 0)] + rng.sample([q for q in perms if q not in rot], 5)
            return perms

        last_good = None
        for ndisk in (2, 3, 4):
            pool = []
            for lst in (starts, ends, mids):
                if lst:
                    pool.append(rng.choice(lst))
            pool += starts + ends + mids + list(range(1, self.npfn))
            if rng.random() < 0.4:
                pool.insert(0, rng.choice([1, 2]))          # a small first disk
            cuts = []
            for c in pool:
                if c not in cuts and 0 < c < self.npfn:
                    cuts.append(c)
                if len(cuts) == ndisk - 1:
                    break
            if len(cuts) < ndisk - 1:
                continue
            cuts = sorted(cuts)
            bounds = [0] + cuts + [self.npfn]
            wins = [(bounds[i], bounds[i + 1] - 1) for i in range(ndisk)]
            salt = rng.randrange(1, 0x0fffffff)
            vols = [guid(i + 1, salt) for i in range(ndisk)]        # distinct, as real disks have
            nums = list(range(1, ndisk + 1))
            members, hdrs = build_set("set%d" % ndisk, nums, wins, vols, vols, ndisk)
            last_good = (ndisk, wins, vols)
            for perm in orders(ndisk):
                self.hdrs[len(self.variants)] = [hdrs[i] for i in perm]
                self.variants.append(("diskset%d-%s" % (ndisk, "".join(str(i + 1) for i in perm)),
                                      [self.path(members[i]) for i in perm],
                                      "%d-disk set, inclusive PFN windows %s (runs of dumped pages %s), "
                                      "distinct volume ids, disks passed in order %s"
                                      % (ndisk, wins, runs, [i + 1 for i in perm])))
        # an inconsistent set: one header disagrees with the rest -> must be refused, with the
        # status the model predicts, in every order
        KINDS = ["volume id", "table entry", "time stamp", "system id", "disk set id", "disk_num",
                 "duplicate disk number", "disk number beyond the number of files"]
        if last_good:
            ndisk, wins, vols = last_good
            for kn, kind in enumerate(KINDS):
                nums = list(range(1, ndisk + 1))
                pvols, table, disk_num, over = list(vols), list(vols), ndisk, {}
                k = rng.randrange(1, ndisk)
                j = rng.randrange(ndisk)
                what = kind
                if kind == "volume id":
                    pvols[k] = guid(k + 1, 0x0bad0000 + rng.randrange(0xffff))
                    what = "volume id of disk #%d not in the table of disk #1" % (k + 1)
                elif kind == "table entry":
                    table[k] = guid(k + 1, 0x0bad0000 + rng.randrange(0xffff))
                    what = "table entry %d of disk #1 differs from the volume id of disk #%d" % (k + 1, k + 1)
                elif kind == "time stamp":
                    over[j] = {"timestamp": "2023-01-02 03:04:05"}
                    what = "time stamp of disk #%d" % (j + 1)
                elif kind == "system id":
                    over[j] = {"system_id": "ffeeddcc-bbaa-9988-7766-554433221100"}
                    what = "system id of disk #%d" % (j + 1)
                elif kind == "disk set id":
                    over[j] = {"disk_set_id": "01010101-0202-0303-0404-050505050505"}
                    what = "disk set id of disk #%d" % (j + 1)
                elif kind == "disk_num":
                    disk_num = ndisk + rng.choice([1, -1]) if ndisk > 2 else ndisk + 1
                    what = "disk #1 announces %d disks" % disk_num
                elif kind == "duplicate disk number":
                    if ndisk < 3:
                        continue
                    # the last disk claims the number (and carries the volume id) of disk #2
                    nums[ndisk - 1] = 2
                    pvols[ndisk - 1] = vols[1]
                    what = "two files say they are disk #2"
                else:
                    nums[k] = ndisk + 1
                    what = "a file says it is disk #%d of %d" % (ndisk + 1, ndisk)
                tag = "bad%d%c" % (ndisk, ord("a") + kn)
                members, hdrs = build_set(tag, nums, wins, pvols, table, disk_num, over)
                perms = orders(ndisk)
                chosen = [perms[0], tuple(reversed(perms[0]))] + rng.sample(perms, min(2, len(perms)))
                for perm in dict.fromkeys(chosen):
                    idx = len(self.variants)
                    self.hdrs[idx] = [hdrs[i] for i in perm]
                    self.variants.append(("badset%d%c-%s" % (ndisk, ord("a") + kn, "".join(str(i + 1) for i in perm)),
                                          [self.path(members[i]) for i in perm],
                                          "%d-disk set with an inconsistent header (%s), files passed in order %s"
                                          % (ndisk, what, [i + 1 for i in perm])))
                    # judged: never accepted, and the status the model predicts for this order
                    self.ref[idx] = idx

    # -- ELF -----------------------------------------------------------------
    def make_elf(self):
        rng = self.rng
        self.fmt = "elf"
        self.npfn = rng.choice([8, 16, 40])
        segs = []
        pfn = 0
        data = []
        empty_seg = False
        off = 0x1000
        while pfn < self.npfn and len(segs) < 5:
            pfn += rng.randint(0, 4)
            n = rng.randint(1, 4)
            if pfn + n > self.npfn:
                break
            filepages = rng.randint(0, n)
            empty_seg = empty_seg or filepages == 0
            data.append("@phdr type=LOAD offset=0x%x vaddr=0x%x paddr=0x%x memsz=0x%x"
                        % (off, 0xffff880000000000 + pfn * 4096, pfn * 4096, n * 4096))
            for _ in range(filepages):
                data.append(page_text(rng, 4096))
            off += filepages * 4096
            segs.append((pfn, n))
            pfn += n + 1
        with open(self.path("data"), "w") as f:
            f.write("\n".join(data) + "\n")
        self.base = "ei_class = 2\nei_data = 1\ne_machine = 62\ne_phoff = 64\nDATA = %s\n" % self.path("data")
        tool("mkelf", self.path("plain"), self.base, self.dir)
        self.variants.append(("plain", [self.path("plain")], "plain single file"))
        self.flat_twins("plain")
        if not empty_seg:
            # (mkelf writes a zero-size record for a segment without file data, which is not a
            # well-formed stream: the library rejects it, rightly)
            tool("mkelf", self.path("mkflat"), "flattened = yes\n" + self.base, self.dir)
            self.variants.append(("mkflat", [self.path("mkflat")], "mkelf flattened = yes"))

    # -- flattened twins -----------------------------------------------------
    def segmentation(self, plain):
        rng = self.rng
        k = rng.random()
        if k < 0.3:     # makedumpfile-like: page-sized records in file order
            return fl.segment(rng, plain, max_rec=4096, rewrites=0, shuffle=False,
                              skip_zero_runs=False, align=4096)
        if k < 0.6:     # page-aligned, any order, zero pages left out, stale rewrites
            return fl.segment(rng, plain, max_rec=rng.choice([4096, 8192, 512]), shuffle=True,
                              align=rng.choice([512, 4096]))
        return fl.segment(rng, plain)          # wild: byte granularity

    def flat_twins(self, name):
        plain = open(self.path(name), "rb").read()
        self.plain_len = len(plain)
        for i in range(2):
            recs = self.segmentation(plain)
            stream = fl.flatten(recs)
            if fl.rearrange(recs, len(plain))[:len(plain)] != plain:
                raise RuntimeError("flattener bug: records do not rearrange to the plain file")
            with open(self.path("flat%d" % i), "wb") as f:
                f.write(stream)
            self.variants.append(("flat%d" % i, [self.path("flat%d" % i)],
                                  "flattened, %d records" % len(recs)))

    def extra_reads(self):
        rng = random.Random(self.seed + 17)
        out = []
        for _ in range(6):
            a = rng.randrange(0, (self.npfn + 1) * 4096)
            out.append("%x:%x" % (a, rng.choice([1, 8, 100, 4096, 5000, 9000])))
        return " ".join(out)

    def lines(self):
        pol = random.Random(self.seed + 5).choice([0, 1, 2, 2, 3])
        ex = self.extra_reads()
        return ["%x %x %x %s | %s" % (pol, self.npfn, self.pagesize, " ".join(paths), ex)
                for _, paths, _ in self.variants]


def canon(line):
    """The dump of one variant minus the attributes that name the packaging."""
    items = line.split(";")
    out = []
    for it in items:
        if it.startswith("A ") and it[2:].startswith(EXCLUDED):
            continue
        out.append(it)
    return out


def category(item):
    """Which API surface an item of the dump belongs to."""
    if item.startswith("M"):                 # kdump_bmp_* queries: "M <attr>.<query>(...)"
        head = item.split("=", 1)[0]
        return "pagemap-query " + head.split(" ", 1)[1].split("(")[0]
    if item.startswith("A"):
        return "attribute " + item.split("=", 1)[0][2:].strip()
    if item.startswith("R") or item.startswith("X"):
        return "read"
    return "status"


def diffs(a, b):
    """-> {category: first differing 'plain vs variant' text}"""
    da = {x.split("=", 1)[0]: x for x in a}
    db = {x.split("=", 1)[0]: x for x in b}
    out = {}
    for k in list(da) + [k for k in db if k not in da]:
        if da.get(k) != db.get(k):
            c = category(da.get(k) or db.get(k))
            out.setdefault(c, "%s  (plain)  vs  %s" % ((da.get(k) or "<missing>")[:200],
                                                      (db.get(k) or "<missing>")[:200]))
    if not out and a != b:
        out["status"] = "order of items differs"
    return out


def build(run):
    # -fno-sanitize=alignment: elfdump.c / diskdump.c cast chunk pointers to header structures at
    # whatever file offset they have (plain files with odd e_phoff do the same); harmless on the
    # platforms the library supports and not a matter of packaging
    return run.need_cc("flat_e2e", "flat_e2e.c", sources=core.lib_sources(),
                       flags=["-fno-sanitize=alignment"])


def run_scenario(run, exe, sc):
    lines = sc.lines()
    # leaks at exit are not this property's subject (diskdump_cleanup leaks its region array,
    # DESIGN section 10 item 19); everything else ASan/UBSan reports is
    impl, crashes = core.run_impl_lines(exe, run.work, lines, timeout=600,
                                        env={"ASAN_OPTIONS": "detect_leaks=0:abort_on_error=0:exitcode=97"})
    return lines, impl, crashes


def judge(run, sc, lines, impl, crashes):
    """-> list of (variant index, message, signature)"""
    bad = []
    if 0 in crashes or not impl or not impl[0].startswith("open="):
        return [(0, "the plain twin itself could not be dumped: %s" % (impl[0][:200] if impl else ""),
                 "e2e plain " + sc.fmt)]
    ref = canon(impl[0])
    model_open = {}
    if sc.hdrs:
        idx = sorted(sc.hdrs)
        out = core.run_model("flat", run.casefile("e2e-hdrs.txt", ["H " + " ".join(sc.hdrs[i]) for i in idx]))
        model_open = dict(zip(idx, out))
        run.count("e2e-sadump-open-status-vs-model", len(idx))
    if not impl[0].startswith("open=0"):
        run.count("e2e-plain-not-opened")
    for i in range(1, len(lines)):
        name, paths, desc = sc.variants[i]
        if i in crashes:
            rc, err = crashes[i]
            sig = " ".join(l for l in err.split("\n") if "ERROR" in l or "runtime error" in l
                           or "SUMMARY" in l)[:300]
            bad.append((i, "the library aborts (exit %s) on variant %s (%s) of a %s dump"
                        % (rc, name, desc, sc.fmt), "e2e crash " + sig))
            continue
        got = canon(impl[i])
        if i in model_open and model_open[i] != got[0]:
            bad.append((i, "variant %s (%s): kdump_open_fdset returns %s, the model of sadump_probe "
                        "(DiskSetModel.probe_set) says %s for headers %s"
                        % (name, desc, got[0], model_open[i], " ".join(sc.hdrs[i])),
                        "e2e sadump open status %s model %s" % (got[0], model_open[i])))
        r = sc.ref.get(i, 0)
        this_ref = ref if r == 0 else canon(impl[r])
        what = "the plain twin" if r == 0 else "the same files passed in order " + sc.variants[r][0]
        if r and impl[i].startswith("open=0"):
            bad.append((i, "an inconsistent set was accepted: %s" % desc,
                        "e2e inconsistent set accepted " + sc.fmt))
        if got != this_ref:
            stem = name.split("-")[0].rstrip("0123456789")
            nfiles = len(paths)
            for cat, d in sorted(diffs(this_ref, got).items()):
                bad.append((i, "variant %s (%s) of a %s dump is distinguishable from %s "
                            "(%s): %s" % (name, desc, sc.fmt, what, cat, d),
                            "e2e differs %s %s files=%d %s" % (sc.fmt, stem, nfiles, cat)))
    return bad


def check(run):
    exe = build(run)
    if exe is None:
        return
    quick = run.tier == "quick"
    nsc = 14 if quick else 400
    work = os.path.join(run.work, "e2e")
    os.makedirs(work, exist_ok=True)
    nvar = 0
    stats = run.cov["engines"].setdefault("flat-e2e", {})
    # pinned scenarios (corpus/flat-e2e.txt: "<format> <scenario seed>   # why"), run first on every check
    pinned = []
    cp = os.path.join(core.VERIF, "corpus", "flat-e2e.txt")
    if os.path.exists(cp):
        for l in open(cp):
            f = l.split("#")[0].split()
            if len(f) == 2:
                pinned.append((f[0], int(f[1])))
    stats["pinned_scenarios"] = len(pinned)
    for k in range(-len(pinned), nsc):
        if k < 0:
            fmt, seed = pinned[k + len(pinned)]
        else:
            seed = run.rng.randrange(1 << 30)
            fmt = ("diskdump", "sadump", "diskdump", "elf", "sadump")[k % 5]
        try:
            sc = Scenario(seed, work, fmt)
        except (RuntimeError, OSError, subprocess.SubprocessError) as e:
            run.violation("machinery", "could not build e2e scenario %d: %s" % (seed, e),
                          {"engine": "flat-e2e", "scenario_seed": seed}, found_input=False)
            break
        lines, impl, crashes = run_scenario(run, exe, sc)
        nvar += len(lines)
        run.count("e2e-%s" % sc.fmt)
        for name, paths, _ in sc.variants:
            run.count("e2e-variant-" + name.split("-")[0].rstrip("0123456789")
                      + ("-%dfiles" % len(paths) if len(paths) > 1 else ""))
            run.note_case("e2e %d %s" % (seed, name), name != "plain")
        if k == 0 or k == -len(pinned):
            run.sample({"e2e_scenario": seed, "format": sc.fmt,
                        "variants": [v[0] for v in sc.variants][:8], "plain_dump": impl[0][:300]})
        seen = set()
        for i, msg, sig in judge(run, sc, lines, impl, crashes):
            if sig in seen:
                continue
            seen.add(sig)
            replay = {"engine": "flat-e2e", "scenario_seed": seed, "format": sc.fmt, "variant": i,
                      "variant_name": sc.variants[i][0], "recipe": sc.variants[i][2],
                      "config": sc.base, "data": open(sc.path("data")).read()[:4000],
                      "how": "bin/check C11 --replay <this file> rebuilds the scenario from its seed "
                             "and dumps the plain twin and this variant through harness/flat_e2e.c"}
            run.violation("impl" if sig.startswith("e2e crash") else "spec", msg, replay,
                          found_input=True, signature=sig)
        shutil.rmtree(sc.dir, ignore_errors=True)
        if len(run.violations) > 3:
            break
    stats["scenarios"] = nsc
    stats["variants_dumped"] = nvar


def replay(run, rp):
    exe = build(run)
    if exe is None:
        return
    work = os.path.join(run.work, "e2e")
    os.makedirs(work, exist_ok=True)
    sc = Scenario(rp["scenario_seed"], work, rp.get("format"))
    lines, impl, crashes = run_scenario(run, exe, sc)
    i = rp["variant"]
    print("plain:   " + impl[0][:600])
    print("variant: " + (impl[i][:600] if i < len(impl) else ""))
    for j, msg, sig in judge(run, sc, lines, impl, crashes):
        if j == i or j == 0:
            run.violation("spec", "replayed: " + msg, rp, found_input=True, signature=sig)
    shutil.rmtree(sc.dir, ignore_errors=True)
