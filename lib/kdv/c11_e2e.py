def check(run):
    pass
