"""C11, end to end (engine "flat-e2e", harness/flat_e2e.c, public API only).

Plain diskdump / ELF dumps are written with the suite's own mkdiskdump / mkelf; each is
re-packaged (a) into flattened form by lib/kdv/flatten.py with random record sizes, order,
stale rewrites and holes, (b) for diskdump, into a split set of 1-4 files whose windows
partition [0, max_mapnr), each member plain or flattened, passed in every order.  All variants
are opened with kdump_open_fdset and dumped through the API (attribute tree, page maps, every
page frame, cross-page reads); every variant's dump must equal the plain twin's, except for
the attributes that name the packaging (DESIGN section 8, reading (i))."""
import itertools
import os
import random
import shutil
import subprocess

from . import core
from . import flatten as fl

TOOLS = os.environ.get("VERIF_TOOLS", "/repo/tests")

# attributes that describe the packaging itself or are cache statistics
EXCLUDED = ("file.set.", "file.description", "cache.", "file.mmap_cache.", "file.read_cache.",
            "file.mmap_policy")

UTS = """uts.sysname = Linux
uts.nodename = test-node
uts.release = 3.4.5-test
uts.version = #1 SMP Fri Jan 22 14:02:42 UTC 2016 (1234567)
uts.machine = %s
uts.domainname = (none)
"""


def tool(name, outfile, config, cwd):
    p = subprocess.run([os.path.join(TOOLS, name), outfile], input=config, cwd=cwd,
                       stdout=subprocess.PIPE, stderr=subprocess.STDOUT, universal_newlines=True,
                       timeout=120)
    if p.returncode != 0:
        raise RuntimeError("%s failed: %s" % (name, p.stdout[-500:]))


def page_text(rng, size):
    k = rng.random()
    if k < 0.15:
        return "00*%d" % size
    if k < 0.5:
        return "%02x*%d" % (rng.randrange(1, 256), size)
    a = rng.randrange(1, size // 8) * 4
    return "%08x*%d\n%02x*%d" % (rng.getrandbits(32), a // 4, rng.randrange(256), size - a)


class Scenario:
    """One plain dump and the recipe for its twins; everything derives from `seed`."""

    def __init__(self, seed, work):
        self.seed = seed
        self.rng = random.Random(seed)
        self.dir = os.path.join(work, "s%d" % seed)
        shutil.rmtree(self.dir, ignore_errors=True)
        os.makedirs(self.dir)
        self.variants = []          # (name, [paths], description)
        self.pagesize = 4096
        if self.rng.random() < 0.7:
            self.make_diskdump()
        else:
            self.make_elf()

    def path(self, name):
        return os.path.join(self.dir, name)

    # -- diskdump ------------------------------------------------------------
    def make_diskdump(self):
        rng = self.rng
        self.fmt = "diskdump"
        arch = rng.choice(["x86_64", "x86_64", "ia32", "ppc64", "s390x"])
        version = rng.choice([2, 4, 5, 6, 6])
        self.npfn = rng.choice([8, 16, 40, 100, 200])
        pfns = sorted(rng.sample(range(self.npfn), rng.randint(1, min(self.npfn, 14))))
        meths = ["raw", "zlib", "snappy", "zstd", "", "exclude"]
        data = []
        for pfn in pfns:
            data.append("@0x%x %s" % (pfn * 4096, rng.choice(meths)))
            data.append(page_text(rng, 4096))
        with open(self.path("data"), "w") as f:
            f.write("\n".join(data) + "\n")
        self.base = ("version = %d\narch_name = %s\nblock_size = 4096\nphys_base = 0\n"
                     "max_mapnr = 0x%x\nsub_hdr_size = 1\n%snr_cpus = 1\ncompression = %d\n"
                     "DATA = %s\n" % (version, arch, self.npfn, UTS % arch,
                                      rng.choice([0, 0, 1, 3, 4]), self.path("data")))
        tool("mkdiskdump", self.path("plain"), self.base, self.dir)
        self.variants.append(("plain", [self.path("plain")], "plain single file"))
        self.flat_twins("plain")
        # the same dump written flattened by the suite's own writer
        tool("mkdiskdump", self.path("mkflat"), self.base + "flattened = yes\n", self.dir)
        self.variants.append(("mkflat", [self.path("mkflat")], "mkdiskdump flattened = yes"))
        # split sets: windows partition [0, npfn) (non-empty, disjoint), every window holds
        # at least one dumped page
        present = [p for p, l in zip(pfns, data[0::2]) if not l.endswith("exclude")]
        nfiles = rng.randint(1, 4)
        cuts = self.cut_windows(present, nfiles)
        if cuts:
            members = []
            for i, (s, e) in enumerate(cuts):
                name = "split%d" % i
                tool("mkdiskdump", self.path(name),
                     self.base + "split = 1\nstart_pfn = %d\nend_pfn = %d\n" % (s, e), self.dir)
                if rng.random() < 0.5:
                    recs = self.segmentation(open(self.path(name), "rb").read())
                    with open(self.path(name + "f"), "wb") as f:
                        f.write(fl.flatten(recs))
                    name += "f"
                members.append(name)
            for perm in itertools.permutations(range(len(members))):
                self.variants.append(("split-" + "".join(map(str, perm)),
                                      [self.path(members[i]) for i in perm],
                                      "split windows %s members %s order %s" % (cuts, members, perm)))

    def cut_windows(self, present, nfiles):
        rng = self.rng
        if not present:
            return None
        nfiles = min(nfiles, len(present))
        # choose nfiles-1 cut points so that each window contains a present page
        idx = sorted(rng.sample(range(1, len(present)), nfiles - 1)) if nfiles > 1 else []
        bounds = [0]
        for i in idx:
            lo, hi = present[i - 1] + 1, present[i]
            bounds.append(rng.randint(lo, hi))
        bounds.append(self.npfn)
        return [(bounds[i], bounds[i + 1]) for i in range(nfiles)]

    # -- ELF -----------------------------------------------------------------
    def make_elf(self):
        rng = self.rng
        self.fmt = "elf"
        self.npfn = rng.choice([8, 16, 40])
        segs = []
        pfn = 0
        data = []
        empty_seg = False
        off = 0x1000
        while pfn < self.npfn and len(segs) < 5:
            pfn += rng.randint(0, 4)
            n = rng.randint(1, 4)
            if pfn + n > self.npfn:
                break
            filepages = rng.randint(0, n)
            empty_seg = empty_seg or filepages == 0
            data.append("@phdr type=LOAD offset=0x%x vaddr=0x%x paddr=0x%x memsz=0x%x"
                        % (off, 0xffff880000000000 + pfn * 4096, pfn * 4096, n * 4096))
            for _ in range(filepages):
                data.append(page_text(rng, 4096))
            off += filepages * 4096
            segs.append((pfn, n))
            pfn += n + 1
        with open(self.path("data"), "w") as f:
            f.write("\n".join(data) + "\n")
        self.base = "ei_class = 2\nei_data = 1\ne_machine = 62\ne_phoff = 64\nDATA = %s\n" % self.path("data")
        tool("mkelf", self.path("plain"), self.base, self.dir)
        self.variants.append(("plain", [self.path("plain")], "plain single file"))
        self.flat_twins("plain")
        if not empty_seg:
            # (mkelf writes a zero-size record for a segment without file data, which is not a
            # well-formed stream: the library rejects it, rightly)
            tool("mkelf", self.path("mkflat"), "flattened = yes\n" + self.base, self.dir)
            self.variants.append(("mkflat", [self.path("mkflat")], "mkelf flattened = yes"))

    # -- flattened twins -----------------------------------------------------
    def segmentation(self, plain):
        rng = self.rng
        k = rng.random()
        if k < 0.3:     # makedumpfile-like: page-sized records in file order
            return fl.segment(rng, plain, max_rec=4096, rewrites=0, shuffle=False,
                              skip_zero_runs=False, align=4096)
        if k < 0.6:     # page-aligned, any order, zero pages left out, stale rewrites
            return fl.segment(rng, plain, max_rec=rng.choice([4096, 8192, 512]), shuffle=True,
                              align=rng.choice([512, 4096]))
        return fl.segment(rng, plain)          # wild: byte granularity

    def flat_twins(self, name):
        plain = open(self.path(name), "rb").read()
        self.plain_len = len(plain)
        for i in range(2):
            recs = self.segmentation(plain)
            stream = fl.flatten(recs)
            if fl.rearrange(recs, len(plain))[:len(plain)] != plain:
                raise RuntimeError("flattener bug: records do not rearrange to the plain file")
            with open(self.path("flat%d" % i), "wb") as f:
                f.write(stream)
            self.variants.append(("flat%d" % i, [self.path("flat%d" % i)],
                                  "flattened, %d records" % len(recs)))

    def extra_reads(self):
        rng = random.Random(self.seed + 17)
        out = []
        for _ in range(6):
            a = rng.randrange(0, (self.npfn + 1) * 4096)
            out.append("%x:%x" % (a, rng.choice([1, 8, 100, 4096, 5000, 9000])))
        return " ".join(out)

    def lines(self):
        pol = random.Random(self.seed + 5).choice([0, 1, 2, 2, 3])
        ex = self.extra_reads()
        return ["%x %x %x %s | %s" % (pol, self.npfn, self.pagesize, " ".join(paths), ex)
                for _, paths, _ in self.variants]


def canon(line):
    """The dump of one variant minus the attributes that name the packaging."""
    items = line.split(";")
    out = []
    for it in items:
        if it.startswith("A ") and it[2:].startswith(EXCLUDED):
            continue
        out.append(it)
    return out


def category(item):
    """Which API surface an item of the dump belongs to."""
    if item.startswith("M"):                 # kdump_bmp_* queries: "M <attr>.<query>(...)"
        head = item.split("=", 1)[0]
        return "pagemap-query " + head.split(" ", 1)[1].split("(")[0]
    if item.startswith("A"):
        return "attribute " + item.split("=", 1)[0][2:].strip()
    if item.startswith("R") or item.startswith("X"):
        return "read"
    return "status"


def diffs(a, b):
    """-> {category: first differing 'plain vs variant' text}"""
    da = {x.split("=", 1)[0]: x for x in a}
    db = {x.split("=", 1)[0]: x for x in b}
    out = {}
    for k in list(da) + [k for k in db if k not in da]:
        if da.get(k) != db.get(k):
            c = category(da.get(k) or db.get(k))
            out.setdefault(c, "%s  (plain)  vs  %s" % ((da.get(k) or "<missing>")[:200],
                                                      (db.get(k) or "<missing>")[:200]))
    if not out and a != b:
        out["status"] = "order of items differs"
    return out


def build(run):
    # -fno-sanitize=alignment: elfdump.c / diskdump.c cast chunk pointers to header structures at
    # whatever file offset they have (plain files with odd e_phoff do the same); harmless on the
    # platforms the library supports and not a matter of packaging
    return run.need_cc("flat_e2e", "flat_e2e.c", sources=core.lib_sources(),
                       flags=["-fno-sanitize=alignment"])


def run_scenario(run, exe, sc):
    lines = sc.lines()
    # leaks at exit are not this property's subject (diskdump_cleanup leaks its region array,
    # DESIGN section 10 item 19); everything else ASan/UBSan reports is
    impl, crashes = core.run_impl_lines(exe, run.work, lines, timeout=600,
                                        env={"ASAN_OPTIONS": "detect_leaks=0:abort_on_error=0:exitcode=97"})
    return lines, impl, crashes


def judge(run, sc, lines, impl, crashes):
    """-> list of (variant index, message, signature)"""
    bad = []
    if 0 in crashes or not impl or not impl[0].startswith("open="):
        return [(0, "the plain twin itself could not be dumped: %s" % (impl[0][:200] if impl else ""),
                 "e2e plain " + sc.fmt)]
    ref = canon(impl[0])
    if not impl[0].startswith("open=0"):
        run.count("e2e-plain-not-opened")
    for i in range(1, len(lines)):
        name, paths, desc = sc.variants[i]
        if i in crashes:
            rc, err = crashes[i]
            sig = " ".join(l for l in err.split("\n") if "ERROR" in l or "runtime error" in l
                           or "SUMMARY" in l)[:300]
            bad.append((i, "the library aborts (exit %s) on variant %s (%s) of a %s dump"
                        % (rc, name, desc, sc.fmt), "e2e crash " + sig))
            continue
        got = canon(impl[i])
        if got != ref:
            stem = name.split("-")[0].rstrip("0123456789")
            nfiles = len(paths)
            for cat, d in sorted(diffs(ref, got).items()):
                bad.append((i, "variant %s (%s) of a %s dump is distinguishable from the plain twin "
                            "(%s): %s" % (name, desc, sc.fmt, cat, d),
                            "e2e differs %s %s files=%d %s" % (sc.fmt, stem, nfiles, cat)))
    return bad


def check(run):
    exe = build(run)
    if exe is None:
        return
    quick = run.tier == "quick"
    nsc = 14 if quick else 400
    work = os.path.join(run.work, "e2e")
    os.makedirs(work, exist_ok=True)
    nvar = 0
    stats = run.cov["engines"].setdefault("flat-e2e", {})
    for k in range(nsc):
        seed = run.rng.randrange(1 << 30)
        try:
            sc = Scenario(seed, work)
        except (RuntimeError, OSError, subprocess.SubprocessError) as e:
            run.violation("machinery", "could not build e2e scenario %d: %s" % (seed, e),
                          {"engine": "flat-e2e", "scenario_seed": seed}, found_input=False)
            break
        lines, impl, crashes = run_scenario(run, exe, sc)
        nvar += len(lines)
        run.count("e2e-%s" % sc.fmt)
        for name, paths, _ in sc.variants:
            run.count("e2e-variant-" + name.split("-")[0].rstrip("0123456789")
                      + ("-%dfiles" % len(paths) if len(paths) > 1 else ""))
            run.note_case("e2e %d %s" % (seed, name), name != "plain")
        if k == 0:
            run.sample({"e2e_scenario": seed, "format": sc.fmt,
                        "variants": [v[0] for v in sc.variants][:8], "plain_dump": impl[0][:300]})
        seen = set()
        for i, msg, sig in judge(run, sc, lines, impl, crashes):
            if sig in seen:
                continue
            seen.add(sig)
            replay = {"engine": "flat-e2e", "scenario_seed": seed, "variant": i,
                      "variant_name": sc.variants[i][0], "recipe": sc.variants[i][2],
                      "config": sc.base, "data": open(sc.path("data")).read()[:4000],
                      "how": "bin/check C11 --replay <this file> rebuilds the scenario from its seed "
                             "and dumps the plain twin and this variant through harness/flat_e2e.c"}
            run.violation("impl" if sig.startswith("e2e crash") else "spec", msg, replay,
                          found_input=True, signature=sig)
        shutil.rmtree(sc.dir, ignore_errors=True)
        if len(run.violations) > 3:
            break
    stats["scenarios"] = nsc
    stats["variants_dumped"] = nvar


def replay(run, rp):
    exe = build(run)
    if exe is None:
        return
    work = os.path.join(run.work, "e2e")
    os.makedirs(work, exist_ok=True)
    sc = Scenario(rp["scenario_seed"], work)
    lines, impl, crashes = run_scenario(run, exe, sc)
    i = rp["variant"]
    print("plain:   " + impl[0][:600])
    print("variant: " + (impl[i][:600] if i < len(impl) else ""))
    for j, msg, sig in judge(run, sc, lines, impl, crashes):
        if j == i or j == 0:
            run.violation("spec", "replayed: " + msg, rp, found_input=True, signature=sig)
    shutil.rmtree(sc.dir, ignore_errors=True)
