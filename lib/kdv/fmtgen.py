"""Generators of the C01 check: memory images, page payloads (real zlib /
snappy / zstd streams via ctypes), layouts per dump format, read requests.

Everything random comes from the `rng` passed in (seeded by VERIF_SEED)."""
import ctypes
import ctypes.util
import struct
import zlib

_snappy = _zstd = None


def _libs():
    global _snappy, _zstd
    if _snappy is None:
        _snappy = ctypes.CDLL(ctypes.util.find_library("snappy") or "libsnappy.so.1")
        _zstd = ctypes.CDLL(ctypes.util.find_library("zstd") or "libzstd.so.1")
        _zstd.ZSTD_compressBound.restype = ctypes.c_size_t
        _zstd.ZSTD_compressBound.argtypes = [ctypes.c_size_t]
        _zstd.ZSTD_compress.restype = ctypes.c_size_t
        _zstd.ZSTD_compress.argtypes = [ctypes.c_void_p, ctypes.c_size_t, ctypes.c_void_p,
                                        ctypes.c_size_t, ctypes.c_int]
        _snappy.snappy_max_compressed_length.restype = ctypes.c_size_t
        _snappy.snappy_max_compressed_length.argtypes = [ctypes.c_size_t]
        _snappy.snappy_compress.argtypes = [ctypes.c_void_p, ctypes.c_size_t, ctypes.c_void_p,
                                            ctypes.POINTER(ctypes.c_size_t)]


def snappy_compress(data):
    _libs()
    cap = _snappy.snappy_max_compressed_length(len(data))
    out = ctypes.create_string_buffer(cap)
    n = ctypes.c_size_t(cap)
    rc = _snappy.snappy_compress(data, len(data), out, ctypes.byref(n))
    assert rc == 0
    return out.raw[:n.value]


def zstd_compress(data, level=3):
    _libs()
    cap = _zstd.ZSTD_compressBound(len(data))
    out = ctypes.create_string_buffer(cap)
    n = _zstd.ZSTD_compress(out, cap, data, len(data), level)
    assert n <= cap
    return out.raw[:n]


def zlib_compress(data, level):
    return zlib.compress(data, level)


def rle_compress(data):
    """LKCD's RLE: 0 cnt v = run, 0 0 = literal zero (same grammar as Fmt/Rle.v)."""
    out = bytearray()
    i, n = 0, len(data)
    while i < n:
        v = data[i]
        j = i
        while j < n and data[j] == v and j - i < 255:
            j += 1
        cnt = j - i
        if cnt >= 4 or (v == 0 and cnt >= 2):
            out += bytes([0, cnt, v])
        else:
            for _ in range(cnt):
                out += (b"\0\0" if v == 0 else bytes([v]))
        i = j
    return bytes(out)


def fnv1a(data):
    h = 2166136261
    for b in data:
        h = ((h ^ b) * 16777619) & 0xffffffff
    return h


def page_content(rng, pgsz):
    k = rng.random()
    if k < 0.15:
        return bytes(pgsz)
    if k < 0.3:
        return bytes([rng.randrange(256)]) * pgsz
    if k < 0.55:                                   # incompressible: stored blocks / literal runs
        return bytes(rng.getrandbits(8) for _ in range(pgsz))
    if k < 0.8:                                    # text-like, compressible
        words = [bytes(rng.choice(b"abcdefgh \n\0") for _ in range(rng.randint(1, 9))) for _ in range(12)]
        out = bytearray()
        while len(out) < pgsz:
            out += rng.choice(words)
        return bytes(out[:pgsz])
    out = bytearray(pgsz)                          # sparse
    for _ in range(rng.randint(1, 40)):
        out[rng.randrange(pgsz)] = rng.randrange(256)
    # first and last byte matter for straddling reads
    out[0] = rng.randrange(1, 256)
    out[-1] = rng.randrange(1, 256)
    return bytes(out)


def write_image(path, pgsz, entries):
    """entries: list indexed by page frame: None | (flags, payload, content)."""
    with open(path, "wb") as f:
        f.write(struct.pack("<II", pgsz, len(entries)))
        for e in entries:
            if e is None:
                f.write(b"\0")
            else:
                flags, payload, content = e
                assert len(content) == pgsz
                f.write(b"\1" + struct.pack("<II", flags, len(payload)) + payload + content)


def hexb(b):
    return b.hex()


def lay_str(d):
    return ",".join("%s:%s" % (k, v) for k, v in d.items())


def hx(v):
    return "%x" % v


# ---------------------------------------------------------------------------
# page frame sets
# ---------------------------------------------------------------------------

def pfn_set(rng, limit, maxpages):
    """Sparse set of page frames below `limit`: runs (regions with cnt > 1,
    runs crossing byte and 32-bit word boundaries of the bitmap), singletons,
    the first and the last frame."""
    s = set()
    want = rng.randint(0, maxpages)
    anchors = [0, 1, 6, 7, 8, 30, 31, 32, 33, 63, 64, limit - 1, limit - 2, limit // 2]
    guard = 0
    while len(s) < want and guard < 200:
        guard += 1
        base = rng.choice(anchors) if rng.random() < 0.5 else rng.randrange(limit)
        run = rng.choice([1, 1, 1, 2, 3, 5, 9])
        for p in range(base, base + run):
            if 0 <= p < limit and len(s) < want:
                s.add(p)
    return sorted(s)


def dense_pfn_set(rng, limit):
    """Page frame sets with the shapes the bitmap scanners of pfn.c care about (byte loop, aligned
    32-bit word loop, first/last partial byte): long all-ones stretches with short holes, runs that
    start and end at every position relative to byte / 32-bit / 64-bit boundaries, long all-zero
    stretches, and words that are all ones but for a short hole, entered by a run that starts in the
    bytes before the word."""
    n = min(limit, rng.choice([72, 96, 130, 160, 200]))
    base = rng.choice([0, 0, 8, 24, 32, 40, 56, 64, 96]) if limit >= n + 96 else 0
    bits = [0] * n
    pos = rng.choice([0, 0, 1, 3, 7, 8, 20, 24, 29, 31])
    while pos < n:
        run = rng.choice([1, 3, 8, 12, 24, 31, 32, 33, 40, 57, 64, 65, 70])
        for i in range(pos, min(n, pos + run)):
            bits[i] = 1
        pos += run + rng.choice([1, 1, 2, 3, 4, 4, 7, 8, 9, 16, 32, 33, 64])
    for _ in range(rng.randint(1, 2)):
        w = rng.randrange(0, max(1, n // 32)) * 32
        if w + 32 <= n:
            for i in range(max(0, w - rng.randint(1, 12)), w + 32):
                bits[i] = 1
            h = w + rng.randrange(0, 28)
            for i in range(h, h + rng.randint(1, 4)):
                bits[i] = 0
    if rng.random() < 0.3:                       # the whole bitmap prefix set
        bits = [1] * n
        for _ in range(rng.randint(0, 2)):
            bits[rng.randrange(n)] = 0
    pfns = [base + i for i, b in enumerate(bits) if b and base + i < limit]
    return pfns[:170]


def dense_page(p, pgsz):
    """Cheap page content that identifies its page frame."""
    unit = struct.pack("<IHBB", p * 2654435761 & 0xffffffff, p & 0xffff, (p * 7 + 1) & 0xff, 0x5a)
    return (unit * (pgsz // 8 + 1))[:pgsz]


# ---------------------------------------------------------------------------
# diskdump
# ---------------------------------------------------------------------------

DD_METHODS = ["raw", "zlib", "zlib0", "snappy", "zstd"]

UTS_MACHINES = {  # (w64, be) -> machine strings the library knows
    (1, 0): ["x86_64", "aarch64", "riscv64"],
    (0, 0): ["i686", "armv7l"],
    (1, 1): ["ppc64", "s390x"],
    (0, 1): ["ppc"],
}


def uts_bytes(rng, w64, be):
    if rng.random() < 0.3:
        return bytes(390)            # not sane: the library leaves the architecture unset
    def f(s):
        b = s.encode()
        return b + bytes(65 - len(b))
    mach = rng.choice(UTS_MACHINES[(w64, be)])
    return f("Linux") + f("node") + f("5.14.21-test") + f("#1 SMP") + f(mach) + f("(none)")


def elf_note(be, name, ntype, desc):
    e = ">" if be else "<"
    nm = name + b"\0"
    pad = lambda b: b + bytes((-len(b)) % 4)
    return struct.pack(e + "III", len(nm), len(desc), ntype) + pad(nm) + pad(desc)


def dd_payload(rng, method, content):
    if method == "raw":
        return 0, content
    if method == "zlib":
        return 1, zlib_compress(content, 6)
    if method == "zlib0":
        return 1, zlib_compress(content, 0)       # stored blocks
    if method == "snappy":
        return 4, snappy_compress(content)
    if method == "zstd":
        return 0x20, zstd_compress(content, rng.choice([1, 3, 19]))
    raise ValueError(method)


def gen_dd(rng, big=False):
    """One single-file diskdump layout + image.  Returns (layout dict, entries, info)."""
    w64 = rng.randint(0, 1)
    be = rng.randint(0, 1)
    pad = rng.randint(0, 1) if not w64 else 0
    ver = rng.choice([0, 1, 2, 3, 4, 5, 6, 6, 6])
    shift = rng.choice([12, 12, 12, 12, 13, 14, 16] if not big else [12, 13, 14, 16, 16, 18])
    pgsz = 1 << shift
    two = 1 if rng.random() < 0.8 else 0
    bmp = 1 if rng.random() < 0.85 else 2
    cover = 8 * bmp * pgsz
    if two:
        r = rng.random()
        maxmapnr = (rng.randint(1, 0x120) if r < 0.6 else
                    cover - rng.randint(0, 9) if r < 0.8 else rng.randint(1, cover))
    else:
        maxmapnr = rng.randint(cover // 2 + 1, cover)
    dense = shift == 12 and maxmapnr >= 72 and rng.random() < 0.3
    pfns = dense_pfn_set(rng, maxmapnr) if dense else pfn_set(rng, maxmapnr, 10 if shift <= 13 else 5)
    entries = [None] * ((pfns[-1] + 1) if pfns else 0)
    meths = {}
    for p in pfns:
        content = dense_page(p, pgsz) if dense else page_content(rng, pgsz)
        m = rng.choice(["raw", "zlib"]) if dense else rng.choice(DD_METHODS)
        flags, payload = dd_payload(rng, m, content)
        if rng.random() < 0.15:
            flags |= rng.choice([0x8, 0x10, 0x40, 0x100, 0x80000000])   # bits no reader knows
        if m == "zlib" and rng.random() < 0.1:
            flags |= rng.choice([4, 0x20])                                # zlib wins
        entries[p] = (flags, payload, content)
        meths[p] = m
    sub = rng.choice([1, 1, 2]) if ver else rng.choice([0, 1])
    vmci = b""
    notes = b""
    if ver == 3 or (not w64 and pad and ver >= 3) or (ver and rng.random() < 0.5):
        vmci = b"OSRELEASE=5.14.21-test\nCRASHTIME=12345\n"
    if ver >= 4 and rng.random() < 0.6:
        notes = elf_note(be, b"VMCOREINFO", 0, vmci or b"CRASHTIME=1\n")
    memextra = "".join(rng.choice("01") for _ in range(rng.randint(0, 40)))
    lay = {
        "be": be, "w64": w64, "pad": pad, "ksig": rng.randint(0, 1), "ver": hx(ver),
        "pgsz": hx(pgsz), "uts": hexb(uts_bytes(rng, w64, be)), "status": hx(rng.choice([0, 1, 5])),
        "sub": hx(sub), "two": two, "bmp": hx(bmp), "maxmapnr": hx(maxmapnr),
        "physbase": hx(rng.choice([0, 0x1000000])), "level": hx(rng.choice([0, 1, 31])),
        "split": 0, "start": "0", "end": "0",
        "vmci": hexb(vmci), "notes": hexb(notes), "erase": "",
        "memextra": memextra, "gap": hx(rng.choice([0, 0, 8, pgsz - 24, 100])),
    }
    info = {"pgsz": pgsz, "maxpfn": maxmapnr, "pfns": pfns, "methods": meths, "dense": dense,
            "key": "dd w%d be%d pad%d v%d pg%d two%d%s" % (64 if w64 else 32, be, pad, ver, shift, two,
                                                          " dense" if dense else "")}
    if ver >= 2 and maxmapnr >= 4 and rng.random() < 0.3:
        # a split set: non-empty, pairwise disjoint windows that cover [0, max_mapnr), files in any order
        nf = rng.randint(2, min(4, maxmapnr))
        cuts = sorted(rng.sample(range(1, maxmapnr), nf - 1))
        if pfns and rng.random() < 0.5:                  # cut right at / next to a stored page
            c = max(1, min(maxmapnr - 1, rng.choice(pfns) + rng.choice([0, 1])))
            cuts = sorted(set(cuts[:-1] + [c]))
            nf = len(cuts) + 1
        bounds = [0] + cuts + [maxmapnr if rng.random() < 0.5 else (1 << 32) - 1 if (not w64 and ver < 6) else (1 << 40)]
        wins = [(bounds[i], bounds[i + 1]) for i in range(nf)]
        rng.shuffle(wins)
        lay["splits"] = ".".join("%x-%x" % w for w in wins)
        info["nfiles"] = nf
        info["key"] += " split%d" % nf
    return lay, entries, info


def page_requests(rng, pgsz, maxpfn, pfns, aspace="M", limit=48):
    """Read requests aimed at the pages of the image: every present page, its
    neighbours, the geometry boundary, unaligned and page-crossing ranges."""
    want = []
    near = set()
    for p in pfns:
        near |= {p - 1, p, p + 1}
    near |= {0, maxpfn - 1, maxpfn, maxpfn + 1}
    near = sorted(x for x in near if x >= 0)
    if len(near) > limit:
        keep = set(rng.sample(near, limit)) | set(pfns[:limit // 2])
        near = sorted(keep)
    for p in near:
        want.append("R%s:%x:%x" % (aspace, p * pgsz, pgsz))
    for p in pfns[:12]:
        k = rng.choice([1, 2, 7, 16, pgsz // 2])
        # straddle the end of the page, and the start
        want.append("R%s:%x:%x" % (aspace, (p + 1) * pgsz - k, 2 * k))
        if p:
            want.append("R%s:%x:%x" % (aspace, p * pgsz - k, k + rng.choice([1, 3, pgsz])))
        # inside the page, unaligned
        o = rng.randrange(pgsz)
        want.append("R%s:%x:%x" % (aspace, p * pgsz + o, rng.randint(0, pgsz - o)))
    if pfns:
        p = rng.choice(pfns)
        want.append("R%s:%x:%x" % (aspace, p * pgsz + rng.randrange(pgsz), rng.randint(1, 4 * pgsz)))
    return want


# ---------------------------------------------------------------------------
# ELF core dumps
# ---------------------------------------------------------------------------

# (w64, be) -> [(e_machine, default page shift or 0, pointer size or None)]
ELF_MACHINES = {
    (1, 0): [(62, 12, 8), (62, 12, 8), (183, 0, 8), (243, 12, 8)],   # x86_64, aarch64, riscv64
    (0, 0): [(3, 12, 4), (40, 12, 4), (8, 12, 4)],                   # i386, arm, mips
    (1, 1): [(22, 12, 8), (21, 0, 8)],                               # s390x, ppc64
    (0, 1): [(20, 0, 4), (22, 12, 4), (8, 12, 4)],                   # ppc, s390, mips
}


def write_segs(path, segs):
    with open(path, "wb") as f:
        f.write(struct.pack("<I", len(segs)))
        for s in segs:
            f.write(struct.pack("<IIQQQQII", s["type"], s["flags"], s["phys"], s["virt"], s["memsz"],
                                s["align"], s["gap"], len(s["data"])) + s["data"])


def seg_data(rng, n):
    if n == 0:
        return b""
    k = rng.random()
    if k < 0.2:
        return bytes([rng.randrange(1, 256)]) * n
    if k < 0.5:
        return bytes(rng.getrandbits(8) for _ in range(n))
    out = bytearray((i * 7 + 1) & 0xff for i in range(n))
    out[0] = rng.randrange(1, 256)
    out[-1] = rng.randrange(1, 256)
    return bytes(out)


def gen_elf(rng, big=False):
    """One ELF core layout: returns (layout dict, segments, info)."""
    w64 = rng.randint(0, 1)
    be = rng.randint(0, 1)
    machine, defshift, ptr = rng.choice(ELF_MACHINES[(w64, be)])
    shift = defshift
    vmci = b"OSRELEASE=5.14.21-test\n"
    if defshift and rng.random() < 0.2:
        # a PAGESIZE line that strtoul() does not consume completely is ignored
        vmci += rng.choice([b"PAGESIZE=8192k\n", b"PAGESIZE=0x2000\n", b"PAGESIZE=16384 \n", b"PAGESIZE=4096.0\n"])
    if not defshift or rng.random() < 0.25:
        shift = rng.choice([12, 12, 12, 13, 13, 14, 16]) if (not defshift or rng.random() < 0.5) else defshift
        if rng.random() < 0.2:          # an earlier announcement is overridden by a later one
            vmci += b"PAGESIZE=%d\n" % (1 << rng.choice([12, 13, 16]))
        # strtoul() accepts leading blanks, a sign and leading zeros
        vmci += b"PAGESIZE=" + rng.choice([b"", b"", b"", b" ", b"+", b"\t+", b"000"]) + b"%d\n" % (1 << shift)
        if rng.random() < 0.3:
            vmci += rng.choice([b"PAGESIZEX=4096\n", b"XPAGESIZE=8192\n", b"CRASHTIME=12345\n",
                                b"PAGESIZE=65536x\n"])
        if rng.random() < 0.2:
            vmci = vmci[:-1]            # no newline at the end of the text
    pgsz = 1 << shift
    addr_lim = (1 << 32) - 2 * pgsz if not w64 else (1 << 46)
    nload = rng.randint(1, 6)
    loads = []
    cur = rng.choice([0, pgsz, 16 * pgsz, 0x100000, rng.randrange(0, 64) * pgsz])
    for i in range(nload):
        # gap before this segment: none (adjacent), sub-page, exactly one page, several pages
        g = rng.choice([0, 0, rng.randrange(1, pgsz), pgsz, pgsz, rng.randrange(2, 9) * pgsz,
                        pgsz + rng.randrange(1, pgsz)])
        if i == 0:
            g = 0
        start = cur + g
        if rng.random() < 0.55:
            start = (start + pgsz - 1) & ~(pgsz - 1)          # page aligned start
        k = rng.random()
        if k < 0.5:
            filesz = rng.randrange(1, 4) * pgsz
        elif k < 0.65:
            filesz = rng.randrange(1, 4) * pgsz - rng.choice([1, 1, 2, 7])   # ends just below a page end
        elif k < 0.8:
            filesz = rng.randrange(1, 3 * pgsz)
        elif k < 0.9:
            filesz = 0
        else:
            filesz = rng.randrange(1, 64)
        k = rng.random()
        if k < 0.5:
            memsz = filesz
        elif k < 0.8:
            memsz = filesz + rng.randrange(1, 3) * pgsz
        else:
            memsz = filesz + rng.randrange(1, 2 * pgsz)
        if rng.random() < 0.5:
            memsz = (start + memsz + pgsz - 1) // pgsz * pgsz - start   # page aligned end
        if memsz == 0:
            memsz = pgsz
        if start + memsz >= addr_lim:
            break
        loads.append({"type": 1, "flags": 7, "phys": start, "memsz": memsz, "data": seg_data(rng, filesz),
                      "align": rng.choice([0, pgsz]), "gap": 0})
        cur = start + memsz
    if not loads:
        loads.append({"type": 1, "flags": 7, "phys": pgsz, "memsz": pgsz, "data": seg_data(rng, pgsz),
                      "align": 0, "gap": 0})
    if len(loads) > 1 and all(s["phys"] == 0 for s in loads):
        loads[-1]["phys"] += pgsz
    # A LOAD nested in the file-backed part of the highest one and holding the same bytes (the usual
    # x86_64 kdump layout: kernel text inside the direct mapping; DESIGN section 8, reading (ii): segments
    # may overlap if they agree).  It has the highest start but ends below the end of its host, so
    # "the end of the highest-starting segment" is not the end of memory.
    nested = None
    host = loads[-1]
    if rng.random() < 0.3 and len(host["data"]) >= 2 * pgsz and host["phys"] % pgsz == 0:
        npages = len(host["data"]) // pgsz
        a = rng.randrange(1, npages)                       # starts at least one page into the host
        n = rng.randrange(1, npages - a + 1) * pgsz        # whole pages, inside the file-backed part
        if host["phys"] + a * pgsz + n < host["phys"] + host["memsz"] and rng.random() < 0.8:
            pass
        else:
            n = max(pgsz, n - pgsz) if a * pgsz + n > pgsz else n
        if (host["phys"] + a * pgsz + n + pgsz - 1) // pgsz < (host["phys"] + host["memsz"] + pgsz - 1) // pgsz:
            nested = {"type": 1, "flags": 5, "phys": host["phys"] + a * pgsz, "memsz": n,
                      "data": host["data"][a * pgsz:a * pgsz + n], "align": 0, "gap": 0}
            loads.append(nested)
    # virtual addresses: disjoint ranges, in an order that may differ from the physical one
    vbase = (0xffff880000000000 if w64 else 0xc0000000) if rng.random() < 0.7 else (16 * pgsz)
    order = list(range(len(loads)))
    mode = rng.random()
    if mode < 0.45:                      # linear mapping: virt = phys + const
        for s in loads:
            s["virt"] = (vbase + s["phys"]) & ((1 << (64 if w64 else 32)) - 1)
        if not w64 and any(s["virt"] + s["memsz"] >= (1 << 32) or s["virt"] < s["phys"] and vbase for s in loads):
            mode = 0.5
    if mode >= 0.45:                     # packed in a shuffled order, keeping each segment's page offset
        rng.shuffle(order)
        vcur = vbase if (w64 or vbase + sum(s["memsz"] + 3 * pgsz for s in loads) < (1 << 32)) else 16 * pgsz
        for i in order:
            s = loads[i]
            vcur = (vcur + pgsz - 1) // pgsz * pgsz + (s["phys"] % pgsz)
            s["virt"] = vcur
            vcur += s["memsz"] + rng.choice([0, 0, pgsz, rng.randrange(1, 2 * pgsz)])
    notes = elf_note(be, b"VMCOREINFO", 0, vmci)
    k = rng.random()
    if k < 0.25:                        # other notes around it, with lengths that need padding
        notes = elf_note(be, b"FOO", 7, bytes(rng.randrange(0, 11))) + notes
    elif k < 0.4:
        notes = notes + elf_note(be, b"QEMUX", 1, b"PAGESIZE=2048\n")
    note = {"type": 4, "flags": 0, "phys": 0, "virt": 0, "memsz": 0, "align": 0, "gap": 0, "data": notes}
    segs = [note] + loads
    if rng.random() < 0.15:             # a second NOTE segment
        segs.append({"type": 4, "flags": 0, "phys": 0, "virt": 0, "memsz": 0, "align": 0, "gap": 0,
                     "data": elf_note(be, b"BAR", 3, b"xyz")})
    if rng.random() < 0.3:
        segs.append({"type": rng.choice([0, 6, 0x6474e551]), "flags": 0, "phys": 0x5000, "virt": 0x5000,
                     "memsz": pgsz, "align": 0, "gap": 0, "data": b"ignored"})
    rng.shuffle(segs)
    phgap = rng.choice([0, 0, 16, 64])
    phextra = rng.choice([0, 0, 0, 8, 24])
    off = (64 if w64 else 52) + phgap + ((56 if w64 else 32) + phextra) * len(segs)
    for s in segs:
        s["gap"] = rng.choice([0, 0, 0, 0, 4, pgsz - 8, 100, 3])
        if s["type"] == 4:                      # the note parser reads 32-bit words in place
            s["gap"] += (-(off + s["gap"])) % 4
        off += s["gap"] + len(s["data"])
    lay = {"be": be, "w64": w64, "machine": hx(machine), "osabi": hx(rng.choice([0, 3])),
           "eflags": hx(rng.choice([0, 1])), "phgap": hx(phgap),
           "phextra": hx(phextra), "pgsz": hx(pgsz), "ptr": hx(ptr)}
    info = {"pgsz": pgsz, "loads": loads, "w64": w64,
            "key": "elf w%d be%d m%d pg%d n%d%s" % (64 if w64 else 32, be, machine, shift, len(loads),
                                                    (" vshuf" if mode >= 0.45 else "") + (" nested" if nested else "")),
            "pfns": sorted({(s["phys"] + o) // pgsz for s in loads for o in (0, max(len(s["data"]) - 1, 0))}),
            "maxpfn": max((s["phys"] + s["memsz"] + pgsz - 1) // pgsz for s in loads)}
    return lay, segs, info


def elf_covered(loads, pgsz, virt, zero_excluded, page_addr):
    """Does the page hold a file-backed byte (or, with zero-fill, a byte of a memory range)?"""
    for s in loads:
        a = s["virt"] if virt else s["phys"]
        size = s["memsz"] if zero_excluded else len(s["data"])
        if size and a < page_addr + pgsz and page_addr < a + size:
            return True
    return False


def elf_requests(rng, info, virt, zero_excluded, limit=40):
    """Page reads at every boundary of every segment (start, end of file data,
    end of memory range: the page holding it and both neighbours) and ranges
    that straddle them.  Virtual requests only touch covered pages (an
    uncovered virtual page sends the library to address translation)."""
    pgsz, loads = info["pgsz"], info["loads"]
    a = "V" if virt else "M"
    pages = set()
    marks = []
    for s in loads:
        base = s["virt"] if virt else s["phys"]
        for m in (base, base + len(s["data"]), base + s["memsz"]):
            marks.append(m)
            for d in (-1, 0, 1):
                p = m // pgsz + d
                if p >= 0:
                    pages.add(p)
    pages = sorted(pages)
    if len(pages) > limit:
        pages = sorted(rng.sample(pages, limit))
    ok = lambda addr, n: all(elf_covered(loads, pgsz, virt, True, p * pgsz)
                             for p in range(addr // pgsz, (addr + max(n, 1) - 1) // pgsz + 1))
    reqs = []
    for p in pages:
        if not virt or ok(p * pgsz, pgsz):
            reqs.append("R%s:%x:%x" % (a, p * pgsz, pgsz))
    for m in marks[:16 if pgsz <= 8192 else 4]:
        k = rng.choice([1, 3, 8, pgsz // 2])
        for addr, n in ((m - k, 2 * k), (m, k), (m - k, k + pgsz)):
            if addr >= 0 and (not virt or ok(addr, n)):
                reqs.append("R%s:%x:%x" % (a, addr, n))
    rng.shuffle(reqs)        # the last_load / last_vload shortcut sees every order
    return elf_prime_requests(rng, info, virt) + reqs


def elf_prime_requests(rng, info, virt):
    """Read pairs that put the last-hit shortcut of find_closest_{mem,file}_{,v}load into each state
    before the lookup that matters: for segments with memsz > filesz, (a page of the segment's
    file-backed part, then a page of its memory-only tail), (a page of a neighbouring segment, then the
    tail), (the tail, then the file-backed part).  Issued in both zero_excluded modes by the caller;
    with zero-fill off the tail is not in the dump (physical: NODATA; virtual: the library asks
    libaddrxlat), with zero-fill on it reads as zeroes."""
    pgsz, loads = info["pgsz"], info["loads"]
    a = "V" if virt else "M"
    key = "virt" if virt else "phys"
    def file_page(s):
        base, n = s[key], len(s["data"])
        if not n:
            return None
        q = -(-base // pgsz)
        return q if (q + 1) * pgsz <= base + n else base // pgsz
    def tail_page(s):
        base = s[key]
        p0 = -(-(base + len(s["data"])) // pgsz)
        return p0 if (p0 + 1) * pgsz <= base + s["memsz"] else None
    inside = lambda p: any(s[key] < (p + 1) * pgsz and p * pgsz < s[key] + s["memsz"] for s in loads)
    tails = [s for s in loads if tail_page(s) is not None]
    rng.shuffle(tails)
    reqs = []
    rd = lambda p: reqs.append("R%s:%x:%x" % (a, p * pgsz, pgsz))
    for s in tails[:2 if pgsz <= 8192 else 1]:
        t, f = tail_page(s), file_page(s)
        others = [file_page(o) for o in loads if o is not s and file_page(o) is not None]
        if f is not None:
            rd(f); rd(t)                      # same segment: file-backed part, then the tail
        if others:
            rd(rng.choice(others)); rd(t)     # a neighbouring segment, then the tail
        if f is not None:
            rd(t); rd(f)                      # the tail, then the file-backed part
        last = (s[key] + s["memsz"] - 1) // pgsz
        if last != t and f is not None and inside(last):
            rd(f); rd(last)                   # ... and the last page of the memory range
    return reqs


# ---------------------------------------------------------------------------
# SADUMP
# ---------------------------------------------------------------------------

def gen_sadump(rng, big=False):
    """One SADUMP layout (single partition, disk set, media backup) + image."""
    kind = rng.choice(["s", "s", "d", "d", "d", "m"])
    bs = rng.choice([4096, 4096, 4096, 8192, 2048, 16384])
    ver = rng.randint(0, 1)
    ncpu = rng.randint(1, 3)
    lma = [rng.random() < 0.6 for _ in range(ncpu)]
    if rng.random() < 0.3:
        lma = [False] * ncpu                                   # ia32
    cpusz = rng.choice([1024, 1024, 1032, 2048])
    sub = (4 + 16 * ncpu + cpusz * ncpu + bs - 1) // bs + rng.choice([0, 0, 1])
    dmb = rng.choice([1, 1, 2])
    cover = dmb * bs * 8
    r = rng.random()
    maxmapnr = (rng.randint(1, 0x140) if r < 0.6 else cover - rng.randint(0, 9) if r < 0.8
                else rng.randint(1, cover))
    dense = maxmapnr >= 72 and rng.random() < 0.4
    pfns = dense_pfn_set(rng, maxmapnr) if dense else pfn_set(rng, maxmapnr, 12)
    entries = [None] * ((pfns[-1] + 1) if pfns else 0)
    for p in pfns:
        entries[p] = (0, b"", dense_page(p, 4096) if dense else page_content(rng, 4096))
    ndisk = 1
    dpages = []
    if kind == "d":
        # every further disk holds at least one page: a member that is exactly one block long
        # makes verify_magic_number read the word at EOF through the mmap window (defect 8, SIGBUS)
        ndisk = rng.randint(1, max(1, min(4, len(pfns))))
        left = len(pfns)
        for i in range(ndisk):
            rest = ndisk - 1 - i
            c = left if rest == 0 else rng.randint(0 if i == 0 else 1, left - rest)
            dpages.append(c)
            left -= c
    vols = [bytes(rng.getrandbits(8) for _ in range(16)) for _ in range(ndisk)]
    order = list(range(ndisk))
    rng.shuffle(order)
    membits = "".join(rng.choice("01") for _ in range(rng.randint(0, 64)))
    lay = {"kind": kind, "bs": hx(bs), "ver": hx(ver), "maxmapnr": hx(maxmapnr), "cpusz": hx(cpusz),
           "lma": "".join("1" if b else "0" for b in lma), "sub": hx(sub), "bmb": hx(rng.choice([1, 2])),
           "dmb": hx(dmb), "membits": membits,
           "ids": hexb(bytes(rng.getrandbits(8) for _ in range(48))),
           "vols": ".".join(hexb(v) for v in vols), "dpages": ".".join(hx(c) for c in dpages),
           "sethdr": hx(max(1, (16 + 32 * ndisk + bs - 1) // bs)), "magic0": hx(rng.choice([0, 0, 7, 0xfffffff0])),
           "order": ".".join(str(d) for d in order)}
    info = {"pgsz": 4096, "maxpfn": maxmapnr, "pfns": pfns, "nfiles": ndisk, "dense": dense,
            "key": "sadump %s bs%d v%d cpus%d %s disks%d%s" % (kind, bs, ver, ncpu,
                                                               "x86_64" if any(lma) else "ia32", ndisk,
                                                               " dense" if dense else "")}
    return lay, entries, info


# ---------------------------------------------------------------------------
# LKCD
# ---------------------------------------------------------------------------

def write_stream(path, pgsz, recs):
    """recs: (pfn, flags, payload, content) in stream order."""
    with open(path, "wb") as f:
        f.write(struct.pack("<II", pgsz, len(recs)))
        for pfn, flags, payload, content in recs:
            f.write(struct.pack("<QII", pfn, flags, len(payload)) + payload + content)


LKCD_MACHINES = [("x86_64", 8, 0), ("i686", 4, 0), ("ppc64", 8, 1), ("s390x", 8, 1), ("aarch64", 8, 0)]


def lkcd_pfns(rng, pgsz):
    """Page frames with the shapes the block index cares about: dense runs, gaps up to and
    beyond MAX_PFN_GAP (15), runs crossing a level-3 table (4096 frames), far-away frames."""
    s = set()
    want = rng.randint(0, 14 if pgsz <= 8192 else 6)
    bases = [0, 1, 10, 4090, 4095, 4096, 8190, 1 << 22, (1 << 22) - 3, 0x12345, (1 << 32) - 60]
    guard = 0
    while len(s) < want and guard < 100:
        guard += 1
        base = rng.choice(bases) + rng.choice([0, 0, 1, 5, 14, 15, 16, 17, 40])
        step = rng.choice([1, 1, 2, 7, 15, 16, 17])
        for i in range(rng.choice([1, 2, 3, 5])):
            if len(s) < want:
                s.add(min(base + i * step, (1 << 32) - 1))     # the index holds 32-bit numbers
    return sorted(s)


def gen_lkcd(rng, big=False):
    mach, ptr, be = rng.choice(LKCD_MACHINES)
    ver = rng.choice([1, 2, 3, 5, 6, 7, 8, 9, 10])
    shift = rng.choice([12, 12, 12, 13, 14, 16])
    pgsz = 1 << shift
    comp = rng.choice([1, 2]) if ver >= 5 else 1
    h64 = rng.randint(0, 1)
    pfns = lkcd_pfns(rng, pgsz)
    order = list(pfns)
    k = rng.random()
    if k < 0.35:
        pass                                   # ascending
    elif k < 0.7:
        rng.shuffle(order)
    else:                                      # a few ascending chunks, interleaved
        cut = sorted(rng.sample(range(len(order) + 1), min(2, len(order) + 1)))
        parts = [order[:cut[0]], order[cut[0]:cut[-1]], order[cut[-1]:]]
        rng.shuffle(parts)
        order = [p for part in parts for p in part]
    recs = []
    meths = {}
    for p in order:
        content = page_content(rng, pgsz)
        if rng.random() < 0.35:
            recs.append((p, 1, content, content))                 # DUMP_RAW
            meths[p] = "raw"
        else:
            payload = rle_compress(content) if comp == 1 else zlib_compress(content, rng.choice([0, 6]))
            if len(payload) > pgsz:         # the library reads compressed data into a page-sized buffer
                recs.append((p, 1, content, content))
                meths[p] = "raw"
            else:
                recs.append((p, 2, payload, content))
                meths[p] = "rle" if comp == 1 else "gzip"
    def f(s):
        b = s.encode()
        return b + bytes(65 - len(b))
    uts = f("Linux") + f("node") + f("2.6.5-test") + f("#1 SMP") + f(mach) + f("(none)")
    dataoff = 65536 if ver < 9 else rng.choice([65536, 65536, 4096, 131072, 1000])
    lay = {"be": be, "ver": hx(ver), "mclx": hx(rng.choice([0, 0, 1 << 31, 1 << 30])), "h64": h64,
           "pgsz": hx(pgsz), "comp": hx(comp), "uts": hexb(uts), "dataoff": hx(dataoff),
           "memsize": hx(0x10000000), "ptr": hx(ptr)}
    info = {"pgsz": pgsz, "pfns": pfns, "methods": meths, "stream": True,
            "maxpfn": (max(pfns) + 1) if pfns else 0,
            "key": "lkcd v%d be%d h%d pg%d comp%d %s" % (ver, be, 64 if h64 else 32, shift, comp,
                                                         "asc" if k < 0.35 else "shuf" if k < 0.7 else "chunks")}
    return lay, recs, info


def lkcd_requests(rng, info):
    """Reads in an order unrelated to the stream order; absent frames force full scans."""
    pgsz, pfns = info["pgsz"], info["pfns"]
    want = list(pfns)
    near = set()
    for p in pfns:
        near |= {p - 1, p + 1, p + 16}
    want += [p for p in near if p >= 0 and p not in pfns][:10]
    rng.shuffle(want)
    reqs = ["RM:%x:%x" % (p * pgsz, pgsz) for p in want]
    for p in pfns[:6]:
        k = rng.choice([1, 2, 9, pgsz // 2])
        reqs.append("RM:%x:%x" % ((p + 1) * pgsz - k, 2 * k))
        reqs.append("RM:%x:%x" % (p * pgsz + rng.randrange(pgsz), rng.randint(0, 64)))
    # page frames 2^32 apart share the low 32 bits of their number (fix 90)
    for p in pfns[:2]:
        reqs.insert(rng.randrange(len(reqs) + 1), "RM:%x:%x" % (((1 << 32) + p) * pgsz, pgsz))
    # read everything again once the index is complete
    again = list(pfns)
    rng.shuffle(again)
    reqs += ["RM:%x:%x" % (p * pgsz, pgsz) for p in again]
    # the geometry request scans the whole stream: before, in the middle of, or after the reads
    pos = rng.choice([0, len(reqs) // 2, len(reqs)])
    reqs.insert(pos, "G")
    reqs.insert(rng.randrange(len(reqs) + 1), "Z1")
    return reqs


# ---------------------------------------------------------------------------
# s390 stand-alone dump
# ---------------------------------------------------------------------------

def gen_s390(rng, big=False):
    shift = rng.choice([12, 12, 12, 13, 16])
    pgsz = 1 << shift
    n = rng.randint(0, 8 if shift <= 13 else 3)
    entries = [(0, b"", page_content(rng, pgsz)) for _ in range(n)]
    tod = rng.getrandbits(60)
    lay = {"pgsz": hx(pgsz), "a64": rng.randint(0, 1), "hdrsz": hx(rng.choice([4096, 4096, 8192, 4096 + 512])),
           "tod": hx(tod), "endtod": hx(tod + rng.choice([0, 1, 1 << 40])), "ver": hx(rng.choice([1, 5])),
           "cpuid": hx(rng.getrandbits(64))}
    info = {"pgsz": pgsz, "maxpfn": n, "pfns": list(range(n)),
            "key": "s390 a%d pg%d n%d" % (64 if lay["a64"] else 32, shift, n)}
    return lay, entries, info
