"""Synthetic dump files for the C12 read engine (helper of lib/kdv/props/c12.py).

Files are written with the test suite's own generators (/repo/tests/mkelf, mkdiskdump;
they do not link the library).  A layout is a dict {page frame number: bytes(page_size)} of
present pages; every other page is missing."""
import os
import subprocess

TOOLS = os.environ.get("VERIF_TOOLS", "/repo/tests")
PS = 4096


def page_bytes(rng, ps=PS, nuls=()):
    """page_size non-zero pseudo-random bytes with NULs at the given offsets"""
    b = bytearray(rng.randrange(1, 256) for _ in range(ps))
    for o in nuls:
        b[o] = 0
    return bytes(b)


def hexlines(data):
    out = []
    for i in range(0, len(data), 32):
        out.append(" ".join("%02x" % x for x in data[i:i + 32]))
    return "\n".join(out) + "\n"


def runs(pfns):
    """sorted pfns -> list of (first, count)"""
    res = []
    for p in sorted(pfns):
        if res and res[-1][0] + res[-1][1] == p:
            res[-1][1] += 1
        else:
            res.append([p, 1])
    return [(a, n) for a, n in res]


def make_elf(path, pages, voff, ps=PS):
    """ELF64 x86-64 core: one LOAD segment per run of present pages, p_paddr = pfn*ps,
    p_vaddr = p_paddr + voff."""
    data = path + ".data"
    with open(data, "w") as f:
        first = True
        for a, n in runs(pages):
            f.write("@phdr type=LOAD %svaddr=0x%x paddr=0x%x memsz=0x%x\n"
                    % ("offset=0x1000 " if first else "", a * ps + voff, a * ps, n * ps))
            first = False
            for p in range(a, a + n):
                f.write(hexlines(pages[p]))
    cfg = "ei_class = 2\nei_data = 1\ne_machine = 62\ne_phoff = 64\nDATA = %s\n" % data
    r = subprocess.run([os.path.join(TOOLS, "mkelf"), path], input=cfg, stdout=subprocess.PIPE,
                       stderr=subprocess.STDOUT, universal_newlines=True)
    os.unlink(data)
    if r.returncode != 0:
        raise RuntimeError("mkelf failed: " + r.stdout[-500:])


def make_diskdump(path, pages, max_pfn, ps=PS, methods=("raw",), rng=None):
    """makedumpfile-style compressed dump (header version 6, x86_64); every present page gets
    a storage method drawn from `methods`."""
    data = path + ".data"
    with open(data, "w") as f:
        for p in sorted(pages):
            m = rng.choice(methods) if rng else methods[0]
            f.write("@0x%x %s\n" % (p * ps, m))
            f.write(hexlines(pages[p]))
    cfg = ("version = 6\narch_name = x86_64\nblock_size = %d\nphys_base = 0\nmax_mapnr = 0x%x\n"
           "sub_hdr_size = 1\nuts.sysname = Linux\nuts.nodename = verif\nuts.release = 3.4.5-test\n"
           "uts.version = #1\nuts.machine = x86_64\nuts.domainname = (none)\nnr_cpus = 1\nDATA = %s\n"
           % (ps, max_pfn, data))
    r = subprocess.run([os.path.join(TOOLS, "mkdiskdump"), path], input=cfg, stdout=subprocess.PIPE,
                       stderr=subprocess.STDOUT, universal_newlines=True)
    os.unlink(data)
    if r.returncode != 0:
        raise RuntimeError("mkdiskdump failed: " + r.stdout[-500:])
