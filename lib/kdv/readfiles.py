"""Synthetic dump files for the C12 read engine (helper of lib/kdv/props/c12.py).

Files are written with the test suite's own generators (/repo/tests/mkelf, mkdiskdump;
they do not link the library).  A layout is a dict {page frame number: bytes(page_size)} of
present pages; every other page is missing."""
import os
import subprocess

TOOLS = os.environ.get("VERIF_TOOLS", "/repo/tests")
PS = 4096


def page_bytes(rng, ps=PS, nuls=()):
    """page_size non-zero pseudo-random bytes with NULs at the given offsets"""
    b = bytearray(rng.randrange(1, 256) for _ in range(ps))
    for o in nuls:
        b[o] = 0
    return bytes(b)


def hexlines(data):
    out = []
    for i in range(0, len(data), 32):
        out.append(" ".join("%02x" % x for x in data[i:i + 32]))
    return "\n".join(out) + "\n"


def runs(pfns):
    """sorted pfns -> list of (first, count)"""
    res = []
    for p in sorted(pfns):
        if res and res[-1][0] + res[-1][1] == p:
            res[-1][1] += 1
        else:
            res.append([p, 1])
    return [(a, n) for a, n in res]


def make_elf(path, pages, voff, ps=PS):
    """ELF64 x86-64 core: one LOAD segment per run of present pages, p_paddr = pfn*ps,
    p_vaddr = p_paddr + voff."""
    data = path + ".data"
    with open(data, "w") as f:
        first = True
        for a, n in runs(pages):
            f.write("@phdr type=LOAD %svaddr=0x%x paddr=0x%x memsz=0x%x\n"
                    % ("offset=0x1000 " if first else "", a * ps + voff, a * ps, n * ps))
            first = False
            for p in range(a, a + n):
                f.write(hexlines(pages[p]))
    cfg = "ei_class = 2\nei_data = 1\ne_machine = 62\ne_phoff = 64\nDATA = %s\n" % data
    r = subprocess.run([os.path.join(TOOLS, "mkelf"), path], input=cfg, stdout=subprocess.PIPE,
                       stderr=subprocess.STDOUT, universal_newlines=True)
    os.unlink(data)
    if r.returncode != 0:
        raise RuntimeError("mkelf failed: " + r.stdout[-500:])


def make_diskdump(path, pages, max_pfn, ps=PS, methods=("raw",), rng=None):
    """makedumpfile-style compressed dump (header version 6, x86_64); every present page gets
    a storage method drawn from `methods`."""
    data = path + ".data"
    with open(data, "w") as f:
        for p in sorted(pages):
            m = rng.choice(methods) if rng else methods[0]
            f.write("@0x%x %s\n" % (p * ps, m))
            f.write(hexlines(pages[p]))
    cfg = ("version = 6\narch_name = x86_64\nblock_size = %d\nphys_base = 0\nmax_mapnr = 0x%x\n"
           "sub_hdr_size = 1\nuts.sysname = Linux\nuts.nodename = verif\nuts.release = 3.4.5-test\n"
           "uts.version = #1\nuts.machine = x86_64\nuts.domainname = (none)\nnr_cpus = 1\nDATA = %s\n"
           % (ps, max_pfn, data))
    r = subprocess.run([os.path.join(TOOLS, "mkdiskdump"), path], input=cfg, stdout=subprocess.PIPE,
                       stderr=subprocess.STDOUT, universal_newlines=True)
    os.unlink(data)
    if r.returncode != 0:
        raise RuntimeError("mkdiskdump failed: " + r.stdout[-500:])


# section headers, string table and Xen notes of an xc_core (HVM, .xen_pfn) dump
XC_HEAD = '# based on dumps/sle15/domU-hvm/vmcore\n\n@shdr type=NULL\n\n@shdr type=STRTAB name=0x0001 offset=0x200\n00\n# 0x0001\n".shstrtab" 00\n# 0x000b\n".note.Xen" 00\n# 0x0015\n".xen_prstatus" 00\n# 0x0023\n".xen_shared_info" 00\n# 0x0034\n".xen_pages" 00\n# 0x003f\n".xen_pfn" 00\n\n@shdr type=NOTE name=0x000b offset=0x400\n# XEN_ELFNOTE_DUMPCORE_NONE\n00000004 00000000 02000000 "Xen" 00\n\n# XEN_ELFNOTE_DUMPCORE_HEADER\n00000004 00000020 02000001 "Xen" 00\n00000000f00febee # xch_magic\n0000000000000001 # xch_nr_vcpus\n%016x # xch_nr_pages\n0000000000001000 # xch_page_size\n\n# XEN_ELFNOTE_DUMPCORE_XEN_VERSION\n00000004 00000500 02000002 "Xen" 00\n0000000000000004 # major_version\n000000000000000a # minor_version\n".0_14-1" 00*9   # extra_version\n"gcc (SUSE Linux) 7.3.1 20180307 [gcc-7-branch revision 258314]" 00*2\n"abuild" 00*10\n"suse.de" 00*25\n"Thu Mar  1 16:36:03 UTC 2018" 00*4\n"xen-3.0-x86_64 xen-3.0-x86_32p hvm-3.0-x86_32 hvm-3.0-x86_32p hvm-3.0-x86_64"\n00*948\n00*64            # changeset\nffff800000000000 # virt_start\n0000000000001000 # pagesize\n\n# XEN_ELFNOTE_DUMPCORE_FORMAT_VERSION\n00000004 00000008 02000003 "Xen" 00\n0000000000000001\n\n\n'


def make_xc_core(path, order, pages, ps=PS):
    """Xen xc_core ELF (auto-translated guest): .xen_pfn lists the PFNs in `order` (any mixture of
    ascending runs, descending runs and single pages), .xen_pages holds their contents in that order."""
    data = path + ".data"
    with open(data, "w") as f:
        f.write(XC_HEAD % len(order))
        f.write("@shdr type=PROGBITS name=0x003f offset=0x2000\n")
        for p in order:
            f.write("%016x\n" % p)
        off = 0x2000 + ((8 * len(order) + 0xfff) & ~0xfff)
        f.write("\n@shdr type=PROGBITS name=0x0034 offset=0x%x\n" % off)
        for p in order:
            f.write(hexlines(pages[p]))
    cfg = ("ei_class = 2\nei_data = 1\nei_abiversion = 1\ne_machine = 62\ne_shoff = 0x40\n"
           "e_shstrndx = 1\nDATA = %s\n" % data)
    r = subprocess.run([os.path.join(TOOLS, "mkelf"), path], input=cfg, stdout=subprocess.PIPE,
                       stderr=subprocess.STDOUT, universal_newlines=True)
    os.unlink(data)
    if r.returncode != 0:
        raise RuntimeError("mkelf failed: " + r.stdout[-500:])
