"""Case generator for engine "rcache" (C04, addrxlat read cache).

A case is a history of operations on one fresh context, see ml/eng_rcache.ml:
G:as:addr  R:as:addr  B:as:addr  N:as:addr:as2:addr2 (all hex).  Addresses are drawn
from a small pool of regions of the synthetic callback (0x1000-byte pages below 0x10000
and at the top of the address space, 0x100-byte regions elsewhere; block number
mod 8 == 5 resp. 3 fails), so that hits, misses with and without eviction, failures,
addresses just below a cached region (unsigned wrap-around in the hit test) and the
last page of the address space all occur."""

TOP = 0xfffffffffffff000
MAX = (1 << 64) - 1


def _regions(rng):
    pool = [0x0, 0x1000, 0x2000, 0x3000, 0x4000, 0x5000, 0x6000, 0xd000, 0xf000,     # pages (5, d fail)
            0x10000, 0x10100, 0x10200, 0x10300, 0x10400, 0x20000, 0x20b00, 0x7fff00,  # 0x100 regions
            TOP - 0x100, TOP]
    rng.shuffle(pool)
    return pool[:rng.randint(2, 9)]


def _addr(rng, regs, align):
    base = rng.choice(regs)
    size = 0x1000 if (base < 0x10000 or base >= TOP) else 0x100
    k = rng.random()
    if k < 0.15:
        a = base
    elif k < 0.3:
        a = base + size - align
    elif k < 0.4:
        a = base - align            # just below: another region (or wraps below 0)
    elif k < 0.5:
        a = base + size             # just above
    else:
        a = base + rng.randrange(0, size, align)
    return a & MAX & ~(align - 1)


def gen_case(rng, reentrant=False):
    """One history; with reentrant=True some operations have a callback that re-enters."""
    regs = _regions(rng)
    spaces = rng.choice([[0], [0, 1], [0, 1, 2]])
    ops = []
    for _ in range(rng.randint(1, 14)):
        k = rng.random()
        a_as = rng.choice(spaces)
        if reentrant and k < 0.3:
            ops.append("N:%x:%x:%x:%x" % (a_as, _addr(rng, regs, 1), rng.choice(spaces), _addr(rng, regs, 1)))
        elif k < 0.5:
            ops.append("G:%x:%x" % (a_as, _addr(rng, regs, 1)))
        elif k < 0.85:
            ops.append("R:%x:%x" % (a_as, _addr(rng, regs, 8)))
        else:
            ops.append("B:%x:%x" % (a_as, _addr(rng, regs, 1)))
    return " ".join(ops)


def spec_line(case, impl_out):
    """Input line of engine rcache-spec: the case and what the implementation printed for it."""
    return "%s | %s" % (case, impl_out)


def _main():
    """Scratch tie: python3 lib/kdv/rcachegen.py [ncases] [seed]
    (use VERIF_REPO=<tree> VERIF_ENGINES=rcache VERIF_BUILD=<scratch dir>)."""
    import os
    import random
    import sys
    import tempfile
    sys.path.insert(0, os.path.dirname(os.path.dirname(os.path.abspath(__file__))))
    from kdv import core
    core.NPROC = min(core.NPROC, 4)
    n = int(sys.argv[1]) if len(sys.argv) > 1 else 3000
    rng = random.Random(int(sys.argv[2]) if len(sys.argv) > 2 else 1)
    os.makedirs(core.BUILD, exist_ok=True)
    ok, log = core.build_ml_driver()
    if not ok:
        print("model driver build failed:\n" + log)
        return 2
    exe, log = core.cc_build("rcache_drv", "rcache_drv.c", libs=False,
                             sources=core.lib_sources(which=("addrxlat",), exclude=("ctx.c",)))
    if exe is None:
        print("C driver build failed:\n" + log)
        return 2
    work = tempfile.mkdtemp(prefix="rcache-", dir=core.BUILD)
    rc = 0
    for reentrant in (False, True):
        cases = [gen_case(rng, reentrant) for _ in range(n)]
        cf = os.path.join(work, "cases.txt")
        open(cf, "w").write("\n".join(cases) + "\n")
        model = core.run_model("rcache", cf)
        impl, crashes = core.run_impl_lines(exe, work, cases)
        sf = os.path.join(work, "spec.txt")
        open(sf, "w").write("\n".join(spec_line(c, i) for c, i in zip(cases, impl)) + "\n")
        spec = core.run_model("rcache-spec", sf)
        dis = [i for i in range(n) if model[i] != impl[i]]
        bad = [i for i in range(n) if spec[i] != "ok"]
        nops = sum(len(c.split()) for c in cases)
        print("%s histories: %d cases, %d ops, %d distinct; model = implementation on %d; "
              "crashes %d; judged by the cache-less spec: %d ok, %d not"
              % ("re-entrant" if reentrant else "non-re-entrant", n, nops, len(set(cases)),
                 n - len(dis), len(crashes), n - len(bad), len(bad)))
        for i in dis[:3]:
            print("  DISAGREE case  %s\n    model %s\n    impl  %s" % (cases[i], model[i], impl[i]))
            rc = 1
        for i in list(crashes)[:2]:
            print("  CRASH case %s\n%s" % (cases[i], crashes[i][1]))
            rc = 1
        for i in bad[:3]:
            print("  SPEC  case  %s\n    %s" % (cases[i], spec[i]))
        if bad and not reentrant:
            rc = 1
    return rc


if __name__ == "__main__":
    raise SystemExit(_main())
