"""Case generator for engine "rcache" (C04, addrxlat read cache).

A case is a history of operations on one fresh context, see ml/eng_rcache.ml:
G:as:addr  R:as:addr  B:as:addr  N:as:addr:as2:addr2 (all hex).

The synthetic callback (ReadCache.synth_get_page = harness/rcache_drv.c) lays regions out
by the low 16 bits of the address (bit 15 clear: 0x1000-byte pages, set: 0x100-byte
regions; page number mod 8 == 5 / region number mod 8 == 3 fails), so every region has
look-alikes 2^16, 2^31, 2^32, 2*2^32, 2^63 away -- with different bytes.  Histories are
built from plain operations (hits, misses with and without eviction, failures, addresses
just below/above a cached region, the last region of the address space) and from
*collision segments*: touch a region, at most 3 other regions, then G / R / B at the same
offset of a look-alike region (a hit test or data offset computed in fewer than 64 bits
would take the cached slot for it; after a B further misses show which slot is the LRU
victim -- the slot order is printed after every operation anyway)."""

MAX = (1 << 64) - 1
SHIFTS = [1 << 16, 1 << 31, 1 << 32, 2 << 32, 1 << 63]
POOL = [0x0, 0x1000, 0x2000, 0x3000, 0x4000, 0x5000, 0x6000, 0x7000, 0x10000, 0x15000, 0x26000,   # pages
        0x8000, 0x8100, 0x8200, 0x8300, 0x8400, 0xff00, 0x18000, 0x7fff00,                       # 0x100 regions
        1 << 31, 1 << 32, 1 << 63, (1 << 64) - (1 << 32), (1 << 64) - (1 << 32) - 0x100,
        (1 << 64) - 0x100, (1 << 64) - 0x8000]


def region(a):
    """(base, size) of the region of address a, or None if the callback fails there"""
    if (a // 0x8000) % 2 == 0:
        blk = a // 0x1000
        return None if blk % 8 == 5 else (blk * 0x1000, 0x1000)
    blk = a // 0x100
    return None if blk % 8 == 3 else (blk * 0x100, 0x100)


def _size(base):
    return 0x1000 if (base // 0x8000) % 2 == 0 else 0x100


def _addr(rng, base, align, edge=True):
    size = _size(base)
    k = rng.random()
    if k < 0.15:
        a = base
    elif k < 0.3:
        a = base + size - align
    elif edge and k < 0.4:
        a = base - align            # just below: another region (or wraps below 0)
    elif edge and k < 0.5:
        a = base + size             # just above
    else:
        a = base + rng.randrange(0, size, align)
    return a & MAX & ~(align - 1)


def _op(rng, a_as, base, kinds="GGRRRB", edge=True):
    k = rng.choice(kinds)
    return "%s:%x:%x" % (k, a_as, _addr(rng, base, 8 if k == "R" else 1, edge))


def gen_case(rng, reentrant=False):
    """One history; with reentrant=True some operations have a callback that re-enters."""
    spaces = rng.choice([[0], [0, 1], [0, 1, 2]])
    regs = rng.sample(POOL, rng.randint(2, 8))
    for b in list(regs):
        if rng.random() < 0.3:
            regs.append((b + rng.choice(SHIFTS)) & MAX)
    ops = []
    want = rng.randint(1, 14)
    collide = rng.random() < 0.6
    while len(ops) < want:
        a_as = rng.choice(spaces)
        k = rng.random()
        if reentrant and k < 0.3:
            ops.append("N:%x:%x:%x:%x" % (a_as, _addr(rng, rng.choice(regs), 1), rng.choice(spaces),
                                          _addr(rng, rng.choice(regs), 1)))
        elif k < 0.12:
            # failure segment: a region whose fill fails is asked for again (same address and
            # another address of the region): the callback must be called again each time
            f = (rng.choice([0x5000, 0x25000, 0x15000, 0x8300, 0x18b00]) +
                 rng.choice([0, 0, 0x10000, 1 << 31, 1 << 32, 1 << 63])) & MAX
            first = _op(rng, a_as, f, "GR", edge=False)
            ops.append(first)
            others = [b for b in regs if b != f]
            for b in rng.sample(others, min(len(others), rng.randint(0, 2))):
                ops.append(_op(rng, rng.choice(spaces), b, "GR", edge=False))
            ops.append(first if rng.random() < 0.6 else _op(rng, a_as, f, "GR", edge=False))
            ops.append(_op(rng, a_as, f, "GRB", edge=False))
        elif collide and k < 0.55:
            # collision segment: x stays cached while its look-alike y is asked for
            x = rng.choice([b for b in regs if region(b)] or [0x1000])
            d = rng.choice(SHIFTS)
            y = (x + d) & MAX if rng.random() < 0.7 else (x - d) & MAX
            if rng.random() < 0.3:
                x, y = y, x
            ops.append(_op(rng, a_as, x, "GR", edge=False))
            others = [b for b in regs if b != x and b != y]
            for b in rng.sample(others, min(len(others), rng.randint(0, 3))):
                ops.append(_op(rng, rng.choice(spaces), b, "GR", edge=False))
            probe = _op(rng, a_as, y, "GGRRRBB", edge=False)
            ops.append(probe)
            if probe[0] == "B":
                # show the LRU victim: misses on further regions, then the pair again
                for b in rng.sample(others, min(len(others), rng.randint(1, 3))):
                    ops.append(_op(rng, a_as, (b + (1 << 20)) & MAX, "GR", edge=False))
            if rng.random() < 0.5:
                ops.append(_op(rng, a_as, rng.choice([x, y]), "GR", edge=False))
        else:
            ops.append(_op(rng, a_as, rng.choice(regs)))
    return " ".join(ops)


def has_pair(case):
    """the history asks for a look-alike of a region touched at most 4 operations earlier
    (an offset computed in 16, 31, 32 or 63 bits would take the cached slot for it)"""
    ops = []
    for t in case.split():
        f = t.split(":")
        ops.append((f[0], int(f[1], 16), int(f[2], 16)))
    for j, (kj, asj, aj) in enumerate(ops):
        for i in range(max(0, j - 4), j):
            ki, asi, ai = ops[i]
            r = region(ai)
            if ki not in "GR" or asi != asj or r is None:
                continue
            off = (aj - r[0]) & MAX
            if off >= r[1] and any(off % (1 << k) < r[1] for k in (16, 31, 32, 63)):
                return True
    return False


def has_refail(case):
    """a region whose fill fails is requested at least twice"""
    seen = set()
    for t in case.split():
        f = t.split(":")
        if f[0] in "GR":
            a = int(f[2], 16)
            if region(a) is None:
                key = (f[1], a // 0x100 if (a // 0x8000) % 2 else a // 0x1000)
                if key in seen:
                    return True
                seen.add(key)
    return False


def nontrivial(case, impl_out):
    return has_pair(case) or has_refail(case) or impl_out.count(" ") >= 5


def spec_line(case, impl_out):
    """Input line of engine rcache-spec: the case and what the implementation printed for it."""
    return "%s | %s" % (case, impl_out)


def _main():
    """Scratch tie: python3 lib/kdv/rcachegen.py [ncases] [seed]
    (use VERIF_REPO=<tree> VERIF_ENGINES=rcache VERIF_BUILD=<scratch dir>)."""
    import os
    import random
    import sys
    import tempfile
    sys.path.insert(0, os.path.dirname(os.path.dirname(os.path.abspath(__file__))))
    from kdv import core
    core.NPROC = min(core.NPROC, 4)
    n = int(sys.argv[1]) if len(sys.argv) > 1 else 3000
    rng = random.Random(int(sys.argv[2]) if len(sys.argv) > 2 else 1)
    os.makedirs(core.BUILD, exist_ok=True)
    ok, log = core.build_ml_driver()
    if not ok:
        print("model driver build failed:\n" + log)
        return 2
    exe, log = core.cc_build("rcache_drv", "rcache_drv.c", libs=False,
                             sources=core.lib_sources(which=("addrxlat",), exclude=("ctx.c",)))
    if exe is None:
        print("C driver build failed:\n" + log)
        return 2
    work = tempfile.mkdtemp(prefix="rcache-", dir=core.BUILD)
    rc = 0
    for reentrant in (False, True):
        cases = [gen_case(rng, reentrant) for _ in range(n)]
        cf = os.path.join(work, "cases.txt")
        open(cf, "w").write("\n".join(cases) + "\n")
        model = core.run_model("rcache", cf)
        impl, crashes = core.run_impl_lines(exe, work, cases)
        sf = os.path.join(work, "spec.txt")
        open(sf, "w").write("\n".join(spec_line(c, i) for c, i in zip(cases, impl)) + "\n")
        spec = core.run_model("rcache-spec", sf)
        dis = [i for i in range(n) if model[i] != impl[i]]
        bad = [i for i in range(n) if spec[i] != "ok"]
        nops = sum(len(c.split()) for c in cases)
        print("  cases with a look-alike pair: %d, with a repeated failing region: %d of %d"
              % (sum(1 for c in cases if has_pair(c)), sum(1 for c in cases if has_refail(c)), n))
        print("%s histories: %d cases, %d ops, %d distinct; model = implementation on %d; "
              "crashes %d; judged by the cache-less spec: %d ok, %d not"
              % ("re-entrant" if reentrant else "non-re-entrant", n, nops, len(set(cases)),
                 n - len(dis), len(crashes), n - len(bad), len(bad)))
        for i in dis[:3]:
            print("  DISAGREE case  %s\n    model %s\n    impl  %s" % (cases[i], model[i], impl[i]))
            rc = 1
        for i in list(crashes)[:2]:
            print("  CRASH case %s\n%s" % (cases[i], crashes[i][1]))
            rc = 1
        for i in bad[:3]:
            print("  SPEC  case  %s\n    %s" % (cases[i], spec[i]))
        if bad and not reentrant:
            rc = 1
    return rc


if __name__ == "__main__":
    raise SystemExit(_main())
