"""Case generator and comparison for the engines "fcache" / "fcache-spec"
(C04, file-cache layer: model coq/theories/Hist/FcacheChunk.v, driver
harness/fcache_drv.c, engines ml/eng_fcache.ml).

Case line (hex numbers):  <nfiles> <sz0>,<sz1>,.. <pgszlog> <order> <cap> | <op> <op> ...

    G:<f>:<pos>:<mf>:<rf>              fcache_get on file f; a successful get becomes the next handle
    P:<h>                              fcache_put of handle h (ignored when h does not exist / was put)
    R:<f>:<pos>:<len>:<mf>:<rf>        fcache_pread
    K:<f>:<pos>:<len>:<mf>:<rf>:<al>   fcache_get_chunk, read the data, fcache_put_chunk
    H:<f>:<pos>:<len>:<mf>:<rf>:<al>   fcache_get_chunk, kept as the next chunk handle
    Q:<h>                              fcache_put_chunk of chunk handle h
    M:<p>                              mmap policy := p (0 NEVER, 1 ALWAYS, 2 TRY, 3 TRY_ONCE)

<f> is the file index (always below <nfiles>).  <mf>/<rf>/<al> are strings of 0/1 ("-" = none):
the i-th mmap / pread / malloc call that fcache.c makes during the op fails.  The byte of file f
at offset o is (o*31 + o/4096*7 + 5 + 101*f) & 0xff on both sides (the files of a set differ at
every offset); the page size is the system's (4096).

One to three files per case; operations often repeat the range of an earlier operation on ANOTHER
file of the set (same block offsets, different file: the two sub-caches must keep them apart by
the file index in the key), the policy is often NEVER (read-fallback cache) and the caps are small,
so that "still cached" and "evicted" both happen.

What the generator guarantees (so that model and implementation must agree token by token):

* a failure bit is only attached to an operation whose whole range lies in mmap blocks (of that
  file) that no earlier operation of the case touched: the model runs with the replacement oracle
  "drop every unreferenced entry at each miss", the real cache keeps entries, and a failure only
  strikes on a miss -- on untouched blocks both sides miss;
* once an operation carries an mmap failure bit, no later operation of the case touches the
  mmap blocks of its range in that file: the failed mapping stays cached as an unreferenced
  MAP_FAILED entry that answers ERR_SYSTEM until the replacement drops it -- when that happens is
  the real cache's choice, which the model's replacement oracle does not follow;
* positions stay far below 2^63 (off_t overflow is outside the model), except for one fixed
  probe of the guard at the top of fcache_get_chunk;
* handles held by G are mostly kept below cap, sometimes not (BUSY paths).

Geometry of a chunk (entries vs. copy) depends on where the allocator put the buffers; the model
prints the set of results over all adjacency oracles and `compare` accepts membership.
"""

PGSZ = 4096
PGSZLOG = 12
FILESIZES = [0, 1, 100, 4095, 4096, 4097, 8192, 3 * 4096 + 17, 5 * 4096, 8 * 4096 + 1,
             12 * 4096 + 4000, 16 * 4096]
MAXHELD = 6


def _bits(rng, n, p):
    s = "".join("1" if rng.random() < p else "0" for _ in range(n))
    return s if "1" in s else "-"


def _positions(filesz, mmapsz):
    ceil = (filesz + PGSZ - 1) // PGSZ * PGSZ
    base = {0, filesz, ceil, ceil + PGSZ, ceil + 2 * PGSZ}
    for k in range(0, ceil // PGSZ + 3):
        base.add(k * PGSZ)
    for k in range(0, ceil // mmapsz + 2):
        base.add(k * mmapsz)
    out = set()
    for b in base:
        for d in (0, 0, 1, -1, 17, -17, 2048, -100):
            if b + d >= 0:
                out.add(b + d)
    return sorted(out)


def gen_case(rng, maxops=10):
    """One history as a case line.  Uses only `rng` (a random.Random)."""
    nfiles = rng.choice([1, 2, 2, 2, 3, 3])
    sizes = []
    for _ in range(nfiles):
        sz = rng.choice(FILESIZES)
        if rng.random() < 0.15:
            sz = rng.randint(0, 17 * PGSZ)
        sizes.append(sz)
    if nfiles > 1 and rng.random() < 0.4:
        sizes = [sizes[0]] * nfiles                 # equal sizes: only the contents differ
    order = rng.choice([0, 1, 2])
    cap = rng.choice([1, 2, 2, 3, 4])
    mmapsz = PGSZ << order
    poss = [_positions(sz, mmapsz) for sz in sizes]
    ceils = [(sz + PGSZ - 1) // PGSZ * PGSZ for sz in sizes]
    touched = set()          # (file, mmap block) some earlier op may have put into a cache
    poisoned = set()         # (file, mmap block) that may hold a cached MAP_FAILED
    ranges = []              # (file, pos, len) of earlier range operations
    held = []                # handle numbers we believe are live
    nhandles = 0
    chunks = []              # chunk handles we believe are live: (number, entries)
    nchunks = 0
    ops = []
    if rng.random() < 0.4:
        ops.append("M:0")    # read-fallback cache from the start
    # failures are only comparable on untouched blocks: put them early, in some cases
    fail_budget = rng.choice([0, 0, 1, 2]) if rng.random() < 0.4 else 0

    def blocks(f, pos, ln):
        return set((f, b) for b in range(pos // mmapsz, (pos + max(ln, 1) - 1) // mmapsz + 1))

    def pick_range1(within):
        if nfiles > 1 and ranges and rng.random() < 0.5:
            # the range of an earlier operation, on another file of the set
            f0, pos, ln = rng.choice(ranges)
            f = rng.choice([x for x in range(nfiles) if x != f0])
            if rng.random() < 0.3:
                pos = pos // PGSZ * PGSZ + rng.choice([0, 1, 17, 2048])
            return f, pos, ln
        f = rng.randrange(nfiles)
        ceil = ceils[f]
        pos = rng.choice(poss[f])
        r = rng.random()
        if r < 0.08:
            ln = 0
        elif r < 0.3:
            ln = rng.choice([1, 2, 17, 100])
        elif r < 0.6:
            ln = rng.choice([PGSZ - 1, PGSZ, PGSZ + 1, 2 * PGSZ, 2 * PGSZ + 5])
        else:
            ln = rng.randint(1, 5 * PGSZ)
        if within and pos + ln > ceil:
            if pos >= ceil:
                pos = rng.choice([p for p in poss[f] if p <= ceil])
            ln = min(ln, ceil - pos)
        return f, pos, ln

    def pick_range(within):
        for _ in range(20):
            f, pos, ln = pick_range1(within)
            if not (blocks(f, pos, ln) & poisoned):
                return f, pos, ln
        return None, None, None

    for _ in range(rng.randint(1, maxops)):
        k = rng.random()
        refs = len(held) + sum(n for _, n in chunks)
        if k < 0.10:
            ops.append("M:%x" % rng.choice([0, 0, 0, 1, 2, 3, 3]))
        elif k < 0.30:
            # hold an entry; mostly leave one slot free, sometimes fill the cache
            if refs >= cap - 1 and rng.random() < 0.8 and held:
                h = held.pop(rng.randrange(len(held)))
                ops.append("P:%x" % h)
                continue
            if len(held) >= MAXHELD:
                continue
            f, pos, _ = pick_range(rng.random() < 0.85)
            if pos is None or (blocks(f, pos, 1) & poisoned):
                continue
            mf = rf = "-"
            if fail_budget and not (blocks(f, pos, 1) & touched) and rng.random() < 0.6:
                fail_budget -= 1
                mf, rf = _bits(rng, 1, 0.5), _bits(rng, 1, 0.5)
            ops.append("G:%x:%x:%s:%s" % (f, pos, mf, rf))
            touched |= blocks(f, pos, 1)
            ranges.append((f, pos, 1))
            if mf != "-":
                poisoned |= blocks(f, pos, 1)
            held.append(nhandles)      # if the get fails the handle number is reused: harmless
            nhandles += 1
        elif k < 0.40:
            if held and rng.random() < 0.9:
                h = held.pop(rng.randrange(len(held)))
            else:
                h = rng.randint(0, nhandles + 1)      # stale or unknown handle: ignored
            ops.append("P:%x" % h)
        elif k < 0.68:
            f, pos, ln = pick_range(rng.random() < 0.8)
            if pos is None:
                continue
            mf = rf = "-"
            if fail_budget and not (blocks(f, pos, ln) & touched) and rng.random() < 0.7:
                fail_budget -= 1
                n = ln // PGSZ + 2
                mf, rf = _bits(rng, n, 0.3), _bits(rng, n, 0.3)
            ops.append("R:%x:%x:%x:%s:%s" % (f, pos, ln, mf, rf))
            touched |= blocks(f, pos, ln)
            ranges.append((f, pos, ln))
            if mf != "-":
                poisoned |= blocks(f, pos, ln)
        elif k < 0.95:
            f, pos, ln = pick_range(rng.random() < 0.8)
            if pos is None:
                continue
            mf = rf = al = "-"
            if rng.random() < 0.12:
                al = _bits(rng, 2, 0.5)               # malloc failures do not depend on hits
            if fail_budget and not (blocks(f, pos, ln) & touched) and rng.random() < 0.7:
                fail_budget -= 1
                n = ln // PGSZ + 2
                mf, rf = _bits(rng, n, 0.3), _bits(rng, n, 0.3)
            hold = rng.random() < 0.08 and len(chunks) < 2
            ops.append("%s:%x:%x:%x:%s:%s:%s" % ("H" if hold else "K", f, pos, ln, mf, rf, al))
            touched |= blocks(f, pos, ln)
            ranges.append((f, pos, ln))
            if mf != "-":
                poisoned |= blocks(f, pos, ln)
            if hold:
                chunks.append((nchunks, ln // PGSZ + 1))
                nchunks += 1
        else:
            if chunks and rng.random() < 0.9:
                h, _ = chunks.pop(rng.randrange(len(chunks)))
            else:
                h = rng.randint(0, nchunks + 1)
            ops.append("Q:%x" % h)
    if rng.random() < 0.01:
        ops.append("K:0:7ffffffffffffff0:20:-:-:-")     # guard: last byte beyond OFF_T_MAX
    return "%x %s %x %x %x | %s" % (nfiles, ",".join("%x" % z for z in sizes), PGSZLOG, order, cap,
                                     " ".join(ops))


def spec_line(case, impl_out):
    """Input line of the engine "fcache-spec": the case and the implementation's answer."""
    return "%s # %s" % (case, impl_out)


def compare(case, model_out, impl_out):
    """None when the implementation's line is one the model allows, else the reason.

    Tokens are compared one by one; a model token K{a|b|..}/H{..} accepts any listed
    alternative; after a model token "~" (alternatives left different states behind) the
    rest of the line is not compared."""
    mt = model_out.split()
    it = impl_out.split()
    ops = case.split("|", 1)[1].split()
    for i, m in enumerate(mt):
        if m == "~":
            return None
        if i >= len(it):
            return "implementation's line ends early (model: %s)" % m
        t = it[i]
        if "{" in m:
            tag, alts = m[0], m[2:-1].split("|")
            if not (t and t[0] == tag and t[1:] in alts):
                return "op %d (%s): implementation %s, model allows %s" % (
                    i, ops[i] if i < len(ops) else "=", t, m)
        elif m != t:
            return "op %d (%s): implementation %s, model %s" % (
                i, ops[i] if i < len(ops) else "=", t, m)
    if len(it) != len(mt):
        return "implementation's line is longer than the model's"
    return None


def nontrivial(case, impl_out):
    """A case exercises something when a multi-entry chunk, an error status or a policy change occurs."""
    return any(t[:2] in ("K1", "K3", "K8", "R1", "R3", "R8", "G1", "G3", "G8") or
               (t.startswith(("K0:", "H0:")) and not t.startswith(("K0:1:", "H0:1:")))
               for t in impl_out.split()) or " M:" in case
