"""Dump files for the history/concurrency engines (C04, C05), written with the
test-suite's own writers /repo/tests/mk{diskdump,elf,lkcd,sadump}.

Every generator returns a dict
  { "fmt", "files": [paths], "ostype": str, "pages": {pfn: kind}, "page_size",
    "spaces": [address spaces worth reading], "vbase": {..}, "desc": str }
and is a pure function of the random generator passed in."""
import os
import subprocess

TOOLS = os.environ.get("VERIF_MKTOOLS", "/repo/tests")
PAGE = 4096

UTS = """uts.sysname = Linux
uts.nodename = test-node
uts.release = 3.4.5-test
uts.version = #1 SMP Fri Jan 22 14:02:42 UTC 2016 (1234567)
uts.machine = x86_64
uts.domainname = (none)
"""

SADUMP_CPU = """@cpu 0
0000000000000000*58
"gdth" "ldth" "idth"
00000000*3
"io_eip  "
0000000000000000*10
"cr4 "
00000000*18
"gdtl" "gdtx"
"idtl" "idtx"
"ldtl" "ldtx"
"ldti"
0000000000000000*6
"eptp    "
"eptp"
00000000*5
"smbs"
"smid"
"io"
"hl"
00000000*6
"r15     " "r14     " "r13     " "r12     "
"r11     " "r10     " "r9      " "r8      "
"rax     " "rcx     " "rdx     " "rbx     "
"rsp     " "rbp     " "rsi     " "rdi     "
"io_mem_a"
"io_m"
"es  " "cs  " "ss  " "ds  " "fs  " "gs  "
"ldtr"
"tr  "
"dr7     " "dr6     "
"rip     "
0000000000000d01
0000000000000046
"cr3     "
0000000080050033
"""


def tool(name, out, cfg):
    p = subprocess.run([os.path.join(TOOLS, name), out], input=cfg.encode(),
                       stdout=subprocess.PIPE, stderr=subprocess.STDOUT, timeout=60)
    if p.returncode != 0:
        raise RuntimeError("%s failed (%d): %s\n%s" % (name, p.returncode, p.stdout.decode(errors="replace"), cfg))


def page_lines(rng, pfn, n=PAGE, compressible=False):
    """Content of one page as data-file lines; the content names the frame.
    compressible=True: only contents that RLE and deflate shrink."""
    k = rng.random()
    if compressible:
        k *= 0.35
    if k < 0.25:
        return ["%02x*%d" % ((pfn * 7 + 1) & 0xff, n)]          # very compressible
    if k < 0.35:
        # a NUL-free run followed by NULs (exercises read_string across the page)
        m = rng.choice([1, 17, n - 1, n // 2])
        return ["%02x*%d" % (0x41 + pfn % 26, m), "00*%d" % (n - m)]
    out = []
    seed = (pfn * 2654435761 + rng.randrange(1 << 16)) & 0xffffffff
    left = n
    while left > 0:
        row = []
        for _ in range(min(16, left)):
            seed = (seed * 1103515245 + 12345) & 0x7fffffff
            row.append("%02x" % ((seed >> 16) & 0xff))
        # repeat each 16-byte row a few times: moderately compressible
        rep = min(rng.choice([1, 1, 4, 16]), left // len(row))
        for _ in range(max(rep, 1)):
            out.append(" ".join(row))
        left -= len(row) * max(rep, 1)
    return out


def gen_diskdump(rng, work, tag):
    npages = rng.choice([4, 9, 16, 33])
    methods = ["raw", "zlib", "snappy", "zstd"]
    pages = {}
    lines = []
    order = list(range(npages))
    for pfn in order:
        r = rng.random()
        if r < 0.2:
            continue                              # never dumped (bit clear in both bitmaps)
        if r < 0.35:
            pages[pfn] = "exclude"
            lines.append("@0x%x exclude" % (pfn * PAGE))
            lines.append("00*%d" % PAGE)
            continue
        m = rng.choice(methods)
        pages[pfn] = m
        lines.append("@0x%x %s" % (pfn * PAGE, m))
        lines += page_lines(rng, pfn)
    if not any(v != "exclude" for v in pages.values()):
        pages[0] = "raw"
        lines += ["@0x0 raw"] + page_lines(rng, 0)
    data = os.path.join(work, tag + ".data")
    open(data, "w").write("\n".join(lines) + "\n")
    flat = rng.random() < 0.3
    nsplit = rng.choice([1, 1, 1, 2, 3])
    base = ("version = 6\narch_name = x86_64\nblock_size = %d\nphys_base = 0\nmax_mapnr = 0x%x\n"
            "sub_hdr_size = 1\n%snr_cpus = 1\n" % (PAGE, npages, UTS))
    if flat:
        base += "flattened = yes\n"
    files = []
    if nsplit > 1 and len([p for p, v in pages.items() if v != "exclude"]) < 2:
        nsplit = 1
    if nsplit == 1:
        f = os.path.join(work, tag + ".dump")
        tool("mkdiskdump", f, base + "DATA = %s\n" % data)
        files.append(f)
    else:
        # every window must hold a dumped page (an empty window runs into the crash half of
        # defect #5, owned by C07): cut only between dumped frames
        dumped = sorted(p for p, v in pages.items() if v != "exclude")
        nsplit = min(nsplit, len(dumped))
        cuts = sorted(rng.sample(dumped[1:], nsplit - 1)) if nsplit > 1 else []
        bounds = [0] + cuts + [npages]
        for i in range(nsplit):
            f = os.path.join(work, "%s.dump.%d" % (tag, i))
            tool("mkdiskdump", f, base + "split = 1\nstart_pfn = %d\nend_pfn = %d\nDATA = %s\n"
                 % (bounds[i], bounds[i + 1], data))
            files.append(f)
        rng.shuffle(files)
    return {"fmt": "diskdump", "files": files, "ostype": "", "pages": pages, "npages": npages,
            "spaces": [0, 1, 2], "vbase": {2: 0xffff880000000000},
            "desc": "diskdump %d pages flat=%s split=%d" % (npages, flat, nsplit)}


def gen_elf(rng, work, tag, straddle=None):
    """ELF64 x86_64 core; LOAD segments with distinct virtual and physical
    layouts (virtual order differs from physical order), memsz > filesz, holes,
    segments that do not start on a page boundary.  Overlapping segments are
    not generated (DESIGN.md section 8 (ii))."""
    nseg = rng.choice([1, 2, 3, 4])
    lines = []
    phys = rng.choice([0, PAGE, 0x10000])
    vbases = [0xffffffff80000000, 0xffff880000000000, 0xffffc90000000000, 0x400000]
    rng.shuffle(vbases)
    segs = []
    off = 0x1000
    clash = rng.randrange(1, nseg) if (nseg > 1 and rng.random() < 0.35) else None   # one segment only
    for i in range(nseg):
        filepages = rng.choice([1, 2, 3, 5])
        frac = rng.choice([0, 0, 0x200, 0x800])          # fractional last page
        filesz = filepages * PAGE - frac
        memsz = filesz + rng.choice([0, 0, PAGE, 0x300])
        start_off = rng.choice([0, 0, 0, 0x400])         # segment not page aligned
        p = phys + start_off
        v = vbases[i] + (p & 0xffffff)
        if clash == i:
            # virtual range numerically inside the physical range of an earlier segment
            # (different content at the same number in two address spaces)
            v = segs[-1][0] + rng.choice([0, 0x200, PAGE])
        lines.append("@phdr type=LOAD offset=0x%x vaddr=0x%x paddr=0x%x memsz=0x%x"
                     % (off, v, p, memsz) if i == 0 else
                     "@phdr type=LOAD vaddr=0x%x paddr=0x%x memsz=0x%x" % (v, p, memsz))
        left = filesz
        pfn = p // PAGE
        while left > 0:
            n = min(PAGE, left)
            lines += page_lines(rng, pfn, n)
            left -= n
            pfn += 1
        segs.append((p, v, filesz, memsz))
        off += filesz
        if straddle if straddle is not None else rng.random() < 0.3:
            # the next segment starts in the page in which this one ends: that page straddles
            # two (or more) LOAD segments and is assembled by elf_read_page through the page cache
            phys = p + memsz + rng.choice([0, 0x100, 0x300])
        else:
            phys = ((p + memsz + PAGE - 1) // PAGE) * PAGE + rng.choice([0, 0, PAGE, 3 * PAGE])
    data = os.path.join(work, tag + ".data")
    open(data, "w").write("\n".join(lines) + "\n")
    f = os.path.join(work, tag + ".dump")
    flat = rng.random() < 0.25
    tool("mkelf", f, "%sei_class = 2\nei_data = 1\ne_machine = 62\ne_phoff = 64\nDATA = %s\n"
         % ("flattened = yes\n" if flat else "", data))
    return {"fmt": "elf", "files": [f], "ostype": "", "segs": segs, "spaces": [1, 2, 0],
            "npages": phys // PAGE + 1, "pages": {},
            "desc": "elf %d segments flat=%s" % (nseg, flat)}


def gen_lkcd(rng, work, tag, out_of_order=None):
    """LKCD v9 stream.  Page order: sorted, shuffled, or interleaved runs (the
    lazily built index depends on it)."""
    compression = rng.choice([0, 1, 2])
    n = rng.choice([5, 8, 12, 20])
    span = rng.choice([n + 2, 3 * n, 64])
    base = rng.choice([0, 0, 0, 4096 - 8, (1 << 22) - 5])   # runs crossing index-table boundaries
    pfns = sorted(base + x for x in rng.sample(range(span), n))
    mode = out_of_order if out_of_order is not None else rng.choice([0, 0, 1, 2])
    if mode == 1:
        rng.shuffle(pfns)
    elif mode == 2:
        k = rng.randrange(1, n)
        a, b = pfns[:k], pfns[k:]
        pfns = b + a if rng.random() < 0.5 else [x for p in zip(a, b) for x in p] + a[len(b):] + b[len(a):]
    lines = []
    for pfn in pfns:
        fl = "raw" if compression == 0 or rng.random() < 0.3 else "compress"
        lines.append("@0x%x %s" % (pfn * PAGE, fl))
        lines += page_lines(rng, pfn)
    lines.append("@0 end")
    data = os.path.join(work, tag + ".data")
    open(data, "w").write("\n".join(lines) + "\n")
    f = os.path.join(work, tag + ".dump")
    tool("mklkcd", f, "arch_name = x86_64\npage_shift = 12\npage_offset = 0xffff880000000000\n"
         "NR_CPUS = 8\nnum_cpus = 1\ncompression = %d\nDATA = %s\n" % (compression, data))
    return {"fmt": "lkcd", "files": [f], "ostype": "", "pages": {p: "x" for p in pfns}, "order": pfns,
            "npages": base + span, "lo": base, "spaces": [0, 1, 2], "vbase": {2: 0xffff880000000000},
            "sorted": pfns == sorted(pfns),
            "desc": "lkcd %d pages order=%s compression=%d" % (n, " ".join(map(str, pfns)), compression)}


def gen_sadump(rng, work, tag):
    n = rng.choice([3, 6, 10])
    span = rng.choice([n + 1, 2 * n, 40])
    pfns = sorted(rng.sample(range(span), n))
    lines = []
    for pfn in pfns:
        lines.append("@0x%x" % (pfn * PAGE))
        lines += page_lines(rng, pfn)
    data = os.path.join(work, tag + ".data")
    open(data, "w").write("\n".join(lines) + "\n" + SADUMP_CPU)
    f = os.path.join(work, tag + ".dump")
    tool("mksadump", f, "type = single\ndisk_num = 1\nset_disk_set = 0\nblock_size = %d\n"
         "max_mapnr = 0x%x\nnr_cpus = 1\nDATA = %s\n" % (PAGE, max(span, 64), data))
    return {"fmt": "sadump", "files": [f], "ostype": "", "pages": {p: "x" for p in pfns},
            "npages": span, "spaces": [0, 1, 2], "vbase": {},
            "desc": "sadump %d pages of %d" % (n, span)}


def hexlines(b):
    return [" ".join("%02x" % x for x in b[i:i + 32]) for i in range(0, len(b), 32)]


def gen_diskdump_pt(rng, work, tag, far=False, excl=False):
    """x86_64 Linux diskdump with a real 4-level page table in the dumped memory
    (root found through VMCOREINFO SYMBOL(init_level4_pgt) and phys_base = 0), so
    that KVADDR reads in the vmalloc range walk the tables through addrxlat's
    4-slot read cache and pin page-cache entries, while KVADDR reads in the direct
    mapping are linear.  Several PTE pages: one walk sequence touches more than 4
    distinct table pages.
    far=True: the page-table pages of one level lie 2^16, 2^31, 2^32 or 2*2^32 bytes apart
    (addresses that collide under a narrowing cast of the read cache's offset computation) and
    use the same entry indices with different targets."""
    import struct
    V = 0xffffc90000000000
    pages = {}                        # pfn -> bytes
    apart = [0x10, 0x80000, 0x100000, 0x100000, 0x200000]      # in pages

    def place(pfn, k):
        """frame of the k-th table page of a level"""
        return pfn if (not far or k == 0) else pfn + rng.choice(apart) * k

    def table(entries):
        b = bytearray(PAGE)
        for i, v in entries.items():
            b[i * 8:i * 8 + 8] = struct.pack("<Q", v)
        return bytes(b)

    # pfn 2 PGD, 3 PUD, 4..5 PMD, 6.. PTE pages; data frames from 0x20
    npmd = 2 if far else rng.choice([1, 2])
    pte_pfn = 6
    npte = 0
    data_pfn = 0x20
    vaddrs = []
    pud = {}
    methods = {}
    for pi in range(npmd):
        pmd = {}
        for mi in range(rng.choice([2, 3]) if far else rng.choice([1, 2, 3])):
            pte = {}
            for ti in sorted(rng.sample(range(6 if far else 512), rng.choice([2, 4] if far else [1, 2, 4]))):
                present = rng.random() < 0.9
                pte[ti] = (data_pfn << 12) | (0x63 if present else 0x62)
                va = V + (pi << 30) + (mi << 21) + (ti << 12)
                if rng.random() < 0.85:
                    pages[data_pfn] = None          # filled below
                vaddrs.append(va)
                data_pfn += rng.choice([1, 1, 2])
            ppfn = place(pte_pfn, npte) if far else pte_pfn
            if far:
                npte += 1
            else:
                pte_pfn += 1
            pages[ppfn] = table(pte)
            pmd[mi] = (ppfn << 12) | 0x67
        mpfn = place(4, pi)
        pages[mpfn] = table(pmd)
        pud[pi] = (mpfn << 12) | 0x67
    pages[3] = table(pud)
    pages[2] = table({(V >> 39) & 511: (3 << 12) | 0x67})
    for p in (0, 1):
        pages[p] = None
    lines = []
    kinds = {}
    for pfn in sorted(pages):
        if pages[pfn] is None:
            m = rng.choice(["raw", "zlib", "snappy", "zstd"])
            lines.append("@0x%x %s" % (pfn * PAGE, m))
            lines += page_lines(rng, pfn)
        else:
            # a table page may be excluded from the dump (walk fails, or reads zeroes with zero_excluded)
            m = "exclude" if (pfn >= 6 and not far and (rng.random() < 0.1 or (excl and pfn == 6))) \
                else rng.choice(["raw", "zlib"])
            lines.append("@0x%x %s" % (pfn * PAGE, m))
            lines += hexlines(pages[pfn])
        kinds[pfn] = m
    data = os.path.join(work, tag + ".data")
    open(data, "w").write("\n".join(lines) + "\n")
    vmci = os.path.join(work, tag + ".vmci")
    open(vmci, "w").write("OSRELEASE=3.4.5-test\nPAGESIZE=4096\nSYMBOL(init_level4_pgt)=ffffffff80002000\n"
                          "SYMBOL(_stext)=ffffffff80000000\n")
    npages = data_pfn + 2
    f = os.path.join(work, tag + ".dump")
    tool("mkdiskdump", f, "version = 3\narch_name = x86_64\nblock_size = %d\nphys_base = 0\nmax_mapnr = 0x%x\n"
         "sub_hdr_size = 1\n%snr_cpus = 1\nVMCOREINFO = %s\nDATA = %s\n"
         % (PAGE, max(pages) + 2, UTS, vmci, data))
    return {"fmt": "diskdump-pt-far" if far else "diskdump-pt", "files": [f], "ostype": "linux", "pages": kinds, "npages": npages,
            "spaces": [2, 2, 2, 0, 1], "vbase": {2: 0xffff880000000000}, "vaddrs": vaddrs,
            "desc": "diskdump with page tables: %d mapped virtual pages, %d frames" % (len(vaddrs), len(pages))}


def gen_lkcd_faroff(rng, work, tag):
    """LKCD stream whose out-of-order pages lie more than 4 GiB (the 32-bit block offset
    limit) behind the start of the index block they fall into, so that scanning them makes
    search_page_desc() split the block (split_pfn_block / alloc_tail_pfn_block) — with tails of
    several already indexed pages.  The far distance is a hole in a sparse file (mklkcd
    `skip=`), so the dump costs a few pages of disk."""
    compression = rng.choice([0, 1, 2])
    n = rng.choice([6, 8, 10])
    base = rng.choice([0, 0, 3, 4096 - 4])
    idxs = list(range(n))
    # pages left out of the first pass (filled in after the hole); never the first page,
    # and at least two indexed pages stay behind the first gap
    ngap = rng.choice([1, 1, 2])
    gaps = sorted(rng.sample(range(1, n - 2), ngap))
    first = [i for i in idxs if i not in gaps]
    unsorted = rng.random() < 0.25
    if unsorted:
        head, rest = first[:1], first[1:]
        rng.shuffle(rest)
        first = head + rest
        unsorted = rest != sorted(rest)
    lines = []
    order = []

    def page(pfn):
        fl = "raw" if compression == 0 or rng.random() < 0.3 else "compress"
        lines.append("@0x%x %s" % (pfn * PAGE, fl))
        lines.extend(page_lines(rng, pfn, compressible=(fl == "compress")))
        order.append(pfn)
    for i in first:
        page(base + i)
    for k in range(2):
        lines.append("@0x%x skip=0x%x raw" % (0x100000000 * (k + 1), rng.choice([0xa0000000, 0x90000000])))
    late = list(gaps)
    rng.shuffle(late)
    for i in late:
        page(base + i)
    if rng.random() < 0.5:
        page(base + n + rng.choice([0, 3]))
    lines.append("@0 end")
    data = os.path.join(work, tag + ".data")
    open(data, "w").write("\n".join(lines) + "\n")
    f = os.path.join(work, tag + ".dump")
    tool("mklkcd", f, "arch_name = x86_64\npage_shift = 12\npage_offset = 0xffff880000000000\n"
         "NR_CPUS = 8\nnum_cpus = 1\ncompression = %d\nDATA = %s\n" % (compression, data))
    return {"fmt": "lkcd-faroff", "files": [f], "ostype": "", "pages": {p: "x" for p in order}, "order": order,
            "npages": base + n + 4, "lo": base, "spaces": [1, 1, 0, 2], "vbase": {2: 0xffff880000000000},
            "sorted": False, "tail_unsorted": unsorted,
            "desc": "lkcd far-off (block split) order=%s | 2 holes | compression=%d"
                    % (" ".join(map(str, order)), compression)}


def gen_diskdump_split_never(rng, work, tag):
    """Split diskdump (2-3 files, raw pages so that page data sit at page-aligned, equal
    offsets in the files); histories for it start with file.mmap_policy = never (read(2)
    fallback cache, keyed by block | file index) — see gen_history."""
    while True:
        d = gen_diskdump(rng, work, tag)
        if len(d["files"]) > 1:
            d["fmt"] = "diskdump-split-never"
            return d


def gen_diskdump_pt_excl(rng, work, tag):
    """Page tables with an excluded (unreadable) PTE page: a translated read fails there; the
    history then sets file.zero_excluded and repeats the reads (gen_history): the failed
    page-table read must not stay in libaddrxlat's read cache."""
    d = gen_diskdump_pt(rng, work, tag, excl=True)
    d["fmt"] = "diskdump-pt-excl"
    return d


def gen_diskdump_pt_far(rng, work, tag):
    return gen_diskdump_pt(rng, work, tag, far=True)


def gen_diskdump_bigmap(rng, work, tag):
    """A diskdump whose page bitmap is larger than the file cache has slots (frames beyond
    2 GiB): one fixed history, see gen_history (finding C04-bitmap-chunk-busy)."""
    d = gen_diskdump_pt(rng, work, tag, far=True)
    d["fmt"] = "diskdump-bigmap"
    return d


GENS = {"diskdump": gen_diskdump, "diskdump-pt": gen_diskdump_pt, "diskdump-pt-far": gen_diskdump_pt_far, "diskdump-pt-excl": gen_diskdump_pt_excl,
        "diskdump-bigmap": gen_diskdump_bigmap, "elf": gen_elf, "lkcd": gen_lkcd,
        "lkcd-faroff": gen_lkcd_faroff, "sadump": gen_sadump,
        "diskdump-split-never": gen_diskdump_split_never}


def gen_dump(rng, work, tag, fmt=None):
    fmt = fmt or rng.choice(["diskdump", "diskdump", "diskdump-pt", "diskdump-pt", "elf", "elf", "lkcd", "lkcd", "sadump"])
    d = GENS[fmt](rng, work, tag)
    return d


def gen_history(rng, d, nops):
    """A random history over dump `d` (hist_drv op syntax)."""
    ops = []
    np_ = d["npages"] + 2
    attrs = ["arch.name", "arch.page_size", "arch.byte_order", "file.format", "max_pfn",
             "memory.pagemap", "file.pagemap", "linux.uts.release", "cpu.number", "arch.ptr_size",
             "addrxlat.ostype", "linux.version_code", "file", "cpu", "linux.vmcoreinfo.lines", "linux", "arch"]

    def addr(space):
        if d["fmt"] == "elf":
            p, v, fs, ms = rng.choice(d["segs"])
            base = v if space == 2 else p
            span = ms + PAGE
            a = base + rng.choice([0, rng.randrange(span), fs - 1, fs, ms - 1, ms, -1, -PAGE])
            return max(a, 0)
        if space == 2 and d.get("vaddrs") and rng.random() < 0.8:
            return rng.choice(d["vaddrs"]) + rng.choice([0, 0, 8, PAGE - 8, PAGE - 1, rng.randrange(PAGE)])
        pfn = rng.randrange(d.get("lo", 0), np_)
        if d["pages"] and rng.random() < 0.6:
            pfn = rng.choice(list(d["pages"]))
        a = pfn * PAGE + rng.choice([0, 0, 1, PAGE - 1, PAGE - 8, rng.randrange(PAGE)])
        if space == 2:
            a += d.get("vbase", {}).get(2, 0)
        return a

    if d["fmt"] == "diskdump-pt-excl":
        va = list(d["vaddrs"])
        rng.shuffle(va)
        reads = ["R:2:%x:8" % (a + rng.choice([0, 8, 0xff8])) for a in va[:12]]
        tail = [o for o in gen_history(rng, dict(d, fmt="diskdump-pt"), max(nops - 8, 2)) if o[0] not in "ZM"]
        return reads + ["Z:1"] + reads + tail
    if d["fmt"] == "diskdump-bigmap":
        # file.mmap_policy = never, then the lazily read memory.pagemap: its bitmap is one chunk of
        # more pages than the read(2) fallback cache has slots
        return ["M:0", "Bs:m:0", "A:memory.pagemap"]
    if d["fmt"] == "diskdump-split-never":
        ops.append("M:0")
        if rng.random() < 0.5:
            ops.append("C:%x" % rng.choice([1, 2]))       # small page cache: pages are re-read from the file cache
        pf = [p for p, v in d["pages"].items() if v != "exclude"]
        rng.shuffle(pf)
        for p in pf[:rng.randint(2, 8)]:
            ops.append("R:1:%x:%x" % (p * PAGE, rng.choice([8, PAGE])))
    for _ in range(nops):
        k = rng.random()
        if d["fmt"] == "diskdump-pt-far" and 0.83 <= k < 0.93:
            k = 0.05            # no policy changes here: see diskdump-bigmap
        if d["fmt"] == "diskdump-split-never" and 0.83 <= k < 0.93:
            k = 0.1                                        # stay on the read(2) path
        sp = rng.choice(d["spaces"])
        if k < 0.40:
            ln = rng.choice([1, 8, 16, 64, PAGE, PAGE + 1, 2 * PAGE, 3 * PAGE + 5, rng.randrange(1, 300)])
            ops.append("R:%x:%x:%x" % (sp, addr(sp), ln))
        elif k < 0.45:
            ops.append("S:%x:%x" % (sp, addr(sp)))
        elif k < 0.60:
            m = rng.choice("fm")
            first = rng.randrange(d.get("lo", 0), np_)
            kind = rng.random()
            if kind < 0.4:
                ops.append("Bg:%s:%x:%x" % (m, first, first + rng.choice([0, 7, 8, 31, 63, 100])))
            elif kind < 0.7:
                ops.append("Bs:%s:%x" % (m, first))
            else:
                ops.append("Bc:%s:%x" % (m, first))
        elif k < 0.70:
            ops.append("A:" + rng.choice(attrs))
        elif k < 0.73:
            ops.append("T")
        elif k < 0.83:
            ops.append("C:%x" % rng.choice([1, 2, 3, 8]))
        elif k < 0.93:
            ops.append("M:%x" % rng.choice([0, 1, 2, 3]))
        else:
            ops.append("Z:%x" % rng.choice([0, 1]))
    return ops
