"""Small dump files of every format for the C15/C18 engines, made with the test
suite's own writers (tests/mkdiskdump, mkelf, mklkcd, mksadump).

All files carry the same memory image: page 0 (pattern), page 1 (string "linux"), pages 3-4 (a
string of 4112 bytes crossing the page boundary),
a three-level x86-64 page table at 0x2e10000.. mapping virtual 0 to the 2 MiB page at
0x2000000 whose first bytes are 01 23 45 67 89 ab cd ef and which holds a struct
new_utsname at offset 0x100 (kernel virtual 0x100 through the page table) (the layout of the suite's
multixlat test)."""
import os
import subprocess

from . import core

ROOTPGT = 0x2e10000

PAGES = [
    (0x0, "55*0x100\naa*0x100\n00*3584"),
    (0x1000, "6c 69 6e 75 78 00\n00*4090"),
    (0x3000, "41*4096"),                     # a string that starts here runs into the next page
    (0x4000, "42*16\n00*4080"),
    (0x2000000, "01 23 45 67 89 ab cd ef\n00*248\n" + "".join(
        " ".join("%02x" % c for c in f.encode().ljust(65, b"\0")) + "\n"
        for f in ("Linux", "res-node", "5.6.7-res", "#1 SMP res", "x86_64", "(none)")) + "00*%d" % (4096 - 256 - 6 * 65)),
    (0x2e10000, "0000000002e11067 0000000000000000*511"),
    (0x2e11000, "0000000002e12067 0000000000000000*511"),
    (0x2e12000, "00000000020001e1 0000000000000000*511"),
]

SADUMP_CPU = """@cpu 0
0000000000000000*58
"gdth" "ldth" "idth"
00000000*3
"io_eip  "
0000000000000000*10
"cr4 "
00000000*18
"gdtl" "gdtx"
"idtl" "idtx"
"ldtl" "ldtx"
"ldti"
0000000000000000*6
"eptp    "
"eptp"
00000000*5
"smbs"
"smid"
"io"
"hl"
00000000*6
"r15     " "r14     " "r13     " "r12     "
"r11     " "r10     " "r9      " "r8      "
"rax     " "rcx     " "rdx     " "rbx     "
"rsp     " "rbp     " "rsi     " "rdi     "
"io_mem_a"
"io_m"
"es  " "cs  " "ss  " "ds  " "fs  " "gs  "
"ldtr"
"tr  "
"dr7     " "dr6     "
"rip     "
0000000000000d01
0000000000000046
"cr3     "
0000000080050033
"""


def tool(name):
    for base in (core.REPO, "/repo"):
        p = os.path.join(base, "tests", name)
        if os.path.exists(p) and os.access(p, os.X_OK):
            return p
    raise RuntimeError("test helper %s not built" % name)


def _run(toolname, out, params):
    p = subprocess.run([tool(toolname), out], input=params, stdout=subprocess.PIPE,
                       stderr=subprocess.STDOUT, universal_newlines=True, timeout=120)
    if p.returncode != 0 or not os.path.exists(out):
        raise RuntimeError("%s failed: %s" % (toolname, p.stdout[-500:]))
    return out


UTS = """uts.sysname = Linux
uts.nodename = test-node
uts.release = 3.4.5-test
uts.version = #1 SMP
uts.machine = x86_64
uts.domainname = (none)
"""


def diskdump(d, name="dd", methods=("raw", "zlib", "zlib", "raw", "zlib", "raw"), extra="", vmcoreinfo=None,
             arch="x86_64"):
    data = os.path.join(d, name + ".data")
    with open(data, "w") as f:
        for (addr, body), m in zip(PAGES, methods):
            f.write("@%#x %s\n%s\n" % (addr, m, body))
    params = ("version = 6\narch_name = %s\nblock_size = 4096\nphys_base = 0\nmax_mapnr = 0x3000\n"
              "sub_hdr_size = 1\n" % arch + UTS.replace("x86_64", {"ia32": "i686"}.get(arch, arch)) + "nr_cpus = 1\n" + extra + "DATA = %s\n" % data)
    if vmcoreinfo:
        vf = os.path.join(d, name + ".vmcoreinfo")
        with open(vf, "w") as f:
            f.write(vmcoreinfo)
        params += "VMCOREINFO = %s\n" % vf
    return _run("mkdiskdump", os.path.join(d, name + ".dump"), params)


def elf(d, name="elf"):
    data = os.path.join(d, name + ".data")
    off = 0x1000
    with open(data, "w") as f:
        for addr, body in PAGES:
            f.write("@phdr type=LOAD offset=%#x paddr=%#x vaddr=%#x memsz=0x1000\n%s\n"
                    % (off, addr, 0xffff880000000000 + addr, body))
            off += 0x1000
    params = "ei_class = 2\nei_data = 1\ne_machine = 62\ne_phoff = 64\nDATA = %s\n" % data
    return _run("mkelf", os.path.join(d, name + ".dump"), params)


def lkcd(d, name="lkcd", compression=2, flags="compress"):
    data = os.path.join(d, name + ".data")
    with open(data, "w") as f:
        for i, (addr, body) in enumerate(PAGES):
            f.write("@%#x %s\n%s\n" % (addr, flags if i % 2 else "raw", body))
    params = ("arch_name = x86_64\npage_shift = 12\npage_offset = 0xffff880000000000\nNR_CPUS = 8\n"
              "num_cpus = 1\ncompression = %d\nDATA = %s\n" % (compression, data))
    return _run("mklkcd", os.path.join(d, name + ".dump"), params)


def sadump(d, name="sadump"):
    data = os.path.join(d, name + ".data")
    with open(data, "w") as f:
        for addr, body in PAGES:
            f.write("@%#x\n%s\n" % (addr, body))
        f.write(SADUMP_CPU)
    params = ("type = single\ndisk_num = 1\nset_disk_set = 0\nblock_size = 4096\nmax_mapnr = 0x3000\n"
              "nr_cpus = 1\nDATA = %s\n" % data)
    return _run("mksadump", os.path.join(d, name + ".dump"), params)


VMCOREINFO = ("OSRELEASE=3.4.5-test\nPAGESIZE=4096\nSYMBOL(swapper_pg_dir)=ffffffff81c0a000\n"
              "LENGTH(mem_section)=2048\nNUMBER(phys_base)=0\nOFFSET(page.flags)=0\nSIZE(page)=64\n")


def all_formats(d):
    """name -> path; every file holds the same image"""
    os.makedirs(d, exist_ok=True)
    out = {}
    out["diskdump"] = diskdump(d)
    out["diskdump-vmci"] = diskdump(d, "ddv", methods=("zlib",) * 6, vmcoreinfo=VMCOREINFO)
    out["elf"] = elf(d)
    out["lkcd"] = lkcd(d)
    out["sadump"] = sadump(d)
    return out


def _find_descriptors(data, npages, block=4096):
    """offset of the page descriptor array of a diskdump file with `npages` dumped pages
    (24-byte records: offset u64, size u32, flags u32, page_flags u64; payloads are packed
    from the first block boundary behind the array)"""
    import struct
    for off in range(block, len(data) - 48, block):
        o1, s1 = struct.unpack_from("<QI", data, off)
        o2 = struct.unpack_from("<Q", data, off + 24)[0]
        if off + npages * 24 <= o1 < len(data) and o1 % block == 0 and 0 < s1 <= block and o2 == o1 + s1:
            return off
    raise RuntimeError("page descriptor array not found")


def _noise(n, seed):
    """n incompressible bytes (hex words for the suite's writers): a page body of 4000 zeros
    followed by 3000 bytes of this compresses to less than a page, and when the decompressor's
    output buffer (one page) is full most of the compressed input is still unread"""
    import random
    r = random.Random(seed)
    return "\n".join(" ".join("%02x" % r.randrange(256) for _ in range(32)) for _ in range(n // 32))


def elf_s390x_osinfo(d, name="elf-s390x-osinfo", pad=3000):
    """An s390x ELF core whose lowcore (0xe18) points to a valid os_info block (magic, header and
    entry checksums) with a non-empty VMCOREINFO entry: setting addrxlat.ostype = linux makes the
    library read VMCOREINFO through the lowcore.  (Layout of the seeded change C15-c1's demo.)"""
    import struct
    PAGE = 4096

    def cksum32(b, c=0):
        n4 = len(b) // 4 * 4
        for i in range(0, n4, 4):
            c += struct.unpack_from(">I", b, i)[0]
            if c > 0xffffffff:
                c = (c & 0xffffffff) + 1
        rest = b[n4:]
        if rest:
            val = 0
            for x in rest:
                val = (val >> 8) | (x << 24)
            c += val
            if c > 0xffffffff:
                c = (c & 0xffffffff) + 1
        return c

    vmci = b"OSRELEASE=6.1.0-res\nPAGESIZE=4096\nFILLER=" + b"x" * pad + b"\n"
    vpages = (len(vmci) + PAGE - 1) // PAGE
    memsz = (2 + vpages) * PAGE
    img = bytearray(PAGE + memsz)
    ident = b"\x7fELF" + bytes([2, 2, 1]) + bytes(9)
    struct.pack_into(">16sHHIQQQIHHHHHH", img, 0, ident, 4, 22, 1, 0, 64, 0, 0, 64, 56, 1, 0, 0, 0)
    struct.pack_into(">IIQQQQQQ", img, 64, 1, 4, PAGE, 0, 0, memsz, memsz, PAGE)
    mem = PAGE
    struct.pack_into(">Q", img, mem + 0xe18, PAGE)
    osi = mem + PAGE
    struct.pack_into(">Q", img, osi, 0x4f53494e464f535a)
    struct.pack_into(">HHQQQQI", img, osi + 12, 1, 0, 0, 0, 2 * PAGE, len(vmci), cksum32(vmci))
    struct.pack_into(">I", img, osi + 8, cksum32(bytes(img[osi + 12:osi + PAGE])))
    img[mem + 2 * PAGE:mem + 2 * PAGE + len(vmci)] = vmci
    path = os.path.join(d, name + ".dump")
    with open(path, "wb") as f:
        f.write(img)
    return path


def elf_xen_unaligned(d, name="elfxen-unaligned", off=0x3ffc):
    """The suite's xc_core (Xen domain) ELF with the .xen_pfn section moved to a file offset that
    is not a multiple of the entry size and just below a page boundary: the first entry straddles
    two file-cache blocks (with file.mmap_policy = never), which the library reads through
    fcache_get_fb's fallback buffer."""
    src = open(os.path.join(os.path.dirname(tool("mkelf")), "elf-xen_prstatus.data")).read()
    assert "offset=0x3430" in src and "offset=0x4000" in src
    src = src.replace("offset=0x3430", "offset=%#x" % off).replace("offset=0x4000", "offset=0x5000")
    data = os.path.join(d, name + ".data")
    with open(data, "w") as f:
        f.write(src)
    cfg = "ei_class = 2\nei_data = 1\nei_abiversion = 1\ne_machine = 62\ne_shoff = 0x40\ne_shstrndx = 1\nDATA = %s\n" % data
    return _run("mkelf", os.path.join(d, name + ".dump"), cfg)


def lkcd_bad(d, name="lkcd-bad"):
    """An LKCD dump (gzip) with a page whose stream expands to more than a page with compressed
    input left over when the page is full, next to good pages.  (path, bad addresses, good ones)"""
    data = os.path.join(d, name + ".data")
    with open(data, "w") as f:
        f.write("@0x0 raw\n55*4096\n")
        f.write("@0x1000 compress\n00*4000\n%s\n" % _noise(3008, 11))
        f.write("@0x2000 compress\n6c 69 6e 75 78 00\n00*4090\n")
        f.write("@0x3000 compress\n33*5000\n")
        f.write("@0x4000 raw\n77*4096\n")
    params = ("arch_name = x86_64\npage_shift = 12\npage_offset = 0xffff880000000000\nNR_CPUS = 8\n"
              "num_cpus = 1\ncompression = 2\nDATA = %s\n" % data)
    return _run("mklkcd", os.path.join(d, name + ".dump"), params), [0x1000, 0x3000], [0x0, 0x2000, 0x4000]


def bad_pages_diskdump(d, name="ddbad"):
    """A diskdump whose compressed pages cannot be turned into a page, for every
    compression method compiled in: a well-formed stream that expands to less than a page,
    one that expands to more, and a truncated stream - each followed by a good raw page,
    so that every bad payload sits in its own file block.  Returns (path, bad addresses,
    good addresses)."""
    import struct
    data = os.path.join(d, name + ".data")
    bad, good, trunc_idx = [], [], []
    a = 0x10000
    idx = 0
    with open(data, "w") as f:
        for m in ("zlib", "snappy", "zstd"):
            for body, kind in (("11*100", "short"), ("33*5000", "long"), ("00*4000\n" + _noise(3008, 7), "long-noise"),
                               (" ".join("%02x*16" % i for i in range(256)), "trunc")):
                f.write("@%#x %s\n%s\n" % (a, m, body))
                bad.append(a)
                if kind == "trunc":
                    trunc_idx.append(idx)
                a += 0x1000
                idx += 1
                f.write("@%#x raw\n%02x*4096\n" % (a, 0x40 + idx))
                good.append(a)
                a += 0x1000
                idx += 1
    params = ("version = 6\narch_name = x86_64\nblock_size = 4096\nphys_base = 0\nmax_mapnr = 0x3000\n"
              "sub_hdr_size = 1\n" + UTS + "nr_cpus = 1\nDATA = %s\n" % data)
    path = _run("mkdiskdump", os.path.join(d, name + ".dump"), params)
    buf = bytearray(open(path, "rb").read())
    base = _find_descriptors(buf, idx)
    for i in trunc_idx:
        off, size, flags = struct.unpack_from("<QII", buf, base + 24 * i)
        struct.pack_into("<I", buf, base + 24 * i + 8, max(1, size - 5))
    with open(path, "wb") as f:
        f.write(buf)
    return path, bad, good


def elf_bad_notes(d):
    """ELF cores whose PT_NOTE segment reads fine but is rejected while it is processed
    (VMCOREINFO with an invalid PAGESIZE, a key starting with '.', a too short Xen note), the
    offending note sitting behind a long ERASEINFO note so that the segment spans four file
    pages (with file.mmap_policy = never the chunk is then a heap copy).  name -> path"""
    from . import c03_formats as cf
    out = {}
    pad = "x" * 9000 + "\n"
    variants = {
        "pagesize": cf.note_words("VMCOREINFO", None, 0, raw_desc="OSRELEASE=1.2.3\nPAGESIZE=3000\n"),
        "dotkey": cf.note_words("VMCOREINFO", None, 0, raw_desc="OSRELEASE=1.2.3\n.hidden=1\nPAGESIZE=4096\n"),
        "xenshort": cf.note_words("Xen", ["0000000000000001"], 0x2000001),
        "good": cf.note_words("VMCOREINFO", None, 0, raw_desc="OSRELEASE=1.2.3\nPAGESIZE=4096\n"),
    }
    for tag, bad in variants.items():
        name = "elfnote-" + tag
        data = "@phdr type=NOTE offset=0x1000\n"
        data += cf.note_words("ERASEINFO", None, 0, raw_desc=pad)
        data += bad
        data += "@phdr type=LOAD offset=0x5000 vaddr=0xffffffff80000000 paddr=0x0 memsz=0x2000\n55*0x1000\naa*0x1000\n"
        with open(os.path.join(d, name + ".data"), "w") as f:
            f.write(data)
        cfg = "ei_class = 2\nei_data = 1\ne_machine = 62\ne_phoff = 64\ne_phentsize = 56\nDATA = %s\n" % \
            os.path.join(d, name + ".data")
        try:
            out[name] = _run("mkelf", os.path.join(d, name + ".dump"), cfg)
        except RuntimeError:
            pass
    return out


def corrupted_opens(d, rng, per_seed, flat_all=True):
    """Corrupted variants of the parse agent's seed dumps (lib/kdv/c03_formats.py: one field set
    to an enumerated bad value, or the file cut at a structure boundary).  For the flattened
    seeds every corruption of a segment header is produced (a good header followed by a bad one),
    for the others a sample of [per_seed].  Yields (label, path)."""
    from . import c03_formats as cf
    sd = os.path.join(d, "seeds")
    seeds = [s for s in cf.build_seeds(sd) if len(s.files) == 1]
    od = os.path.join(d, "corrupt")
    os.makedirs(od, exist_ok=True)
    out = []
    k = 0
    for s in seeds:
        data = s.data[0]
        muts = []
        for f in s.fields:
            for v in cf.corrupt_values(f, data, "none" if s.kind == "flat" else "sparse"):
                muts.append(("%s=%#x" % (f.name, v), data[:f.off] + f.enc(v) + data[f.off + f.size:]))
        for b in sorted(s.bounds[0]):
            for cut in (b, b + 3, b - 1):
                if 0 < cut < len(data):
                    muts.append(("cut@%d" % cut, data[:cut]))
        flat = [m for m in muts if m[0].startswith("rec") or m[0].startswith("cut")] if s.kind == "flat" else []
        rest = [m for m in muts if m not in flat]
        pick = (flat if flat_all else rng.sample(flat, min(len(flat), per_seed))) + \
            rng.sample(rest, min(len(rest), per_seed))
        for label, blob in pick:
            import re as _re
            p = os.path.join(od, "c%04d-%s-%s.dump" % (k, s.name, _re.sub(r"[^A-Za-z0-9_.=@-]", "_", label)[:60]))
            k += 1
            with open(p, "wb") as f:
                f.write(blob)
            out.append(("%s:%s" % (s.name, label), p))
    return out
