"""Shared by the C18 ("oom") and C15 ("res") checks: building the drivers with the
allocator wrapped, resolving allocation sites, parsing driver lines."""
import os
import re
import subprocess

from . import core

WRAP = ["-Wl,--wrap=malloc,--wrap=calloc,--wrap=realloc,--wrap=strdup,--wrap=free",
        "-no-pie", "-fno-pie", "-fno-omit-frame-pointer", "-fno-optimize-sibling-calls"]
# zlib (and zstd) linked statically, so that their internal state (inflateInit's ~40 KB) goes
# through the wrapped allocator and is accounted like the library's own blocks; the -u options pull
# the members in although the archive precedes the objects on the command line
for _lib, _syms in (("libz.a", ("inflate", "inflateInit_", "inflateEnd")),
                    ("libzstd.a", ("ZSTD_decompress", "ZSTD_isError", "ZSTD_getErrorName"))):
    if any(os.path.exists(os.path.join(_d, _lib)) for _d in ("/usr/lib/x86_64-linux-gnu", "/usr/lib64", "/usr/lib")):
        WRAP += ["-Wl," + ",".join("-u," + x for x in _syms), "-l:" + _lib]

HEX = re.compile(r"\b[0-9a-f]{6,}\b")


def build(run, name, extra_flags=()):
    return run.need_cc(name, name + ".c", sources=core.lib_sources(),
                       flags=tuple(WRAP) + tuple(extra_flags))


_cache = {}


def resolve(exe, addrs):
    """return address -> 'file.c:function' (innermost inlined frame, _kdumpfile_priv_ stripped)."""
    todo = sorted(a for a in set(addrs) if (exe, a) not in _cache and a not in ("0", ""))
    for i in range(0, len(todo), 400):
        part = todo[i:i + 400]
        p = subprocess.run(["addr2line", "-a", "-f", "-i", "-e", exe] +
                           ["0x%x" % (int(a, 16) - 1) for a in part],
                           stdout=subprocess.PIPE, universal_newlines=True)
        cur = None
        lines = p.stdout.split("\n")
        j = 0
        k = -1
        while j < len(lines):
            l = lines[j]
            if l.startswith("0x"):
                k += 1
                cur = part[k]
                fn = lines[j + 1] if j + 1 < len(lines) else "?"
                fl = os.path.basename((lines[j + 2] if j + 2 < len(lines) else "?").split(":")[0])
                fn = fn.replace("_kdumpfile_priv_", "")
                _cache[(exe, cur)] = "%s:%s" % (fl, fn)
                j += 3
            else:
                j += 1
    return {a: _cache.get((exe, a), "0" if a in ("0", "") else a) for a in set(addrs)}


def parse_line(line):
    """driver output line -> (case words, dict of key=value tokens)"""
    toks = line.split(" ")
    kv = {}
    case = []
    seen_kv = False
    for t in toks:
        if "=" in t and re.match(r"^[a-z][a-z0-9_]*=", t):
            k, v = t.split("=", 1)
            kv[k] = v
            seen_kv = True
        elif not seen_kv:
            case.append(t)
    return case, kv


def addresses_in(kv):
    out = set()
    f = kv.get("fail", "")
    for a in f.split("/"):
        if a and a != "0":
            out.add(a)
    lk = kv.get("leak", "-")
    if lk not in ("-", "?"):
        for part in lk.split(","):
            out.add(part.split("*")[0])
    ev = kv.get("ev", "-")
    if ev not in ("-", "none"):
        for e in ev.split(","):
            if e[0] in "AFX":
                out.add(e[1:].split(".")[0])
    return out


def canon_events(kv, names):
    """C events -> (model-style canonical string, spec-engine event list)"""
    ev = kv.get("ev", "-")
    if ev in ("-",):
        return None, None
    if ev == "none":
        return "none", []
    toks = []
    spec = []
    known = set()
    lockids = {"shared": 0, "cache": 1}
    for e in ev.split(","):
        k = e[0]
        if k == "A":
            a, ser = e[1:].split(".")
            toks.append("A:" + names.get(a, a))
            spec.append("A:" + ser)
            known.add(ser)
        elif k == "F":
            a, ser = e[1:].split(".")
            toks.append("F:" + (names.get(a, a) if ser in known else "pre"))
            if ser not in known:
                spec.insert(0, "A:" + ser)      # alive before the window
                known.add(ser)
            spec.append("F:" + ser)
        elif k == "X":
            toks.append("X:" + names.get(e[1:], e[1:]))
            spec.append("X")
        else:
            kind, name = e.split(":", 1)
            if name not in lockids:
                lockids[name] = len(lockids) + 5
            # C kinds: L mutex_lock, U mutex_unlock, r rdlock, w wrlock, u rwlock unlock
            if kind in ("U", "u"):
                toks.append("u:" + name)
                spec.append("u:%d" % lockids[name])
            else:
                toks.append(kind + ":" + name)
                spec.append("%s:%d" % (kind, lockids[name]))
    # sort maximal runs of frees (the order inside one dealloc is not modelled)
    out = []
    run_ = []
    for t in toks:
        if t.startswith("F:"):
            run_.append(t)
        else:
            out += sorted(run_)
            run_ = []
            out.append(t)
    out += sorted(run_)
    return ",".join(out), spec
