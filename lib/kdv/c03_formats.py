"""C03 helper: well-formed seed files of every dump format (written by the suite's
own mkelf / mkdiskdump / mklkcd / mksadump, s390 by hand), the map of their
header / descriptor fields, structure boundaries, and the corruption enumerator.

Nothing here decides anything: it only builds inputs."""
import os
import struct
import subprocess

TOOLS = os.environ.get("VERIF_TOOLS", "/repo/tests")

UTS = """uts.sysname = Linux
uts.nodename = test-node
uts.release = 3.4.5-test
uts.version = #1 SMP Fri Jan 22 14:02:42 UTC 2016 (1234567)
uts.machine = x86_64
uts.domainname = (none)
"""


class Field:
    __slots__ = ("name", "off", "size", "be", "fidx")

    def __init__(self, name, off, size, be=False, fidx=0):
        self.name, self.off, self.size, self.be, self.fidx = name, off, size, be, fidx

    def get(self, data):
        return int.from_bytes(data[self.off:self.off + self.size], "big" if self.be else "little")

    def enc(self, v):
        return (v & ((1 << (8 * self.size)) - 1)).to_bytes(self.size, "big" if self.be else "little")


class Seed:
    """name, files (list of paths), fields, boundaries (per file: offsets), kind"""

    def __init__(self, name, kind, files):
        self.name, self.kind, self.files = name, kind, files
        self.data = [open(p, "rb").read() for p in files]
        self.fields = []
        self.bounds = [set() for _ in files]

    def add(self, name, off, size, be=False, fidx=0):
        if off + size <= len(self.data[fidx]) + 64:
            self.fields.append(Field(name, off, size, be, fidx))

    def bound(self, off, fidx=0):
        if 0 <= off <= len(self.data[fidx]):
            self.bounds[fidx].add(off)


def run_tool(tool, out, cfg, cwd):
    p = subprocess.run([os.path.join(TOOLS, tool), out], input=cfg.encode(), cwd=cwd,
                       stdout=subprocess.PIPE, stderr=subprocess.STDOUT)
    if p.returncode != 0 or not os.path.exists(os.path.join(cwd, out)):
        raise RuntimeError("%s failed: %s" % (tool, p.stdout.decode(errors="replace")[-500:]))


def note_words(name, desc_hex_words, ntype, raw_desc=None):
    """mkelf data-file text of one ELF note (words are written in file byte order by mkelf)."""
    nm = name + "\0"
    pad = (-len(nm)) % 4
    if raw_desc is not None:
        dl = len(raw_desc)
        dpad = (-dl) % 4
        desc = '"%s"' % raw_desc.replace("\n", "\\n") + (" 00*%d" % dpad if dpad else "")
    else:
        dl = 8 * len(desc_hex_words)
        desc = " ".join(desc_hex_words)
    return '%08x %08x %08x "%s" 00%s\n%s\n' % (len(nm), dl, ntype, name, " 00*%d" % pad if pad else "", desc)


# ---------------------------------------------------------------------------- ELF

EHDR64 = [("e_type", 16, 2), ("e_machine", 18, 2), ("e_version", 20, 4), ("e_entry", 24, 8),
          ("e_phoff", 32, 8), ("e_shoff", 40, 8), ("e_flags", 48, 4), ("e_ehsize", 52, 2),
          ("e_phentsize", 54, 2), ("e_phnum", 56, 2), ("e_shentsize", 58, 2), ("e_shnum", 60, 2),
          ("e_shstrndx", 62, 2)]
EHDR32 = [("e_type", 16, 2), ("e_machine", 18, 2), ("e_version", 20, 4), ("e_entry", 24, 4),
          ("e_phoff", 28, 4), ("e_shoff", 32, 4), ("e_flags", 36, 4), ("e_ehsize", 40, 2),
          ("e_phentsize", 42, 2), ("e_phnum", 44, 2), ("e_shentsize", 46, 2), ("e_shnum", 48, 2),
          ("e_shstrndx", 50, 2)]
PHDR64 = [("p_type", 0, 4), ("p_flags", 4, 4), ("p_offset", 8, 8), ("p_vaddr", 16, 8), ("p_paddr", 24, 8),
          ("p_filesz", 32, 8), ("p_memsz", 40, 8), ("p_align", 48, 8)]
PHDR32 = [("p_type", 0, 4), ("p_offset", 4, 4), ("p_vaddr", 8, 4), ("p_paddr", 12, 4), ("p_filesz", 16, 4),
          ("p_memsz", 20, 4), ("p_flags", 24, 4), ("p_align", 28, 4)]
SHDR64 = [("sh_name", 0, 4), ("sh_type", 4, 4), ("sh_flags", 8, 8), ("sh_addr", 16, 8), ("sh_offset", 24, 8),
          ("sh_size", 32, 8), ("sh_link", 40, 4), ("sh_info", 44, 4), ("sh_addralign", 48, 8),
          ("sh_entsize", 56, 8)]
SHDR32 = [("sh_name", 0, 4), ("sh_type", 4, 4), ("sh_flags", 8, 4), ("sh_addr", 12, 4), ("sh_offset", 16, 4),
          ("sh_size", 20, 4), ("sh_link", 24, 4), ("sh_info", 28, 4), ("sh_addralign", 32, 4),
          ("sh_entsize", 36, 4)]


def map_elf(seed, fidx=0, base=0):
    d = seed.data[fidx]
    if len(d) < base + 64 or d[base:base + 4] != b"\x7fELF":
        return
    is64 = d[base + 4] == 2
    be = d[base + 5] == 2
    for i, nm in enumerate(["ei_mag0", "ei_mag1", "ei_mag2", "ei_mag3", "ei_class", "ei_data", "ei_version"]):
        seed.add(nm, base + i, 1, be, fidx)
    eh = EHDR64 if is64 else EHDR32
    vals = {}
    for nm, off, sz in eh:
        seed.add(nm, base + off, sz, be, fidx)
        vals[nm] = int.from_bytes(d[base + off:base + off + sz], "big" if be else "little")
    seed.bound(base + (64 if is64 else 52), fidx)
    ph = PHDR64 if is64 else PHDR32
    sh = SHDR64 if is64 else SHDR32
    notes = []
    for i in range(min(vals["e_phnum"], 16)):
        o = base + vals["e_phoff"] + i * vals["e_phentsize"]
        seed.bound(o, fidx)
        seed.bound(o + vals["e_phentsize"], fidx)
        pv = {}
        for nm, off, sz in ph:
            seed.add("ph%d.%s" % (i, nm), o + off, sz, be, fidx)
            pv[nm] = int.from_bytes(d[o + off:o + off + sz], "big" if be else "little")
        if pv.get("p_type") == 4:
            notes.append((pv["p_offset"], pv["p_filesz"], "ph%d" % i))
        seed.bound(base + pv["p_offset"], fidx)
        seed.bound(base + pv["p_offset"] + pv["p_filesz"], fidx)
    if vals["e_shoff"]:
        for i in range(min(vals["e_shnum"], 16)):
            o = base + vals["e_shoff"] + i * vals["e_shentsize"]
            seed.bound(o, fidx)
            seed.bound(o + vals["e_shentsize"], fidx)
            sv = {}
            for nm, off, sz in sh:
                seed.add("sh%d.%s" % (i, nm), o + off, sz, be, fidx)
                sv[nm] = int.from_bytes(d[o + off:o + off + sz], "big" if be else "little")
            if sv.get("sh_type") == 7:
                notes.append((sv["sh_offset"], sv["sh_size"], "sh%d" % i))
            if sv.get("sh_type") in (1, 3) and sv["sh_size"] <= 4096:
                # a few bytes of string tables / small sections
                for k in (0, 1, sv["sh_size"] - 1):
                    if 0 <= k < sv["sh_size"]:
                        seed.add("sh%d.byte%d" % (i, k), base + sv["sh_offset"] + k, 1, be, fidx)
            seed.bound(base + sv["sh_offset"], fidx)
            seed.bound(base + sv["sh_offset"] + sv["sh_size"], fidx)
    for off, size, tag in notes:
        map_notes(seed, base + off, size, be, tag, fidx)


def map_notes(seed, off, size, be, tag, fidx=0):
    d = seed.data[fidx]
    pos, k = off, 0
    while pos + 12 <= off + size and pos + 12 <= len(d) and k < 12:
        namesz, descsz, _ = struct.unpack(">III" if be else "<III", d[pos:pos + 12])
        seed.add("%s.note%d.namesz" % (tag, k), pos, 4, be, fidx)
        seed.add("%s.note%d.descsz" % (tag, k), pos + 4, 4, be, fidx)
        seed.add("%s.note%d.type" % (tag, k), pos + 8, 4, be, fidx)
        seed.add("%s.note%d.name0" % (tag, k), pos + 12, 1, be, fidx)
        seed.bound(pos, fidx)
        nxt = pos + 12 + ((namesz + 3) & ~3) + ((descsz + 3) & ~3)
        dpos = pos + 12 + ((namesz + 3) & ~3)
        seed.bound(dpos, fidx)
        if descsz >= 8:
            seed.add("%s.note%d.desc0" % (tag, k), dpos, 8, be, fidx)
        if descsz >= 32:
            seed.add("%s.note%d.desc24" % (tag, k), dpos + 24, 8, be, fidx)
        if nxt <= pos:
            break
        pos = nxt
        k += 1
    seed.bound(pos, fidx)


VMCI = "OSRELEASE=3.12.28\nPAGESIZE=0004096\nSYMBOL(init_level4_pgt)=ffffffff81010000\nNUMBER(phys_base)=0\n"


def elf_seed(d, name, ei_class, ei_data, machine, notes=True, unaligned=False, pagesize_note=True,
             flattened=False):
    is64 = ei_class == 2
    ehsize = 64 if is64 else 52
    phentsize = 56 if is64 else 32
    off0 = 0x1000
    data = ""
    if notes:
        data += "@phdr type=NOTE offset=0x%x\n" % off0
        if pagesize_note:
            data += note_words("VMCOREINFO", None, 0, raw_desc=VMCI)
        data += note_words("ERASEINFO", None, 0, raw_desc="erase symbol foo\n")
        data += note_words("CORE", ["%016x" % 0x1122334455667788 if is64 else "11223344 55667788"], 4)
        off0 += 0x800 if unaligned else 0x1000
    if is64:
        data += "@phdr type=LOAD offset=0x%x vaddr=0xffffffff80000000 paddr=0x0 memsz=0x3000\n" % off0
    else:
        data += "@phdr type=LOAD offset=0x%x vaddr=0xc0000000 paddr=0x0 memsz=0x3000\n" % off0
    data += "55*0x1000\naa*0x1000\n11*0x800\n"
    if is64:
        data += "@phdr type=LOAD vaddr=0xffffffff80008000 paddr=0x8000 memsz=0x1000\n33*0x1000\n"
    else:
        data += "@phdr type=LOAD vaddr=0xc0008000 paddr=0x8000 memsz=0x1000\n33*0x1000\n"
    open(os.path.join(d, name + ".data"), "w").write(data)
    cfg = "ei_class = %d\nei_data = %d\ne_machine = %d\ne_phoff = %d\ne_phentsize = %d\n%sDATA = %s.data\n" % (
        ei_class, ei_data, machine, ehsize, phentsize, "flattened = yes\n" if flattened else "", name)
    run_tool("mkelf", name + ".dump", cfg, d)
    s = Seed(name, "elf", [os.path.join(d, name + ".dump")])
    if flattened:
        map_flat(s)
    else:
        map_elf(s)
    return s


def elf_partial_seed(d):
    """ELF64 core whose pages are only partly covered by LOAD segments, with the next segment
    starting in the following page less than a page above the end of the previous one (the page is
    assembled piecewise by elf_read_page)."""
    name = "elfpart"
    data = "@phdr type=NOTE offset=0x1000\n" + note_words("VMCOREINFO", None, 0, raw_desc=VMCI)
    segs = [(0x1000, 0x100), (0x2080, 0x100), (0x3f00, 0x180), (0x5010, 0x20), (0x5800, 0x900), (0x7ff0, 0x10)]
    off = 0x1800
    for pa, sz in segs:
        data += "@phdr type=LOAD offset=0x%x vaddr=0x%x paddr=0x%x memsz=0x%x\n%02x*0x%x\n" % (
            off, 0xffffffff80000000 + pa, pa, sz, 0x40 + (pa >> 12), sz)
        off += (sz + 0xf) & ~0xf
    open(os.path.join(d, name + ".data"), "w").write(data)
    cfg = "ei_class = 2\nei_data = 1\ne_machine = 62\ne_phoff = 64\ne_phentsize = 56\nDATA = %s.data\n" % name
    run_tool("mkelf", name + ".dump", cfg, d)
    s = Seed(name, "elf", [os.path.join(d, name + ".dump")])
    map_elf(s)
    return s


def section_offset_cases(seed):
    """Every section of at least 16 bytes moved to file offsets just below a 4 KiB boundary (and an
    odd one), so that fixed-size entries straddle file cache entries.  Returns [(what, patches)]."""
    out = []
    d = seed.data[0]
    fs = {f.name: f for f in seed.fields}
    i = 0
    while "sh%d.sh_offset" % i in fs:
        fo, fz = fs["sh%d.sh_offset" % i], fs["sh%d.sh_size" % i]
        size = fz.get(d)
        if size >= 16:
            for base in (0x1000, 0x2000, 0x4000):
                for dlt in (1, 2, 3, 4, 5, 7, 9, 12):
                    off = base - dlt
                    if off + size <= len(d):
                        out.append(("%s: sh%d.sh_offset = 0x%x (entries straddle a 4 KiB boundary)" % (seed.name, i, off),
                                    [(0, fo.off, fo.enc(off))]))
        i += 1
    return out


def elf_xen_seed(d):
    """The suite's xc_core (Xen domain) ELF: sections, string table, .note.Xen, .xen_prstatus, .xen_pfn."""
    src = os.path.join(TOOLS, "elf-xen_prstatus.data")
    cfg = "ei_class = 2\nei_data = 1\nei_abiversion = 1\ne_machine = 62\ne_shoff = 0x40\ne_shstrndx = 1\nDATA = %s\n" % src
    run_tool("mkelf", "elfxen.dump", cfg, d)
    s = Seed("elfxen", "elf", [os.path.join(d, "elfxen.dump")])
    map_elf(s)
    return s


# ----------------------------------------------------------------------- diskdump

DH64 = [("header_version", 8, 4), ("status", 424, 4), ("block_size", 428, 4), ("sub_hdr_size", 432, 4),
        ("bitmap_blocks", 436, 4), ("max_mapnr", 440, 4), ("total_ram_blocks", 444, 4),
        ("device_blocks", 448, 4), ("written_blocks", 452, 4), ("current_cpu", 456, 4), ("nr_cpus", 460, 4)]
DH32 = [("header_version", 8, 4), ("status", 412, 4), ("block_size", 416, 4), ("sub_hdr_size", 420, 4),
        ("bitmap_blocks", 424, 4), ("max_mapnr", 428, 4), ("total_ram_blocks", 432, 4),
        ("device_blocks", 436, 4), ("written_blocks", 440, 4), ("current_cpu", 444, 4), ("nr_cpus", 448, 4)]
SUB64 = [("phys_base", 0, 8), ("dump_level", 8, 4), ("split", 12, 4), ("start_pfn", 16, 8), ("end_pfn", 24, 8),
         ("offset_vmcoreinfo", 32, 8), ("size_vmcoreinfo", 40, 8), ("offset_note", 48, 8), ("size_note", 56, 8),
         ("offset_eraseinfo", 64, 8), ("size_eraseinfo", 72, 8), ("start_pfn_64", 80, 8), ("end_pfn_64", 88, 8),
         ("max_mapnr_64", 96, 8)]
SUB32PACK = [("phys_base", 0, 4), ("dump_level", 4, 4), ("split", 8, 4), ("start_pfn", 12, 4), ("end_pfn", 16, 4),
             ("offset_vmcoreinfo", 20, 8), ("size_vmcoreinfo", 28, 4), ("offset_note", 32, 8), ("size_note", 40, 4),
             ("offset_eraseinfo", 44, 8), ("size_eraseinfo", 52, 4), ("start_pfn_64", 56, 8), ("end_pfn_64", 64, 8),
             ("max_mapnr_64", 72, 8)]
SUB32PAD = [("phys_base", 0, 4), ("dump_level", 4, 4), ("split", 8, 4), ("start_pfn", 12, 4), ("end_pfn", 16, 4),
            ("offset_vmcoreinfo", 24, 8), ("size_vmcoreinfo", 32, 4), ("offset_note", 40, 8), ("size_note", 48, 4),
            ("offset_eraseinfo", 56, 8), ("size_eraseinfo", 64, 4), ("start_pfn_64", 72, 8), ("end_pfn_64", 80, 8),
            ("max_mapnr_64", 88, 8)]


def map_diskdump(seed, fidx=0, layout="64", be=False, maxdesc=8):
    d = seed.data[fidx]
    for i in range(8):
        if i in (0, 7):
            seed.add("signature%d" % i, i, 1, be, fidx)
    dh = DH64 if layout == "64" else DH32
    v = {}
    for nm, off, sz in dh:
        seed.add(nm, off, sz, be, fidx)
        v[nm] = int.from_bytes(d[off:off + sz], "big" if be else "little")
    seed.add("uts.sysname0", 12, 1, be, fidx)
    seed.add("uts.sysname64", 12 + 64, 1, be, fidx)
    seed.add("uts.release0", 12 + 130, 1, be, fidx)
    bs = v["block_size"]
    seed.bound(bs, fidx)
    sub = {"64": SUB64, "32pack": SUB32PACK, "32pad": SUB32PAD}[layout]
    sv = {}
    for nm, off, sz in sub:
        seed.add("sub." + nm, bs + off, sz, be, fidx)
        sv[nm] = int.from_bytes(d[bs + off:bs + off + sz], "big" if be else "little")
    bmoff = (1 + v["sub_hdr_size"]) * bs
    seed.bound(bmoff, fidx)
    descoff = bmoff + v["bitmap_blocks"] * bs
    seed.bound(descoff, fidx)
    half = v["bitmap_blocks"] // 2 * bs
    for k in (0, 1):
        seed.add("bitmap1.byte%d" % k, bmoff + k, 1, be, fidx)
        seed.add("bitmap2.byte%d" % k, bmoff + half + k, 1, be, fidx)
    seed.bound(bmoff + half, fidx)
    # number of descriptors = set bits of the 2nd bitmap
    n = sum(bin(b).count("1") for b in d[bmoff + half:descoff])
    for i in range(min(n, maxdesc)):
        o = descoff + 24 * i
        seed.add("pd%d.offset" % i, o, 8, be, fidx)
        seed.add("pd%d.size" % i, o + 8, 4, be, fidx)
        seed.add("pd%d.flags" % i, o + 12, 4, be, fidx)
        seed.add("pd%d.page_flags" % i, o + 16, 8, be, fidx)
        seed.bound(o, fidx)
        po, psz = struct.unpack(">QI" if be else "<QI", d[o:o + 12])
        seed.bound(po, fidx)
        seed.bound(po + psz, fidx)
        if psz and po + psz <= len(d):
            seed.add("pd%d.data0" % i, po, 1, be, fidx)
            seed.add("pd%d.datalast" % i, po + psz - 1, 1, be, fidx)
    seed.bound(descoff + 24 * n, fidx)
    for nm in ("vmcoreinfo", "note", "eraseinfo"):
        o, sz = sv.get("offset_" + nm, 0), sv.get("size_" + nm, 0)
        if o and sz:
            seed.bound(o, fidx)
            seed.bound(o + sz, fidx)
            if nm == "note":
                map_notes(seed, o, sz, be, "kdnote", fidx)
            else:
                seed.add(nm + ".byte0", o, 1, be, fidx)
                seed.add(nm + ".bytelast", o + sz - 1, 1, be, fidx)


def diskdump_seed(d, name, arch="x86_64", layout="64", version=6, flattened=False, split=None,
                  methods=("raw", "zlib", "snappy", "zstd"), extra="", pfns=None):
    data = ""
    for i, m in enumerate(methods):
        pfn = pfns[i] if pfns is not None else (i if split is None else split[0] + i)
        data += "@0x%x %s\n%02x*0x800 %02x*0x800\n" % (pfn * 0x1000, m, 0x41 + i, 0x61 + i)
    open(os.path.join(d, name + ".data"), "w").write(data)
    open(os.path.join(d, name + ".vmci"), "w").write(VMCI)
    nb = b""
    # for header versions >= 4 the library takes VMCOREINFO from the ELF notes
    for nm, desc, ty in ((b"VMCOREINFO\0", VMCI.encode(), 0), (b"ERASEINFO\0", b"erase symbol foo\n", 0),
                         (b"CORE\0", b"\x11" * 24, 4)):
        e = ">" if arch in ("ppc64", "s390x") else "<"
        nb += struct.pack(e + "III", len(nm), len(desc), ty) + nm + b"\0" * ((-len(nm)) % 4)
        nb += desc + b"\0" * ((-len(desc)) % 4)
    open(os.path.join(d, name + ".note"), "wb").write(nb)
    cfg = "version = %d\narch_name = %s\nblock_size = 4096\nphys_base = 0\nmax_mapnr = 0x40\nsub_hdr_size = 1\n" % (version, arch)
    cfg += UTS.replace("x86_64", "i686" if layout != "64" else "x86_64")
    cfg += "nr_cpus = 1\nVMCOREINFO = %s.vmci\nNOTE = %s.note\nDATA = %s.data\n" % (name, name, name)
    if flattened:
        cfg += "flattened = yes\n"
    if split is not None:
        cfg += "split = 1\nstart_pfn = %d\nend_pfn = %d\n" % split
    cfg += extra
    run_tool("mkdiskdump", name + ".dump", cfg, d)
    return os.path.join(d, name + ".dump")


def binary_seed(d, name, parts):
    """A sample image described byte by byte in the suite (mkbinary)."""
    txt = b"".join(open(os.path.join(TOOLS, x), "rb").read() for x in parts)
    out = os.path.join(d, name + ".dump")
    p = subprocess.run([os.path.join(TOOLS, "mkbinary"), out], input=txt, stdout=subprocess.PIPE,
                       stderr=subprocess.STDOUT)
    if p.returncode != 0:
        raise RuntimeError("mkbinary failed: " + p.stdout.decode(errors="replace")[-300:])
    return out


# ---------------------------------------------------------------------- flattened

def map_flat(seed, fidx=0, maxrec=10):
    d = seed.data[fidx]
    seed.add("mdf.signature0", 0, 1, True, fidx)
    seed.add("mdf.type", 16, 8, True, fidx)
    seed.add("mdf.version", 24, 8, True, fidx)
    seed.bound(32, fidx)
    seed.bound(4096, fidx)
    pos, k = 4096, 0
    while pos + 16 <= len(d):
        off, size = struct.unpack(">qq", d[pos:pos + 16])
        if k < maxrec or off < 0:
            seed.add("rec%d.offset" % k, pos, 8, True, fidx)
            seed.add("rec%d.buf_size" % k, pos + 8, 8, True, fidx)
            seed.bound(pos, fidx)
            seed.bound(pos + 16, fidx)
        if off < 0 or size <= 0:
            break
        pos += 16 + size
        k += 1
    seed.bound(pos, fidx)


# --------------------------------------------------------------------------- LKCD

LKCD_HDR = [("dh_magic_number", 0, 8), ("dh_version", 8, 4), ("dh_header_size", 12, 4), ("dh_dump_level", 16, 4),
            ("dh_page_size", 20, 4), ("dh_memory_size", 24, 8), ("dh_memory_start", 32, 8),
            ("dh_memory_end", 40, 8), ("dh_num_dump_pages", 48, 4),
            ("dh_utsname_sysname0", 52 + 256 + 16, 1), ("dh_current_task", 52 + 256 + 16 + 390, 8),
            ("dh_dump_compress", 52 + 256 + 16 + 390 + 8, 4), ("dh_dump_flags", 52 + 256 + 16 + 390 + 12, 4),
            ("dh_dump_device", 52 + 256 + 16 + 390 + 16, 4), ("dh_dump_buffer_size", 52 + 256 + 16 + 390 + 20, 8)]


def map_lkcd(seed, fidx=0, maxpages=8):
    d = seed.data[fidx]
    v = {}
    for nm, off, sz in LKCD_HDR:
        seed.add(nm, off, sz, False, fidx)
        v[nm] = int.from_bytes(d[off:off + sz], "little")
    ver = v["dh_version"] & 0xff
    pos = v["dh_dump_buffer_size"] if ver >= 9 else 65536
    seed.bound(v["dh_header_size"], fidx)
    seed.bound(pos, fidx)
    k = 0
    while pos + 16 <= len(d):
        addr, size, flags = struct.unpack("<QII", d[pos:pos + 16])
        if k < maxpages or flags & 4:
            seed.add("dp%d.dp_address" % k, pos, 8, False, fidx)
            seed.add("dp%d.dp_size" % k, pos + 8, 4, False, fidx)
            seed.add("dp%d.dp_flags" % k, pos + 12, 4, False, fidx)
            seed.bound(pos, fidx)
            seed.bound(pos + 16, fidx)
            if size and pos + 16 + size <= len(d):
                seed.add("dp%d.data0" % k, pos + 16, 1, False, fidx)
                seed.add("dp%d.data1" % k, pos + 17, 1, False, fidx)
                seed.add("dp%d.datalast" % k, pos + 16 + size - 1, 1, False, fidx)
        if flags & 4:
            break
        pos += 16 + size
        k += 1
    seed.bound(pos, fidx)


def lkcd_seed(d, name, compression, flags):
    data = ""
    for i, fl in enumerate(flags):
        data += "@0x%x %s\n" % (i * 0x1000, fl)
        if i % 2 == 0:
            data += "%02x*0x700 00*0x100 %02x*0x800\n" % (0x41 + i, 0x61 + i)
        else:
            data += "".join("%02x " % ((j * 7 + i) & 0xff) for j in range(64)) + "\n" + "00*0xfc0\n"
    data += "@0x%x end\n" % (len(flags) * 0x1000)
    open(os.path.join(d, name + ".data"), "w").write(data)
    cfg = "arch_name = x86_64\npage_shift = 12\npage_offset = 0xffff880000000000\nNR_CPUS = 8\nnum_cpus = 1\n"
    cfg += "buffer_size = 0x1000\ncompression = %d\nDATA = %s.data\n" % (compression, name)
    run_tool("mklkcd", name + ".dump", cfg, d)
    s = Seed(name, "lkcd", [os.path.join(d, name + ".dump")])
    map_lkcd(s)
    return s


# ------------------------------------------------------------------------- SADUMP

SAD_PART = [("signature0", 0, 4), ("signature1", 4, 4), ("enable", 8, 4), ("reboot", 12, 4), ("compress", 16, 4),
            ("recycle", 20, 4), ("sadump_id.data1", 88, 4), ("disk_set_id.data1", 104, 4), ("vol_id.data1", 120, 4),
            ("time_stamp.year", 136, 2), ("set_disk_set", 152, 4), ("used_device", 160, 8),
            ("magicnum0", 168, 4), ("magicnum1", 172, 4)]
SAD_HDR = [("signature0", 0, 1), ("header_version", 8, 4), ("status", 32, 4), ("compress", 36, 4),
           ("block_size", 40, 4), ("extra_hdr_size", 44, 4), ("sub_hdr_size", 48, 4), ("bitmap_blocks", 52, 4),
           ("dumpable_bitmap_blocks", 56, 4), ("max_mapnr", 60, 4), ("total_ram_blocks", 64, 4),
           ("device_blocks", 68, 4), ("written_blocks", 72, 4), ("current_cpu", 76, 4), ("nr_cpus", 80, 4),
           ("max_mapnr_64", 88, 8), ("total_ram_blocks_64", 96, 8), ("device_blocks_64", 104, 8),
           ("written_blocks_64", 112, 8)]
SAD_MEDIA = [("m.sadump_id.data1", 0, 4), ("m.disk_set_id.data1", 16, 4), ("m.time_stamp.year", 32, 2),
             ("m.sequential_num", 48, 1), ("m.term_cord", 49, 1), ("m.disk_set_header_size", 50, 1),
             ("m.disks_in_use", 51, 1)]
SAD_DSET = [("ds.disk_set_header_size", 0, 4), ("ds.disk_num", 4, 4), ("ds.disk_set_size", 8, 8),
            ("ds.vol0.id.data1", 16, 4), ("ds.vol0.vol_size", 32, 8), ("ds.vol0.status", 40, 4)]


def map_sadump(seed, typ, fidx=0, bs=4096):
    d = seed.data[fidx]
    pos = 0
    if typ == "media":
        for nm, off, sz in SAD_MEDIA:
            seed.add(nm, off, sz, False, fidx)
        pos = bs
    for nm, off, sz in SAD_PART:
        seed.add("part." + nm, pos + off, sz, False, fidx)
    seed.add("part.magiclast", pos + bs - 4, 4, False, fidx)
    seed.bound(pos + 168, fidx)
    pos += bs
    seed.bound(pos, fidx)
    if typ == "diskset":
        for nm, off, sz in SAD_DSET:
            seed.add(nm, pos + off, sz, False, fidx)
        hb = int.from_bytes(d[pos:pos + 4], "little")
        pos += hb * bs
        seed.bound(pos, fidx)
    v = {}
    for nm, off, sz in SAD_HDR:
        seed.add("sh." + nm, pos + off, sz, False, fidx)
        v[nm] = int.from_bytes(d[pos + off:pos + off + sz], "little")
    sub = pos + bs
    seed.bound(sub, fidx)
    seed.add("arch.size", sub, 4, False, fidx)
    ncpu = max(1, min(v["nr_cpus"], 4))
    cs = sub + 4 + ncpu * 16
    seed.add("arch.cpu0.ia32_efer", cs + 968 - 40, 8, False, fidx)
    bm = pos + bs * (1 + v["sub_hdr_size"])
    seed.bound(bm, fidx)
    bm2 = bm + bs * v["bitmap_blocks"]
    seed.bound(bm2, fidx)
    dat = bm2 + bs * v["dumpable_bitmap_blocks"]
    seed.bound(dat, fidx)
    for k in (0, 1):
        seed.add("bitmap1.byte%d" % k, bm + k, 1, False, fidx)
        seed.add("bitmap2.byte%d" % k, bm2 + k, 1, False, fidx)
    seed.bound(dat + bs, fidx)


SAD_CPU = """@cpu 0
0000000000000000*58
"gdth" "ldth" "idth"
00000000*3
"io_eip  "
0000000000000000*10
"cr4 "
00000000*18
"gdtl" "gdtx"
"idtl" "idtx"
"ldtl" "ldtx"
"ldti"
0000000000000000*6
"eptp    "
"eptp"
00000000*5
"smbs"
"smid"
"io"
"hl"
00000000*6
"r15     " "r14     " "r13     " "r12     "
"r11     " "r10     " "r9      " "r8      "
"rax     " "rcx     " "rdx     " "rbx     "
"rsp     " "rbp     " "rsi     " "rdi     "
"io_mem_a"
"io_m"
"es  " "cs  " "ss  " "ds  " "fs  " "gs  "
"ldtr"
"tr  "
"dr7     " "dr6     "
"rip     "
0000000000000d01
0000000000000046
"cr3     "
0000000080050033
"""


def sadump_seed(d, name, typ, set_disk_set):
    data = "@0\n41*0x800 61*0x800\n@0x1000\n42*0x1000\n@0x3000\n43*0x1000\n" + SAD_CPU
    open(os.path.join(d, name + ".data"), "w").write(data)
    cfg = "type = %s\ndisk_num = 1\nset_disk_set = %d\nblock_size = 4096\nmax_mapnr = 0x40\nnr_cpus = 1\nDATA = %s.data\n" % (
        typ, set_disk_set, name)
    run_tool("mksadump", name + ".dump", cfg, d)
    s = Seed(name, "sadump", [os.path.join(d, name + ".dump")])
    map_sadump(s, typ)
    return s


# --------------------------------------------------------------------------- s390

S390_HDR = [("magic", 0, 8), ("version", 8, 4), ("hdr_size", 12, 4), ("dump_level", 16, 4), ("page_size", 20, 4),
            ("mem_size", 24, 8), ("mem_start", 32, 8), ("mem_end", 40, 8), ("num_pages", 48, 4), ("tod", 56, 8),
            ("cpu_id", 64, 8), ("arch", 72, 4), ("volnr", 76, 4), ("build_arch", 80, 4), ("mem_size_real", 84, 8)]


def s390_seed(d):
    npages = 3
    h = bytearray(0x1000)
    struct.pack_into(">QIIIIQQQI", h, 0, 0xa8190173618f23fd, 5, 0x1000, 4, 4096, npages * 4096, 0, npages * 4096, npages)
    struct.pack_into(">QQIII", h, 56, 0x1000, 0, 2, 0, 2)
    struct.pack_into(">Q", h, 84, npages * 4096)
    body = b"".join(bytes([0x41 + i]) * 4096 for i in range(npages))
    end = b"DUMP_END" + struct.pack(">Q", 0x2000)
    p = os.path.join(d, "s390.dump")
    open(p, "wb").write(bytes(h) + body + end)
    s = Seed("s390", "s390", [p])
    for nm, off, sz in S390_HDR:
        s.add(nm, off, sz, True)
    eo = 0x1000 + npages * 4096
    s.add("end.str0", eo, 1, True)
    s.add("end.tod", eo + 8, 8, True)
    for b in (0x200, 0x800, 0x1000, 0x2000, eo, eo + 8, eo + 16):
        s.bound(b)
    return s


# ---------------------------------------------------------------------------- all

def build_seeds(d):
    """All seeds, in a fixed order."""
    os.makedirs(d, exist_ok=True)
    seeds = []
    seeds.append(elf_seed(d, "elf64le", 2, 1, 62))
    seeds.append(elf_seed(d, "elf64un", 2, 1, 62, unaligned=True))
    seeds.append(elf_seed(d, "elf32le", 1, 1, 3))
    seeds.append(elf_seed(d, "elf32be", 1, 2, 20))                       # ppc: no default page size
    seeds.append(elf_seed(d, "elf64be", 2, 2, 22))                       # s390x
    seeds.append(elf_seed(d, "elf64a64", 2, 1, 183, pagesize_note=False))  # aarch64 without PAGESIZE (item 33)
    seeds.append(elf_seed(d, "elf64flat", 2, 1, 62, flattened=True))
    seeds.append(elf_xen_seed(d))
    seeds.append(elf_partial_seed(d))
    p = diskdump_seed(d, "kd64", "x86_64", "64")
    s = Seed("kd64", "diskdump", [p]); map_diskdump(s, 0, "64"); seeds.append(s)
    p = binary_seed(d, "kd32", ["diskdump-v6-ia32.data", "basic.expect"])
    s = Seed("kd32", "diskdump", [p]); map_diskdump(s, 0, "32pack"); seeds.append(s)
    p = binary_seed(d, "kdarm", ["diskdump-v6-arm.data", "basic.expect"])
    s = Seed("kdarm", "diskdump", [p]); map_diskdump(s, 0, "32pad"); seeds.append(s)
    p = diskdump_seed(d, "kdppc", "ppc64", "64", methods=("raw", "zlib"))
    s = Seed("kdppc", "diskdump", [p]); map_diskdump(s, 0, "64", be=True); seeds.append(s)
    p = diskdump_seed(d, "kdflat", "x86_64", "64", flattened=True, methods=("raw", "zlib"))
    s = Seed("kdflat", "flat", [p]); map_flat(s); seeds.append(s)
    p1 = diskdump_seed(d, "kdsp1", "x86_64", "64", split=(0, 2), methods=("raw", "zlib"))
    p2 = diskdump_seed(d, "kdsp2", "x86_64", "64", split=(2, 4), methods=("zlib", "raw"))
    s = Seed("kdsplit", "diskdump", [p1, p2]); map_diskdump(s, 0, "64", maxdesc=2); map_diskdump(s, 1, "64", maxdesc=2)
    seeds.append(s)
    # three files with longer windows and gaps inside them (page map walks across files)
    q1 = diskdump_seed(d, "kdsq1", "x86_64", "64", split=(0, 9), methods=("raw",) * 6, pfns=(0, 1, 2, 3, 4, 5))
    q2 = diskdump_seed(d, "kdsq2", "x86_64", "64", split=(9, 20), methods=("raw", "zlib", "raw", "raw", "raw"),
                       pfns=(9, 10, 11, 14, 15))
    q3 = diskdump_seed(d, "kdsq3", "x86_64", "64", split=(20, 48), methods=("raw", "raw", "zlib", "raw"),
                       pfns=(20, 21, 30, 40))
    s = Seed("kdsplit3", "diskdump", [q1, q2, q3])
    for i in range(3):
        map_diskdump(s, i, "64", maxdesc=1)
    seeds.append(s)
    seeds.append(lkcd_seed(d, "lkrle", 1, ["compress", "compress", "raw", "compress"]))
    seeds.append(lkcd_seed(d, "lkgz", 2, ["compress", "raw", "compress"]))
    seeds.append(sadump_seed(d, "sadsingle", "single", 0))
    seeds.append(sadump_seed(d, "saddiskset", "diskset", 1))
    seeds.append(sadump_seed(d, "sadmedia", "media", 0))
    seeds.append(s390_seed(d))
    return seeds


import re as _re

LEN_FIELD = _re.compile(r"(size|sz$|sz\b|namesz|descsz|len|num$|count|blocks|nr_cpus|_num\b|phnum|shnum|entsize|mapnr|num_pages|num_dump_pages)")
OFF_FIELD = _re.compile(r"(off$|offset|_off\b|phoff|shoff|p_paddr|p_vaddr|pfn|used_device|buffer_size|mem_start|mem_end|sh_info|sh_link|sh_name|strndx)")
STRUCT_SIZES = (12, 16, 24, 32, 40, 52, 56, 64, 4096)


def field_class(f):
    n = f.name.split(".")[-1]
    if LEN_FIELD.search(n):
        return "len"
    if OFF_FIELD.search(n):
        return "off"
    return "other"


def wrap_values(f, dense):
    """Values just below 2^32 and 2^64 (as far as the field is wide enough): 2^b - k, so that
    field + <size of the enclosing header / name / structure> wraps around to 0..64 in 32-bit or
    64-bit arithmetic.  dense: every k in 1..64 plus the structure sizes and their +0..64
    neighbourhoods in steps of 4; otherwise a sparse set."""
    bits = 8 * f.size
    ks = set()
    if dense:
        ks |= set(range(1, 65))
        for c in STRUCT_SIZES:
            ks |= {c + r for r in range(0, 65, 4)}
    else:
        ks |= {1, 2, 3, 4, 8, 12, 16, 20, 24, 32, 40, 56, 64, 4096}
    out = []
    for b in (32, 64):
        if b <= bits:
            for k in sorted(ks):
                out.append(((1 << b) - k) & ((1 << bits) - 1))
    if bits == 16:
        out += [(1 << 16) - k for k in (1, 2, 4, 8, 16, 32, 56, 64)]
    return out


def corrupt_values(f, data, wraps="none"):
    """The enumerated corruptions of one field: 0, 1, max, sign boundaries, +-1; for length / count /
    offset fields additionally the near-wrap values (wraps = "dense" | "sparse" | "none"), deduplicated,
    the original value excluded."""
    bits = 8 * f.size
    orig = f.get(data) if f.off + f.size <= len(data) else 0
    mask = (1 << bits) - 1
    vals = [0, 1, mask, (1 << (bits - 1)) - 1, 1 << (bits - 1), (orig + 1) & mask, (orig - 1) & mask]
    cls = field_class(f)
    if wraps != "none" and cls != "other" and f.size >= 2:
        vals += wrap_values(f, dense=(wraps == "dense" and cls == "len"))
    out = []
    seen = set()
    for v in vals:
        if v != orig and v not in seen:
            seen.add(v)
            out.append(v)
    return out


def window_cases(seed):
    """Split sets: for each file the PFN window (start_pfn_64, end_pfn_64; also the 32-bit
    start_pfn/end_pfn) set to every pair of interesting boundaries: overlapping the neighbours,
    inverted, equal, beyond max_mapnr.  Returns [(what, patches)]."""
    wins = []
    for fi in range(len(seed.files)):
        fs = {f.name: f for f in seed.fields if f.fidx == fi}
        if "sub.start_pfn_64" not in fs:
            return []
        wins.append((fs["sub.start_pfn_64"], fs["sub.end_pfn_64"], fs["sub.start_pfn"], fs["sub.end_pfn"]))
    bset = {0, 1, 0x40, 0x41, 1 << 63, (1 << 64) - 1}
    for fs_, fe_, _, _ in wins:
        for f in (fs_, fe_):
            v = f.get(seed.data[f.fidx])
            bset |= {v, v + 1, max(0, v - 1), (v + 3)}
    bl = sorted(bset)
    out = []
    for fi, (fs_, fe_, f32s, f32e) in enumerate(wins):
        so, eo = fs_.get(seed.data[fi]), fe_.get(seed.data[fi])
        for a in bl:
            for b in bl:
                if (a, b) == (so, eo):
                    continue
                patches = [(fi, fs_.off, fs_.enc(a)), (fi, fe_.off, fe_.enc(b)),
                           (fi, f32s.off, f32s.enc(a)), (fi, f32e.off, f32e.enc(b))]
                out.append(("%s: file %d window = [0x%x, 0x%x)" % (seed.name, fi, a, b), patches))
    return out


def pagesize_cases(seed):
    """Every PAGESIZE=<digits> in the seed (VMCOREINFO text) replaced by other values with the same
    number of digits: smaller / larger powers of two, non-powers, zero.  Returns [(what, patches)]."""
    import re
    out = []
    for fi, data in enumerate(seed.data):
        for m in re.finditer(rb"PAGESIZE=(\d+)", data):
            n = len(m.group(1))
            orig = int(m.group(1))
            for v in (0, 1, 256, 512, 1024, 2048, 4096, 8192, 16384, 65536, 262144, 524288, 4095, 4097, 3000,
                      10 ** n - 1):
                if v != orig and len(str(v)) <= n:
                    out.append(("%s: VMCOREINFO PAGESIZE=%d (file %d at 0x%x)" % (seed.name, v, fi, m.start(1)),
                                [(fi, m.start(1), str(v).zfill(n).encode())]))
    return out


def relocation_cases(seed, sect=5):
    """The bytes of a section (default: .xen_pfn of the xc_core seed) copied to unaligned file offsets
    that make its fixed-size entries straddle a 4 KiB file cache boundary, and sh_offset pointed
    there.  The file still means the same, so the outcome must equal the unmodified seed's.
    Returns [(what, patches)]."""
    d = seed.data[0]
    fs = {f.name: f for f in seed.fields}
    fo, fz = fs["sh%d.sh_offset" % sect], fs["sh%d.sh_size" % sect]
    off, size = fo.get(d), fz.get(d)
    body = d[off:off + size]
    out = []
    for x in (0x5000 - 12, 0x5000 - 20, 0x6000 - 15, 0x6000 - 9, 0x7000 - 6, 0x7000 - 28, 0x5000 - 8, 0x6000 - 16):
        out.append(("%s: sh%d relocated to 0x%x [same meaning as the unmodified seed]" % (seed.name, sect, x),
                    [(0, x, body), (0, fo.off, fo.enc(x))]))
    return out
