"""makedumpfile's flattened stream: writer ("flattener"), reader and the compact
file notation shared by harness/flat_drv.c and ml/eng_flat.ml (C11).

Format (see src/kdumpfile/flatmap.c): a 4096-byte header
  char signature[16] = "makedumpfile"; int64 type = 1; int64 version = 1   (big endian)
followed by records { int64 offset; int64 buf_size; char data[buf_size] } and the end
marker { offset = -1, buf_size = -1 }."""
import struct

HEADER_SIZE = 4096
SIGNATURE = b"makedumpfile" + b"\0" * 4


def header(type_=1, version=1, signature=SIGNATURE):
    h = signature + struct.pack(">qq", type_, version)
    return h + b"\0" * (HEADER_SIZE - len(h))


def s64(x):
    x &= (1 << 64) - 1
    return struct.pack(">Q", x)


def record(pos, data, size=None):
    return s64(pos) + s64(len(data) if size is None else size) + data


def end_marker():
    return s64(-1) + s64(-1)


def flatten(recs):
    """recs: list of (pos, bytes) in stream order."""
    return header() + b"".join(record(p, d) for p, d in recs) + end_marker()


def parse(stream):
    """Inverse of flatten: list of (pos, bytes); raises ValueError on a malformed stream."""
    if stream[:16] != SIGNATURE:
        raise ValueError("no signature")
    pos = HEADER_SIZE
    recs = []
    while True:
        if pos + 16 > len(stream):
            raise ValueError("no end marker")
        off, size = struct.unpack(">qq", stream[pos:pos + 16])
        pos += 16
        if off == -1:
            return recs, pos
        if off < 0 or size <= 0 or pos + size > len(stream):
            raise ValueError("bad record")
        recs.append((off, stream[pos:pos + size]))
        pos += size


def rearrange(recs, length=None):
    """The plain file the stream stands for (zero filled), as bytes."""
    n = max([p + len(d) for p, d in recs] + [0])
    if length is not None:
        n = max(n, length)
    out = bytearray(n)
    for p, d in recs:
        out[p:p + len(d)] = d
    return bytes(out)


def segment(rng, plain, max_rec=None, rewrites=0.3, shuffle=True, skip_zero_runs=True, align=1):
    """A random segmentation of `plain` into records: any sizes, any order, optional
    earlier records with stale content that later ones overwrite, all-zero stretches
    optionally left out as holes.  The result rearranges to exactly `plain`
    (provided the stream's reader zero-fills holes)."""
    n = len(plain)
    cuts = {0, n}
    if n:
        k = rng.choice([0, 1, 2, 3, 5, 8, 13, 40]) if max_rec is None else n // max(1, max_rec) + 1
        for _ in range(k):
            cuts.add(rng.randrange(0, n + 1) // align * align)
    cuts = sorted(cuts)
    final = []
    for a, b in zip(cuts, cuts[1:]):
        if a == b:
            continue
        chunk = plain[a:b]
        if skip_zero_runs and not any(chunk) and rng.random() < 0.7:
            continue                      # a hole
        final.append((a, chunk))
    if shuffle and rng.random() < 0.8:
        rng.shuffle(final)
    # stale records: written first, completely overwritten afterwards
    stale = []
    if final and rng.random() < rewrites:
        for _ in range(rng.randint(1, 3)):
            a = rng.randrange(0, n)
            b = min(n, a + rng.randint(1, max(1, n // 3)))
            junk = bytes(rng.randrange(256) for _ in range(b - a))
            stale.append((a, junk))
        # make sure every stale byte is rewritten: append covering records at the end
        cover = [(a, plain[a:a + len(j)]) for a, j in stale]
        return stale + final + cover
    # overlapping duplicates with identical content
    if final and rng.random() < 0.3:
        a = rng.randrange(0, n)
        b = min(n, a + rng.randint(1, 64))
        final.insert(rng.randrange(len(final) + 1), (a, plain[a:b]))
    return final


def filespec(data):
    """Compact notation: z<hexlen> for runs of zero bytes, x<hex> otherwise."""
    out = []
    i = 0
    n = len(data)
    lit = bytearray()
    while i < n:
        if data[i] == 0:
            j = i
            while j < n and data[j] == 0:
                j += 1
            if j - i >= 12:
                if lit:
                    out.append("x" + bytes(lit).hex())
                    lit = bytearray()
                out.append("z%x" % (j - i))
                i = j
                continue
            lit += data[i:j]
            i = j
        else:
            lit.append(data[i])
            i += 1
    if lit:
        out.append("x" + bytes(lit).hex())
    return ",".join(out) if out else "z0"


def recspec(recs):
    return ",".join("%x:%s" % (p, d.hex()) for p, d in recs)
