(** C12 — a failed or partial read reports exactly the prefix it delivered.
    Statements only; every proof is [exact <lemma>].

    Model: Read/ReadModel.v ([read_locked], [read_string_locked] of
    src/kdumpfile/read.c; the string reader with the repair of
    fixes/12-read-string-leak.patch when [repaired = true]).
    Spec: Read/ReadSpec.v ([mem], [prefix_len], [prefix_bytes], [fail_status],
    [is_cstring], [string_blocked]).

    The page source [get_page] is arbitrary; hypotheses: the page size is a
    power of two below 2^64, a successful page has [page_size] bytes, a
    failing page has a status other than KDUMP_OK.  Reads are assumed not to
    wrap around 2^64. *)
From Coq Require Import NArith ZArith List Bool.
From KdV Require Import Base.Wrap64 Read.ReadModel Read.ReadSpec Read.ReadProofs.
Import ListNotations.
Local Open Scope N_scope.

Section C12.
Variable page_size : N.
Variable get_page : N -> gp.
Variable sh : N.
Hypothesis page_shift_small : sh < 64.
Hypothesis page_size_pow2 : page_size = 2 ^ sh.
Hypothesis pages_full : forall a d, get_page a = PageOk d -> length d = N.to_nat page_size.
Hypothesis failing_page_not_ok : forall a st, get_page a = PageErr st -> st <> KDUMP_OK.

Notation read_locked := (read_locked page_size get_page true).
Notation read_string_locked r := (ReadModel.read_string_locked page_size get_page r false true).
Notation mem := (mem page_size get_page).
Notation fail_status := (fail_status page_size get_page).
Notation prefix_len := (prefix_len page_size get_page).
Notation prefix_bytes := (prefix_bytes page_size get_page).
Notation is_cstring := (is_cstring page_size get_page).
Notation string_blocked := (string_blocked page_size get_page).

(** every read terminates (fuel = length + 1 suffices), never touches memory
    outside the page or the buffer, reports [prefix_len] bytes, leaves exactly
    the readable prefix followed by the untouched rest of the buffer, returns
    success or the status that stopped it, and gives back every page reference *)
Theorem C12_read_exact : forall a n buf,
  a + n <= W -> length buf = N.to_nat n ->
  exists r, read_locked (S (N.to_nat n)) a n buf = RDone r /\
    rr_plength r = N.of_nat (prefix_len a (N.to_nat n)) /\
    rr_buffer r = prefix_bytes a (N.to_nat n) ++ skipn (prefix_len a (N.to_nat n)) buf /\
    rr_status r = status_of (stop_of page_size get_page a (N.to_nat n)) /\
    open_pages (rr_events r) [] = [].
Proof. exact (read_exact page_size get_page sh page_shift_small page_size_pow2 pages_full). Qed.

(** success: the reported length is the requested length and every byte is
    the byte of memory at its address *)
Theorem C12_success_full : forall a n buf,
  a + n <= W -> length buf = N.to_nat n ->
  forall r, read_locked (S (N.to_nat n)) a n buf = RDone r -> rr_status r = KDUMP_OK ->
  rr_plength r = n /\ rr_buffer r = prefix_bytes a (N.to_nat n) /\
  length (rr_buffer r) = N.to_nat n /\
  forall i, (i < N.to_nat n)%nat ->
    nth_error (rr_buffer r) i = mem (a + N.of_nat i) /\ mem (a + N.of_nat i) <> None.
Proof. exact (read_success page_size get_page sh page_shift_small page_size_pow2 pages_full failing_page_not_ok). Qed.

(** failure: the reported length [k] is the number of leading bytes that can
    be provided, those bytes are in the buffer and correct, the buffer beyond
    them is untouched, byte [k] cannot be provided, the status is the status of
    the page that holds it, and [k] is the distance to that page's first byte
    (or 0) *)
Theorem C12_failure_prefix : forall a n buf,
  a + n <= W -> length buf = N.to_nat n ->
  forall r, read_locked (S (N.to_nat n)) a n buf = RDone r -> rr_status r <> KDUMP_OK ->
  let k := prefix_len a (N.to_nat n) in
  (k < N.to_nat n)%nat /\
  rr_plength r = N.of_nat k /\
  rr_buffer r = prefix_bytes a (N.to_nat n) ++ skipn k buf /\
  (forall i, (i < k)%nat ->
     nth_error (rr_buffer r) i = mem (a + N.of_nat i) /\ mem (a + N.of_nat i) <> None) /\
  (forall i, (k <= i)%nat -> nth_error (rr_buffer r) i = nth_error buf i) /\
  mem (a + N.of_nat k) = None /\
  fail_status (a + N.of_nat k) = Some (rr_status r) /\
  (k = 0%nat \/ (a + N.of_nat k) mod page_size = 0).
Proof. exact (read_failure page_size get_page sh page_shift_small page_size_pow2 pages_full). Qed.

(** [C12_read_exact], [C12_success_full] and [C12_failure_prefix] include reads
    that end exactly at 2^64 ([a + n = W]): the model's address wraps to 0
    after the last copy ([wadd]) and is not used again.  Spelled out for a
    range that is entirely present: the read succeeds in full *)
Theorem C12_read_to_top_of_address_space : forall a n buf,
  a + n = W -> length buf = N.to_nat n ->
  (forall i, (i < N.to_nat n)%nat -> mem (a + N.of_nat i) <> None) ->
  exists r, read_locked (S (N.to_nat n)) a n buf = RDone r /\
    rr_status r = KDUMP_OK /\ rr_plength r = n /\
    rr_buffer r = prefix_bytes a (N.to_nat n) /\
    forall i, (i < N.to_nat n)%nat -> nth_error (rr_buffer r) i = mem (a + N.of_nat i).
Proof. exact (read_top page_size get_page sh page_shift_small page_size_pow2 pages_full). Qed.

(** a zero-length read succeeds without asking for any page *)
Theorem C12_zero_length : forall a buf,
  read_locked 1 a 0 buf =
  RDone {| rr_status := KDUMP_OK; rr_plength := 0; rr_buffer := buf; rr_events := [] |}.
Proof. exact (read_zero page_size get_page). Qed.

(** a string read that succeeds returns exactly the bytes up to the first NUL
    at or after the address, across page boundaries; one that fails returns no
    string, and fails because a byte before any NUL cannot be provided (with
    that page's status) or because a realloc failed *)
Theorem C12_string_exact : forall repaired fuel a oracle r,
  a + N.of_nat fuel * page_size <= W ->
  read_string_locked repaired fuel a oracle = SDone r ->
  (sr_status r = KDUMP_OK -> exists id s, sr_string r = Some (id, s) /\ is_cstring a s) /\
  (sr_status r <> KDUMP_OK ->
     sr_string r = None /\
     ((exists k, string_blocked a k (sr_status r)) \/
      (sr_status r = KDUMP_ERR_SYSTEM /\ In false oracle))).
Proof. exact (string_exact page_size get_page sh page_shift_small page_size_pow2 pages_full failing_page_not_ok). Qed.

(** ... and a C string that is there is found, when memory can be obtained
    (fuel counts pages; one more than the string length always suffices) *)
Theorem C12_string_found : forall repaired fuel a oracle s,
  a + N.of_nat fuel * page_size <= W -> (length s < fuel)%nat ->
  is_cstring a s -> ~ In false oracle ->
  exists r id, read_string_locked repaired fuel a oracle = SDone r /\
    sr_status r = KDUMP_OK /\ sr_string r = Some (id, s).
Proof. exact (string_found page_size get_page sh page_shift_small page_size_pow2 pages_full). Qed.

(** no leak: on every return, under every allocation schedule, the only
    block still allocated is the string that is returned (none on failure) *)
Theorem C12_string_no_leak : forall fuel a oracle r,
  read_string_locked true fuel a oracle = SDone r ->
  outstanding (sr_events r) [] = ids (sr_string r).
Proof. exact (string_no_leak_top page_size get_page). Qed.

(** every successful get_page is followed by exactly one put_page before return *)
Theorem C12_refs_balanced : forall repaired fuel a oracle r,
  read_string_locked repaired fuel a oracle = SDone r ->
  open_pages (sr_events r) [] = [].
Proof. exact (string_balanced_top page_size get_page). Qed.

(** allocation bookkeeping of the string reader: every copy and the final
    [str[length] = 0] land inside the block that the last realloc granted —
    for every page source, start address, fuel and allocation schedule (no
    hypotheses at all) *)
Theorem C12_string_buffer_fits : forall repaired fuel a oracle,
  read_string_locked repaired fuel a oracle <> SOverrun.
Proof. exact (string_buffer_fits page_size get_page). Qed.

(** an address space outside the enumeration: failure, nothing delivered,
    buffer untouched, no page requested (the reported length is the number of
    bytes delivered also for invalid arguments) *)
Theorem C12_invalid_addrspace : forall fuel a n buf,
  ReadModel.read_locked page_size get_page false fuel a n buf =
  RDone {| rr_status := KDUMP_ERR_INVALID; rr_plength := 0; rr_buffer := buf; rr_events := [] |}.
Proof. exact (read_invalid_as page_size get_page). Qed.

Theorem C12_string_invalid_addrspace : forall repaired lazy fuel a oracle,
  ReadModel.read_string_locked page_size get_page repaired lazy false fuel a oracle =
  SDone {| sr_status := KDUMP_ERR_INVALID; sr_string := None; sr_events := [] |}.
Proof. exact (string_invalid_as page_size get_page). Qed.

End C12.

Print Assumptions C12_read_exact.
Print Assumptions C12_success_full.
Print Assumptions C12_failure_prefix.
Print Assumptions C12_read_to_top_of_address_space.
Print Assumptions C12_zero_length.
Print Assumptions C12_string_exact.
Print Assumptions C12_string_found.
Print Assumptions C12_string_no_leak.
Print Assumptions C12_refs_balanced.
Print Assumptions C12_string_buffer_fits.
Print Assumptions C12_invalid_addrspace.
Print Assumptions C12_string_invalid_addrspace.

(** a 4-byte page size, pages 0 and 4 present, page 8 and above missing (status 3) *)
Definition demo_pages (a : N) : gp :=
  if a =? 0 then PageOk [1; 2; 3; 4]
  else if a =? 4 then PageOk [5; 6; 0; 7]
  else PageErr 3%Z.

Definition demo_nonul (a : N) : gp :=
  if a =? 0 then PageOk [1; 2; 3; 4] else PageErr 3%Z.

(** the last two 4-byte pages of the address space *)
Definition demo_top (a : N) : gp :=
  if a =? 18446744073709551608 then PageOk [1; 2; 3; 4]
  else if a =? 18446744073709551612 then PageOk [5; 6; 7; 8]
  else PageErr 3%Z.

Example C12_top_nonvacuous :
  (match read_locked 4 demo_top true 7 18446744073709551610 6 (repeat 165 6) with
   | RDone r => Some (rr_status r, rr_plength r, rr_buffer r)
   | _ => None end) = Some (0%Z, 6, [3; 4; 5; 6; 7; 8]).
Proof. vm_compute. reflexivity. Qed.

(** the variant of the realloc step seeded as C12-c1 ("grow only when a page
    contributes bytes, reserve the NUL's byte only with the last part"): a
    string that fills a page to its last byte, with its NUL as the first byte
    of the next page, gets the terminator written one byte past its block *)
Definition demo_nul_first (a : N) : gp :=
  if a =? 0 then PageOk [1; 2; 3; 4]
  else if a =? 4 then PageOk [0; 5; 6; 7]
  else PageErr 3%Z.

Theorem C12_lazy_nul_variant_overrun_refuted :
  read_string_locked 4 demo_nul_first true true true 8 1 [] = SOverrun /\
  (match read_string_locked 4 demo_nul_first true false true 8 1 [] with
   | SDone r => Some (sr_status r, sr_string r) | _ => None end)
  = Some (0%Z, Some (1%nat, [2; 3; 4])).
Proof. split; vm_compute; reflexivity. Qed.

(** defect 12 of the pinned tree: the partial string is not freed when a
    later page fails *)
Theorem C12_pinned_string_leak_refuted :
  exists r, read_string_locked 4 demo_nonul false false true 8 1 [] = SDone r /\
            sr_status r = 3%Z /\ sr_string r = None /\ outstanding (sr_events r) [] = [0%nat].
Proof. eexists. vm_compute. repeat split. Qed.

(** non-vacuity: the hypotheses hold for [demo_pages]; a read across the two
    present pages into the hole delivers 6 bytes and fails with status 3; the
    string at 2 crosses the page boundary *)
Example C12_nonvacuous :
  (forall a d, demo_pages a = PageOk d -> length d = N.to_nat 4) /\
  (forall a st, demo_pages a = PageErr st -> st <> KDUMP_OK) /\
  (match read_locked 4 demo_pages true 11 2 10 (repeat 165 10) with
   | RDone r => Some (rr_status r, rr_plength r, rr_buffer r)
   | _ => None end) = Some (3%Z, 6, [3; 4; 5; 6; 0; 7; 165; 165; 165; 165]) /\
  (match read_string_locked 4 demo_pages true false true 8 2 [] with
   | SDone r => Some (sr_status r, sr_string r)
   | _ => None end) = Some (0%Z, Some (1%nat, [3; 4; 5; 6])).
Proof.
  split; [|split; [|split; vm_compute; reflexivity]].
  - intros a d. unfold demo_pages. destruct (a =? 0); [intro H; inversion H; reflexivity|].
    destruct (a =? 4); [intro H; inversion H; reflexivity|discriminate].
  - intros a st. unfold demo_pages. destruct (a =? 0); [discriminate|].
    destruct (a =? 4); [discriminate|]. intro H; inversion H; discriminate.
Qed.
