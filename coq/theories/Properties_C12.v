From Coq Require Import NArith List.
From KdV Require Import Read.ReadModel Read.ReadSpec.
Import ListNotations.
Example C12_placeholder : memchr0 [1%N; 0%N] = Some 1.
Proof. vm_compute. reflexivity. Qed.
