(** C07 — statements only (work in progress: theorems follow). *)
From Coq Require Import NArith ZArith List Bool.
From KdV Require Import Base.Wrap64 Pfn.BitmapModel Pfn.RegionModel Pfn.PfnSpec.
Import ListNotations.
Local Open Scope N_scope.

Example C07_nonvacuous :
  skip_clear_lsb0 1 [0; 240; 15] 0 = 12 /\ skip_set_msb0 true 3 [255; 255; 127] 3 = 16.
Proof. vm_compute. split; reflexivity. Qed.
