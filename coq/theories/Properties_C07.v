(** C07 — page maps agree with what can be read, and with themselves.
    Statements only; every proof is [exact <lemma>].

    Models: Pfn/BitmapModel.v (the four bit scanners of pfn.c with their byte /
    aligned-word / byte phases, [pfn_regions_from_bitmap], [set_bits] /
    [clear_bits] of bitmap.c) and Pfn/RegionModel.v ([find_pfn_region],
    [find_pfn_file_map], [find_mapped_pfn], [find_unmapped_pfn],
    [get_pfn_map_bits], [sort_pfn_file_maps]; the descriptor lookup of
    diskdump_read_page).  The models are of the code repaired by
    fixes/05-*, 28-*, 29-*.patch; the [_pinned_refuted] statements show that the
    pinned expressions do not have the property.
    Spec: Pfn/PfnSpec.v — "is bit p of the file's bitmap set, and does p lie
    in the file's window" ([present]); [mapped] (RegionProofs) is "p lies in a
    region", tied to [present] by [C07_mapped_is_present].

    Hypotheses and why they do not restrict the property: bytes are < 256
    ([wf_bytes]); a bitmap holds the (end_pfn + 7) / 8 bytes the callers read;
    file windows are sorted by end_pfn and pairwise disjoint ([wf_maps],
    DESIGN 8.iii; [C07_sort_maps] shows sort_pfn_file_maps establishes the
    order); frame numbers are 64-bit ([< W]); get_bits gets first <= last and a
    buffer of ((last - first) >> 3) + 1 bytes with arbitrary content. *)
From Coq Require Import NArith ZArith List Bool Sorting.Sorted Sorting.Permutation.
From KdV Require Import Base.Wrap64 Pfn.BitmapModel Pfn.RegionModel Pfn.PfnSpec
                        Pfn.BitmapProofs Pfn.RegionProofs
                        Pfn.DdGeomModel Pfn.DdGeomProofs Pfn.ElfBitsModel Pfn.ElfProofs
                        Pfn.SadGeomModel Pfn.SadGeomProofs Pfn.FmtBridge Pfn.FmtReadable.
From KdV Require Import Fmt.Codec Fmt.ImageSpec Fmt.BitmapSpec.
From KdV Require Fmt.PfnModel Fmt.DiskdumpModel Fmt.DiskdumpSpec Fmt.DiskdumpProofs
                 Fmt.SadumpModel Fmt.SadumpSpec Fmt.SadumpProofs Fmt.SadumpOpenProofs
                 Fmt.ElfSpec Fmt.ElfModel Fmt.ElfProofs Fmt.ElfOpenProofs.
Import ListNotations.
Local Open Scope N_scope.

(** each scanner returns the least index >= [pfn] with the wanted bit value, or
    the size of the bitmap in bits ([pfn] itself beyond the bitmap); the buffer
    alignment [al] (which decides where the word loop starts) does not occur
    in the answer *)
Theorem C07_skip_clear_correct : forall msb0 al bm pfn, wf_bytes bm ->
  let r := skip_clear msb0 al bm pfn in
  if N.of_nat (length bm) <=? pfn / 8 then r = pfn
  else least_at true (bit_of msb0 bm) pfn (8 * N.of_nat (length bm)) r.
Proof. exact skip_clear_correct. Qed.
Print Assumptions C07_skip_clear_correct.

Theorem C07_skip_set_correct : forall msb0 al bm pfn, wf_bytes bm ->
  let r := skip_set true msb0 al bm pfn in
  if N.of_nat (length bm) <=? pfn / 8 then r = pfn
  else least_at false (bit_of msb0 bm) pfn (8 * N.of_nat (length bm)) r.
Proof. exact skip_set_correct. Qed.
Print Assumptions C07_skip_set_correct.

(** the regions made from a bitmap are exactly the maximal runs of set bits
    in [start_pfn, end_pfn): ascending, disjoint, non-adjacent, every set bit in
    one of them, [pos] advancing by [elemsz] per stored frame — for both
    numberings, all alignments and every allocation schedule (a refused
    allocation is the only other outcome; no out-of-bounds access, the loop
    ends within its fuel) *)
Theorem C07_regions_are_runs :
  forall msb0 al bm start_pfn end_pfn fileoff elemsz rs0 orc res orc',
  wf_bytes bm -> (end_pfn + 7) / 8 <= N.of_nat (length bm) ->
  regions_from_bitmap true msb0 al bm start_pfn end_pfn fileoff elemsz rs0 orc = (res, orc') ->
  match res with
  | ROk rs' => exists new, rs' = rs0 ++ new /\
      runs_from (bit_of msb0 bm) start_pfn end_pfn fileoff elemsz true new
  | RNoMem _ => In false orc
  | ROob | RFuel => False
  end.
Proof. exact regions_are_runs. Qed.
Print Assumptions C07_regions_are_runs.

(** such region lists, one per file with sorted disjoint windows, form a
    well-formed array of maps in which "inside a region" is "bit set in the
    file whose window holds the frame" *)
Theorem C07_mapped_is_present : forall ss rss,
  Forall2 built_from ss rss ->
  StronglySorted (fun a b => s_end a <= s_start b) ss ->
  let maps := List.map (fun x => map_of (fst x) (snd x)) (combine ss rss) in
  wf_maps maps /\ forall p, mapped maps p = present ss p.
Proof. exact mapped_is_present. Qed.
Print Assumptions C07_mapped_is_present.

(** sort_pfn_file_maps (with the tie-break of fixes/40-*.patch) yields a permutation sorted
    by (end_pfn, start_pfn), and for pairwise disjoint windows — empty ones [n, n) included —
    that is the order [wf_maps] asks for *)
Theorem C07_sort_maps : forall l,
  Permutation (sort_maps l) l /\ StronglySorted map_leP (sort_maps l).
Proof. exact (fun l => conj (sort_maps_perm l) (sort_maps_sorted l)). Qed.
Print Assumptions C07_sort_maps.

Theorem C07_sorted_disjoint_windows : forall l,
  StronglySorted map_leP l ->
  Forall (fun m => start_pfn m <= end_pfn m) l ->
  ForallOrdPairs (fun a b => end_pfn a <= start_pfn b \/ end_pfn b <= start_pfn a) l ->
  StronglySorted (fun a b => end_pfn a <= start_pfn b) l.
Proof. exact sorted_disjoint_windows. Qed.
Print Assumptions C07_sorted_disjoint_windows.

(** the binary search finds the first region whose end lies above the frame *)
Theorem C07_find_region_correct : forall m p, wf_regions (regions m) -> p < W ->
  exists o, find_region m p = Val o /\ region_idx_spec (regions m) p o.
Proof. exact find_region_spec. Qed.
Print Assumptions C07_find_region_correct.

(** bulk retrieval is exact for every (first, last): inside, between, after the
    regions, across file maps, whatever the buffer held; padding bits clear *)
Theorem C07_get_bits_exact : forall maps first last buf,
  wf_maps maps -> first <= last -> last < W -> wf_bytes buf ->
  length buf = S (N.to_nat ((last - first) / 8)) ->
  exists raw, get_pfn_map_bits maps first last buf = Val raw /\
    length raw = length buf /\ wf_bytes raw /\
    forall i, rbit raw i = (i <=? last - first) && mapped maps (first + i).
Proof. exact get_bits_exact. Qed.
Print Assumptions C07_get_bits_exact.

(** find-next-set: the least mapped frame at or above the index, over all files *)
Theorem C07_find_set_least : forall maps p, wf_maps maps -> p < W ->
  exists o, find_mapped_pfn true maps p = Val o /\
    match o with
    | None => forall q, p <= q -> mapped maps q = false
    | Some q => p <= q /\ mapped maps q = true /\
                forall j, p <= j -> j < q -> mapped maps j = false
    end.
Proof. exact find_mapped_spec. Qed.
Print Assumptions C07_find_set_least.

(** find-next-clear: the least unmapped frame at or above the index (runs that
    continue in the next file are followed) *)
Theorem C07_find_clear_least : forall maps p, wf_maps maps -> p < W ->
  exists q, find_unmapped_pfn true maps p = Val q /\ p <= q /\
            (forall j, p <= j -> j < q -> mapped maps j = true) /\ mapped maps q = false.
Proof. exact find_unmapped_spec. Qed.
Print Assumptions C07_find_clear_least.

(** the three queries are mutually consistent on every range *)
Theorem C07_mutually_consistent : forall maps first last buf idx,
  wf_maps maps -> first <= last -> last < W -> wf_bytes buf ->
  length buf = S (N.to_nat ((last - first) / 8)) -> first <= idx -> idx <= last ->
  exists raw, get_pfn_map_bits maps first last buf = Val raw /\
    (exists o, find_mapped_pfn true maps idx = Val o /\
       match o with
       | Some q => (q <= last -> rbit raw (q - first) = true) /\
                   forall j, idx <= j -> j < q -> j <= last -> rbit raw (j - first) = false
       | None => forall j, idx <= j -> j <= last -> rbit raw (j - first) = false
       end) /\
    (exists q, find_unmapped_pfn true maps idx = Val q /\
       (q <= last -> rbit raw (q - first) = false) /\
       forall j, idx <= j -> j < q -> j <= last -> rbit raw (j - first) = true).
Proof. exact mutually_consistent. Qed.
Print Assumptions C07_mutually_consistent.

(** set_bits / clear_bits change exactly the bits start..end and stay inside the buffer *)
Theorem C07_set_bits_exact : forall buf s e,
  wf_bytes buf -> s <= e -> e / 8 < N.of_nat (length buf) ->
  exists buf', set_bits buf s e = Some buf' /\ length buf' = length buf /\ wf_bytes buf' /\
    forall q, rbit buf' q = ((s <=? q) && (q <=? e)) || rbit buf q.
Proof. exact set_bits_spec. Qed.
Print Assumptions C07_set_bits_exact.

Theorem C07_clear_bits_exact : forall buf s e,
  wf_bytes buf -> s <= e -> e / 8 < N.of_nat (length buf) ->
  exists buf', clear_bits buf s e = Some buf' /\ length buf' = length buf /\ wf_bytes buf' /\
    forall q, rbit buf' q = negb ((s <=? q) && (q <=? e)) && rbit buf q.
Proof. exact clear_bits_spec. Qed.
Print Assumptions C07_clear_bits_exact.

(** "bit set iff a read does not report an excluded page", as far as the page
    map is concerned: the descriptor lookup of diskdump_read_page fails exactly
    for unmapped frames.  _partial: the rest of the read path (descriptor
    contents, decompression) belongs to C01 and is not modelled here, and this
    lookup has no correspondence run of its own. *)
Theorem C07_bit_iff_descriptor_partial : forall maps p, wf_maps maps -> p < W ->
  exists o, page_desc_lookup maps p = Val o /\ (o = None <-> mapped maps p = false).
Proof. exact page_lookup_iff_mapped. Qed.
Print Assumptions C07_bit_iff_descriptor_partial.

(** ** diskdump: which bitmap feeds which page map (read_bitmap) *)

(** a dump with two bitmaps of [h] blocks each: for every [max_pfn] up to AND
    INCLUDING the capacity 8 * h * bs of one bitmap (the exact-fill boundary),
    every block size and block count, file.pagemap is read from the second
    (dumpable) bitmap, memory.pagemap from the first (memory) bitmap, and
    [max_pfn] is kept *)
Theorem C07_diskdump_geometry_two_bitmaps : forall bs h max_pfn end_pfn,
  0 < bs -> 1 <= h -> max_pfn <= 8 * h * bs ->
  read_bitmap_geom false bs (2 * h) max_pfn end_pfn =
  {| file_off := h * bs; file_size := h * bs; mem_off := 0; mem_size := h * bs;
     max_pfn' := max_pfn;
     scan_end := if end_pfn <? 8 * h * bs then end_pfn else 8 * h * bs |}.
Proof. exact geom_two_bitmaps. Qed.
Print Assumptions C07_diskdump_geometry_two_bitmaps.

(** more frames than half the area describes: one bitmap feeds both maps *)
Theorem C07_diskdump_geometry_one_bitmap : forall bs bb max_pfn end_pfn,
  bb * bs * 8 / 2 < max_pfn ->
  read_bitmap_geom false bs bb max_pfn end_pfn =
  {| file_off := 0; file_size := bb * bs; mem_off := 0; mem_size := bb * bs;
     max_pfn' := if bb * bs * 8 <? max_pfn then bb * bs * 8 else max_pfn;
     scan_end := if end_pfn <? bb * bs * 8 then end_pfn else bb * bs * 8 |}.
Proof. exact geom_one_bitmap. Qed.
Print Assumptions C07_diskdump_geometry_one_bitmap.

(** hence: the regions behind file.pagemap are the maximal runs of the dumpable
    bitmap inside the file's window, those behind memory.pagemap the maximal
    runs of the memory bitmap *)
Theorem C07_diskdump_sources : forall al (mem dump : list N) bs h max_pfn,
  0 < bs -> 1 <= h -> max_pfn <= 8 * h * bs ->
  length mem = N.to_nat (h * bs) -> length dump = N.to_nat (h * bs) ->
  wf_bytes mem -> wf_bytes dump ->
  (forall start_pfn end_pfn descoff orc res orc',
     dd_file_regions false al (mem ++ dump) bs (2 * h) max_pfn start_pfn end_pfn descoff orc = (res, orc') ->
     match res with
     | ROk rs => runs_from (bit_of false dump) start_pfn
                           (if end_pfn <? 8 * h * bs then end_pfn else 8 * h * bs) descoff 24 true rs
     | RNoMem _ => In false orc
     | ROob | RFuel => False
     end) /\
  (forall orc res orc',
     dd_mem_regions false al (mem ++ dump) bs (2 * h) max_pfn orc = (res, orc') ->
     match res with
     | ROk rs => runs_from (bit_of false mem) 0 (8 * h * bs) 0 0 true rs
     | RNoMem _ => In false orc
     | ROob | RFuel => False
     end).
Proof. exact dd_sources. Qed.
Print Assumptions C07_diskdump_sources.

(** "bit set <=> the read does not report missing data", as far as diskdump's
    page lookup goes (supersedes C07_bit_iff_descriptor_partial by the max_pfn
    test; the descriptor contents / decompression remain C01's) *)
Theorem C07_diskdump_page_stored_partial : forall maps maxp p, wf_maps maps -> p < W ->
  exists b, dd_page_stored maps maxp p = Val b /\ b = (p <? maxp) && mapped maps p.
Proof. exact dd_page_stored_spec. Qed.
Print Assumptions C07_diskdump_page_stored_partial.

(** the comparison must be [<=]: with the narrowed test of seeded/C07-a1 a dump
    whose bitmaps are exactly full is parsed as one double-length bitmap *)
Theorem C07_diskdump_strict_test_refuted : forall bs h end_pfn, 0 < bs -> 1 <= h ->
  file_off (read_bitmap_geom true bs (2 * h) (8 * h * bs) end_pfn) = 0 /\
  file_size (read_bitmap_geom true bs (2 * h) (8 * h * bs) end_pfn) = 2 * h * bs.
Proof. exact geom_strict_boundary_wrong. Qed.
Print Assumptions C07_diskdump_strict_test_refuted.

(** ** ELF: segment-based page maps (elf_get_bits, elf_find_set, elf_find_clear)

    [wf_segs sh segs]: LOAD segments sorted by physical address, not overlapping,
    filesz <= memsz, ends below 2^64, and page aligned (phys, filesz, memsz
    multiples of 2^sh) — hence the suffix [_aligned]: unaligned segments are
    outside these theorems.  [emapped ismem sh segs p]: frame p is covered by a
    segment (by its file data for file.pagemap, by its memory size for
    memory.pagemap).  [lastc] is the value of the lookup cache edp->last_load:
    the answers are the same for all of them (history independence). *)
Theorem C07_elf_get_bits_exact_aligned : forall ismem sh, sh < 64 ->
  forall segs lastc first last buf,
  wf_segs sh segs -> first <= last -> last < W -> 2 ^ sh * (last - first + 1) < W ->
  wf_bytes buf -> length buf = S (N.to_nat ((last - first) / 8)) ->
  exists raw, elf_get_bits ismem sh segs lastc first last buf = Val raw /\
    length raw = length buf /\ wf_bytes raw /\
    forall i, rbit raw i = (i <=? last - first) && emapped ismem sh segs (first + i).
Proof. exact elf_get_bits_exact. Qed.
Print Assumptions C07_elf_get_bits_exact_aligned.

Theorem C07_elf_find_set_least_aligned : forall ismem sh, sh < 64 ->
  forall segs lastc idx, wf_segs sh segs ->
  match elf_find_set ismem sh segs lastc idx with
  | None => forall q, idx <= q -> emapped ismem sh segs q = false
  | Some r => idx <= r /\ emapped ismem sh segs r = true /\
              forall q, idx <= q -> q < r -> emapped ismem sh segs q = false
  end.
Proof. exact elf_find_set_spec. Qed.
Print Assumptions C07_elf_find_set_least_aligned.

Theorem C07_elf_find_clear_least_aligned : forall ismem sh, sh < 64 ->
  forall segs lastc idx, wf_segs sh segs -> idx < W ->
  let r := elf_find_clear ismem sh segs lastc idx in
  idx <= r /\ (forall q, idx <= q -> q < r -> emapped ismem sh segs q = true) /\
  emapped ismem sh segs r = false.
Proof. exact elf_find_clear_spec. Qed.
Print Assumptions C07_elf_find_clear_least_aligned.

Theorem C07_elf_mutually_consistent_aligned : forall ismem sh, sh < 64 ->
  forall segs lastc first last buf idx,
  wf_segs sh segs -> first <= last -> last < W -> 2 ^ sh * (last - first + 1) < W ->
  wf_bytes buf -> length buf = S (N.to_nat ((last - first) / 8)) -> first <= idx -> idx <= last ->
  exists raw, elf_get_bits ismem sh segs lastc first last buf = Val raw /\
    match elf_find_set ismem sh segs lastc idx with
    | Some q => (q <= last -> rbit raw (q - first) = true) /\
                forall j, idx <= j -> j < q -> j <= last -> rbit raw (j - first) = false
    | None => forall j, idx <= j -> j <= last -> rbit raw (j - first) = false
    end /\
    let q := elf_find_clear ismem sh segs lastc idx in
    (q <= last -> rbit raw (q - first) = false) /\
    forall j, idx <= j -> j < q -> j <= last -> rbit raw (j - first) = true.
Proof. exact elf_mutually_consistent. Qed.
Print Assumptions C07_elf_mutually_consistent_aligned.

(** non-vacuity of the ELF statements: three aligned segments, one without file
    data, a query window that starts inside the first and ends in the gap *)
Example C07_elf_nonvacuous :
  let segs := [ {| phys := 4096; filesz := 8192; memsz := 8192 |};
                {| phys := 12288; filesz := 0; memsz := 4096 |};
                {| phys := 32768; filesz := 4096; memsz := 12288 |} ] in
  elf_get_bits false 12 segs (Some 2%nat) 2 9 [165] = Val [65] /\
  elf_get_bits true 12 segs None 2 9 [165] = Val [195] /\
  elf_find_set false 12 segs (Some 0%nat) 3 = Some 8 /\
  elf_find_clear true 12 segs None 1 = 4 /\
  elf_find_set false 12 segs None 4503599627370496 = None.
Proof. vm_compute. repeat split; reflexivity. Qed.

(** ** SADUMP: where the two page maps come from (sadump.c open_common, read_bitmap,
    mem_pagemap_revalidate) *)

Theorem C07_sadump_geometry : forall hdr_pos bs sub bb db,
  let g := sadump_geom hdr_pos bs sub bb db in
  sg_mem_off g = hdr_pos + bs * (1 + sub) /\ sg_mem_size g = bs * bb /\
  sg_bmp_pos g = sg_mem_off g + sg_mem_size g /\ sg_bmp_len g = bs * db /\
  sg_data_pos g = sg_bmp_pos g + sg_bmp_len g.
Proof. exact sadump_geometry. Qed.
Print Assumptions C07_sadump_geometry.

(** file.pagemap's regions are the maximal runs (MSB-0 numbering) of the dumpable
    bitmap, memory.pagemap's those of the memory bitmap; max_pfn is clipped to the
    capacity of each *)
Theorem C07_sadump_sources : forall al (mem dump rest : list N) hdr_pos bs sub bb db max_pfn,
  length mem = N.to_nat (bs * bb) -> length dump = N.to_nat (bs * db) ->
  wf_bytes mem -> wf_bytes dump ->
  let g := sadump_geom hdr_pos bs sub bb db in
  (forall orc,
     fst (sd_file_regions al (mem ++ dump ++ rest) g max_pfn orc)
       = (if bs * db * 8 <? max_pfn then bs * db * 8 else max_pfn) /\
     match fst (snd (sd_file_regions al (mem ++ dump ++ rest) g max_pfn orc)) with
     | ROk rs => runs_from (bit_of true dump) 0 (bs * db * 8) 0 SADUMP_PAGE true rs
     | RNoMem _ => In false orc
     | ROob | RFuel => False
     end) /\
  (forall orc,
     fst (sd_mem_regions al (mem ++ dump ++ rest) g max_pfn orc)
       = (if bs * bb * 8 <? max_pfn then bs * bb * 8 else max_pfn) /\
     match fst (snd (sd_mem_regions al (mem ++ dump ++ rest) g max_pfn orc)) with
     | ROk rs => runs_from (bit_of true mem) 0 (bs * bb * 8) 0 SADUMP_PAGE true rs
     | RNoMem _ => In false orc
     | ROob | RFuel => False
     end).
Proof. exact sadump_sources. Qed.
Print Assumptions C07_sadump_sources.

(** disk sets: both bitmaps are read from the file that holds disk #1 (the one whose
    partition header carries that number), wherever it stands in the order the files
    were given, and they are that disk's bitmaps; no other file's bytes are looked at *)
Theorem C07_sadump_sources_file :
  forall al files nums (hdr mem dump rest : list N) hdr_pos bs sub bb db max_pfn k,
  disk1_index nums 0 = Some k ->
  let g := sadump_geom hdr_pos bs sub bb db in
  file_at files k = hdr ++ mem ++ dump ++ rest ->
  length hdr = N.to_nat (sg_mem_off g) -> length mem = N.to_nat (bs * bb) -> length dump = N.to_nat (bs * db) ->
  wf_bytes mem -> wf_bytes dump ->
  fst (fst (sd_file_src g k)) = k /\ fst (fst (sd_mem_src false g k)) = k /\
  (forall orc,
     match fst (snd (sd_set_file_regions al files g k max_pfn orc)) with
     | ROk rs => runs_from (bit_of true dump) 0 (bs * db * 8) 0 SADUMP_PAGE true rs
     | RNoMem _ => In false orc
     | ROob | RFuel => False
     end) /\
  (forall orc,
     match fst (snd (sd_set_mem_regions false al files g k max_pfn orc)) with
     | ROk rs => runs_from (bit_of true mem) 0 (bs * bb * 8) 0 SADUMP_PAGE true rs
     | RNoMem _ => In false orc
     | ROob | RFuel => False
     end).
Proof. exact sadump_sources_file. Qed.
Print Assumptions C07_sadump_sources_file.

(** fetching the memory bitmap from file index 0 instead (seeded/C07-c3) reads another
    disk as soon as disk #1 is not given first *)
Theorem C07_sadump_mem_from_first_refuted :
  exists files nums g k,
    disk1_index nums 0 = Some k /\
    sd_fetch files (sd_mem_src false g k) <> sd_fetch files (sd_mem_src true g k).
Proof. exact sadump_mem_from_first_refuted. Qed.
Print Assumptions C07_sadump_mem_from_first_refuted.

(** ** The bridge to C01's reader models (Pfn/FmtBridge.v)

    Fmt/PfnModel walks a bitmap bit by bit; Pfn/BitmapModel follows the C scanners.
    They return the same region list, record by record. *)
Theorem C07_fmt_bridge_regions : forall msb0 al bm start_pfn end_pfn fileoff elemsz orc rs orc',
  wf_bytes bm -> (end_pfn + 7) / 8 <= N.of_nat (length bm) ->
  regions_from_bitmap true msb0 al bm start_pfn end_pfn fileoff elemsz [] orc = (ROk rs, orc') ->
  rs = List.map conv_region (Fmt.PfnModel.regions_from_bitmap msb0 bm start_pfn end_pfn fileoff elemsz).
Proof. exact bridge_regions. Qed.
Print Assumptions C07_fmt_bridge_regions.

(** ** bit set <=> readable, composed with C01's round-trip theorems

    [has_page img p]: the image holds page p.  [mapped] / [mapped1] / [emapped]: bit p
    of file.pagemap as the opened state's region (segment) arrays define it — which the
    theorems above show is what get_bits / find_set / find_clear report. *)

(** diskdump, one file holding the whole dump ([_single_file]: for split sets C01 has
    the reader theorem, the composition is not done here) *)
Theorem C07_diskdump_bit_iff_readable_single_file :
  forall decompress l pages img,
  Fmt.DiskdumpSpec.dd_wf l img -> Fmt.DiskdumpSpec.dl_split l = false ->
  Forall2 (Fmt.DiskdumpSpec.stores decompress) pages img ->
  len (Fmt.DiskdumpSpec.encode_dd l pages) < 2^64 ->
  let rd := read_files [Fmt.DiskdumpSpec.encode_dd l pages] in
  let st := Fmt.DiskdumpProofs.expected_state l pages in
  let maps := List.map conv_map (Fmt.DiskdumpModel.dd_maps st) in
  Fmt.DiskdumpModel.dd_open rd 1 = Ok st /\ wf_maps maps /\
  forall p,
    mapped maps p = has_page img p /\
    (mapped maps p = true <->
     Fmt.DiskdumpModel.dd_read_page rd decompress st false p <> Err ERR_NODATA).
Proof. exact DD.bit_iff_readable. Qed.
Print Assumptions C07_diskdump_bit_iff_readable_single_file.

(** diskdump memory.pagemap: exactly the frames of the 1st bitmap the writer lays out
    (stored pages or extra RAM frames) *)
Theorem C07_diskdump_memory_pagemap :
  forall (l : Fmt.DiskdumpSpec.dd_layout) (pages : list (option Fmt.DiskdumpSpec.dd_page)) img al orc res o',
  Fmt.DiskdumpSpec.dd_wf l img -> Fmt.DiskdumpSpec.dl_two_bitmaps l = true ->
  let pgsz := Fmt.DiskdumpSpec.dl_page_size l in
  let h := Fmt.DiskdumpSpec.dl_bmp_blocks l in
  let nb := N.to_nat (h * pgsz) in
  let bits := List.map (@is_some _) pages in
  let ram := Fmt.DiskdumpSpec.orb_lists bits (Fmt.DiskdumpSpec.dl_mem_extra l) in
  (length ram <= 8 * nb)%nat ->
  dd_mem_regions false al (bits_to_bytes false nb ram ++ bits_to_bytes false nb bits)
                 pgsz (2 * h) (Fmt.DiskdumpSpec.dl_max_mapnr l) orc = (res, o') ->
  match res with
  | ROk rs => forall p, existsb (fun r => inb r p) rs = nth (N.to_nat p) ram false
  | RNoMem _ => In false orc
  | ROob | RFuel => False
  end.
Proof. exact dd_memory_pagemap. Qed.
Print Assumptions C07_diskdump_memory_pagemap.

(** SADUMP, single partition ([_single]: media backups and disk sets have C01 reader
    theorems of the same shape; not composed here) *)
Theorem C07_sadump_bit_iff_readable_single : forall l img,
  Fmt.SadumpOpenProofs.sd_wf l img ->
  let rd := read_files (Fmt.SadumpSpec.encode_sadump l img) in
  exists st, Fmt.SadumpModel.sd_open rd 1 = Ok st /\
    let m := SD.file_map st (Fmt.SadumpOpenProofs.nbytes l) in
    wf_map m /\
    forall p,
      mapped1 m p = has_page img p /\
      (mapped1 m p = true <-> Fmt.SadumpModel.sd_read_page rd st false p <> Err ERR_NODATA).
Proof. exact SD.bit_iff_readable. Qed.
Print Assumptions C07_sadump_bit_iff_readable_single.

(** SADUMP: both page maps hold exactly the frames of the bit lists the writer packs *)
Theorem C07_sadump_pagemap_sources : forall al mbits dbits rest hdr_pos bs sub bb db max_pfn orc,
  (length mbits <= 8 * N.to_nat (bs * bb))%nat -> (length dbits <= 8 * N.to_nat (bs * db))%nat ->
  let mem := bits_to_bytes true (N.to_nat (bs * bb)) mbits in
  let dump := bits_to_bytes true (N.to_nat (bs * db)) dbits in
  let g := sadump_geom hdr_pos bs sub bb db in
  match fst (snd (sd_file_regions al (mem ++ dump ++ rest) g max_pfn orc)) with
  | ROk rs => forall p, existsb (fun r => inb r p) rs = nth (N.to_nat p) dbits false
  | RNoMem _ => In false orc
  | ROob | RFuel => False
  end /\
  match fst (snd (sd_mem_regions al (mem ++ dump ++ rest) g max_pfn orc)) with
  | ROk rs => forall p, existsb (fun r => inb r p) rs = nth (N.to_nat p) mbits false
  | RNoMem _ => In false orc
  | ROob | RFuel => False
  end.
Proof. exact sd_pagemap_sources. Qed.
Print Assumptions C07_sadump_pagemap_sources.

(** ELF ([_aligned]: every LOAD segment page aligned): for the state C01's reader
    opens, for every value of the lookup caches ([same_arrays]) *)
Theorem C07_elf_bit_iff_readable_aligned : forall l segs sh,
  Fmt.ElfOpenProofs.elf_wf l segs -> sh < 64 ->
  (forall s, In s segs -> Fmt.ElfOpenProofs.is_load s ->
     Fmt.ElfSpec.sg_phys s mod 2 ^ sh = 0 /\ Fmt.ElfSpec.sg_filesz s mod 2 ^ sh = 0 /\
     Fmt.ElfSpec.sg_memsz s mod 2 ^ sh = 0) ->
  exists st0, Fmt.ElfModel.elf_open (read_files [Fmt.ElfSpec.encode_elf l segs]) 1 = Ok st0 /\
    wf_segs sh (List.map EL.of_ls (Fmt.ElfModel.es_sorted st0)) /\
    forall st, Fmt.ElfProofs.same_arrays st st0 ->
    forall p, 2 ^ sh * p + 2 ^ sh < 2 ^ 64 ->
      (emapped false sh (List.map EL.of_ls (Fmt.ElfModel.es_sorted st0)) p = true <->
       fst (Fmt.ElfModel.elf_get_page (read_files [Fmt.ElfSpec.encode_elf l segs]) (2 ^ sh) false false st
                                      (2 ^ sh * p)) <> Err ERR_NODATA).
Proof. exact EL.bit_iff_readable. Qed.
Print Assumptions C07_elf_bit_iff_readable_aligned.

(** the pinned code does not have the property (each witness replayed on the
    real pfn.c is a finding; see known_findings.d/C07.json) *)
Theorem C07_skip_set_msb0_pinned_refuted :
  skip_set false true 2 [139; 213] 7 = 8 /\ bit_of true [139; 213] 8 = true /\
  skip_set true true 2 [139; 213] 7 = 10.
Proof. exact skip_set_msb0_pinned_wrong. Qed.
Print Assumptions C07_skip_set_msb0_pinned_refuted.

Theorem C07_find_set_pinned_refuted :
  find_mapped_pfn false two_files 5 = Val None /\ mapped two_files 12 = true /\
  find_mapped_pfn true two_files 5 = Val (Some 12).
Proof. exact pinned_find_mapped_wrong. Qed.
Print Assumptions C07_find_set_pinned_refuted.

Theorem C07_find_clear_pinned_refuted :
  find_unmapped_pfn false touching_files 4 = Val 8 /\ mapped touching_files 8 = true /\
  find_unmapped_pfn true touching_files 4 = Val 12.
Proof. exact pinned_find_unmapped_wrong. Qed.
Print Assumptions C07_find_clear_pinned_refuted.

(** non-vacuity: two files with touching windows, an LSB-0 and an MSB-0 bitmap
    whose run of set bits crosses the file boundary; the regions are built by
    the model, the hypotheses of the theorems hold, and the three queries give
    the answers read off the bitmaps *)
Example C07_nonvacuous :
  let s1 := {| s_start := 0; s_end := 16; s_msb0 := false; s_bitmap := [240; 255] |} in
  let s2 := {| s_start := 16; s_end := 32; s_msb0 := true; s_bitmap := [0; 0; 224; 3] |} in
  match regions_from_bitmap true false 1 [240; 255] 0 16 4096 24 [] [],
        regions_from_bitmap true true 3 [0; 0; 224; 3] 16 32 8192 24 [] [] with
  | (ROk r1, _), (ROk r2, _) =>
      let maps := [map_of s1 r1; map_of s2 r2] in
      r1 = [ {| g_pfn := 4; g_cnt := 12; g_pos := 4096 |} ] /\
      r2 = [ {| g_pfn := 16; g_cnt := 3; g_pos := 8192 |}; {| g_pfn := 30; g_cnt := 2; g_pos := 8264 |} ] /\
      find_unmapped_pfn true maps 5 = Val 19 /\
      find_mapped_pfn true maps 19 = Val (Some 30) /\
      get_pfn_map_bits maps 3 34 [165; 165; 165; 165] = Val [254; 255; 0; 24] /\
      List.map (present [s1; s2]) [3; 4; 15; 16; 18; 19; 29; 30; 31; 32]
        = [false; true; true; true; true; false; false; true; true; false]
  | _, _ => False
  end.
Proof. vm_compute. repeat split; reflexivity. Qed.
