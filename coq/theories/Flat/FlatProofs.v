(** Proofs for C11 (flattened files): the model of flatmap.c refines the
    specification [FlatSpec.rearrange]. *)
From Coq Require Import NArith ZArith List Bool Lia ZifyBool ZifyNat ZifyN.
From KdV Require Import Base.Wrap64 Base.ByteSeq Map.MapModel Map.MapSpec Map.MapProofs
     Flat.FlatModel Flat.FlatSpec.
Import ListNotations.
Local Open Scope N_scope.

(** * Bytes and big-endian numbers *)

Lemma be_val_app a : forall acc b, be_val acc (a ++ b) = be_val (be_val acc a) b.
Proof. induction a as [|x a IH]; intros acc b; cbn [app be_val]; [reflexivity|apply IH]. Qed.

Lemma enc_be_length n : forall x, length (enc_be n x) = n.
Proof.
  induction n as [|n IH]; intros x; cbn [enc_be]; [reflexivity|].
  rewrite app_length, IH. cbn [length]. lia.
Qed.

Lemma be_val_enc_be n : forall acc x,
  be_val acc (enc_be n x) = acc * 256 ^ N.of_nat n + x mod 256 ^ N.of_nat n.
Proof.
  induction n as [|n IH]; intros acc x.
  - cbn [enc_be be_val]. change (N.of_nat 0) with 0. rewrite N.pow_0_r, N.mod_1_r. lia.
  - cbn [enc_be]. rewrite be_val_app, IH. cbn [be_val].
    rewrite Nnat.Nat2N.inj_succ, N.pow_succ_r'.
    set (P := 256 ^ N.of_nat n).
    assert (HP : P <> 0) by (apply N.pow_nonzero; discriminate).
    rewrite (N.mul_comm 256 P).
    rewrite (N.mod_mul_r x P 256) by (assumption || discriminate).
    pose proof (N.mod_upper_bound x P HP).
    (* x mod P + P * ((x / P) mod 256) versus (x/256) ... *)
    assert (E : x / 256 mod P * 256 + x mod 256 = x mod P + P * ((x / P) mod 256)).
    { (* both sides are x mod (256 * P) *)
      rewrite <- (N.mod_mul_r x P 256) by (assumption || discriminate).
      rewrite (N.mul_comm P 256).
      rewrite (N.mod_mul_r x 256 P) by (assumption || discriminate). lia. }
    lia.
Qed.

Lemma be64_enc_dec x : x < W -> be64 (be64_enc x) = x.
Proof.
  intros H. unfold be64, be64_enc. rewrite be_val_enc_be.
  change (256 ^ N.of_nat 8) with 18446744073709551616.
  rewrite W_val in H. rewrite N.mod_small by exact H. lia.
Qed.

Lemma be64_enc_length x : length (be64_enc x) = 8%nat.
Proof. apply enc_be_length. Qed.

Lemma s64_small x : x < 9223372036854775808 -> s64 x = Z.of_N x.
Proof. intros H. unfold s64. destruct (N.ltb_spec x 9223372036854775808); [reflexivity|lia]. Qed.

Lemma s64_end : s64 END_FLAG = (-1)%Z.
Proof. reflexivity. Qed.

(** * Lists: slices and indexed access *)

Definition nth_N (l : bytes) (k : N) : byte := nth (N.to_nat k) l 0.
Definition sl (l : bytes) (p n : N) : bytes := firstn (N.to_nat n) (skipn (N.to_nat p) l).

Lemma nseq_length s n : length (nseq s n) = n.
Proof. revert s. induction n as [|n IH]; intros s; cbn [nseq length]; [reflexivity|now rewrite IH]. Qed.

Lemma nseq_app s a b : nseq s (a + b) = nseq s a ++ nseq (s + N.of_nat a) b.
Proof.
  revert s. induction a as [|a IH]; intros s.
  - cbn [nseq app plus]. now rewrite N.add_0_r.
  - cbn [nseq app plus]. rewrite IH. f_equal. f_equal. f_equal. lia.
Qed.

Lemma skipn_S_tl {A} (l : list A) : forall p x t, skipn p l = x :: t -> skipn (S p) l = t.
Proof.
  induction l as [|a l IH]; intros p x t H.
  - destruct p; discriminate.
  - destruct p as [|p]; cbn [skipn] in *.
    + now injection H as _ ->.
    + now apply IH with x.
Qed.

Lemma in_nseq x n : forall s, In x (nseq s n) -> exists k, k < N.of_nat n /\ x = s + k.
Proof.
  induction n as [|n IH]; intros s H; [destruct H|].
  cbn [nseq] in H. destruct H as [<-|H]; [exists 0; lia|].
  apply IH in H as (k & Hk & ->). exists (1 + k). lia.
Qed.

Lemma firstn_skipn_map (l : bytes) : forall p n,
  (p + n <= length l)%nat ->
  firstn n (skipn p l) = List.map (nth_N l) (nseq (N.of_nat p) n).
Proof.
  intros p n. revert p. induction n as [|n IH]; intros p H.
  - reflexivity.
  - cbn [nseq List.map].
    destruct (skipn p l) as [|x t] eqn:E.
    + assert (length (skipn p l) = 0%nat) by now rewrite E.
      rewrite skipn_length in *. lia.
    + cbn [firstn]. f_equal.
      * unfold nth_N. rewrite Nnat.Nat2N.id.
        rewrite <- (firstn_skipn p l) at 1. rewrite app_nth2; rewrite firstn_length_le by lia; [|lia].
        rewrite Nat.sub_diag, E. reflexivity.
      * replace t with (skipn (S p) l).
        -- rewrite IH by lia. f_equal. f_equal. lia.
        -- now apply skipn_S_tl with x.
Qed.

Lemma sl_map l p n :
  p + n <= N.of_nat (length l) -> sl l p n = List.map (nth_N l) (nseq p (N.to_nat n)).
Proof.
  intros H. unfold sl. rewrite firstn_skipn_map by lia. now rewrite Nnat.N2Nat.id.
Qed.

Lemma sl_app_mid (pre a rest : bytes) :
  sl (pre ++ a ++ rest) (N.of_nat (length pre)) (N.of_nat (length a)) = a.
Proof.
  unfold sl. rewrite !Nnat.Nat2N.id.
  rewrite skipn_app, skipn_all, Nat.sub_diag. cbn [app skipn].
  rewrite firstn_app, firstn_all, Nat.sub_diag. cbn [firstn]. now rewrite app_nil_r.
Qed.

Lemma nth_N_app_mid (pre a rest : bytes) k :
  k < N.of_nat (length a) ->
  nth_N (pre ++ a ++ rest) (N.of_nat (length pre) + k) = nth (N.to_nat k) a 0.
Proof.
  intros H. unfold nth_N.
  replace (N.to_nat (N.of_nat (length pre) + k)) with (length pre + N.to_nat k)%nat by lia.
  rewrite app_nth2_plus. apply app_nth1. lia.
Qed.

Lemma take0_firstn n : forall b, (n <= length b)%nat -> take0 n b = firstn n b.
Proof.
  induction n as [|n IH]; intros b H; [reflexivity|].
  destruct b as [|x b]; cbn [length] in H; [lia|].
  cbn [take0 firstn]. f_equal. apply IH. lia.
Qed.

Lemma slice0_sl l p n : p + n <= N.of_nat (length l) -> 0 < n -> slice0 l p n = sl l p n.
Proof.
  intros H Hn. unfold slice0, sl.
  destruct (N.leb_spec (N.of_nat (length l)) p); [lia|].
  apply take0_firstn. rewrite skipn_length. lia.
Qed.

Lemma zeros_map {A} (f : A -> byte) (l : list A) :
  (forall x, In x l -> f x = 0) -> List.map f l = repeat 0 (length l).
Proof.
  induction l as [|a l IH]; intros H; [reflexivity|].
  cbn [List.map length repeat]. f_equal; [apply H; now left|]. apply IH. intros x Hx. apply H. now right.
Qed.

(** * Specification facts *)

Lemma rearrange_snoc done r x : rearrange (done ++ [r]) x = write (rearrange done) r x.
Proof. unfold rearrange. now rewrite fold_left_app. Qed.

Lemma r_size_pos_data r : 0 < r_size r -> r_data r <> [].
Proof. unfold r_size. destruct (r_data r); cbn [length]; [lia|discriminate]. Qed.

Lemma encode_split done recs :
  encode (done ++ recs) =
  (flat_header ++ flat_map enc_rec done) ++ flat_map enc_rec recs ++ be64_enc END_FLAG ++ be64_enc END_FLAG.
Proof. unfold encode. rewrite flat_map_app, <- !app_assoc. reflexivity. Qed.

Lemma flat_header_length : length flat_header = 4096%nat.
Proof. reflexivity. Qed.

Ltac Zify.zify_post_hook ::= Z.div_mod_to_equations.

Lemma firstn_exact {A} (a b : list A) n : length a = n -> firstn n (a ++ b) = a.
Proof. intros <-. rewrite firstn_app, Nat.sub_diag, firstn_all. cbn [firstn]. apply app_nil_r. Qed.

Lemma skipn_exact {A} (a b : list A) n : length a = n -> skipn n (a ++ b) = b.
Proof. intros <-. rewrite skipn_app, Nat.sub_diag, skipn_all. reflexivity. Qed.

(** * The allocation oracle *)
Definition all_true (o : list bool) : Prop := Forall (fun b => b = true) o.

Lemma next_alloc_cases o :
  (exists o', next_alloc o = (true, o') /\ (all_true o -> all_true o')) \/
  (exists o', next_alloc o = (false, o') /\ ~ all_true o).
Proof.
  destruct o as [|[|] o]; cbn [next_alloc].
  - left. exists []. split; [reflexivity|trivial].
  - left. exists o. split; [reflexivity|]. intros H. now inversion H.
  - right. exists o. split; [reflexivity|]. intros H. inversion H. discriminate.
Qed.

(** [res] is the right answer of [flatmap_file_init] when [fm] is the map the
    stream describes: with an allocator that never fails it is [fm]; with any
    allocator it is [fm] or an out-of-memory error. *)
Definition good_result (o : list bool) (res : init_res) (fm : fmap) : Prop :=
  (all_true o -> res = InitDone ST_OK fm) /\
  (res = InitDone ST_OK fm \/ exists fm', res = InitDone ST_SYSTEM fm').

Lemma good_system o fm fm' : ~ all_true o -> good_result o (InitDone ST_SYSTEM fm') fm.
Proof. intros H. split; [intros H'; now destruct H|]. right. now exists fm'. Qed.

Lemma good_weaken o o' res fm :
  good_result o' res fm -> (all_true o -> all_true o') -> good_result o res fm.
Proof. intros [H1 H2] H. split; [intros Ho; apply H1, H, Ho|exact H2]. Qed.

Lemma map_set_any_ok m addr r m' ok :
  map_set m addr r true = Ok m' ->
  map_set m addr r ok = Ok m' \/ (map_set m addr r ok = NoMem /\ ok = false).
Proof.
  unfold map_set. destruct (set_plan m addr r) as [[[[[[[[pre fr] lr] rest] raddr] rend] extend] delta]| |];
    try discriminate.
  destruct ok; cbn [negb]; rewrite ?andb_false_r, ?andb_true_r.
  - intros H. now left.
  - destruct (0 <? delta)%Z; intros H; [right; now split|now left].
Qed.

Definition cap_ok (cap segidx : N) : Prop := cap = segidx + (32 - segidx mod 32) mod 32.

Lemma cap_ok_step cap segidx :
  cap_ok cap segidx ->
  let cap' := if segidx mod ALLOC_INC =? 0 then segidx + ALLOC_INC else cap in
  (cap' <=? segidx) = false /\ cap_ok cap' (segidx + 1).
Proof.
  unfold cap_ok, ALLOC_INC. intros ->.
  destruct (N.eqb_spec (segidx mod 32) 0) as [E|E]; cbn zeta; split;
    try (apply N.leb_gt); lia.
Qed.

Section Stream.
  Variable stream : bytes.
  Variable rd : Z -> N -> rd_res.
  Let flen : N := N.of_nat (length stream).
  Hypothesis Hflen : flen <= OFF_LIMIT.
  (** the file cache delivers the bytes of the stream *)
  Hypothesis Hrd : forall p n,
    (0 <= p)%Z -> Z.to_N p + n <= flen -> rd p n = RdOk (sl stream (Z.to_N p) n).

  Definition phys (z : Z) : byte := nth_N stream (Z.to_N z).

  (** what the offset map and the offset array say about position [x],
      against the file [f] they are supposed to describe *)
  Definition pt_ok (offs : list Z) (f : N -> byte) (i : Z) (x : N) : Prop :=
    (i = NONE /\ f x = 0) \/
    (i <> NONE /\ exists d, offs_nth offs i = Some d /\ (0 <= Z.of_N x + d)%Z /\
        (Z.of_N x + d < Z.of_N flen)%Z /\ phys (Z.of_N x + d) = f x).

  Definition Inv (done : list rec) (m : map) (offs : list Z) : Prop :=
    tiles m /\ length offs = length done /\
    (forall x, x < W -> pt_ok offs (rearrange done) (denote m x) x) /\
    (forall x, OFF_LIMIT <= x -> denote m x = NONE) /\
    (m = [] \/ exists x, x < W /\ denote m x <> NONE).

  Lemma Inv_nil : Inv [] [] [].
  Proof.
    split; [|split; [|split; [|split]]].
    - apply tiles_nil.
    - reflexivity.
    - intros x _. left. split; [apply denote_nil|reflexivity].
    - intros x _. apply denote_nil.
    - now left.
  Qed.

  Lemma offs_nth_snoc offs d : offs_nth (offs ++ [d]) (Z.of_nat (length offs)) = Some d.
  Proof.
    unfold offs_nth. destruct (Z.ltb_spec (Z.of_nat (length offs)) 0); [lia|].
    rewrite Nat2Z.id, nth_error_app2, Nat.sub_diag by lia. reflexivity.
  Qed.

  Lemma offs_nth_app offs i d e : offs_nth offs i = Some d -> offs_nth (offs ++ [e]) i = Some d.
  Proof.
    unfold offs_nth. destruct (i <? 0)%Z; [discriminate|]. intros H.
    rewrite nth_error_app1; [exact H|]. apply nth_error_Some. now rewrite H.
  Qed.

  Lemma enc_rec_nth r k :
    k < r_size r -> nth (N.to_nat (16 + k)) (enc_rec r) 0 = nth (N.to_nat k) (r_data r) 0.
  Proof.
    intros H. unfold enc_rec.
    rewrite app_nth2; rewrite be64_enc_length; [|lia].
    rewrite app_nth2; rewrite be64_enc_length; [|lia].
    f_equal. lia.
  Qed.

  Lemma enc_rec_length r : length (enc_rec r) = (16 + length (r_data r))%nat.
  Proof. unfold enc_rec. rewrite !app_length, !be64_enc_length. lia. Qed.

  Lemma inv_step done m offs r pre rest :
    Inv done m offs -> wf_rec r ->
    stream = pre ++ enc_rec r ++ rest ->
    exists m',
      map_set m (r_pos r) {| endoff := r_size r - 1; meth := Z.of_nat (length done) |} true = Ok m' /\
      Inv (done ++ [r]) m' (offs ++ [(Z.of_nat (length pre) + 16 - Z.of_N (r_pos r))%Z]).
  Proof.
    intros (Ht & Hl & Hp & Hhi & Hne) (Hsz & Hlim & Hby) Hs.
    pose proof W_val as HW. unfold OFF_LIMIT in *.
    set (rg := {| endoff := r_size r - 1; meth := Z.of_nat (length done) |}).
    assert (Hr : r_pos r + endoff rg < W) by (cbn [rg endoff]; lia).
    destruct (set_pointwise m (r_pos r) rg Ht Hr) as (m' & Hset & Hpt).
    exists m'. split; [exact Hset|].
    destruct (set_tiles m (r_pos r) rg true m' Ht Hr Hset) as (Htot & _ & _).
    assert (Hflen' : flen = N.of_nat (length pre) + 16 + r_size r + N.of_nat (length rest)).
    { unfold flen. rewrite Hs, !app_length, enc_rec_length. unfold r_size. lia. }
    assert (Hcov : forall x, (r_pos r <=? x) && (x <=? r_pos r + endoff rg) = covers r x).
    { intros x. unfold covers. cbn [rg endoff].
      destruct (N.leb_spec (r_pos r) x), (N.leb_spec x (r_pos r + (r_size r - 1))),
        (N.ltb_spec x (r_pos r + r_size r)); cbn [andb]; try reflexivity; lia. }
    split; [|split; [|split; [|split]]].
    - now apply tiles_of_total.
    - rewrite !app_length, Hl. reflexivity.
    - intros x Hx. unfold pt_ok. rewrite Hpt, !rearrange_snoc. unfold set_spec, write. rewrite Hcov.
      destruct (covers r x) eqn:Ec.
      + right. cbn [rg meth]. split; [unfold NONE; lia|].
        exists (Z.of_nat (length pre) + 16 - Z.of_N (r_pos r))%Z.
        unfold covers in Ec. apply andb_prop in Ec as [E1 E2].
        apply N.leb_le in E1. apply N.ltb_lt in E2.
        split; [rewrite <- Hl; apply offs_nth_snoc|].
        split; [lia|]. split; [lia|].
        unfold phys.
        replace (Z.to_N (Z.of_N x + (Z.of_nat (length pre) + 16 - Z.of_N (r_pos r))))
          with (N.of_nat (length pre) + (16 + (x - r_pos r))) by lia.
        rewrite Hs, nth_N_app_mid by (rewrite enc_rec_length; unfold r_size in *; lia).
        apply enc_rec_nth. lia.
      + destruct (Hp x Hx) as [[Hi Hz]|(Hi & d & Hd & H0 & H1 & H2)].
        * left. now split.
        * right. split; [exact Hi|]. exists d. split; [now apply offs_nth_app|]. now repeat split.
    - intros x Hx. rewrite Hpt. unfold set_spec. rewrite Hcov. unfold covers.
      destruct (N.leb_spec (r_pos r) x), (N.ltb_spec x (r_pos r + r_size r)); cbn [andb];
        try (apply Hhi; exact Hx). unfold OFF_LIMIT in Hx. lia.
    - right. exists (r_pos r). split; [lia|].
      rewrite Hpt. unfold set_spec. rewrite Hcov. unfold covers.
      destruct (N.leb_spec (r_pos r) (r_pos r)), (N.ltb_spec (r_pos r) (r_pos r + r_size r));
        cbn [andb rg meth]; try lia. unfold NONE. lia.
  Qed.

  Lemma rd_at pre a rest :
    stream = pre ++ a ++ rest ->
    rd (Z.of_nat (length pre)) (N.of_nat (length a)) = RdOk a.
  Proof.
    intros Hs. rewrite Hrd.
    - f_equal. replace (Z.to_N (Z.of_nat (length pre))) with (N.of_nat (length pre)) by lia.
      rewrite Hs. apply sl_app_mid.
    - lia.
    - unfold flen. rewrite Hs, !app_length. lia.
  Qed.

  Definition END_MARK : bytes := be64_enc END_FLAG ++ be64_enc END_FLAG.

  Lemma init_loop_encode : forall recs done m offs cap fuel pre rest,
    Inv done m offs -> Forall wf_rec recs ->
    stream = pre ++ flat_map enc_rec recs ++ END_MARK ++ rest ->
    cap_ok cap (N.of_nat (length done)) ->
    N.of_nat (length done + length recs) <= METH_LIMIT ->
    (length recs < fuel)%nat ->
    exists fm, Inv (done ++ recs) (fm_map fm) (fm_offs fm) /\
      forall oracle, good_result oracle
        (init_loop rd fuel oracle m offs cap (N.of_nat (length done)) (Z.of_nat (length pre))) fm.
  Proof.
    induction recs as [|r recs IH]; intros done m offs cap fuel pre rest HI Hwf Hs Hcap Hlim Hfuel.
    - destruct fuel as [|fuel]; [cbn [length] in Hfuel; lia|].
      cbn [flat_map app] in Hs.
      pose proof (rd_at pre END_MARK rest Hs) as Hh. change (N.of_nat (length END_MARK)) with 16 in Hh.
      exists {| fm_map := m; fm_offs := offs |}. rewrite app_nil_r. split; [exact HI|].
      intros oracle. cbn [init_loop]. rewrite Hh. unfold END_MARK.
      rewrite (firstn_exact _ _ 8) by apply be64_enc_length.
      rewrite be64_enc_dec by (rewrite W_val; reflexivity).
      rewrite s64_end. cbn [Z.eqb Pos.eqb]. split; [reflexivity|now left].
    - destruct fuel as [|fuel]; [cbn [length] in Hfuel; lia|].
      inversion Hwf as [|r' recs' Hr Hwf' E]; subst r' recs'.
      cbn [flat_map] in Hs. rewrite <- app_assoc in Hs.
      destruct (inv_step done m offs r pre _ HI Hr Hs) as (m' & Hset & HI').
      destruct Hr as (Hsz & Hpl & Hby). unfold OFF_LIMIT in *.
      (* the header of the record *)
      assert (Hs2 : stream = pre ++ (be64_enc (r_pos r) ++ be64_enc (r_size r)) ++
                            (r_data r ++ flat_map enc_rec recs ++ END_MARK ++ rest)).
      { rewrite Hs. unfold enc_rec. now rewrite <- !app_assoc. }
      pose proof (rd_at _ _ _ Hs2) as Hh.
      rewrite app_length, !be64_enc_length in Hh. change (N.of_nat (8 + 8)) with 16 in Hh.
      (* room for the end marker: the stream is at least 32 bytes longer than [pre] *)
      assert (Hlen : N.of_nat (length pre) + 16 + r_size r + 16 <= flen).
      { unfold flen. rewrite Hs, !app_length, enc_rec_length. unfold END_MARK, r_size.
        rewrite !app_length, !be64_enc_length. lia. }
      (* the tail of the run, by induction *)
      assert (Hs3 : stream = (pre ++ enc_rec r) ++ flat_map enc_rec recs ++ END_MARK ++ rest).
      { rewrite Hs. now rewrite <- !app_assoc. }
      destruct (cap_ok_step _ _ Hcap) as (Hcle & Hcap').
      set (cap' := if N.of_nat (length done) mod ALLOC_INC =? 0
                   then N.of_nat (length done) + ALLOC_INC else cap) in *.
      assert (Hl1 : N.of_nat (length (done ++ [r])) = N.of_nat (length done) + 1).
      { rewrite app_length. cbn [length]. lia. }
      assert (Hp1 : Z.of_nat (length (pre ++ enc_rec r)) =
                    (Z.of_nat (length pre) + HDR_SIZE + Z.of_N (r_size r))%Z).
      { rewrite app_length, enc_rec_length. unfold HDR_SIZE, r_size. lia. }
      assert (IHn : exists fm, Inv ((done ++ [r]) ++ recs) (fm_map fm) (fm_offs fm) /\
                forall orc, good_result orc
                  (init_loop rd fuel orc m'
                     (offs ++ [(Z.of_nat (length pre) + HDR_SIZE - Z.of_N (r_pos r))%Z]) cap'
                     (N.of_nat (length done) + 1)
                     (Z.of_nat (length pre) + HDR_SIZE + Z.of_N (r_size r))%Z) fm).
      { rewrite <- Hl1, <- Hp1. apply IH with (rest := rest); try assumption.
        - now rewrite Hl1.
        - rewrite app_length. cbn [length] in *. lia.
        - cbn [length] in Hfuel. lia. }
      destruct IHn as (fm & HIfm & Hgood).
      exists fm. rewrite <- app_assoc in HIfm. cbn [app] in HIfm. split; [exact HIfm|].
      intros oracle.
      (* one iteration of the loop *)
      cbn [init_loop]. rewrite Hh.
      rewrite (firstn_exact _ _ 8) by apply be64_enc_length.
      rewrite (skipn_exact _ _ 8) by apply be64_enc_length.
      rewrite !be64_enc_dec by (rewrite W_val; lia).
      rewrite !s64_small by lia.
      destruct (Z.eqb_spec (Z.of_N (r_pos r)) (-1)); [lia|].
      destruct (Z.ltb_spec (Z.of_N (r_pos r)) 0); [lia|].
      destruct (Z.leb_spec (Z.of_N (r_size r)) 0); [lia|].
      destruct (Z.ltb_spec (OFF_MAX - Z.of_nat (length pre) - HDR_SIZE) (Z.of_N (r_size r)));
        [unfold OFF_MAX, HDR_SIZE in *; lia|].
      cbn [orb].
      assert (Hmeth : (METH_LIMIT <=? N.of_nat (length done)) = false).
      { apply N.leb_gt. cbn [length] in Hlim. lia. }
      assert (Hrng : {| endoff := Z.to_N (Z.of_N (r_size r) - 1); meth := Z.of_N (N.of_nat (length done)) |}
                     = {| endoff := r_size r - 1; meth := Z.of_nat (length done) |}).
      { f_equal; lia. }
      rewrite N2Z.id.
      assert (Hio : in_off (Z.of_nat (length pre) + HDR_SIZE + Z.of_N (r_size r)) = true).
      { pose proof Hflen as Hfl. unfold flen, OFF_LIMIT in Hfl, Hlen.
        unfold in_off, OFF_MIN, OFF_MAX, HDR_SIZE. apply andb_true_intro. split; apply Z.leb_le; lia. }
      (* from the store into the offset array onwards, for any state of the oracle *)
      assert (Hfin : forall orc1 (Hw : all_true oracle -> all_true orc1),
        good_result oracle
          (if cap' <=? N.of_nat (length done) then InitUB UB_OOB_OFFS
           else if METH_LIMIT <=? N.of_nat (length done) then InitUB UB_SEGIDX
           else
             let '(ok2, oracle0) :=
               if match set_delta m (r_pos r)
                          {| endoff := Z.to_N (Z.of_N (r_size r) - 1);
                             meth := Z.of_N (N.of_nat (length done)) |} with
                  | Some d => (0 <? d)%Z | None => false end
               then next_alloc orc1 else (true, orc1) in
             match map_set m (r_pos r)
                     {| endoff := Z.to_N (Z.of_N (r_size r) - 1);
                        meth := Z.of_N (N.of_nat (length done)) |} ok2 with
             | Ok m'0 =>
                 if in_off (Z.of_nat (length pre) + HDR_SIZE + Z.of_N (r_size r))
                 then init_loop rd fuel oracle0 m'0
                           (offs ++ [(Z.of_nat (length pre) + HDR_SIZE - Z.of_N (r_pos r))%Z]) cap'
                           (N.of_nat (length done) + 1)
                           (Z.of_nat (length pre) + HDR_SIZE + Z.of_N (r_size r))%Z
                 else InitUB UB_OVERFLOW
             | NoMem => InitDone ST_SYSTEM
                          {| fm_map := m;
                             fm_offs := offs ++ [(Z.of_nat (length pre) + HDR_SIZE - Z.of_N (r_pos r))%Z] |}
             | OOB => InitUB UB_OOB_RANGE
             end) fm).
      { intros orc1 Hw. rewrite Hcle, Hmeth, Hrng.
        assert (Hgo : forall ok2 orc2, (all_true oracle -> all_true orc2 /\ ok2 = true) ->
          good_result oracle
            match map_set m (r_pos r) {| endoff := r_size r - 1; meth := Z.of_nat (length done) |} ok2 with
            | Ok m'0 =>
                if in_off (Z.of_nat (length pre) + HDR_SIZE + Z.of_N (r_size r))
                then init_loop rd fuel orc2 m'0
                          (offs ++ [(Z.of_nat (length pre) + HDR_SIZE - Z.of_N (r_pos r))%Z]) cap'
                          (N.of_nat (length done) + 1)
                          (Z.of_nat (length pre) + HDR_SIZE + Z.of_N (r_size r))%Z
                else InitUB UB_OVERFLOW
            | NoMem => InitDone ST_SYSTEM
                         {| fm_map := m;
                            fm_offs := offs ++ [(Z.of_nat (length pre) + HDR_SIZE - Z.of_N (r_pos r))%Z] |}
            | OOB => InitUB UB_OOB_RANGE
            end fm).
        { intros ok2 orc2 Hw2.
          destruct (map_set_any_ok m (r_pos r) _ m' ok2 Hset) as [->|[-> ->]].
          - rewrite Hio. eapply good_weaken; [apply Hgood|]. intros Ho. apply (proj1 (Hw2 Ho)).
          - apply good_system. intros Ho. destruct (Hw2 Ho) as [_ Hf]. discriminate. }
        destruct (match set_delta m (r_pos r) {| endoff := r_size r - 1; meth := Z.of_nat (length done) |} with
                  | Some d => (0 <? d)%Z | None => false end).
        - destruct (next_alloc_cases orc1) as [(o' & -> & Ho')|(o' & -> & Ho')].
          + apply Hgo. intros Ho. split; [apply Ho', Hw, Ho|reflexivity].
          + apply Hgo. intros Ho. destruct Ho'. apply Hw, Ho.
        - apply Hgo. intros Ho. split; [apply Hw, Ho|reflexivity]. }
      assert (Hc : cap' = if N.of_nat (length done) mod 32 =? 0
                          then N.of_nat (length done) + 32 else cap) by reflexivity.
      unfold ALLOC_INC.
      destruct (N.eqb_spec (N.of_nat (length done) mod 32) 0) as [E|E].
      + destruct (next_alloc_cases oracle) as [(o' & -> & Ho')|(o' & -> & Ho')]; cbn [negb].
        * rewrite <- Hc. apply Hfin. exact Ho'.
        * apply good_system. exact Ho'.
      + cbn [negb]. rewrite <- Hc. apply Hfin. trivial.
  Qed.

  (** * Reading through the map *)

  Lemma map_nseq_ext (g f : N -> byte) n : forall a b,
    (forall k, k < N.of_nat n -> g (a + k) = f (b + k)) ->
    List.map g (nseq a n) = List.map f (nseq b n).
  Proof.
    induction n as [|n IH]; intros a b H; [reflexivity|].
    cbn [nseq List.map]. f_equal.
    - specialize (H 0). rewrite !N.add_0_r in H. apply H. lia.
    - apply IH. intros k Hk. replace (a + 1 + k) with (a + (1 + k)) by lia.
      replace (b + 1 + k) with (b + (1 + k)) by lia. apply H. lia.
  Qed.

  Lemma slice_app f p a b : slice f p (a + b) = slice f p a ++ slice f (p + a) b.
  Proof.
    unfold slice. rewrite Nnat.N2Nat.inj_add, nseq_app, map_app, Nnat.N2Nat.id. reflexivity.
  Qed.

  Lemma pread_pieces_len0 offs rs off pos : pread_pieces offs rs off pos 0 = [].
  Proof. destruct rs; reflexivity. Qed.

  Lemma s64_u64 z : (0 <= z < 9223372036854775808)%Z -> s64 (u64 z) = z.
  Proof.
    intros H. unfold u64. rewrite Z.mod_small by lia. rewrite s64_small by lia. lia.
  Qed.

  Lemma u64_of_N x : x < W -> u64 (Z.of_N x) = x.
  Proof. intros H. rewrite W_val in H. unfold u64. rewrite Z.mod_small by lia. lia. Qed.

  Lemma pread_pieces_ok offs f : forall rs base off pos len,
    (forall x, base + off <= x -> x < base + off + len ->
               pt_ok offs f (denote_from base rs x) x) ->
    Forall (fun r => endoff r < MAXA) rs ->
    base + total rs <= W ->
    match rs with [] => True | r :: _ => off <= endoff r end ->
    pos = Z.of_N (base + off) ->
    base + off + len <= OFF_LIMIT ->
    exec_pieces rd (pread_pieces offs rs off pos len) = POk (slice f (base + off) len).
  Proof.
    pose proof W_val as HW. pose proof MAXA_val as HM. unfold OFF_LIMIT.
    pose proof Hflen as Hfl. unfold flen, OFF_LIMIT in Hfl.
    induction rs as [|r rs IH]; intros base off pos len Hpt Hfa Htot Hoff Hpos Hlim.
    - cbn [pread_pieces]. destruct (N.eqb_spec len 0) as [->|Hl].
      + reflexivity.
      + cbn [exec_pieces]. f_equal. rewrite app_nil_r. unfold slice, zeros.
        rewrite zeros_map; [now rewrite nseq_length|].
        intros x Hx.
        assert (Hr : base + off <= x /\ x < base + off + len).
        { apply in_nseq in Hx as (k & Hk & ->). lia. }
        destruct (Hpt x (proj1 Hr) (proj2 Hr)) as [[_ Hz]|[Hn _]]; [exact Hz|].
        cbn [denote_from] in Hn. now destruct Hn.
    - cbn [pread_pieces]. destruct (N.eqb_spec len 0) as [->|Hl]; [reflexivity|].
      inversion Hfa as [|r' rs' Hr Hfa' E]; subst r' rs'. cbn [total] in Htot.
      rewrite (wadd_small (endoff r) 1) by lia.
      rewrite wsub_le by lia.
      set (seglen := N.min (endoff r + 1 - off) len).
      assert (Hs0 : 0 < seglen) by (unfold seglen; lia).
      assert (Hsl : seglen <= len) by (unfold seglen; lia).
      assert (Hse : seglen <= endoff r + 1 - off) by (unfold seglen; lia).
      (* every position of this piece lies in range r *)
      assert (Hin : forall k, k < seglen -> denote_from base (r :: rs) (base + off + k) = meth r).
      { intros k Hk. cbn [denote_from]. destruct (N.leb_spec (base + off + k) (base + endoff r)); [reflexivity|lia]. }
      (* the rest of the request *)
      assert (Htail : exec_pieces rd (pread_pieces offs rs 0 (s64 (u64 (pos + Z.of_N seglen))) (len - seglen))
                      = POk (slice f (base + off + seglen) (len - seglen))).
      { destruct (N.eqb_spec (len - seglen) 0) as [->|Hne].
        - rewrite pread_pieces_len0. reflexivity.
        - assert (Hseg : seglen = endoff r + 1 - off) by (unfold seglen in *; lia).
          replace (base + off + seglen) with (base + endoff r + 1 + 0) by lia.
          apply IH; try assumption.
          + intros x Hx1 Hx2. specialize (Hpt x ltac:(lia) ltac:(lia)).
            cbn [denote_from] in Hpt. destruct (N.leb_spec x (base + endoff r)); [lia|exact Hpt].
          + lia.
          + destruct rs; [exact I|lia].
          + rewrite s64_u64 by lia. lia.
          + lia. }
      replace len with (seglen + (len - seglen)) at 2 by lia. rewrite slice_app.
      unfold Zeqb. destruct (Z.eqb_spec (meth r) NONE) as [Em|Em].
      + (* a hole *)
        cbn [exec_pieces]. rewrite Htail. f_equal. f_equal. unfold slice, zeros.
        rewrite zeros_map; [now rewrite nseq_length|].
        intros x Hx.
        assert (Hr' : exists k, k < seglen /\ x = base + off + k).
        { apply in_nseq in Hx as (k & Hk & ->). exists k. split; [lia|reflexivity]. }
        destruct Hr' as (k & Hk & ->).
        destruct (Hpt (base + off + k) ltac:(lia) ltac:(lia)) as [[_ Hz]|[Hn _]]; [exact Hz|].
        rewrite Hin in Hn by exact Hk. now destruct Hn.
      + (* a segment of the flattened stream *)
        assert (Hd : exists d, offs_nth offs (meth r) = Some d /\
                     forall k, k < seglen ->
                       (0 <= Z.of_N (base + off + k) + d)%Z /\
                       (Z.of_N (base + off + k) + d < Z.of_N flen)%Z /\
                       phys (Z.of_N (base + off + k) + d) = f (base + off + k)).
        { destruct (Hpt (base + off) ltac:(lia) ltac:(lia)) as [[Hn _]|(_ & d & Hd & _)].
          - pose proof (Hin 0 Hs0) as Hin0. rewrite N.add_0_r in Hin0. rewrite Hin0 in Hn. now destruct Em.
          - pose proof (Hin 0 Hs0) as Hin0. rewrite N.add_0_r in Hin0. rewrite Hin0 in Hd.
            exists d. split; [exact Hd|]. intros k Hk.
            destruct (Hpt (base + off + k) ltac:(lia) ltac:(lia)) as [[Hn _]|(_ & d' & Hd' & H0 & H1 & H2)].
            + rewrite Hin in Hn by exact Hk. now destruct Em.
            + rewrite Hin in Hd' by exact Hk. rewrite Hd in Hd'. injection Hd' as <-. now repeat split. }
        destruct Hd as (d & Hd & Hk).
        unfold xlat_pos. rewrite Hd.
        destruct (Hk 0 Hs0) as (H00 & H01 & _). rewrite N.add_0_r in H00, H01.
        destruct (Hk (seglen - 1) ltac:(lia)) as (_ & H11 & _).
        assert (Hio : in_off (pos + d) = true).
        { unfold in_off, OFF_MIN, OFF_MAX. subst pos. unfold flen in *.
          apply andb_true_intro. split; apply Z.leb_le; lia. }
        rewrite Hio. cbn [exec_pieces].
        rewrite Hrd by (subst pos; lia).
        rewrite Htail. f_equal. f_equal.
        rewrite sl_map by (subst pos; lia).
        unfold slice. apply map_nseq_ext. intros k Hk'. rewrite Nnat.N2Nat.id in Hk'.
        destruct (Hk k Hk') as (Hk0 & Hk1 & Hk2). rewrite <- Hk2. unfold phys. f_equal. subst pos. lia.
  Qed.

  Lemma skip_ranges_spec : forall rs off rs' off',
    Forall (fun r => endoff r < MAXA) rs -> off < W ->
    skip_ranges rs off = (rs', off') ->
    exists pre, rs = pre ++ rs' /\ off = total pre + off' /\
      match rs' with [] => True | r :: _ => off' <= endoff r end.
  Proof.
    pose proof W_val as HW. pose proof MAXA_val as HM.
    induction rs as [|r rs IH]; intros off rs' off' Hfa Hoff E; cbn [skip_ranges] in E.
    - injection E as <- <-. exists []. cbn [app total]. split; [reflexivity|]. split; [lia|exact I].
    - inversion Hfa as [|r0 rs0 Hr Hfa' E0]; subst r0 rs0.
      destruct (N.ltb_spec (endoff r) off) as [Hlt|Hge].
      + rewrite (wadd_small (endoff r) 1) in E by lia. rewrite wsub_le in E by lia.
        assert (Hoff' : off - (endoff r + 1) < W) by lia.
        destruct (IH _ _ _ Hfa' Hoff' E) as (pre & -> & Ho & Hh).
        exists (r :: pre). cbn [app total]. split; [reflexivity|]. split; [lia|exact Hh].
      + injection E as <- <-. exists []. cbn [app total]. split; [reflexivity|]. split; lia.
  Qed.

  Lemma in_total r m : In r m -> endoff r + 1 <= total m.
  Proof.
    induction m as [|q m IH]; intros H; [destruct H|].
    cbn [total]. destruct H as [->|H]; [lia|]. apply IH in H. lia.
  Qed.

  Lemma tiles_two_values m x y :
    total m = W -> x < W -> y < W -> denote m x <> denote m y ->
    Forall (fun r => endoff r < MAXA) m.
  Proof.
    pose proof W_val as HW. pose proof MAXA_val as HM.
    intros Ht Hx Hy Hne. apply Forall_forall. intros r Hin.
    destruct (N.lt_ge_cases (endoff r) MAXA) as [H|H]; [exact H|exfalso].
    destruct m as [|q m]; [destruct Hin|]. cbn [total] in Ht.
    destruct Hin as [->|Hin].
    - assert (m = []) by (apply total_0_nil; lia). subst m.
      apply Hne. unfold denote. cbn [denote_from].
      destruct (N.leb_spec x (0 + endoff r)), (N.leb_spec y (0 + endoff r)); try reflexivity; lia.
    - apply in_total in Hin. lia.
  Qed.

  Lemma Inv_ranges done m offs : Inv done m offs -> Forall (fun r => endoff r < MAXA) m.
  Proof.
    pose proof W_val as HW.
    intros (Ht & _ & _ & Hhi & [->|(x & Hx & Hnx)]); [constructor|].
    destruct Ht as [->|Ht]; [constructor|].
    apply (tiles_two_values m x (W - 1)); try lia; try assumption.
    rewrite (Hhi (W - 1)); [exact Hnx|]. unfold OFF_LIMIT. lia.
  Qed.

  (** where position [pos] falls: the ranges from there on *)
  Lemma skip_at done m offs pos rs off :
    Inv done m offs -> pos < W -> skip_ranges m pos = (rs, off) ->
    exists pre, m = pre ++ rs /\ pos = total pre + off /\
      Forall (fun r => endoff r < MAXA) rs /\ total pre + total rs <= W /\
      match rs with [] => True | r :: _ => off <= endoff r end /\
      forall x, total pre <= x -> denote m x = denote_from (total pre) rs x.
  Proof.
    intros HI Hp E. pose proof (Inv_ranges _ _ _ HI) as Hfa.
    destruct (skip_ranges_spec _ _ _ _ Hfa Hp E) as (pre & Hm & Hpos & Hh).
    exists pre. split; [exact Hm|]. split; [exact Hpos|].
    split; [rewrite Hm in Hfa; now apply Forall_app in Hfa|].
    split.
    - destruct HI as ([->|Ht] & _).
      + destruct pre; [|discriminate]. cbn [app] in Hm. subst rs. cbn [total]. pose proof W_pos. lia.
      + rewrite <- total_app, <- Hm. lia.
    - split; [exact Hh|]. intros x Hx. unfold denote. rewrite Hm. now rewrite denote_app_r by lia.
  Qed.

  Theorem pread_flat_ok done m offs pos len :
    Inv done m offs -> pos + len <= OFF_LIMIT ->
    pread_flat rd {| fm_map := m; fm_offs := offs |} (Z.of_N pos) len
    = POk (slice (rearrange done) pos len).
  Proof.
    intros HI Hl. pose proof W_val as HW. unfold OFF_LIMIT in *.
    unfold pread_flat, pread_plan. cbn [fm_map fm_offs]. rewrite u64_of_N by lia.
    destruct (skip_ranges m pos) as [rs off] eqn:E.
    assert (HpW : pos < W) by lia.
    destruct (skip_at _ _ _ _ _ _ HI HpW E) as (pre & Hm & Hpos & Hfa & Htot & Hh & Hden).
    rewrite Hpos. apply pread_pieces_ok; try assumption.
    - intros x Hx1 Hx2. rewrite <- Hden by lia. destruct HI as (_ & _ & Hp & _). apply Hp. lia.
    - reflexivity.
    - unfold OFF_LIMIT. lia.
  Qed.

  (** ** No undefined behaviour, whatever the file cache answers *)
  Definition not_bad (p : piece) : Prop := match p with PBad _ => False | _ => True end.

  Lemma pread_pieces_nobad offs f : forall rs base off pos len,
    (forall x, base + off <= x -> x < base + off + len ->
               pt_ok offs f (denote_from base rs x) x) ->
    Forall (fun r => endoff r < MAXA) rs ->
    base + total rs <= W ->
    match rs with [] => True | r :: _ => off <= endoff r end ->
    pos = Z.of_N (base + off) ->
    base + off + len <= OFF_LIMIT ->
    Forall not_bad (pread_pieces offs rs off pos len).
  Proof.
    pose proof W_val as HW. pose proof MAXA_val as HM. unfold OFF_LIMIT.
    pose proof Hflen as Hfl. unfold flen, OFF_LIMIT in Hfl.
    induction rs as [|r rs IH]; intros base off pos len Hpt Hfa Htot Hoff Hpos Hlim.
    - cbn [pread_pieces]. destruct (len =? 0); repeat constructor.
    - cbn [pread_pieces]. destruct (N.eqb_spec len 0) as [->|Hl]; [constructor|].
      inversion Hfa as [|r' rs' Hr Hfa' E]; subst r' rs'. cbn [total] in Htot.
      rewrite (wadd_small (endoff r) 1) by lia.
      rewrite wsub_le by lia.
      set (seglen := N.min (endoff r + 1 - off) len).
      assert (Hs0 : 0 < seglen) by (unfold seglen; lia).
      constructor.
      + unfold Zeqb. destruct (Z.eqb_spec (meth r) NONE) as [Em|Em]; [exact I|].
        destruct (Hpt (base + off) ltac:(lia) ltac:(lia)) as [[Hn _]|(_ & d & Hd & H0 & H1 & _)];
          cbn [denote_from] in *;
          destruct (N.leb_spec (base + off) (base + endoff r)); try lia.
        unfold xlat_pos. rewrite Hd.
        assert (Hio : in_off (pos + d) = true).
        { unfold in_off, OFF_MIN, OFF_MAX. subst pos.
          apply andb_true_intro. split; apply Z.leb_le; lia. }
        rewrite Hio. exact I.
      + destruct (N.eqb_spec (len - seglen) 0) as [->|Hne].
        * rewrite pread_pieces_len0. constructor.
        * assert (Hseg : seglen = endoff r + 1 - off) by (unfold seglen in *; lia).
          apply (IH (base + endoff r + 1) 0); try assumption.
          -- intros x Hx1 Hx2. specialize (Hpt x ltac:(lia) ltac:(lia)).
             cbn [denote_from] in Hpt. destruct (N.leb_spec x (base + endoff r)); [lia|exact Hpt].
          -- lia.
          -- destruct rs; [exact I|lia].
          -- rewrite s64_u64 by lia. lia.
          -- lia.
  Qed.

  Lemma exec_nobad (rd' : Z -> N -> rd_res) ps why :
    Forall not_bad ps -> exec_pieces rd' ps <> PUB why.
  Proof.
    induction ps as [|p ps IH]; intros H; cbn [exec_pieces]; [discriminate|].
    inversion H as [|p0 ps0 Hp Hps E]; subst p0 ps0. specialize (IH Hps).
    destruct p as [n|q n|w]; [| |destruct Hp].
    - destruct (exec_pieces rd' ps); try discriminate. exact IH.
    - destruct (rd' q n); [|discriminate]. destruct (exec_pieces rd' ps); try discriminate. exact IH.
  Qed.

  Lemma pread_plan_nobad done m offs pos len :
    Inv done m offs -> pos + len <= OFF_LIMIT ->
    Forall not_bad (pread_plan {| fm_map := m; fm_offs := offs |} (Z.of_N pos) len).
  Proof.
    intros HI Hl. pose proof W_val as HW. unfold OFF_LIMIT in *.
    unfold pread_plan. cbn [fm_map fm_offs]. rewrite u64_of_N by lia.
    destruct (skip_ranges m pos) as [rs off] eqn:E.
    assert (HpW : pos < W) by lia.
    destruct (skip_at _ _ _ _ _ _ HI HpW E) as (pre & Hm & Hpos & Hfa & Htot & Hh & Hden).
    apply pread_pieces_nobad with (f := rearrange done) (base := total pre); try assumption.
    - intros x Hx1 Hx2. rewrite <- Hden by lia. destruct HI as (_ & _ & Hp & _). apply Hp. lia.
    - now rewrite Hpos.
    - unfold OFF_LIMIT. lia.
  Qed.

  (** ** flatmap_get_chunk_flat (repaired) *)
  Variable gc : Z -> N -> rd_res.
  (** [fcache_get_chunk] delivers the same bytes as [fcache_pread] *)
  Hypothesis Hgc : forall p n, gc p n = rd p n.

  (** the translation of a position that lies in a segment *)
  Lemma xlat_in_segment done m offs pos :
    Inv done m offs -> pos < OFF_LIMIT -> denote m pos <> NONE ->
    exists d, xlat_pos offs (denote m pos) (Z.of_N pos) = inl (Z.of_N pos + d)%Z /\
      (0 <= Z.of_N pos + d)%Z /\ (Z.of_N pos + d < Z.of_N flen)%Z.
  Proof.
    intros (_ & _ & Hp & _) Hl Hn. pose proof W_val as HW. unfold OFF_LIMIT in *.
    pose proof Hflen as Hfl. unfold flen, OFF_LIMIT in Hfl.
    destruct (Hp pos ltac:(lia)) as [[Hi _]|(_ & d & Hd & H0 & H1 & _)]; [now destruct Hn|].
    exists d. unfold xlat_pos. rewrite Hd.
    assert (Hio : in_off (Z.of_N pos + d) = true).
    { unfold in_off, OFF_MIN, OFF_MAX. unfold flen in H1. apply andb_true_intro. split; apply Z.leb_le; lia. }
    rewrite Hio. now repeat split.
  Qed.

  Theorem get_chunk_flat_ok done m offs pos len :
    Inv done m offs -> pos + len <= OFF_LIMIT ->
    exists n, get_chunk_flat rd gc {| fm_map := m; fm_offs := offs |} (Z.of_N pos) len true
              = (POk (slice (rearrange done) pos len), n) /\ n <= 1.
  Proof.
    intros HI Hl. pose proof W_val as HW.
    pose proof (pread_flat_ok done m offs pos len HI Hl) as Hp.
    unfold OFF_LIMIT in Hl.
    unfold get_chunk_flat, chunk_plan_of. unfold pread_flat, pread_plan in Hp.
    cbn [fm_map fm_offs] in *. rewrite u64_of_N in * by lia.
    destruct (skip_ranges m pos) as [rs off] eqn:E.
    assert (Hcopy : exists n,
      exec_chunk rd gc (CCopy (pread_plan {| fm_map := m; fm_offs := offs |} (Z.of_N pos) len)) true true
      = (POk (slice (rearrange done) pos len), n) /\ n <= 1).
    { cbn [exec_chunk negb]. unfold pread_plan. cbn [fm_map fm_offs]. rewrite u64_of_N by lia.
      rewrite E, Hp. exists 1. split; [reflexivity|lia]. }
    destruct rs as [|r rs]; [exact Hcopy|].
    destruct (negb (Zeqb (meth r) NONE) && (len <=? wsub (wadd (endoff r) 1) off)) eqn:Ec;
      [|exact Hcopy].
    apply andb_prop in Ec as [Em Hle]. apply N.leb_le in Hle.
    unfold Zeqb in *. destruct (Z.eqb_spec (meth r) NONE) as [|Em']; [discriminate|]. clear Em.
    assert (HpW : pos < W) by lia.
    destruct (skip_at _ _ _ _ _ _ HI HpW E) as (pre & Hm & Hpos & Hfa & Htot & Hh & Hden).
    assert (Hmeth : denote m pos = meth r).
    { rewrite Hden by lia. cbn [denote_from].
      destruct (N.leb_spec pos (total pre + endoff r)); [reflexivity|lia]. }
    destruct (N.eqb_spec len 0) as [->|Hl0].
    - (* an empty chunk *)
      assert (Hlt : pos < OFF_LIMIT \/ pos = OFF_LIMIT) by (unfold OFF_LIMIT; lia).
      destruct Hlt as [Hlt | ->].
      + destruct (xlat_in_segment done m offs pos HI Hlt) as (d & Hx & H0 & H1);
          [now rewrite Hmeth|]. rewrite Hmeth in Hx. rewrite Hx.
        cbn [exec_chunk]. rewrite Hgc, Hrd by lia.
        exists 0. split; [reflexivity|lia].
      + destruct HI as (_ & _ & _ & Hhi & _). rewrite (Hhi OFF_LIMIT) in Hmeth by lia. now destruct Em'.
    - (* the whole chunk lies in segment r: the read plan is this one access *)
      cbn [pread_pieces] in Hp.
      destruct (N.eqb_spec len 0) as [|_]; [contradiction|].
      replace (N.min (wsub (wadd (endoff r) 1) off) len) with len in Hp by lia.
      unfold Zeqb in Hp. destruct (Z.eqb_spec (meth r) NONE) as [|_]; [contradiction|].
      rewrite N.sub_diag, pread_pieces_len0 in Hp.
      destruct (xlat_pos offs (meth r) (Z.of_N pos)) as [q|why]; cbn [exec_pieces] in Hp; [|discriminate].
      cbn [exec_chunk]. rewrite Hgc.
      destruct (rd q len) as [b|st]; [|discriminate].
      rewrite app_nil_r in Hp. injection Hp as ->.
      exists 0. split; [reflexivity|lia].
  Qed.

  (** never an out-of-bounds access or an overflow, whatever the file cache
      and the allocator answer *)
  Theorem get_chunk_flat_no_ub (rd' gc' : Z -> N -> rd_res) done m offs pos len ok why :
    Inv done m offs -> pos + len <= OFF_LIMIT ->
    fst (get_chunk_flat rd' gc' {| fm_map := m; fm_offs := offs |} (Z.of_N pos) len ok) <> PUB why.
  Proof.
    intros HI Hl. pose proof W_val as HW.
    pose proof (pread_plan_nobad done m offs pos len HI Hl) as Hnb.
    unfold OFF_LIMIT in Hl.
    unfold get_chunk_flat, chunk_plan_of. cbn [fm_map fm_offs]. rewrite u64_of_N by lia.
    destruct (skip_ranges m pos) as [rs off] eqn:E.
    assert (Hcopy : fst (exec_chunk rd' gc'
               (CCopy (pread_plan {| fm_map := m; fm_offs := offs |} (Z.of_N pos) len)) ok true) <> PUB why).
    { cbn [exec_chunk]. destruct (negb ok); [discriminate|].
      pose proof (exec_nobad rd' _ why Hnb) as Hx.
      destruct (exec_pieces rd' _); cbn [fst]; try discriminate. exact Hx. }
    destruct rs as [|r rs]; [exact Hcopy|].
    destruct (negb (Zeqb (meth r) NONE) && (len <=? wsub (wadd (endoff r) 1) off)) eqn:Ec;
      [|exact Hcopy].
    apply andb_prop in Ec as [Em Hle].
    unfold Zeqb in *. destruct (Z.eqb_spec (meth r) NONE) as [|Em']; [discriminate|]. clear Em.
    assert (HpW : pos < W) by lia.
    destruct (skip_at _ _ _ _ _ _ HI HpW E) as (pre & Hm & Hpos & Hfa & Htot & Hh & Hden).
    assert (Hmeth : denote m pos = meth r).
    { rewrite Hden by lia. cbn [denote_from].
      destruct (N.leb_spec pos (total pre + endoff r)); [reflexivity|lia]. }
    assert (Hlt : pos < OFF_LIMIT \/ pos = OFF_LIMIT) by (unfold OFF_LIMIT; lia).
    destruct Hlt as [Hlt | ->].
    - destruct (xlat_in_segment done m offs pos HI Hlt) as (d & Hx & H0 & H1);
        [now rewrite Hmeth|]. rewrite Hmeth in Hx. rewrite Hx.
      cbn [exec_chunk]. destruct (gc' _ _); discriminate.
    - destruct HI as (_ & _ & _ & Hhi & _). rewrite (Hhi OFF_LIMIT) in Hmeth by lia. now destruct Em'.
  Qed.

  Theorem pread_flat_no_ub (rd' : Z -> N -> rd_res) done m offs pos len why :
    Inv done m offs -> pos + len <= OFF_LIMIT ->
    pread_flat rd' {| fm_map := m; fm_offs := offs |} (Z.of_N pos) len <> PUB why.
  Proof.
    intros HI Hl. unfold pread_flat. apply exec_nobad. now apply pread_plan_nobad with done.
  Qed.
End Stream.

(** a failed [get_chunk] owns no buffer, a successful one at most one *)
Lemma exec_chunk_balance rd gc cp ok :
  match exec_chunk rd gc cp ok true with
  | (POk _, n) => n <= 1
  | (_, n) => n = 0
  end.
Proof.
  destruct cp as [p n|ps|w]; cbn [exec_chunk].
  - destruct (gc p n); lia.
  - destruct ok; cbn [negb]; [|reflexivity]. destruct (exec_pieces rd ps); lia.
  - reflexivity.
Qed.

(** * From a stream to its reads *)

(** [rd] is a file cache over [stream]: a read inside the stream succeeds and
    delivers the stream's bytes (nothing is assumed about reads past its end) *)
Definition reads_stream (rd : Z -> N -> rd_res) (stream : bytes) : Prop :=
  forall p n, (0 <= p)%Z -> Z.to_N p + n <= N.of_nat (length stream) ->
              rd p n = RdOk (firstn (N.to_nat n) (skipn (N.to_nat (Z.to_N p)) stream)).

Definition open_ok (res : open_res) (fm : fmap) (o : list bool) : Prop :=
  (all_true o -> res = OpenFlat (InitDone ST_OK fm)) /\
  (res = OpenFlat (InitDone ST_OK fm) \/ res = OpenFlat InitNoMap \/
   exists fm', res = OpenFlat (InitDone ST_SYSTEM fm')).

Lemma encode_shape recs trailer :
  encode recs ++ trailer = flat_header ++ flat_map enc_rec recs ++ END_MARK ++ trailer.
Proof. unfold encode, END_MARK. now rewrite <- !app_assoc. Qed.

Lemma header_checks :
  let h := firstn 32 flat_header in
  length h = 32%nat /\ bytes_eqb (firstn 16 h) MDF_SIG = true /\
  be64 (firstn 8 (skipn 16 h)) = 1 /\ be64 (skipn 24 h) = 1.
Proof. vm_compute. repeat split. Qed.

Lemma init_stream recs trailer rd fuel :
  let stream := encode recs ++ trailer in
  Forall wf_rec recs ->
  N.of_nat (length stream) <= OFF_LIMIT ->
  N.of_nat (length recs) <= METH_LIMIT ->
  reads_stream rd stream ->
  (length recs < fuel)%nat ->
  exists fm, Inv stream recs (fm_map fm) (fm_offs fm) /\
    forall oracle, open_ok (flatmap_init_file rd fuel oracle) fm oracle.
Proof.
  intros stream Hwf Hlen Hmeth Hrd Hfuel.
  assert (Hrd' : forall p n, (0 <= p)%Z -> Z.to_N p + n <= N.of_nat (length stream) ->
                             rd p n = RdOk (sl stream (Z.to_N p) n)) by exact Hrd.
  pose proof (encode_shape recs trailer) as Hshape. fold stream in Hshape.
  destruct (init_loop_encode stream rd Hlen Hrd' recs [] [] [] 0 fuel flat_header trailer)
    as (fm & HI & Hgood).
  - apply Inv_nil.
  - exact Hwf.
  - exact Hshape.
  - reflexivity.
  - exact Hmeth.
  - exact Hfuel.
  - exists fm. cbn [app] in HI. split; [exact HI|]. intros oracle.
    (* the signature, type and version checks *)
    destruct header_checks as (Hl & Hsig & Hty & Hver).
    set (h := firstn 32 flat_header) in *.
    assert (Hs0 : stream = [] ++ h ++ (skipn 32 flat_header ++ flat_map enc_rec recs ++ END_MARK ++ trailer)).
    { rewrite Hshape. cbn [app]. unfold h.
      rewrite (app_assoc (firstn 32 flat_header)), firstn_skipn. reflexivity. }
    pose proof (rd_at stream rd Hlen Hrd' [] h _ Hs0) as Hh. rewrite Hl in Hh. cbn [length] in Hh.
    change (Z.of_nat 0) with 0%Z in Hh. change (N.of_nat 32) with 32 in Hh.
    unfold flatmap_init_file. rewrite Hh, Hsig, Hty, Hver. cbn [negb N.eqb Pos.eqb].
    unfold file_init.
    destruct (next_alloc_cases oracle) as [(o' & -> & Ho')|(o' & -> & Ho')]; cbn [negb].
    + rewrite flat_header_length in Hgood. change (N.of_nat (length (@nil rec))) with 0 in Hgood.
      change (Z.of_nat 4096) with FlatModel.MDF_HEADER_SIZE in Hgood.
      destruct (Hgood o') as [G1 G2]. split.
      * intros Ho. now rewrite G1 by (apply Ho', Ho).
      * destruct G2 as [->|(fm' & ->)]; [now left|right; right; now exists fm'].
    + split; [intros Ho; now destruct Ho'|right; now left].
Qed.

(** If [flatmap_init] accepted the stream with some map, it is the map that
    satisfies the invariant. *)
Lemma open_ok_unique res fm o fm1 :
  open_ok res fm o -> res = OpenFlat (InitDone ST_OK fm1) -> fm1 = fm.
Proof.
  intros [_ [E|[E|(fm' & E)]]] H; rewrite H in E; [now injection E|discriminate|].
  injection E as E _. discriminate.
Qed.

(** * Theorems exported to [Properties_C11] *)

Definition stream_ok (recs : list rec) (trailer : bytes) : Prop :=
  Forall wf_rec recs /\
  N.of_nat (length (encode recs ++ trailer)) <= OFF_LIMIT /\
  N.of_nat (length recs) <= METH_LIMIT.

Lemma opened_inv recs trailer rd fuel oracle fm :
  stream_ok recs trailer ->
  reads_stream rd (encode recs ++ trailer) -> (length recs < fuel)%nat ->
  flatmap_init_file rd fuel oracle = OpenFlat (InitDone ST_OK fm) ->
  Inv (encode recs ++ trailer) recs (fm_map fm) (fm_offs fm).
Proof.
  intros (Hwf & Hlen & Hm) Hrd Hfuel Hopen.
  destruct (init_stream recs trailer rd fuel Hwf Hlen Hm Hrd Hfuel) as (fm0 & HI & Hok).
  now rewrite (open_ok_unique _ _ _ _ (Hok oracle) Hopen).
Qed.

Theorem init_succeeds recs trailer rd fuel :
  stream_ok recs trailer ->
  reads_stream rd (encode recs ++ trailer) -> (length recs < fuel)%nat ->
  exists fm, forall oracle, open_ok (flatmap_init_file rd fuel oracle) fm oracle.
Proof.
  intros (Hwf & Hlen & Hm) Hrd Hfuel.
  destruct (init_stream recs trailer rd fuel Hwf Hlen Hm Hrd Hfuel) as (fm0 & HI & Hok).
  now exists fm0.
Qed.

Theorem pread_is_rearranged recs trailer rd fuel oracle fm pos len :
  stream_ok recs trailer ->
  reads_stream rd (encode recs ++ trailer) -> (length recs < fuel)%nat ->
  flatmap_init_file rd fuel oracle = OpenFlat (InitDone ST_OK fm) ->
  pos + len <= OFF_LIMIT ->
  flatmap_pread rd (Some fm) (Z.of_N pos) len = POk (slice (rearrange recs) pos len).
Proof.
  intros Hs Hrd Hfuel Hopen Hl. pose proof (opened_inv _ _ _ _ _ _ Hs Hrd Hfuel Hopen) as HI.
  destruct Hs as (_ & Hlen & _). destruct fm as [m offs]. cbn [flatmap_pread fm_map fm_offs] in *.
  now apply pread_flat_ok with (stream := encode recs ++ trailer).
Qed.

Theorem chunk_eq_pread recs trailer rd gc fuel oracle fm pos len :
  stream_ok recs trailer ->
  reads_stream rd (encode recs ++ trailer) -> (length recs < fuel)%nat ->
  (forall p n, gc p n = rd p n) ->
  flatmap_init_file rd fuel oracle = OpenFlat (InitDone ST_OK fm) ->
  pos + len <= OFF_LIMIT ->
  exists n, n <= 1 /\
    flatmap_get_chunk rd gc (Some fm) (Z.of_N pos) len true
    = (flatmap_pread rd (Some fm) (Z.of_N pos) len, n) /\
    flatmap_pread rd (Some fm) (Z.of_N pos) len = POk (slice (rearrange recs) pos len).
Proof.
  intros Hs Hrd Hfuel Hgc Hopen Hl.
  pose proof (pread_is_rearranged _ _ _ _ _ _ _ _ Hs Hrd Hfuel Hopen Hl) as Hp.
  pose proof (opened_inv _ _ _ _ _ _ Hs Hrd Hfuel Hopen) as HI.
  destruct Hs as (_ & Hlen & _). destruct fm as [m offs]. cbn [flatmap_get_chunk fm_map fm_offs] in *.
  destruct (get_chunk_flat_ok (encode recs ++ trailer) rd Hlen Hrd gc Hgc recs m offs pos len HI Hl)
    as (n & E & Hn).
  exists n. split; [exact Hn|]. split; [|exact Hp]. now rewrite Hp.
Qed.

(** no out-of-bounds access, no overflow - also when the file cache fails
    reads at will and the allocation of the chunk buffer fails *)
Theorem chunk_no_ub recs trailer rd fuel oracle fm rd' gc' pos len ok why :
  stream_ok recs trailer ->
  reads_stream rd (encode recs ++ trailer) -> (length recs < fuel)%nat ->
  flatmap_init_file rd fuel oracle = OpenFlat (InitDone ST_OK fm) ->
  pos + len <= OFF_LIMIT ->
  fst (flatmap_get_chunk rd' gc' (Some fm) (Z.of_N pos) len ok) <> PUB why /\
  flatmap_pread rd' (Some fm) (Z.of_N pos) len <> PUB why.
Proof.
  intros Hs Hrd Hfuel Hopen Hl.
  pose proof (opened_inv _ _ _ _ _ _ Hs Hrd Hfuel Hopen) as HI.
  destruct Hs as (_ & Hlen & _). destruct fm as [m offs]. cbn [flatmap_get_chunk flatmap_pread fm_map fm_offs] in *.
  split.
  - apply get_chunk_flat_no_ub with (stream := encode recs ++ trailer) (rd := rd) (gc := rd) (done := recs);
      try assumption. reflexivity.
  - apply pread_flat_no_ub with (stream := encode recs ++ trailer) (rd := rd) (done := recs);
      assumption.
Qed.

Theorem chunk_balance rd gc fm pos len ok :
  match flatmap_get_chunk rd gc fm pos len ok with
  | (POk _, n) => n <= 1
  | (_, n) => n = 0
  end.
Proof.
  destruct fm as [f|]; cbn [flatmap_get_chunk].
  - apply exec_chunk_balance.
  - destruct (gc pos len); lia.
Qed.

(** ** Segmentations of a plain file *)

Lemma fold_write_value recs v x : forall f,
  (forall r, In r recs -> covers r x = true -> nth (N.to_nat (x - r_pos r)) (r_data r) 0 = v) ->
  (f x = v \/ exists r, In r recs /\ covers r x = true) ->
  fold_left write recs f x = v.
Proof.
  induction recs as [|r recs IH]; intros f Hagree Hcov; cbn [fold_left].
  - destruct Hcov as [H|(r & [] & _)]. exact H.
  - apply IH.
    + intros r' Hin. apply Hagree. now right.
    + unfold write at 1. destruct (covers r x) eqn:Ec.
      * left. apply Hagree; [now left|exact Ec].
      * destruct Hcov as [H|(r' & [<-|Hin] & Hc)].
        -- now left.
        -- rewrite Hc in Ec. discriminate.
        -- right. now exists r'.
Qed.

Theorem rearrange_segmentation b recs :
  segmentation_of b recs -> forall x, rearrange recs x = plain_file b x.
Proof.
  intros [Hagree Hcover] x. unfold rearrange. apply fold_write_value.
  - intros r Hin Hc. now apply (proj2 (Hagree r Hin)).
  - destruct (N.lt_ge_cases x (N.of_nat (length b))) as [Hlt|Hge].
    + right. now apply Hcover.
    + left. unfold zero_file, plain_file. symmetry. apply nth_overflow. lia.
Qed.

Lemma slice_ext f g pos len : (forall x, f x = g x) -> slice f pos len = slice g pos len.
Proof. intros H. unfold slice. apply map_ext. exact H. Qed.

Lemma take0_skipn_plain b : forall n p,
  take0 n (skipn p b) = List.map (plain_file b) (nseq (N.of_nat p) n).
Proof.
  induction n as [|n IH]; intros p; [reflexivity|].
  cbn [nseq List.map]. replace (N.of_nat p + 1) with (N.of_nat (S p)) by lia. rewrite <- IH.
  unfold plain_file at 1. rewrite Nnat.Nat2N.id.
  destruct (skipn p b) as [|x t] eqn:E.
  - assert (Hl : (length b <= p)%nat).
    { assert (H : length (skipn p b) = 0%nat) by now rewrite E. rewrite skipn_length in H. lia. }
    rewrite nth_overflow by exact Hl. rewrite skipn_all2 by lia. reflexivity.
  - cbn [take0]. rewrite (skipn_S_tl b p x t E). f_equal.
    rewrite <- (firstn_skipn p b) at 1.
    assert (Hl : (p < length b)%nat).
    { destruct (Nat.lt_ge_cases p (length b)) as [H|H]; [exact H|]. rewrite skipn_all2 in E by exact H. discriminate. }
    rewrite app_nth2; rewrite firstn_length_le by lia; [|lia].
    rewrite Nat.sub_diag, E. reflexivity.
Qed.

Lemma slice0_plain b pos len : slice0 b pos len = slice (plain_file b) pos len.
Proof.
  unfold slice0, slice. destruct (N.leb_spec (N.of_nat (length b)) pos) as [H|H].
  - unfold zeros. symmetry. rewrite zeros_map; [now rewrite nseq_length|].
    intros x Hx. apply in_nseq in Hx as (k & _ & ->). unfold plain_file. apply nth_overflow. lia.
  - rewrite take0_skipn_plain. now rewrite Nnat.N2Nat.id.
Qed.

(** A segmentation of a plain file, flattened in any order and granularity,
    reads exactly like the plain file (read through the same dispatch
    function, with the plain file's own cache). *)
Theorem plain_equiv b recs trailer rd fuel oracle fm pos len :
  segmentation_of b recs ->
  stream_ok recs trailer ->
  reads_stream rd (encode recs ++ trailer) -> (length recs < fuel)%nat ->
  flatmap_init_file rd fuel oracle = OpenFlat (InitDone ST_OK fm) ->
  pos + len <= OFF_LIMIT - 4096 ->      (* what pread(2) can address in the plain file *)
  flatmap_pread rd (Some fm) (Z.of_N pos) len
  = flatmap_pread (file_rd {| pf_bytes := b; pf_fail := None; pf_failst := 0 |}) None (Z.of_N pos) len.
Proof.
  intros Hseg Hs Hrd Hfuel Hopen Hl.
  assert (Hl' : pos + len <= OFF_LIMIT) by (unfold OFF_LIMIT in *; lia).
  rewrite (pread_is_rearranged _ _ _ _ _ _ _ _ Hs Hrd Hfuel Hopen Hl').
  cbn [flatmap_pread]. unfold file_rd. cbn [pf_fail pf_bytes].
  destruct (N.eqb_spec len 0) as [->|Hn]; [reflexivity|].
  unfold OFF_LIMIT, OFF_MAX in *.
  destruct (Z.ltb_spec (Z.of_N pos) 0); [lia|].
  destruct (Z.ltb_spec (9223372036854775807 - 4095) (Z.of_N pos + Z.of_N len)); [lia|].
  cbn [orb]. rewrite N2Z.id, slice0_plain. f_equal.
  apply slice_ext. now apply rearrange_segmentation.
Qed.

(** the file used by the correspondence run is a file cache over its bytes *)
Lemma file_rd_reads_stream b :
  N.of_nat (length b) <= OFF_LIMIT - 4096 ->
  reads_stream (file_rd {| pf_bytes := b; pf_fail := None; pf_failst := 0 |}) b.
Proof.
  intros Hb p n Hp Hn. unfold file_rd. cbn [pf_fail pf_bytes].
  destruct (N.eqb_spec n 0) as [->|Hn0]; [reflexivity|].
  unfold OFF_LIMIT, OFF_MAX in *.
  destruct (Z.ltb_spec p 0); [lia|].
  destruct (Z.ltb_spec (9223372036854775807 - 4095) (p + Z.of_N n)); [lia|].
  cbn [orb]. f_equal. apply slice0_sl; lia.
Qed.

(** * [flatmap_file_init] on arbitrary (malformed, truncated, hostile) streams *)

Lemma be_val_bound b : forall acc,
  Forall (fun x => x < 256) b -> be_val acc b < (acc + 1) * 256 ^ N.of_nat (length b).
Proof.
  induction b as [|x b IH]; intros acc H.
  - cbn [be_val length]. change (N.of_nat 0) with 0. rewrite N.pow_0_r. lia.
  - inversion H as [|x' b' Hx Hb E]; subst x' b'. cbn [be_val length].
    rewrite Nnat.Nat2N.inj_succ, N.pow_succ_r'.
    specialize (IH (acc * 256 + x) Hb).
    set (P := 256 ^ N.of_nat (length b)) in *.
    assert (HP : 0 < P) by (apply N.neq_0_lt_0, N.pow_nonzero; discriminate).
    nia.
Qed.

Lemma be64_bound b : length b = 8%nat -> Forall (fun x => x < 256) b -> be64 b < 18446744073709551616.
Proof.
  intros Hl Hb. unfold be64. pose proof (be_val_bound b 0 Hb) as H. rewrite Hl in H.
  change ((0 + 1) * 256 ^ N.of_nat 8) with 18446744073709551616 in H. exact H.
Qed.

Lemma s64_range x : x < 18446744073709551616 ->
  (-9223372036854775808 <= s64 x < 9223372036854775808)%Z.
Proof. intros H. unfold s64. destruct (N.ltb_spec x 9223372036854775808); lia. Qed.

Lemma Forall_firstn {A} (P : A -> Prop) n l : Forall P l -> Forall P (firstn n l).
Proof.
  revert l. induction n as [|n IH]; intros l H; [constructor|].
  destruct l as [|a l]; [constructor|]. inversion H; subst. cbn [firstn]. constructor; auto.
Qed.

Lemma Forall_skipn {A} (P : A -> Prop) n l : Forall P l -> Forall P (skipn n l).
Proof.
  revert l. induction n as [|n IH]; intros l H; [exact H|].
  destruct l as [|a l]; [constructor|]. inversion H; subst. cbn [skipn]. auto.
Qed.

Section AnyStream.
  Variable rd : Z -> N -> rd_res.
  Variable flen : N.
  (** the file cache returns as many bytes as asked, and they are bytes *)
  Hypothesis rd_bytes : forall p n b,
    rd p n = RdOk b -> length b = N.to_nat n /\ Forall (fun x => x < 256) b.
  (** a successful read past the end of the file delivers zero bytes *)
  Hypothesis rd_eof : forall p n b, (Z.of_N flen <= p)%Z -> rd p n = RdOk b -> b = zeros n.

  Definition need (flatpos : Z) : Z :=
    if (flatpos <? Z.of_N flen)%Z then ((Z.of_N flen - flatpos) / 17 + 2)%Z else 1%Z.

  (** the statuses [flatmap_file_init] can return *)
  Definition init_status (st : N) : Prop :=
    st = ST_OK \/ st = ST_SYSTEM \/ st = ST_CORRUPT \/ exists p, rd p 16 = RdErr st.

  Lemma init_loop_total : forall fuel oracle m offs cap segidx flatpos,
    tiles m -> cap_ok cap segidx -> (0 <= flatpos)%Z ->
    (need flatpos <= Z.of_nat fuel)%Z ->
    segidx + N.of_nat fuel <= METH_LIMIT ->
    exists st fm, init_loop rd fuel oracle m offs cap segidx flatpos = InitDone st fm /\ init_status st.
  Proof.
    pose proof W_val as HW.
    induction fuel as [|fuel IH]; intros oracle m offs cap segidx flatpos Ht Hcap Hfp Hneed Hseg.
    - unfold need in Hneed. destruct (Z.ltb_spec flatpos (Z.of_N flen)); lia.
    - cbn [init_loop]. destruct (rd flatpos 16) as [hdr|st] eqn:Erd.
      2:{ eexists _, _. split; [reflexivity|]. right. right. right. now exists flatpos. }
      destruct (rd_bytes _ _ _ Erd) as [Hlen Hby].
      change (N.to_nat 16) with 16%nat in Hlen.
      assert (Hp : be64 (firstn 8 hdr) < 18446744073709551616).
      { apply be64_bound; [rewrite firstn_length; lia|now apply Forall_firstn]. }
      assert (Hs : be64 (skipn 8 hdr) < 18446744073709551616).
      { apply be64_bound; [rewrite skipn_length; lia|now apply Forall_skipn]. }
      apply s64_range in Hp, Hs.
      assert (Heof : (Z.of_N flen <= flatpos)%Z -> s64 (be64 (skipn 8 hdr)) = 0%Z).
      { intros H. rewrite (rd_eof _ _ _ H Erd). reflexivity. }
      set (pos := s64 (be64 (firstn 8 hdr))) in *.
      set (size := s64 (be64 (skipn 8 hdr))) in *.
      destruct (Z.eqb_spec pos (-1)).
      { eexists _, _. split; [reflexivity|]. now left. }
      destruct (Z.ltb_spec pos 0).
      { eexists _, _. split; [reflexivity|]. right. right. now left. }
      destruct (Z.leb_spec size 0); cbn [orb].
      { eexists _, _. split; [reflexivity|]. right. right. now left. }
      destruct (Z.ltb_spec (OFF_MAX - flatpos - HDR_SIZE) size).
      { eexists _, _. split; [reflexivity|]. right. right. now left. }
      unfold OFF_MAX, HDR_SIZE in *.
      assert (Hlt : (flatpos < Z.of_N flen)%Z).
      { destruct (Z.lt_ge_cases flatpos (Z.of_N flen)) as [H'|H']; [exact H'|]. rewrite Heof in * by lia. lia. }
      destruct (cap_ok_step _ _ Hcap) as (Hcle & Hcap').
      assert (Hmeth : (METH_LIMIT <=? segidx) = false) by (apply N.leb_gt; lia).
      assert (Hio : in_off (flatpos + 16 + size) = true).
      { unfold in_off, OFF_MIN, OFF_MAX. apply andb_true_intro. split; apply Z.leb_le; lia. }
      assert (Hr : Z.to_N pos + endoff {| endoff := Z.to_N (size - 1); meth := Z.of_N segidx |} < W).
      { cbn [endoff]. lia. }
      (* from the store into the offset array onwards *)
      assert (Hfin : forall orc cap1, (cap1 <=? segidx) = false -> cap_ok cap1 (segidx + 1) ->
        exists st fm,
          (if cap1 <=? segidx then InitUB UB_OOB_OFFS
           else if METH_LIMIT <=? segidx then InitUB UB_SEGIDX
           else
             let '(ok2, oracle0) :=
               if match set_delta m (Z.to_N pos) {| endoff := Z.to_N (size - 1); meth := Z.of_N segidx |} with
                  | Some d => (0 <? d)%Z | None => false end
               then next_alloc orc else (true, orc) in
             match map_set m (Z.to_N pos) {| endoff := Z.to_N (size - 1); meth := Z.of_N segidx |} ok2 with
             | Ok m' =>
                 if in_off (flatpos + 16 + size)
                 then init_loop rd fuel oracle0 m' (offs ++ [(flatpos + 16 - pos)%Z]) cap1
                                (segidx + 1) (flatpos + 16 + size)%Z
                 else InitUB UB_OVERFLOW
             | NoMem => InitDone ST_SYSTEM {| fm_map := m; fm_offs := offs ++ [(flatpos + 16 - pos)%Z] |}
             | OOB => InitUB UB_OOB_RANGE
             end) = InitDone st fm /\ init_status st).
      { intros orc cap1 Hc1 Hc2. rewrite Hc1, Hmeth.
        destruct (if match set_delta m (Z.to_N pos) {| endoff := Z.to_N (size - 1); meth := Z.of_N segidx |} with
                     | Some d => (0 <? d)%Z | None => false end
                  then next_alloc orc else (true, orc)) as [ok2 orc2].
        pose proof (set_no_oob m (Z.to_N pos) _ ok2 Ht Hr) as Hno.
        destruct (map_set m (Z.to_N pos) {| endoff := Z.to_N (size - 1); meth := Z.of_N segidx |} ok2)
          as [m'| |] eqn:Eset.
        - rewrite Hio.
          destruct (set_tiles m (Z.to_N pos) _ ok2 m' Ht Hr Eset) as (Htot & _ & _).
          apply IH; try assumption.
          + now apply tiles_of_total.
          + lia.
          + unfold need in *. destruct (Z.ltb_spec flatpos (Z.of_N flen)); [|lia].
            destruct (Z.ltb_spec (flatpos + 16 + size) (Z.of_N flen)); lia.
          + lia.
        - eexists _, _. split; [reflexivity|]. right. now left.
        - now destruct Hno. }
      unfold ALLOC_INC in *.
      destruct (N.eqb_spec (segidx mod 32) 0) as [E|E].
      + destruct (next_alloc oracle) as [[|] o'] eqn:En; cbn [negb].
        * apply Hfin; assumption.
        * eexists _, _. split; [reflexivity|]. right. now left.
      + cbn [negb]. apply Hfin; assumption.
  Qed.

  Theorem file_init_total oracle :
    flen + 4096 <= 17 * (METH_LIMIT - 2) ->
    file_init rd (init_fuel flen) oracle = InitNoMap \/
    exists st fm, file_init rd (init_fuel flen) oracle = InitDone st fm /\ init_status st.
  Proof.
    intros Hlim. unfold file_init.
    destruct (next_alloc oracle) as [[|] o']; cbn [negb]; [right|now left].
    apply init_loop_total.
    - apply tiles_nil.
    - reflexivity.
    - unfold FlatModel.MDF_HEADER_SIZE. lia.
    - unfold need, init_fuel, FlatModel.MDF_HEADER_SIZE. destruct (Z.ltb_spec 4096 (Z.of_N flen)); lia.
    - unfold init_fuel, METH_LIMIT in *. lia.
  Qed.

End AnyStream.

(** a malformed segment header ends the scan with [KDUMP_ERR_CORRUPT] *)
Lemma init_loop_malformed rd fuel oracle m offs cap segidx flatpos hdr :
  rd flatpos 16 = RdOk hdr ->
  let pos := s64 (be64 (firstn 8 hdr)) in
  let size := s64 (be64 (skipn 8 hdr)) in
  (pos <> -1)%Z ->
  (pos < 0 \/ size <= 0 \/ OFF_MAX - flatpos - HDR_SIZE < size)%Z ->
  init_loop rd (S fuel) oracle m offs cap segidx flatpos
  = InitDone ST_CORRUPT {| fm_map := m; fm_offs := offs |}.
Proof.
  intros Erd pos size Hne Hbad. cbn [init_loop]. rewrite Erd. fold pos size.
  destruct (Z.eqb_spec pos (-1)); [contradiction|].
  destruct (Z.ltb_spec pos 0); [reflexivity|].
  destruct (Z.leb_spec size 0); [reflexivity|]. cbn [orb].
  destruct (Z.ltb_spec (OFF_MAX - flatpos - HDR_SIZE) size); [reflexivity|]. lia.
Qed.

(** the concrete file of the correspondence run satisfies the hypotheses *)
Lemma take0_props n : forall b,
  Forall (fun x => x < 256) b -> length (take0 n b) = n /\ Forall (fun x => x < 256) (take0 n b).
Proof.
  induction n as [|n IH]; intros b Hb; [split; constructor|].
  destruct b as [|x b].
  - destruct (IH [] (Forall_nil _)) as [H1 H2].
    change (take0 (S n) []) with (0 :: take0 n []). split.
    + cbn [length]. now f_equal.
    + constructor; [lia|exact H2].
  - inversion Hb as [|x' b' Hx Hb' E]; subst x' b'. destruct (IH b Hb') as [H3 H4].
    change (take0 (S n) (x :: b)) with (x :: take0 n b). split.
    + cbn [length]. now f_equal.
    + now constructor.
Qed.

Lemma zeros_props n : length (zeros n) = N.to_nat n /\ Forall (fun x => x < 256) (zeros n).
Proof.
  unfold zeros. split; [apply repeat_length|]. apply Forall_forall. intros x Hx.
  apply repeat_spec in Hx. subst. lia.
Qed.

Lemma file_rd_bytes f : Forall (fun x => x < 256) (pf_bytes f) ->
  forall p n b, file_rd f p n = RdOk b -> length b = N.to_nat n /\ Forall (fun x => x < 256) b.
Proof.
  intros Hb p n b. unfold file_rd.
  destruct (N.eqb_spec n 0) as [->|Hn]; [intros E; injection E as <-; split; constructor|].
  destruct (match pf_fail f with Some (lo, hi) => _ | None => false end); [discriminate|].
  destruct ((p <? 0)%Z || (OFF_MAX - 4095 <? p + Z.of_N n)%Z); [discriminate|].
  intros E. injection E as <-. unfold slice0.
  destruct (N.of_nat (length (pf_bytes f)) <=? Z.to_N p); [apply zeros_props|].
  apply take0_props. now apply Forall_skipn.
Qed.

Lemma file_rd_eof f p n b :
  (Z.of_N (N.of_nat (length (pf_bytes f))) <= p)%Z -> file_rd f p n = RdOk b -> b = zeros n.
Proof.
  intros Hp. unfold file_rd.
  destruct (N.eqb_spec n 0) as [->|Hn]; [intros E; now injection E as <-|].
  destruct (match pf_fail f with Some (lo, hi) => _ | None => false end); [discriminate|].
  destruct ((p <? 0)%Z || (OFF_MAX - 4095 <? p + Z.of_N n)%Z); [discriminate|].
  intros E. injection E as <-. unfold slice0.
  destruct (N.leb_spec (N.of_nat (length (pf_bytes f))) (Z.to_N p)); [reflexivity|lia].
Qed.

(** [flatmap_file_init] on any file: the scan ends within [init_fuel] (one
    iteration per 17 bytes of file, plus two) iterations, without undefined
    behaviour, with one of the documented statuses *)
Theorem init_bounded f oracle :
  Forall (fun x => x < 256) (pf_bytes f) ->
  let flen := N.of_nat (length (pf_bytes f)) in
  flen + 4096 <= 17 * (METH_LIMIT - 2) ->
  file_init (file_rd f) (init_fuel flen) oracle = InitNoMap \/
  exists st fm, file_init (file_rd f) (init_fuel flen) oracle = InitDone st fm /\
                init_status (file_rd f) st.
Proof.
  intros Hb flen Hl. apply file_init_total with (flen := flen); try assumption.
  - now apply file_rd_bytes.
  - intros p n b. apply file_rd_eof.
Qed.
