(** Model of src/kdumpfile/flatmap.c: [flatmap_file_init],
    [flatmap_pread_flat], [flatmap_get_chunk_flat] (the repaired function and,
    for the record, the function as it stands in the pinned tree) and the
    flattened-vs-plain dispatch of kdumpfile-priv.h ([flatmap_pread],
    [flatmap_get_chunk]).

    Conventions.
    - [off_t] / [int64_t] values are [Z].  Every signed addition the C code
      performs on them is checked against the 64-bit range; leaving it is the
      outcome [UB_OVERFLOW] (signed overflow is undefined behaviour).
    - [addrxlat_addr_t] / [size_t] values are [N], arithmetic through
      [Base.Wrap64].  The comparison [off > range->endoff] converts the signed
      [off] to unsigned, as C does ([u64]).
    - The offset map is [Map.MapModel.map]; [addrxlat_map_set] is
      [MapModel.map_set] (theorems: C10).
    - [fmap->offs] is a [list Z]; [offs[i]] is [nth_error], and an index outside
      the array is the outcome [UB_OOB_OFFS]; dereferencing [range] when it
      points past the range array is [UB_OOB_RANGE].
    - Every allocation ([addrxlat_map_new], [realloc] of the offset array,
      the [realloc] inside [addrxlat_map_set] when the array grows, [malloc]
      of the chunk buffer) consumes one answer of an oracle [list bool] (an
      exhausted list answers "succeeds").
    - The file cache below ([fcache_pread], [fcache_get_chunk]) is external: a
      [Section] variable [rd : Z -> N -> rd_res] (position, length).  The
      instance used for the correspondence run is [file_rd] (a byte list, zero
      bytes past its end as the read(2) path of fcache.c delivers them, plus an
      injected I/O error region).
    - [flatmap_pread_flat] is split in "which underlying accesses, in which
      order" ([pread_pieces], pure) and "perform them until the first one
      fails" ([exec_pieces]); the piece list is also the trace the driver
      compares with the real calls of [fcache_pread] / [fcache_get_chunk]. *)
From Coq Require Import NArith ZArith List Bool.
From KdV Require Import Base.Wrap64 Base.ByteSeq Map.MapModel.
Import ListNotations.
Local Open Scope N_scope.


(* kdump_status *)
Definition ST_OK : N := 0.
Definition ST_SYSTEM : N := 1.
Definition ST_NOTIMPL : N := 2.
Definition ST_NODATA : N := 3.
Definition ST_CORRUPT : N := 4.

(* reasons for an undefined-behaviour outcome *)
Definition UB_OOB_OFFS : N := 1.     (* offs[i] outside the offset array *)
Definition UB_OOB_RANGE : N := 2.    (* *range with range == end *)
Definition UB_OVERFLOW : N := 3.     (* signed 64-bit overflow *)
Definition UB_SEGIDX : N := 4.       (* segidx does not fit addrxlat_sys_meth_t *)

Definition OFF_MAX : Z := 9223372036854775807.          (* 2^63 - 1 *)
Definition OFF_MIN : Z := (-9223372036854775808)%Z.
Definition in_off (z : Z) : bool := ((OFF_MIN <=? z) && (z <=? OFF_MAX))%Z.

(* (uint64_t) of a signed value *)
Definition u64 (z : Z) : N := Z.to_N (z mod 18446744073709551616)%Z.
(* (int64_t) of an unsigned value *)
Definition s64 (x : N) : Z :=
  if x <? 9223372036854775808 then Z.of_N x
  else (Z.of_N x - 18446744073709551616)%Z.

Fixpoint be_val (acc : N) (b : bytes) : N :=
  match b with
  | [] => acc
  | x :: b' => be_val (acc * 256 + x) b'
  end.
(* be64toh of eight bytes as stored in the file *)
Definition be64 (b : bytes) : N := be_val 0 b.

Definition zeros (n : N) : bytes := repeat 0 (N.to_nat n).

Definition next_alloc (o : list bool) : bool * list bool :=
  match o with
  | [] => (true, [])
  | b :: o' => (b, o')
  end.

Inductive rd_res := RdOk (b : bytes) | RdErr (st : N).

(** * State of one file's [struct flattened_file_map] *)
Record fmap := { fm_map : map; fm_offs : list Z }.

Definition MDF_HEADER_SIZE : Z := 4096.
Definition HDR_SIZE : Z := 16.          (* sizeof(struct makedumpfile_data_header) *)
Definition ALLOC_INC : N := 32.
Definition METH_LIMIT : N := 2147483648.  (* INT_MAX + 1 *)

Inductive init_res :=
| InitDone (st : N) (fm : fmap)   (* status returned, and what [*fmap] holds then *)
| InitNoMap                       (* addrxlat_map_new failed: KDUMP_ERR_SYSTEM, fmap->map == NULL *)
| InitUB (why : N)
| InitFuel.

Definition offs_nth (offs : list Z) (i : Z) : option Z :=
  if (i <? 0)%Z then None else nth_error offs (Z.to_nat i).

Inductive piece :=
| PZero (n : N)              (* memset(buf, 0, n) *)
| PRead (p : Z) (n : N)      (* fcache_pread(fc, buf, n, fidx, p) *)
| PBad (why : N).            (* undefined behaviour reached *)

Inductive pres := POk (b : bytes) | PErr (st : N) | PUB (why : N).

Inductive chunk_plan :=
| CDirect (p : Z) (n : N)         (* fcache_get_chunk(fc, fch, n, fidx, p) *)
| CCopy (ps : list piece)         (* malloc(len) + flatmap_pread(...) *)
| CBad (why : N).

(* for (off = pos; range < end && off > range->endoff; ++range)
           off -= range->endoff + 1;                                   *)
Fixpoint skip_ranges (rs : list range) (off : N) : list range * N :=
  match rs with
  | [] => ([], off)
  | r :: rs' =>
      if endoff r <? off then skip_ranges rs' (wsub off (wadd (endoff r) 1))
      else (rs, off)
  end.

(* pos + flatoffs[range->meth] *)
Definition xlat_pos (offs : list Z) (meth : Z) (pos : Z) : Z + N :=
  match offs_nth offs meth with
  | None => inr UB_OOB_OFFS
  | Some d => if in_off (pos + d) then inl (pos + d)%Z else inr UB_OVERFLOW
  end.

(* while (range < end && len) { ... }  if (len) memset(buf, 0, len); *)
Fixpoint pread_pieces (offs : list Z) (rs : list range) (off : N) (pos : Z) (len : N)
  : list piece :=
  match rs with
  | [] => if len =? 0 then [] else [PZero len]
  | r :: rs' =>
      if len =? 0 then [] else
      let seglen := N.min (wsub (wadd (endoff r) 1) off) len in
      let p :=
        if Zeqb (meth r) NONE then PZero seglen
        else match xlat_pos offs (meth r) pos with
             | inl q => PRead q seglen
             | inr why => PBad why
             end in
      (* pos += seglen: off_t + size_t, converted back to off_t *)
      p :: pread_pieces offs rs' 0 (s64 (u64 (pos + Z.of_N seglen))) (len - seglen)
  end.

Definition pread_plan (fm : fmap) (pos : Z) (len : N) : list piece :=
  let '(rs, off) := skip_ranges (fm_map fm) (u64 pos) in
  pread_pieces (fm_offs fm) rs off pos len.

(** The function as it stands in the pinned tree (DESIGN section 10, item 6). *)
Definition chunk_plan_pinned (fm : fmap) (pos : Z) (len : N) : chunk_plan :=
  let '(rs, off) := skip_ranges (fm_map fm) (u64 pos) in
  match rs with
  | [] => CBad UB_OOB_RANGE                         (* range->endoff with range == end *)
  | r :: _ =>
      if len <=? wsub (wadd (endoff r) 1) off then
        match xlat_pos (fm_offs fm) (meth r) pos with   (* offs[-1] in a hole *)
        | inl q => CDirect q len
        | inr why => CBad why
        end
      else CCopy (pread_plan fm pos len)
  end.

(** The repaired function (fixes/60-flatmap-chunk-hole.patch):
      if (range < end && range->meth != ADDRXLAT_SYS_METH_NONE &&
          len <= range->endoff + 1 - off) { ...direct... }             *)
Definition chunk_plan_of (fm : fmap) (pos : Z) (len : N) : chunk_plan :=
  let '(rs, off) := skip_ranges (fm_map fm) (u64 pos) in
  match rs with
  | [] => CCopy (pread_plan fm pos len)
  | r :: _ =>
      if negb (Zeqb (meth r) NONE) && (len <=? wsub (wadd (endoff r) 1) off) then
        match xlat_pos (fm_offs fm) (meth r) pos with
        | inl q => CDirect q len
        | inr why => CBad why
        end
      else CCopy (pread_plan fm pos len)
  end.

Inductive open_res :=
| OpenPlain                    (* no signature: fmap->map stays NULL *)
| OpenErr (st : N)
| OpenFlat (r : init_res).

(* MDF_SIGNATURE, NUL-padded to MDF_SIG_LEN *)
Definition MDF_SIG : bytes :=
  [109; 97; 107; 101; 100; 117; 109; 112; 102; 105; 108; 101; 0; 0; 0; 0].

Fixpoint bytes_eqb (a b : bytes) : bool :=
  match a, b with
  | [], [] => true
  | x :: a', y :: b' => (x =? y) && bytes_eqb a' b'
  | _, _ => false
  end.

(** Iterations [flatmap_file_init] can need on a file of [flen] bytes: every
    record takes at least 17 bytes of the stream. *)
Definition init_fuel (flen : N) : nat := N.to_nat (flen / 17 + 2).

Section WithFile.
  (** [fcache_pread] and [fcache_get_chunk] seen as functions of (pos, len). *)
  Variable rd : Z -> N -> rd_res.
  Variable gc : Z -> N -> rd_res.

  (** ** flatmap_file_init *)
  Fixpoint init_loop (fuel : nat) (oracle : list bool) (m : map) (offs : list Z)
           (cap segidx : N) (flatpos : Z) : init_res :=
    match fuel with
    | O => InitFuel
    | S fuel' =>
        let here := {| fm_map := m; fm_offs := offs |} in
        match rd flatpos 16 with
        | RdErr st => InitDone st here
        | RdOk hdr =>
            let pos := s64 (be64 (firstn 8 hdr)) in
            if (pos =? -1)%Z then InitDone ST_OK here
            else if (pos <? 0)%Z then InitDone ST_CORRUPT here
            else
              let size := s64 (be64 (skipn 8 hdr)) in
              (* repaired (fixes/62-flatmap-size-overflow.patch):
                   size <= 0 || size > OFF_MAX - flatpos - sizeof(hdr) *)
              if ((size <=? 0) || (OFF_MAX - flatpos - HDR_SIZE <? size))%Z
              then InitDone ST_CORRUPT here
              else
                (* if ((segidx % ALLOC_INC) == 0) realloc(flatoffs, segidx + ALLOC_INC) *)
                let '(ok1, oracle, cap) :=
                  if segidx mod ALLOC_INC =? 0
                  then let '(b, o) := next_alloc oracle in (b, o, segidx + ALLOC_INC)
                  else (true, oracle, cap) in
                if negb ok1 then InitDone ST_SYSTEM here
                else
                  let flatpos := (flatpos + HDR_SIZE)%Z in
                  (* flatoffs[segidx] = flatpos - pos *)
                  if cap <=? segidx then InitUB UB_OOB_OFFS
                  else
                    let offs := offs ++ [(flatpos - pos)%Z] in
                    let here := {| fm_map := m; fm_offs := offs |} in
                    if METH_LIMIT <=? segidx then InitUB UB_SEGIDX
                    else
                      let r := {| endoff := Z.to_N (size - 1); meth := Z.of_N segidx |} in
                      let grows := match set_delta m (Z.to_N pos) r with
                                   | Some d => (0 <? d)%Z
                                   | None => false
                                   end in
                      let '(ok2, oracle) :=
                        if grows then next_alloc oracle else (true, oracle) in
                      match map_set m (Z.to_N pos) r ok2 with
                      | NoMem => InitDone ST_SYSTEM here
                      | OOB => InitUB UB_OOB_RANGE
                      | Ok m' =>
                          (* ++segidx; flatpos += size; *)
                          if in_off (flatpos + size)
                          then init_loop fuel' oracle m' offs cap (segidx + 1) (flatpos + size)%Z
                          else InitUB UB_OVERFLOW
                      end
        end
    end.

  Definition file_init (fuel : nat) (oracle : list bool) : init_res :=
    let '(ok, oracle) := next_alloc oracle in        (* addrxlat_map_new *)
    if negb ok then InitNoMap
    else init_loop fuel oracle [] [] 0 0 MDF_HEADER_SIZE.

  (** ** flatmap_init, for one file: signature, type and version checks, then
      [flatmap_file_init]; a file without the signature stays plain. *)
  Definition flatmap_init_file (fuel : nat) (oracle : list bool) : open_res :=
    match rd 0 32 with
    | RdErr st => OpenErr st
    | RdOk h =>
        if negb (bytes_eqb (firstn 16 h) MDF_SIG) then OpenPlain
        else if negb (be64 (firstn 8 (skipn 16 h)) =? 1) then OpenErr ST_NOTIMPL
        else if negb (be64 (skipn 24 h) =? 1) then OpenErr ST_NOTIMPL
        else OpenFlat (file_init fuel oracle)
    end.

  (** ** flatmap_pread_flat *)
  Fixpoint exec_pieces (ps : list piece) : pres :=
    match ps with
    | [] => POk []
    | PBad why :: _ => PUB why
    | PZero n :: t =>
        match exec_pieces t with
        | POk b => POk (zeros n ++ b)
        | e => e
        end
    | PRead p n :: t =>
        match rd p n with
        | RdErr st => PErr st
        | RdOk b =>
            match exec_pieces t with
            | POk b' => POk (b ++ b')
            | e => e
            end
        end
    end.

  (* the underlying reads actually issued: up to and including the first failure *)
  Fixpoint trace_pieces (ps : list piece) : list (Z * N) :=
    match ps with
    | [] => []
    | PBad _ :: _ => []
    | PZero _ :: t => trace_pieces t
    | PRead p n :: t =>
        (p, n) :: match rd p n with
                  | RdErr _ => []
                  | RdOk _ => trace_pieces t
                  end
    end.

  Definition pread_flat (fm : fmap) (pos : Z) (len : N) : pres :=
    exec_pieces (pread_plan fm pos len).

  (** ** flatmap_get_chunk_flat.  Result: outcome and the number of buffers
      the function allocated and still owns / has handed to the caller. *)
  Definition exec_chunk (cp : chunk_plan) (malloc_ok : bool) (free_on_error : bool)
    : pres * N :=
    match cp with
    | CBad why => (PUB why, 0)
    | CDirect p n =>
        match gc p n with
        | RdOk b => (POk b, 0)
        | RdErr st => (PErr st, 0)
        end
    | CCopy ps =>
        if negb malloc_ok then (PErr ST_SYSTEM, 0)
        else match exec_pieces ps with
             | POk b => (POk b, 1)
             | e => (e, if free_on_error then 0 else 1)
             end
    end.

  Definition get_chunk_flat (fm : fmap) (pos : Z) (len : N) (malloc_ok : bool) : pres * N :=
    exec_chunk (chunk_plan_of fm pos len) malloc_ok true.

  Definition get_chunk_flat_pinned (fm : fmap) (pos : Z) (len : N) (malloc_ok : bool)
    : pres * N :=
    exec_chunk (chunk_plan_pinned fm pos len) malloc_ok false.

  (** ** Dispatch (kdumpfile-priv.h): a file is flattened iff its map pointer
      is set; [None] is the plain file. *)
  Definition flatmap_pread (fm : option fmap) (pos : Z) (len : N) : pres :=
    match fm with
    | Some f => pread_flat f pos len
    | None => match rd pos len with RdOk b => POk b | RdErr st => PErr st end
    end.

  Definition flatmap_get_chunk (fm : option fmap) (pos : Z) (len : N) (malloc_ok : bool)
    : pres * N :=
    match fm with
    | Some f => get_chunk_flat f pos len malloc_ok
    | None => match gc pos len with RdOk b => (POk b, 0) | RdErr st => (PErr st, 0) end
    end.
End WithFile.

(** * The file used by the correspondence run *)
(* [pf_fail = Some (lo, hi)]: every cache read that touches a byte in [lo, hi) fails *)
Record pfile := { pf_bytes : bytes; pf_fail : option (Z * Z); pf_failst : N }.

Fixpoint take0 (n : nat) (b : bytes) : bytes :=
  match n with
  | O => []
  | S n' => match b with
            | [] => 0 :: take0 n' []
            | x :: b' => x :: take0 n' b'
            end
  end.
(* [len] bytes at [pos]; zero bytes past the end *)
Definition slice0 (b : bytes) (pos len : N) : bytes :=
  if N.of_nat (length b) <=? pos then zeros len
  else take0 (N.to_nat len) (skipn (N.to_nat pos) b).

Definition file_rd (f : pfile) (pos : Z) (len : N) : rd_res :=
  if len =? 0 then RdOk []
  else
    let failing := match pf_fail f with
                   | Some (lo, hi) => ((lo <? pos + Z.of_N len) && (pos <? hi))%Z
                   | None => false
                   end in
    if failing then RdErr (pf_failst f)
    else if ((pos <? 0) || (OFF_MAX - 4095 <? pos + Z.of_N len))%Z
    then RdErr ST_SYSTEM      (* pread(2): EINVAL for a negative offset and for a page whose end
                                 is not representable in loff_t *)
    else RdOk (slice0 (pf_bytes f) (Z.to_N pos) len).

(** What the driver prints for one file: everything the map and the offset
    array determine. *)
Definition show_offs (fm : fmap) : list (N * Z * option Z) :=
  List.map (fun r => (endoff r, meth r,
                      if Zeqb (meth r) NONE then None else offs_nth (fm_offs fm) (meth r)))
           (fm_map fm).
