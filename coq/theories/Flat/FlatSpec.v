(** Specification for C11, flattened files: what makedumpfile's flattened
    (rearranged-on-the-fly) stream *means*, written from the format
    description (a 4096-byte header, then records "write [buf_size] bytes at
    [offset]", then an end marker), not from flatmap.c.

    [rearrange recs] is the file an unflattening tool would produce: start from
    an all-zero file and perform the writes in stream order.  Later records
    overwrite earlier ones; positions never written read as zero. *)
From Coq Require Import NArith ZArith List Bool.
From KdV Require Import Base.ByteSeq.
Import ListNotations.
Local Open Scope N_scope.


Record rec := { r_pos : N; r_data : bytes }.
Definition r_size (r : rec) : N := N.of_nat (length (r_data r)).

Definition covers (r : rec) (x : N) : bool :=
  (r_pos r <=? x) && (x <? r_pos r + r_size r).

(** one write *)
Definition write (f : N -> byte) (r : rec) : N -> byte :=
  fun x => if covers r x then nth (N.to_nat (x - r_pos r)) (r_data r) 0 else f x.

Definition zero_file : N -> byte := fun _ => 0.

Definition rearrange (recs : list rec) : N -> byte := fold_left write recs zero_file.

Fixpoint nseq (start : N) (len : nat) : list N :=
  match len with
  | O => []
  | S len' => start :: nseq (start + 1) len'
  end.

(** [len] bytes of a file starting at [pos] *)
Definition slice (f : N -> byte) (pos len : N) : bytes := map f (nseq pos (N.to_nat len)).

(** A plain file (a byte list) read at any position: zero past its end. *)
Definition plain_file (b : bytes) : N -> byte := fun x => nth (N.to_nat x) b 0.

(** The record list is a segmentation of the plain file [b]: every record
    carries the bytes [b] has at its position (records may repeat, overlap
    and come in any order), records do not extend past the end of [b], and
    every byte of [b] is carried by at least one record. *)
Definition segmentation_of (b : bytes) (recs : list rec) : Prop :=
  (forall r, In r recs ->
     r_pos r + r_size r <= N.of_nat (length b) /\
     forall x, covers r x = true -> nth (N.to_nat (x - r_pos r)) (r_data r) 0 = plain_file b x) /\
  (forall x, x < N.of_nat (length b) -> exists r, In r recs /\ covers r x = true).

(** * The stream format *)
Fixpoint enc_be (n : nat) (x : N) : bytes :=
  match n with
  | O => []
  | S n' => enc_be n' (x / 256) ++ [x mod 256]
  end.
Definition be64_enc (x : N) : bytes := enc_be 8 x.

(* "makedumpfile" padded with NUL to 16 bytes *)
Definition MDF_SIGNATURE : bytes :=
  [109; 97; 107; 101; 100; 117; 109; 112; 102; 105; 108; 101; 0; 0; 0; 0].
Definition MDF_TYPE_FLAT_HEADER : N := 1.
Definition MDF_VERSION_FLAT_HEADER : N := 1.
Definition MDF_HEADER_SIZE : N := 4096.
Definition END_FLAG : N := 18446744073709551615.     (* (int64_t)-1 *)

Definition flat_header : bytes :=
  MDF_SIGNATURE ++ be64_enc MDF_TYPE_FLAT_HEADER ++ be64_enc MDF_VERSION_FLAT_HEADER
  ++ repeat 0 (4096 - 32).

Definition enc_rec (r : rec) : bytes := be64_enc (r_pos r) ++ be64_enc (r_size r) ++ r_data r.

Definition encode (recs : list rec) : bytes :=
  flat_header ++ flat_map enc_rec recs ++ be64_enc END_FLAG ++ be64_enc END_FLAG.

(** Records a writer can emit: non-empty, bytes are bytes, positions and the
    stream itself addressable with a signed 64-bit file offset. *)
Definition OFF_LIMIT : N := 9223372036854775808.     (* 2^63 *)
Definition wf_rec (r : rec) : Prop :=
  0 < r_size r /\ r_pos r + r_size r <= OFF_LIMIT /\ Forall (fun b => b < 256) (r_data r).
Definition wf_stream (recs : list rec) : Prop :=
  Forall wf_rec recs /\ N.of_nat (length (encode recs)) <= OFF_LIMIT.
