(** Specification for C11, SADUMP disk sets: the page data of the set is the
    concatenation of the disks' data areas in disk-number order; a position in
    it designates one byte of one disk. *)
From Coq Require Import NArith ZArith List Bool.
From KdV Require Import Base.ByteSeq Flat.DiskSetModel.
Import ListNotations.
Local Open Scope Z_scope.

(** one disk: its file, and where in the file its data area lies *)
Record sdisk := { s_file : bytes; s_pos : nat; s_area : bytes }.

(** the data area really is in the file at that offset *)
Definition area_in_file (d : sdisk) : Prop :=
  forall j, (j < length (s_area d))%nat -> nth (s_pos d + j) (s_file d) 0%N = nth j (s_area d) 0%N.

(** the page data of the whole set *)
Definition set_data (ds : list sdisk) : bytes := concat (map s_area ds).

(** the extents the library derives for disks [ds] in disk order, file index
    = disk index *)
Definition extents_of (ds : list sdisk) (fidx0 : N) : list extent :=
  (fix go (l : list sdisk) (f : N) :=
     match l with
     | [] => []
     | d :: t => {| x_pos := Z.of_nat (s_pos d); x_len := Z.of_nat (length (s_area d));
                    x_fidx := f; x_seen := true |} :: go t (f + 1)%N
     end) ds fidx0.

(** The same thing on lengths only (executable; used to judge the
    implementation's answers in the correspondence run): where data area [k]
    starts in the page data of the set, and which area holds position [pos]. *)
Definition area_start (lens : list Z) (k : nat) : Z := fold_right Z.add 0 (firstn k lens).
Definition loc_spec (lens : list Z) (pos : Z) : option (nat * Z) :=
  match find (fun k => (area_start lens k <=? pos) && (pos <? area_start lens (S k)))
             (seq 0 (length lens)) with
  | Some k => Some (k, pos - area_start lens k)
  | None => None
  end.

(** what the headers of the disks [ds] say, disk numbers counted from [k + 1] *)
Fixpoint headers_of (ds : list sdisk) (k : nat) : list disk :=
  match ds with
  | [] => []
  | d :: t => {| d_num := N.of_nat (S k); d_pos := Z.of_nat (s_pos d);
                 d_len := Z.of_nat (length (s_area d)) |} :: headers_of t (S k)
  end.

(** a set of files, as passed, is a complete disk set: the disk numbers are
    1..n, each once *)
Definition complete_set (files : list disk) : Prop :=
  NoDup (map d_num files) /\
  forall d, In d files -> (1 <= d_num d <= N.of_nat (length files))%N.

(** A consistent disk set (what a dump tool writes): every file carries the
    same block size, system id, disk-set id and time stamp; disk #1 announces
    as many disks as there are files and its volume table lists the volume id
    of every disk's partition header. *)
Definition consistent_set (hs : list hdr) : Prop :=
  complete_set (map disk_of hs) /\
  exists bs sy se ti table,
    length table = length hs /\
    forall h, In h hs ->
      h_bs h = bs /\ h_sys h = sy /\ h_set h = se /\ h_time h = ti /\
      nth_error table (N.to_nat (h_num h - 1)) = Some (h_vol h) /\
      (h_num h = 1%N -> h_disks h = N.of_nat (length hs) /\ h_table h = table).
