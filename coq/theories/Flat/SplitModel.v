(** Model of the split-file bookkeeping of diskdump.c / pfn.c /
    kdumpfile-priv.h: each file of a split set covers the PFN window
    [[start_pfn, end_pfn)] announced in its sub-header
    ([read_sub_hdr_32/64]); [open_common] sorts the per-file maps with
    [sort_pfn_file_maps] (qsort by [end_pfn]); [diskdump_read_page] picks the
    file with [find_pfn_file_map] (first map with [pfn < end_pfn]) and then
    requires [start_pfn <= pfn].

    [qsort] is modelled by insertion sort; the C comparison function
    [map_cmp] only looks at [end_pfn], so the order of maps with equal
    [end_pfn] is whatever [qsort] makes it (theorems never rely on it). *)
From Coq Require Import NArith List Bool.
Import ListNotations.
Local Open Scope N_scope.

Record pfmap := { start_pfn : N; end_pfn : N; fidx : N }.

(* map_cmp(a, b) <= 0 *)
Definition map_le (a b : pfmap) : bool := end_pfn a <=? end_pfn b.

Fixpoint insert_map (x : pfmap) (l : list pfmap) : list pfmap :=
  match l with
  | [] => [x]
  | y :: t => if map_le x y then x :: l else y :: insert_map x t
  end.

Definition sort_pfn_file_maps (l : list pfmap) : list pfmap := fold_right insert_map [] l.

(* while (nmaps--) { if (pfn < maps->end_pfn) return maps; ++maps; } return NULL; *)
Fixpoint find_pfn_file_map (maps : list pfmap) (pfn : N) : option pfmap :=
  match maps with
  | [] => None
  | m :: t => if pfn <? end_pfn m then Some m else find_pfn_file_map t pfn
  end.

(* pdmap && pdmap->start_pfn <= pfn ? pdmap : NULL   (diskdump_read_page) *)
Definition owner_sorted (maps : list pfmap) (pfn : N) : option pfmap :=
  match find_pfn_file_map maps pfn with
  | Some m => if start_pfn m <=? pfn then Some m else None
  | None => None
  end.

(** files as passed by the caller (file index = position in the fd set) *)
Definition owner (files : list pfmap) (pfn : N) : option pfmap :=
  owner_sorted (sort_pfn_file_maps files) pfn.
