(** Model of the SADUMP disk-set bookkeeping of src/kdumpfile/sadump.c.

    [open_common] puts the page-data extent of every file of a disk set into
    [sp->ext[set_disk_set - 1]] - indexed by the disk number stored in the
    file's partition header, not by the position of the file in the set the
    caller passed - together with the file's index [fidx] ([place],
    [assemble]; the [seen] flags are [dmap[].seen], the array is calloc'ed).
    [sadump_read_page] then walks the extents in disk order to turn a position
    in the page data of the whole set into (file index, file position)
    ([walk]):

      disknum = 0;  pos = <position of the page in the set's page data>;
      while (pos >= sp->ext[disknum].data_len) {
              pos -= sp->ext[disknum].data_len;
              if (++disknum >= sp->num_files) return KDUMP_ERR_NODATA;
      }
      pos += sp->ext[disknum].data_pos;
      fcache_pread(..., sp->ext[disknum].fidx, pos);

    [off_t] values are [Z]; a subtraction or addition that leaves the signed
    64-bit range is the outcome [WUB] (extent lengths come from the file:
    [used_device - data_pos] can be negative in a corrupt header). *)
From Coq Require Import NArith ZArith List Bool.
From KdV Require Import Flat.FlatModel.
Import ListNotations.
Local Open Scope Z_scope.

(** what the headers of one file say *)
Record disk := { d_num : N;        (* set_disk_set: 1-based disk number *)
                 d_pos : Z;        (* where its page data starts in the file *)
                 d_len : Z }.      (* used_device - d_pos *)

Record extent := { x_pos : Z; x_len : Z; x_fidx : N; x_seen : bool }.
Definition no_extent : extent := {| x_pos := 0; x_len := 0; x_fidx := 0; x_seen := false |}.

Fixpoint set_nth {A} (l : list A) (k : nat) (a : A) : list A :=
  match l, k with
  | [], _ => []
  | _ :: t, O => a :: t
  | x :: t, S k' => x :: set_nth t k' a
  end.

(** the loop of [sadump_probe] over the files in the order passed;
    [None] = KDUMP_ERR_INVALID (disk number larger than the number of files,
    duplicate disk) or a file that is not a member of a disk set *)
Fixpoint place (exts : list extent) (fidx : N) (files : list disk) : option (list extent) :=
  match files with
  | [] => Some exts
  | d :: t =>
      if (d_num d =? 0)%N || (N.of_nat (length exts) <? d_num d)%N then None
      else match nth_error exts (N.to_nat (d_num d - 1)) with
           | Some e =>
               if x_seen e then None
               else place (set_nth exts (N.to_nat (d_num d - 1))
                                   {| x_pos := d_pos d; x_len := d_len d;
                                      x_fidx := fidx; x_seen := true |})
                          (fidx + 1)%N t
           | None => None
           end
  end.

Definition assemble (files : list disk) : option (list extent) :=
  place (repeat no_extent (length files)) 0%N files.

Inductive walk_res :=
| WAt (fidx : N) (filepos : Z)
| WNoData                       (* KDUMP_ERR_NODATA: past the last disk *)
| WUB (why : N).

Fixpoint walk (exts : list extent) (pos : Z) : walk_res :=
  match exts with
  | [] => WUB UB_OOB_RANGE                      (* sp->ext[disknum] with disknum >= num_files *)
  | e :: rest =>
      if x_len e <=? pos then
        if in_off (pos - x_len e) then
          match rest with
          | [] => WNoData
          | _ => walk rest (pos - x_len e)
          end
        else WUB UB_OVERFLOW
      else if in_off (pos + x_pos e) then WAt (x_fidx e) (pos + x_pos e)
           else WUB UB_OVERFLOW
  end.

(** from the files as passed to (disk number, position in that disk's file) *)
Definition locate (files : list disk) (pos : Z) : option (N * Z) :=
  match assemble files with
  | None => None
  | Some exts =>
      match walk exts pos with
      | WAt f fp => match nth_error files (N.to_nat f) with
                    | Some d => Some (d_num d, fp)
                    | None => None
                    end
      | _ => None
      end
  end.
