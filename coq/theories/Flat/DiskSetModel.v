(** Model of the SADUMP disk-set bookkeeping of src/kdumpfile/sadump.c.

    [open_common] puts the page-data extent of every file of a disk set into
    [sp->ext[set_disk_set - 1]] - indexed by the disk number stored in the
    file's partition header, not by the position of the file in the set the
    caller passed - together with the file's index [fidx] ([place],
    [assemble]; the [seen] flags are [dmap[].seen], the array is calloc'ed).
    [sadump_read_page] then walks the extents in disk order to turn a position
    in the page data of the whole set into (file index, file position)
    ([walk]):

      disknum = 0;  pos = <position of the page in the set's page data>;
      while (pos >= sp->ext[disknum].data_len) {
              pos -= sp->ext[disknum].data_len;
              if (++disknum >= sp->num_files) return KDUMP_ERR_NODATA;
      }
      pos += sp->ext[disknum].data_pos;
      fcache_pread(..., sp->ext[disknum].fidx, pos);

    [off_t] values are [Z]; a subtraction or addition that leaves the signed
    64-bit range is the outcome [WUB] (extent lengths come from the file:
    [used_device - data_pos] can be negative in a corrupt header). *)
From Coq Require Import NArith ZArith List Bool.
From KdV Require Import Flat.FlatModel.
Import ListNotations.
Local Open Scope Z_scope.

(** what the headers of one file say *)
Record disk := { d_num : N;        (* set_disk_set: 1-based disk number *)
                 d_pos : Z;        (* where its page data starts in the file *)
                 d_len : Z }.      (* used_device - d_pos *)

Record extent := { x_pos : Z; x_len : Z; x_fidx : N; x_seen : bool }.
Definition no_extent : extent := {| x_pos := 0; x_len := 0; x_fidx := 0; x_seen := false |}.

Fixpoint set_nth {A} (l : list A) (k : nat) (a : A) : list A :=
  match l, k with
  | [], _ => []
  | _ :: t, O => a :: t
  | x :: t, S k' => x :: set_nth t k' a
  end.

(** the loop of [sadump_probe] over the files in the order passed;
    [None] = KDUMP_ERR_INVALID (disk number larger than the number of files,
    duplicate disk) or a file that is not a member of a disk set *)
Fixpoint place (exts : list extent) (fidx : N) (files : list disk) : option (list extent) :=
  match files with
  | [] => Some exts
  | d :: t =>
      if (d_num d =? 0)%N || (N.of_nat (length exts) <? d_num d)%N then None
      else match nth_error exts (N.to_nat (d_num d - 1)) with
           | Some e =>
               if x_seen e then None
               else place (set_nth exts (N.to_nat (d_num d - 1))
                                   {| x_pos := d_pos d; x_len := d_len d;
                                      x_fidx := fidx; x_seen := true |})
                          (fidx + 1)%N t
           | None => None
           end
  end.

Definition assemble (files : list disk) : option (list extent) :=
  place (repeat no_extent (length files)) 0%N files.

Inductive walk_res :=
| WAt (fidx : N) (filepos : Z)
| WNoData                       (* KDUMP_ERR_NODATA: past the last disk *)
| WUB (why : N).

Fixpoint walk (exts : list extent) (pos : Z) : walk_res :=
  match exts with
  | [] => WUB UB_OOB_RANGE                      (* sp->ext[disknum] with disknum >= num_files *)
  | e :: rest =>
      if x_len e <=? pos then
        if in_off (pos - x_len e) then
          match rest with
          | [] => WNoData
          | _ => walk rest (pos - x_len e)
          end
        else WUB UB_OVERFLOW
      else if in_off (pos + x_pos e) then WAt (x_fidx e) (pos + x_pos e)
           else WUB UB_OVERFLOW
  end.

(** from the files as passed to (disk number, position in that disk's file) *)
Definition locate (files : list disk) (pos : Z) : option (N * Z) :=
  match assemble files with
  | None => None
  | Some exts =>
      match walk exts pos with
      | WAt f fp => match nth_error files (N.to_nat f) with
                    | Some d => Some (d_num d, fp)
                    | None => None
                    end
      | _ => None
      end
  end.

(** * The header checks of [open_common] / [init_disk_set] that depend on the
      order in which the files are probed

    [hdr]: what the partition header (and, for disk #1, the disk-set header
    with its volume table) of one file says.  GUIDs and the time stamp are
    [N]s.  The first file probed ([fidx == 0]) is the reference for block
    size, system id, disk-set id and time stamp.  [dmap[]] remembers, per disk
    number, a volume id and whether that disk was seen: a disk probed before
    disk #1 leaves the id of its own partition header there
    ([process_vol_id]); when disk #1 arrives its volume table is compared with
    the ids remembered for the disks already seen and copied for the others
    ([init_disk_set]); a disk probed after disk #1 is compared with the table
    entry ([process_vol_id] again).

    [bug = true] is the off-by-one variant of [init_disk_set] (seeded change
    C11-c2): [check_vol_id(ctx, sdsh_id, dmap, i)] instead of [i + 1], i.e.
    table entry [i] is compared with the id remembered for disk [i]
    ([dmap[i - 1]]). *)
Definition ST_INVALID : N := 5.
Definition NOT_MODELLED : N := 255.      (* single-partition / media file: outside this model *)

Record hdr := { h_num : N;            (* set_disk_set *)
                h_pos : Z; h_len : Z; (* page data extent *)
                h_bs : N;             (* block size detected from the magic numbers *)
                h_sys : N; h_set : N; h_time : N;   (* sadump_id, disk_set_id, time_stamp *)
                h_vol : N;            (* vol_id of the partition header *)
                h_disks : N;          (* disk #1 only: disk_num of the disk-set header *)
                h_table : list N }.   (* disk #1 only: vol_info[].id *)

Record dent := { v_id : N; v_seen : bool }.
Record pstate := { ps_ext : list extent; ps_dm : list dent; ps_first : option (N * N * N * N) }.

Definition disk_of (h : hdr) : disk := {| d_num := h_num h; d_pos := h_pos h; d_len := h_len h |}.

(* the loop of init_disk_set over the volume table *)
Fixpoint vol_table (bug : bool) (prev : option dent) (dm : list dent) (tb : list N)
  : list dent + N :=
  match dm with
  | [] => inl []
  | e :: dm' =>
      match tb with
      | [] => inr ST_CORRUPT                  (* "Disk set header too short" *)
      | t :: tb' =>
          let checked :=
            if v_seen e then
              if bug then match prev with
                          | Some p => if (v_id p =? t)%N then inl e else inr ST_CORRUPT
                          | None => inr UB_OOB_RANGE        (* dmap[-1] *)
                          end
              else if (v_id e =? t)%N then inl e else inr ST_CORRUPT
            else inl {| v_id := t; v_seen := false |} in
          match checked with
          | inr st => inr st
          | inl e' => match vol_table bug (Some e') dm' tb' with
                      | inr st => inr st
                      | inl r => inl (e' :: r)
                      end
          end
      end
  end.

Definition probe_step (bug : bool) (st : pstate) (fidx : N) (h : hdr) : pstate + N :=
  let n := N.of_nat (length (ps_ext st)) in
  let ids := (h_bs h, h_sys h, h_set h, h_time h) in
  let id_check :=
    match ps_first st with
    | None => inl (Some ids)                                  (* fidx == 0 *)
    | Some (bs, sy, se, ti) =>
        if negb (bs =? h_bs h)%N then inr ST_INVALID          (* Block size mismatch *)
        else if negb (sy =? h_sys h)%N then inr ST_INVALID    (* System ID mismatch *)
        else if negb (se =? h_set h)%N then inr ST_INVALID    (* Disk set ID mismatch *)
        else if negb (ti =? h_time h)%N then inr ST_INVALID   (* Timestamp mismatch *)
        else inl (Some (bs, sy, se, ti))
    end in
  match id_check with
  | inr e => inr e
  | inl first =>
      if (h_num h =? 0)%N then inr (if (1 <? n)%N then ST_NOTIMPL else NOT_MODELLED)
      else if (n <? h_num h)%N then inr ST_INVALID            (* Disk #k found, but only n files *)
      else
        let k := N.to_nat (h_num h - 1) in
        match nth_error (ps_dm st) k, nth_error (ps_ext st) k with
        | Some di, Some _ =>
            if v_seen di then inr ST_INVALID                  (* Duplicate disk *)
            else
              (* process_vol_id: dmap->seen ? check : remember *)
              let disk1_seen := match ps_dm st with e :: _ => v_seen e | [] => false end in
              let dm1 :=
                if disk1_seen then
                  if (v_id di =? h_vol h)%N then inl (ps_dm st) else inr ST_CORRUPT
                else inl (set_nth (ps_dm st) k {| v_id := h_vol h; v_seen := false |}) in
              match dm1 with
              | inr e => inr e
              | inl dm =>
                  let ext' := set_nth (ps_ext st) k
                                {| x_pos := h_pos h; x_len := h_len h; x_fidx := fidx; x_seen := true |} in
                  if (1 <? h_num h)%N then
                    match nth_error dm k with
                    | Some d' => inl {| ps_ext := ext';
                                        ps_dm := set_nth dm k {| v_id := v_id d'; v_seen := true |};
                                        ps_first := first |}
                    | None => inr UB_OOB_RANGE
                    end
                  else
                    (* init_disk_set *)
                    if negb (h_disks h =? n)%N then inr ST_INVALID   (* Disk set comprises ... *)
                    else match vol_table bug None dm (h_table h) with
                         | inr e => inr e
                         | inl (d0 :: dmr) =>
                             inl {| ps_ext := ext';
                                    ps_dm := {| v_id := v_id d0; v_seen := true |} :: dmr;
                                    ps_first := first |}
                         | inl [] => inr UB_OOB_RANGE
                         end
              end
        | _, _ => inr UB_OOB_RANGE
        end
  end.

Fixpoint probe_loop (bug : bool) (st : pstate) (fidx : N) (hs : list hdr) : pstate + N :=
  match hs with
  | [] => inl st
  | h :: t => match probe_step bug st fidx h with
              | inr e => inr e
              | inl st' => probe_loop bug st' (fidx + 1)%N t
              end
  end.

(** [sadump_probe] over the files as passed: the extent array or the error status *)
Definition probe_set (bug : bool) (hs : list hdr) : list extent + N :=
  match probe_loop bug {| ps_ext := repeat no_extent (length hs);
                          ps_dm := repeat {| v_id := 0; v_seen := false |} (length hs);
                          ps_first := None |} 0%N hs with
  | inl st => inl (ps_ext st)
  | inr e => inr e
  end.
