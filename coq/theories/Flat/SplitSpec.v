(** Specification for C11, split sets: the file that holds page frame [pfn]
    is the one whose window contains it - a statement about the *set* of
    files, with no reference to the order in which they were passed. *)
From Coq Require Import NArith List Bool.
From KdV Require Import Flat.SplitModel.
Import ListNotations.
Local Open Scope N_scope.

Definition in_window (m : pfmap) (pfn : N) : Prop := start_pfn m <= pfn < end_pfn m.
Definition in_windowb (m : pfmap) (pfn : N) : bool := (start_pfn m <=? pfn) && (pfn <? end_pfn m).

Definition disjoint (a b : pfmap) : Prop := end_pfn a <= start_pfn b \/ end_pfn b <= start_pfn a.

(** A well-formed split set (DESIGN section 8, reading (iii)): windows are
    non-empty and pairwise disjoint. *)
Definition wf_set (files : list pfmap) : Prop :=
  (forall m, In m files -> start_pfn m < end_pfn m) /\
  (forall a b, In a files -> In b files -> a = b \/ disjoint a b).

(** executable version, for the correspondence run *)
Fixpoint wf_setb (files : list pfmap) : bool :=
  match files with
  | [] => true
  | m :: t =>
      (start_pfn m <? end_pfn m)
      && forallb (fun b => (end_pfn m <=? start_pfn b) || (end_pfn b <=? start_pfn m)) t
      && wf_setb t
  end.

(** the owner according to the specification: search the set as given *)
Definition spec_owner (files : list pfmap) (pfn : N) : option pfmap :=
  find (fun m => in_windowb m pfn) files.
