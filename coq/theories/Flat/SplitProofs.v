(** Proofs for C11 (split sets): the owner of a page frame is a function of
    the *set* of files. *)
From Coq Require Import NArith List Bool Lia Sorted Permutation.
From KdV Require Import Flat.SplitModel Flat.SplitSpec.
Import ListNotations.
Local Open Scope N_scope.

Definition le_end (a b : pfmap) : Prop := end_pfn a <= end_pfn b.

Lemma insert_perm x l : Permutation (insert_map x l) (x :: l).
Proof.
  induction l as [|y t IH]; cbn [insert_map]; [reflexivity|].
  destruct (map_le x y); [reflexivity|].
  rewrite IH. apply perm_swap.
Qed.

Lemma sort_perm l : Permutation (sort_pfn_file_maps l) l.
Proof.
  induction l as [|x l IH]; cbn [sort_pfn_file_maps fold_right]; [reflexivity|].
  fold (sort_pfn_file_maps l). rewrite insert_perm. now constructor.
Qed.

Lemma insert_sorted x l : StronglySorted le_end l -> StronglySorted le_end (insert_map x l).
Proof.
  induction l as [|y t IH]; intros Hs; cbn [insert_map].
  - repeat constructor.
  - inversion Hs as [|y' t' Ht Hy E]; subst y' t'.
    unfold map_le. destruct (N.leb_spec (end_pfn x) (end_pfn y)) as [Hle|Hgt].
    + constructor; [exact Hs|]. constructor; [exact Hle|].
      eapply Forall_impl; [|exact Hy]. unfold le_end. intros a Ha. lia.
    + constructor; [now apply IH|].
      apply Forall_forall. intros a Ha.
      apply (Permutation_in _ (insert_perm x t)) in Ha. destruct Ha as [<-|Ha].
      * unfold le_end. lia.
      * now apply (proj1 (Forall_forall _ _) Hy).
Qed.

Lemma sort_sorted l : StronglySorted le_end (sort_pfn_file_maps l).
Proof.
  induction l as [|x l IH]; cbn [sort_pfn_file_maps fold_right]; [constructor|].
  fold (sort_pfn_file_maps l). now apply insert_sorted.
Qed.

Lemma find_in l pfn m : find_pfn_file_map l pfn = Some m -> In m l /\ pfn < end_pfn m.
Proof.
  induction l as [|e t IH]; cbn [find_pfn_file_map]; [discriminate|].
  destruct (N.ltb_spec pfn (end_pfn e)) as [H|H].
  - intros E. injection E as <-. split; [now left|exact H].
  - intros E. destruct (IH E). split; [now right|assumption].
Qed.

Lemma find_sorted l pfn m :
  StronglySorted le_end l ->
  (forall a, In a l -> start_pfn a < end_pfn a) ->
  (forall a, In a l -> a = m \/ disjoint a m) ->
  In m l -> in_window m pfn ->
  find_pfn_file_map l pfn = Some m.
Proof.
  unfold in_window, disjoint.
  induction l as [|e t IH]; intros Hs Hne Hdj Hin Hw; [destruct Hin|].
  inversion Hs as [|e' t' Ht He E]; subst e' t'.
  cbn [find_pfn_file_map]. destruct (N.ltb_spec pfn (end_pfn e)) as [H|H].
  - f_equal. destruct (Hdj e (or_introl eq_refl)) as [->|Hd]; [reflexivity|exfalso].
    destruct Hin as [->|Hin]; [lia|].
    pose proof (proj1 (Forall_forall _ _) He m Hin) as Hle. unfold le_end in Hle.
    pose proof (Hne e (or_introl eq_refl)). lia.
  - destruct Hin as [->|Hin]; [lia|].
    apply IH; try assumption.
    + intros a Ha. apply Hne. now right.
    + intros a Ha. apply Hdj. now right.
Qed.

(** the owner found by the library is exactly the file whose window holds the frame *)
Theorem owner_spec files pfn m :
  wf_set files ->
  (owner files pfn = Some m <-> In m files /\ in_window m pfn).
Proof.
  intros [Hne Hdj]. unfold owner, owner_sorted. split.
  - destruct (find_pfn_file_map (sort_pfn_file_maps files) pfn) as [e|] eqn:E; [|discriminate].
    destruct (N.leb_spec (start_pfn e) pfn) as [H|H]; [|discriminate].
    intros Em. injection Em as <-. apply find_in in E as [Hin Hlt].
    split; [now apply (Permutation_in _ (sort_perm files))|]. unfold in_window. lia.
  - intros [Hin Hw].
    rewrite (find_sorted _ pfn m (sort_sorted files)).
    + destruct Hw as [Hw _]. apply N.leb_le in Hw. now rewrite Hw.
    + intros a Ha. apply Hne. now apply (Permutation_in _ (sort_perm files)).
    + intros a Ha. apply Hdj; [now apply (Permutation_in _ (sort_perm files))|exact Hin].
    + now apply (Permutation_in _ (Permutation_sym (sort_perm files))).
    + exact Hw.
Qed.

Lemma wf_set_perm files files' : Permutation files files' -> wf_set files -> wf_set files'.
Proof.
  intros Hp [Hne Hdj]. pose proof (Permutation_sym Hp) as Hp'. split.
  - intros m Hm. apply Hne. now apply (Permutation_in _ Hp').
  - intros a b Ha Hb. apply Hdj; now apply (Permutation_in _ Hp').
Qed.

(** passing the files of a well-formed split set in any order yields the same
    PFN -> file function *)
Theorem split_any_order files files' pfn :
  wf_set files -> Permutation files files' -> owner files pfn = owner files' pfn.
Proof.
  intros Hwf Hp. pose proof (wf_set_perm _ _ Hp Hwf) as Hwf'.
  destruct (owner files pfn) as [m|] eqn:E.
  - apply (owner_spec files pfn m Hwf) in E as [Hin Hw]. symmetry.
    apply (owner_spec files' pfn m Hwf'). split; [now apply (Permutation_in _ Hp)|exact Hw].
  - destruct (owner files' pfn) as [m|] eqn:E'; [|reflexivity].
    apply (owner_spec files' pfn m Hwf') in E' as [Hin Hw].
    assert (owner files pfn = Some m) as E2.
    { apply (owner_spec files pfn m Hwf). split; [now apply (Permutation_in _ (Permutation_sym Hp))|exact Hw]. }
    rewrite E2 in E. discriminate.
Qed.

(** the owner agrees with the specification's search of the unsorted set *)
Lemma find_window files pfn m :
  find (fun m => in_windowb m pfn) files = Some m -> In m files /\ in_window m pfn.
Proof.
  intros H. apply find_some in H as [Hin Hb]. split; [exact Hin|].
  unfold in_windowb in Hb. apply andb_prop in Hb as [H1 H2].
  apply N.leb_le in H1. apply N.ltb_lt in H2. now split.
Qed.

Theorem owner_is_spec_owner files pfn :
  wf_set files -> owner files pfn = spec_owner files pfn.
Proof.
  intros Hwf. unfold spec_owner.
  destruct (find (fun m => in_windowb m pfn) files) as [m|] eqn:E.
  - apply find_window in E. now apply (owner_spec files pfn m Hwf).
  - destruct (owner files pfn) as [m|] eqn:Eo; [|reflexivity].
    apply (owner_spec files pfn m Hwf) in Eo as [Hin [H1 H2]].
    pose proof (find_none _ _ E m Hin) as Hn. cbn beta in Hn. unfold in_windowb in Hn.
    apply N.leb_le in H1. apply N.ltb_lt in H2. rewrite H1, H2 in Hn. discriminate.
Qed.

Lemma wf_setb_sound files : wf_setb files = true -> wf_set files.
Proof.
  induction files as [|m t IH]; intros H.
  - split; intros; contradiction.
  - cbn [wf_setb] in H. apply andb_prop in H as [H Ht]. apply andb_prop in H as [Hm Hd].
    apply N.ltb_lt in Hm. destruct (IH Ht) as [Hne Hdj].
    assert (Hd' : forall b, In b t -> disjoint m b).
    { intros b Hb. pose proof (proj1 (forallb_forall _ _) Hd b Hb) as Hx. cbn beta in Hx.
      apply orb_prop in Hx as [Hx|Hx]; apply N.leb_le in Hx; [now left|now right]. }
    split.
    + intros a [<-|Ha]; [exact Hm|now apply Hne].
    + intros a b [<-|Ha] [<-|Hb].
      * now left.
      * right. now apply Hd'.
      * right. destruct (Hd' a Ha) as [H1|H1]; [now right|now left].
      * now apply Hdj.
Qed.
