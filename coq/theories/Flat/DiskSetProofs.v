(** Proofs for C11 (SADUMP disk sets): the extent walk of [sadump_read_page]
    addresses the concatenation of the disks' data areas, and the result does
    not depend on the order in which the files of the set were passed. *)
From Coq Require Import NArith ZArith List Bool Lia ZifyBool ZifyNat ZifyN Permutation.
From KdV Require Import Base.ByteSeq Flat.FlatModel Flat.DiskSetModel Flat.DiskSetSpec.
Import ListNotations.
Local Open Scope Z_scope.

Lemma in_off_iff z : in_off z = true <-> OFF_MIN <= z <= OFF_MAX.
Proof. unfold in_off. rewrite andb_true_iff, !Z.leb_le. tauto. Qed.

(** * The walk addresses the concatenation of the data areas *)

Definition sdisk_ok (d : sdisk) : Prop :=
  area_in_file d /\ Z.of_nat (s_pos d) + Z.of_nat (length (s_area d)) <= OFF_MAX.

Lemma extents_of_cons d t f :
  extents_of (d :: t) f =
  {| x_pos := Z.of_nat (s_pos d); x_len := Z.of_nat (length (s_area d)); x_fidx := f; x_seen := true |}
  :: extents_of t (f + 1)%N.
Proof. reflexivity. Qed.

Theorem walk_concat : forall ds f0 pos,
  Forall sdisk_ok ds ->
  0 <= pos < Z.of_nat (length (set_data ds)) -> pos <= OFF_MAX ->
  exists k d fp,
    nth_error ds k = Some d /\
    walk (extents_of ds f0) pos = WAt (f0 + N.of_nat k)%N fp /\ 0 <= fp /\
    nth (Z.to_nat fp) (s_file d) 0%N = nth (Z.to_nat pos) (set_data ds) 0%N.
Proof.
  unfold OFF_MAX.
  induction ds as [|d t IH]; intros f0 pos Hok Hpos Hmax.
  - cbn [set_data map concat length] in Hpos. lia.
  - inversion Hok as [|d' t' [Harea Hfit] Hok' E]; subst d' t'.
    rewrite extents_of_cons. cbn [walk x_len x_pos x_fidx].
    unfold set_data in *. cbn [map concat] in *. rewrite app_length in Hpos.
    destruct (Z.leb_spec (Z.of_nat (length (s_area d))) pos) as [Hge|Hlt].
    + assert (Hio : in_off (pos - Z.of_nat (length (s_area d))) = true)
        by (apply in_off_iff; unfold OFF_MIN, OFF_MAX; lia).
      rewrite Hio.
      assert (Hp1 : 0 <= pos - Z.of_nat (length (s_area d)) < Z.of_nat (length (concat (map s_area t)))) by lia.
      assert (Hp2 : pos - Z.of_nat (length (s_area d)) <= 9223372036854775807) by lia.
      destruct (IH (f0 + 1)%N (pos - Z.of_nat (length (s_area d))) Hok' Hp1 Hp2)
        as (k & d' & fp & Hk & Hw & Hfp & Hb).
      destruct t as [|d2 t2]; [destruct k; discriminate|].
      rewrite extents_of_cons in *.
      exists (S k), d', fp. split; [exact Hk|]. split.
      * rewrite Hw. f_equal. lia.
      * split; [exact Hfp|]. rewrite Hb. rewrite app_nth2 by lia. f_equal. lia.
    + assert (Hio : in_off (pos + Z.of_nat (s_pos d)) = true)
        by (apply in_off_iff; unfold OFF_MIN, OFF_MAX in *; lia).
      rewrite Hio. exists 0%nat, d, (pos + Z.of_nat (s_pos d)).
      split; [reflexivity|]. split; [f_equal; lia|]. split; [lia|].
      rewrite app_nth1 by lia.
      replace (Z.to_nat (pos + Z.of_nat (s_pos d))) with (s_pos d + Z.to_nat pos)%nat by lia.
      apply Harea. lia.
Qed.

(** past the data of the last disk: KDUMP_ERR_NODATA *)
Theorem walk_past_end : forall ds f0 pos,
  ds <> [] -> Forall sdisk_ok ds ->
  Z.of_nat (length (set_data ds)) <= pos <= OFF_MAX ->
  walk (extents_of ds f0) pos = WNoData.
Proof.
  unfold OFF_MAX.
  induction ds as [|d t IH]; intros f0 pos Hne Hok Hpos; [now destruct Hne|].
  inversion Hok as [|d' t' [Harea Hfit] Hok' E]; subst d' t'.
  rewrite extents_of_cons. cbn [walk x_len].
  unfold set_data in *. cbn [map concat] in *. rewrite app_length in Hpos.
  destruct (Z.leb_spec (Z.of_nat (length (s_area d))) pos) as [Hge|Hlt]; [|lia].
  assert (Hio : in_off (pos - Z.of_nat (length (s_area d))) = true)
    by (apply in_off_iff; unfold OFF_MIN, OFF_MAX; lia).
  rewrite Hio. destruct t as [|d2 t2]; [reflexivity|].
  rewrite extents_of_cons. rewrite <- extents_of_cons. apply IH; [discriminate|exact Hok'|lia].
Qed.

(** a whole page: when the data areas are made of whole pages, every byte of
    the page at a page-aligned position lies in the same file, contiguously *)
Definition ext_ok (P : Z) (e : extent) : Prop :=
  0 <= x_len e /\ (P | x_len e) /\ 0 <= x_pos e /\ x_pos e + x_len e <= OFF_MAX.

Theorem walk_page P : forall exts pos f fp i,
  0 < P -> Forall (ext_ok P) exts -> 0 <= pos -> (P | pos) -> 0 <= i < P -> pos + i <= OFF_MAX ->
  walk exts pos = WAt f fp -> walk exts (pos + i) = WAt f (fp + i).
Proof.
  unfold OFF_MAX.
  induction exts as [|e rest IH]; intros pos f fp i HP Hok Hpos Hdiv Hi Hmax Hw; [discriminate|].
  inversion Hok as [|e' r' (Hl0 & Hld & Hp0 & Hfit) Hok' E]; subst e' r'. unfold OFF_MAX in Hfit.
  cbn [walk] in *.
  destruct (Z.leb_spec (x_len e) pos) as [Hge|Hlt].
  - destruct (in_off (pos - x_len e)) eqn:Hio; [|discriminate].
    destruct (Z.leb_spec (x_len e) (pos + i)); [|lia].
    apply in_off_iff in Hio. unfold OFF_MIN, OFF_MAX in Hio.
    destruct rest as [|e2 r2]; [discriminate|].
    assert (Hpos' : 0 <= pos - x_len e) by lia.
    assert (Hmax' : pos - x_len e + i <= 9223372036854775807) by lia.
    pose proof (IH (pos - x_len e) f fp i HP Hok' Hpos' (Z.divide_sub_r _ _ _ Hdiv Hld) Hi Hmax' Hw) as Hn.
    assert (Hio2 : in_off (pos + i - x_len e) = true)
      by (apply in_off_iff; unfold OFF_MIN, OFF_MAX; lia).
    rewrite Hio2. replace (pos + i - x_len e) with (pos - x_len e + i) by lia. exact Hn.
  - destruct (in_off (pos + x_pos e)) eqn:Hio; [|discriminate]. injection Hw as <- <-.
    destruct Hdiv as [a Ha]. destruct Hld as [b Hb].
    assert (Hab : a < b) by nia.
    assert (Hab1 : (a + 1) * P <= b * P) by (apply Z.mul_le_mono_nonneg_r; lia).
    assert (pos + i < x_len e) by lia.
    destruct (Z.leb_spec (x_len e) (pos + i)); [lia|].
    assert (Hio2 : in_off (pos + i + x_pos e) = true)
      by (apply in_off_iff; unfold OFF_MIN, OFF_MAX; lia).
    rewrite Hio2. f_equal. lia.
Qed.

(** * The extent array does not depend on the order of the files *)

(** the first file carrying disk number [k], with its index *)
Fixpoint find_num (k : N) (l : list disk) (i : N) : option (N * disk) :=
  match l with
  | [] => None
  | d :: t => if (d_num d =? k)%N then Some (i, d) else find_num k t (i + 1)%N
  end.

Definition entry (o : option (N * disk)) : extent :=
  match o with
  | Some (i, d) => {| x_pos := d_pos d; x_len := d_len d; x_fidx := i; x_seen := true |}
  | None => no_extent
  end.

(** the extent array after the files [done] have been probed *)
Definition table (done : list disk) (n : nat) : list extent :=
  map (fun j => entry (find_num (N.of_nat (S j)) done 0%N)) (seq 0 n).

Lemma find_num_some k l : forall i j d,
  find_num k l i = Some (j, d) ->
  exists p, j = (i + N.of_nat p)%N /\ nth_error l p = Some d /\ d_num d = k.
Proof.
  induction l as [|a t IH]; intros i j d H; cbn [find_num] in H; [discriminate|].
  destruct (N.eqb_spec (d_num a) k) as [E|E].
  - injection H as <- <-. exists 0%nat. repeat split; [lia|exact E].
  - apply IH in H as (p & -> & Hp & Hk). exists (S p). repeat split; [lia|exact Hp|exact Hk].
Qed.

Lemma find_num_none k l : forall i, find_num k l i = None <-> (forall d, In d l -> d_num d <> k).
Proof.
  induction l as [|a t IH]; intros i; cbn [find_num].
  - split; [intros _ d []|reflexivity].
  - destruct (N.eqb_spec (d_num a) k) as [E|E].
    + split; [discriminate|]. intros H. exfalso. apply (H a); [now left|exact E].
    + rewrite IH. split.
      * intros H d [<-|Hd]; [exact E|now apply H].
      * intros H d Hd. apply H. now right.
Qed.

Lemma find_num_app k l d : forall i,
  find_num k (l ++ [d]) i =
  match find_num k l i with
  | Some r => Some r
  | None => if (d_num d =? k)%N then Some ((i + N.of_nat (length l))%N, d) else None
  end.
Proof.
  induction l as [|a t IH]; intros i; cbn [app find_num length].
  - replace (i + N.of_nat 0)%N with i by lia. reflexivity.
  - destruct (d_num a =? k)%N; [reflexivity|]. rewrite IH.
    replace (i + 1 + N.of_nat (length t))%N with (i + N.of_nat (S (length t)))%N by lia. reflexivity.
Qed.

Lemma nth_error_set_nth {A} (l : list A) a : forall k j,
  nth_error (set_nth l k a) j =
  if Nat.eqb j k then (if Nat.ltb k (length l) then Some a else None) else nth_error l j.
Proof.
  induction l as [|x t IH]; intros k j.
  - destruct k; cbn [set_nth length]; destruct (Nat.eqb j _); destruct j; reflexivity.
  - destruct k as [|k]; cbn [set_nth length].
    + destruct j as [|j]; reflexivity.
    + destruct j as [|j]; cbn [nth_error Nat.eqb]; [reflexivity|].
      rewrite IH. destruct (Nat.eqb j k); [|reflexivity].
      change (Nat.ltb (S k) (S (length t))) with (Nat.ltb k (length t)). reflexivity.
Qed.

Lemma nth_error_ext {A} : forall (l l' : list A),
  (forall j, nth_error l j = nth_error l' j) -> l = l'.
Proof.
  induction l as [|x t IH]; intros [|y t'] H.
  - reflexivity.
  - specialize (H 0%nat). discriminate.
  - specialize (H 0%nat). discriminate.
  - pose proof (H 0%nat) as H0. injection H0 as <-. f_equal. apply IH. intros j. apply (H (S j)).
Qed.

Lemma nth_error_table done n j :
  nth_error (table done n) j =
  if Nat.ltb j n then Some (entry (find_num (N.of_nat (S j)) done 0%N)) else None.
Proof.
  unfold table. destruct (Nat.ltb_spec j n) as [H|H].
  - rewrite nth_error_map, nth_error_nth' with (d := 0%nat) by (rewrite seq_length; exact H).
    rewrite seq_nth by exact H. reflexivity.
  - apply nth_error_None. rewrite map_length, seq_length. exact H.
Qed.

Lemma table_length done n : length (table done n) = n.
Proof. unfold table. now rewrite map_length, seq_length. Qed.

(** numbers are 1..n, each at most once *)
Definition nums_ok (n : nat) (files : list disk) : Prop :=
  NoDup (map d_num files) /\ forall d, In d files -> (1 <= d_num d <= N.of_nat n)%N.

Lemma place_table n : forall rest done,
  nums_ok n (done ++ rest) ->
  place (table done n) (N.of_nat (length done)) rest = Some (table (done ++ rest) n).
Proof.
  induction rest as [|d t IH]; intros done [Hnd Hrg].
  - cbn [place]. now rewrite app_nil_r.
  - cbn [place]. rewrite table_length.
    assert (Hd : (1 <= d_num d <= N.of_nat n)%N) by (apply Hrg, in_or_app; right; now left).
    destruct (N.eqb_spec (d_num d) 0); [lia|].
    destruct (N.ltb_spec (N.of_nat n) (d_num d)); [lia|]. cbn [orb].
    (* no earlier file carries this number *)
    assert (Hnew : find_num (d_num d) done 0%N = None).
    { apply find_num_none. intros d' Hd' E.
      rewrite map_app in Hnd. cbn [map] in Hnd. apply NoDup_remove_2 in Hnd.
      apply Hnd. apply in_or_app. left. rewrite <- E. now apply in_map. }
    rewrite nth_error_table.
    destruct (Nat.ltb_spec (N.to_nat (d_num d - 1)) n) as [_|]; [|lia].
    replace (N.of_nat (S (N.to_nat (d_num d - 1)))) with (d_num d) by lia.
    rewrite Hnew. cbn [entry no_extent x_seen].
    replace (N.of_nat (length done) + 1)%N with (N.of_nat (length (done ++ [d]))) by (rewrite app_length; cbn [length]; lia).
    replace (done ++ d :: t) with ((done ++ [d]) ++ t) by (rewrite <- app_assoc; reflexivity).
    replace (set_nth (table done n) (N.to_nat (d_num d - 1))
               {| x_pos := d_pos d; x_len := d_len d; x_fidx := N.of_nat (length done); x_seen := true |})
      with (table (done ++ [d]) n).
    + apply IH. rewrite <- app_assoc. split; assumption.
    + apply nth_error_ext. intros j. rewrite nth_error_set_nth, !nth_error_table, table_length.
      destruct (Nat.ltb_spec j n) as [Hj|Hj].
      * rewrite find_num_app. destruct (Nat.eqb_spec j (N.to_nat (d_num d - 1))) as [->|Hne].
        -- destruct (Nat.ltb_spec (N.to_nat (d_num d - 1)) n); [|lia].
           replace (N.of_nat (S (N.to_nat (d_num d - 1)))) with (d_num d) by lia.
           rewrite Hnew, N.eqb_refl. cbn [entry]. repeat f_equal.
        -- destruct (find_num (N.of_nat (S j)) done 0%N); [reflexivity|].
           destruct (N.eqb_spec (d_num d) (N.of_nat (S j))); [lia|reflexivity].
      * destruct (Nat.eqb_spec j (N.to_nat (d_num d - 1))); [lia|reflexivity].
Qed.

Lemma table_nil n : table [] n = repeat no_extent n.
Proof.
  apply nth_error_ext. intros j. rewrite nth_error_table. cbn [find_num entry].
  destruct (Nat.ltb_spec j n) as [H|H].
  - rewrite nth_error_nth' with (d := no_extent) by (rewrite repeat_length; exact H).
    now rewrite nth_repeat.
  - symmetry. apply nth_error_None. now rewrite repeat_length.
Qed.

Theorem assemble_table files :
  complete_set files -> assemble files = Some (table files (length files)).
Proof.
  intros H. unfold assemble. rewrite <- table_nil.
  apply (place_table (length files) files []). exact H.
Qed.

(** two extent arrays that describe the same disks, possibly under different
    file indices *)
Section Order.
  Variables files files' : list disk.

  Definition same_disk (e e' : extent) : Prop :=
    x_pos e = x_pos e' /\ x_len e = x_len e' /\ x_seen e = x_seen e' /\
    (x_seen e = false -> x_len e = 0) /\
    (x_seen e = true -> exists d, nth_error files (N.to_nat (x_fidx e)) = Some d /\
                                  nth_error files' (N.to_nat (x_fidx e')) = Some d).

  Lemma walk_same : forall l l', Forall2 same_disk l l' -> forall pos, 0 <= pos ->
    match walk l pos, walk l' pos with
    | WAt f fp, WAt f' fp' =>
        fp = fp' /\ exists d, nth_error files (N.to_nat f) = Some d /\
                              nth_error files' (N.to_nat f') = Some d
    | WNoData, WNoData => True
    | WUB a, WUB b => a = b
    | _, _ => False
    end.
  Proof.
    induction 1 as [|e e' l l' (Hp & Hl & Hs & Hz & Hd) HF IH]; intros pos Hpos; cbn [walk]; [reflexivity|].
    rewrite <- Hl, <- Hp.
    destruct (Z.leb_spec (x_len e) pos) as [Hge|Hlt].
    - destruct (in_off (pos - x_len e)) eqn:Hio; [|reflexivity].
      destruct HF as [|e2 e2' t t' H2 HF']; [exact I|].
      apply (IH (pos - x_len e)). lia.
    - destruct (in_off (pos + x_pos e)) eqn:Hio; [|reflexivity].
      split; [reflexivity|]. apply Hd.
      destruct (x_seen e) eqn:Es; [reflexivity|]. specialize (Hz eq_refl). lia.
  Qed.
End Order.

Lemma in_nodup_num files : forall d d',
  NoDup (map d_num files) -> In d files -> In d' files -> d_num d = d_num d' -> d = d'.
Proof.
  induction files as [|a t IH]; intros d d' Hnd Hd Hd' E; [destruct Hd|].
  cbn [map] in Hnd. inversion Hnd as [|x l Hni Hnd' Ex]; subst x l.
  destruct Hd as [<-|Hd], Hd' as [<-|Hd'].
  - reflexivity.
  - exfalso. apply Hni. rewrite E. now apply in_map.
  - exfalso. apply Hni. rewrite <- E. now apply in_map.
  - now apply IH.
Qed.

Lemma forall2_map_seq {A} (R : A -> A -> Prop) (f g : nat -> A) n : forall s,
  (forall j, (s <= j < s + n)%nat -> R (f j) (g j)) ->
  Forall2 R (map f (seq s n)) (map g (seq s n)).
Proof.
  induction n as [|n IH]; intros s H; cbn [seq map]; constructor.
  - apply H. lia.
  - apply IH. intros j Hj. apply H. lia.
Qed.

Lemma table_same files files' n :
  nums_ok n files -> Permutation files files' ->
  Forall2 (same_disk files files') (table files n) (table files' n).
Proof.
  intros [Hnd Hrg] Hp. unfold table. apply forall2_map_seq. intros j _.
  set (k := N.of_nat (S j)).
  destruct (find_num k files 0%N) as [[i d]|] eqn:E.
  - apply find_num_some in E as (p & -> & Hp1 & Hk).
    assert (Hin : In d files) by (eapply nth_error_In; exact Hp1).
    destruct (find_num k files' 0%N) as [[i' d']|] eqn:E'.
    + apply find_num_some in E' as (p' & -> & Hp1' & Hk').
      assert (Hin' : In d' files) by (apply (Permutation_in _ (Permutation_sym Hp)); eapply nth_error_In; exact Hp1').
      assert (d' = d) by (apply (in_nodup_num files); try assumption; congruence). subst d'.
      cbn [entry]. unfold same_disk. cbn [x_pos x_len x_seen x_fidx].
      repeat split; try discriminate.
      intros _. exists d.
      replace (N.to_nat (0 + N.of_nat p)) with p by lia.
      replace (N.to_nat (0 + N.of_nat p')) with p' by lia. now split.
    + exfalso. apply (proj1 (find_num_none k files' 0%N) E' d); [now apply (Permutation_in _ Hp)|exact Hk].
  - destruct (find_num k files' 0%N) as [[i' d']|] eqn:E'.
    + exfalso. apply find_num_some in E' as (p' & _ & Hp1' & Hk').
      apply (proj1 (find_num_none k files 0%N) E d'); [|exact Hk'].
      apply (Permutation_in _ (Permutation_sym Hp)). eapply nth_error_In; exact Hp1'.
    + cbn [entry]. unfold same_disk, no_extent. cbn [x_pos x_len x_seen x_fidx].
      repeat split; discriminate.
Qed.

Lemma complete_set_perm files files' :
  complete_set files -> Permutation files files' -> complete_set files'.
Proof.
  intros [Hnd Hrg] Hp. split.
  - eapply Permutation_NoDup; [apply Permutation_map; exact Hp|exact Hnd].
  - intros d Hd. rewrite <- (Permutation_length Hp). apply Hrg.
    now apply (Permutation_in _ (Permutation_sym Hp)).
Qed.

(** The files of a disk set may be passed in any order: the position of a
    page in the set's page data is resolved to the same disk (by its number)
    and the same position in that disk's file. *)
Theorem locate_any_order files files' pos :
  complete_set files -> Permutation files files' -> 0 <= pos ->
  locate files pos = locate files' pos.
Proof.
  intros Hc Hp Hpos. pose proof (complete_set_perm _ _ Hc Hp) as Hc'.
  unfold locate. rewrite (assemble_table _ Hc), (assemble_table _ Hc').
  rewrite <- (Permutation_length Hp).
  pose proof (walk_same files files' _ _ (table_same files files' (length files) Hc Hp) pos Hpos) as H.
  destruct (walk (table files (length files)) pos) as [f fp| |a],
           (walk (table files' (length files)) pos) as [f' fp'| |b]; try contradiction; try reflexivity.
  destruct H as (-> & d & -> & ->). reflexivity.
Qed.

(** the array the library builds from the headers of disks [ds] is the one
    of the specification (so [walk_concat] applies to it) *)
Lemma nth_error_headers : forall ds s j,
  nth_error (headers_of ds s) j =
  option_map (fun d => {| d_num := N.of_nat (S (s + j)); d_pos := Z.of_nat (s_pos d);
                          d_len := Z.of_nat (length (s_area d)) |}) (nth_error ds j).
Proof.
  induction ds as [|a t IH]; intros s j; [destruct j; reflexivity|].
  cbn [headers_of]. destruct j as [|j]; cbn [nth_error option_map].
  - replace (s + 0)%nat with s by lia. reflexivity.
  - rewrite IH. replace (s + S j)%nat with (S s + j)%nat by lia. reflexivity.
Qed.

Lemma headers_length : forall ds s, length (headers_of ds s) = length ds.
Proof. induction ds as [|a t IH]; intros s; cbn [headers_of length]; [reflexivity|now rewrite IH]. Qed.

Lemma nth_error_extents : forall l f j,
  nth_error (extents_of l f) j =
  option_map (fun d => {| x_pos := Z.of_nat (s_pos d); x_len := Z.of_nat (length (s_area d));
                          x_fidx := (f + N.of_nat j)%N; x_seen := true |}) (nth_error l j).
Proof.
  induction l as [|a t IH]; intros f i; [destruct i; reflexivity|].
  rewrite extents_of_cons. destruct i as [|i]; cbn [nth_error option_map].
  - replace (f + N.of_nat 0)%N with f by lia. reflexivity.
  - rewrite IH. replace (f + N.of_nat (S i))%N with (f + 1 + N.of_nat i)%N by lia. reflexivity.
Qed.

Theorem assemble_in_order ds :
  complete_set (headers_of ds 0) /\ assemble (headers_of ds 0) = Some (extents_of ds 0%N).
Proof.
  set (files := headers_of ds 0).
  assert (Hlen : length files = length ds) by apply headers_length.
  assert (Hnum : forall j f, nth_error files j = Some f -> d_num f = N.of_nat (S j)).
  { intros j f Hf. unfold files in Hf. rewrite nth_error_headers in Hf.
    destruct (nth_error ds j); [|discriminate]. cbn [option_map] in Hf. injection Hf as <-. reflexivity. }
  assert (Hc : complete_set files).
  { split.
    - apply NoDup_nth_error. intros i j Hi E. rewrite map_length in Hi.
      rewrite !nth_error_map in E.
      destruct (nth_error files i) as [fi|] eqn:Ei; [|apply nth_error_None in Ei; lia].
      destruct (nth_error files j) as [fj|] eqn:Ej; [|discriminate].
      cbn [option_map] in E. injection E as E. rewrite (Hnum i fi Ei), (Hnum j fj Ej) in E. lia.
    - intros f Hf. apply In_nth_error in Hf as (j & Hj). rewrite (Hnum j f Hj).
      assert ((j < length files)%nat) by (apply nth_error_Some; congruence). lia. }
  split; [exact Hc|]. rewrite (assemble_table _ Hc). f_equal.
  apply nth_error_ext. intros j. rewrite nth_error_table, Hlen, nth_error_extents.
  destruct (Nat.ltb_spec j (length ds)) as [Hj|Hj].
  - destruct (nth_error ds j) as [d|] eqn:Ed; [|apply nth_error_None in Ed; lia].
    cbn [option_map]. f_equal.
    assert (Hf : nth_error files j = Some {| d_num := N.of_nat (S j); d_pos := Z.of_nat (s_pos d);
                                             d_len := Z.of_nat (length (s_area d)) |}).
    { unfold files. rewrite nth_error_headers, Ed. reflexivity. }
    destruct (find_num (N.of_nat (S j)) files 0%N) as [[i f]|] eqn:E.
    + apply find_num_some in E as (p & -> & Hp & Hk).
      rewrite (Hnum p f Hp) in Hk. assert (p = j) by lia. subst p.
      rewrite Hf in Hp. injection Hp as <-. cbn [entry d_pos d_len]. repeat f_equal.
    + exfalso. apply (proj1 (find_num_none _ _ _) E _ (nth_error_In _ _ Hf)). reflexivity.
  - destruct (nth_error ds j) eqn:Ed; [|reflexivity].
    assert ((j < length ds)%nat) by (apply nth_error_Some; congruence). lia.
Qed.

(** * The walk against the executable specification [loc_spec] *)

Lemma find_map_S (f : nat -> bool) l :
  find f (map S l) = option_map S (find (fun k => f (S k)) l).
Proof.
  induction l as [|a t IH]; cbn [map find option_map]; [reflexivity|].
  destruct (f (S a)); [reflexivity|exact IH].
Qed.

Lemma find_ext {A} (f g : A -> bool) l : (forall x, f x = g x) -> find f l = find g l.
Proof. intros H. induction l as [|a t IH]; cbn [find]; [reflexivity|]. now rewrite H, IH. Qed.

Definition ext_fits (e : extent) : Prop :=
  0 <= x_len e /\ 0 <= x_pos e /\ x_pos e + x_len e <= OFF_MAX.

Theorem walk_loc_spec : forall exts pos,
  exts <> [] -> Forall ext_fits exts -> 0 <= pos <= OFF_MAX ->
  walk exts pos =
  match loc_spec (map x_len exts) pos with
  | Some (k, off) => match nth_error exts k with
                     | Some e => WAt (x_fidx e) (off + x_pos e)
                     | None => WNoData
                     end
  | None => WNoData
  end.
Proof.
  unfold OFF_MAX.
  induction exts as [|e rest IH]; intros pos Hne Hok Hpos; [now destruct Hne|].
  inversion Hok as [|e' r' (Hl & Hp & Hfit) Hok' E]; subst e' r'. unfold OFF_MAX in Hfit.
  cbn [walk]. unfold loc_spec. cbn [map length seq find].
  change (area_start (x_len e :: map x_len rest) 0) with 0.
  change (area_start (x_len e :: map x_len rest) 1) with (x_len e + 0).
  destruct (Z.leb_spec (x_len e) pos) as [Hge|Hlt].
  - assert (Hio : in_off (pos - x_len e) = true) by (apply in_off_iff; unfold OFF_MIN, OFF_MAX; lia).
    rewrite Hio.
    destruct (Z.leb_spec 0 pos); [|lia]. destruct (Z.ltb_spec pos (x_len e + 0)); [lia|]. cbn [andb].
    rewrite <- seq_shift, find_map_S.
    rewrite (find_ext _ (fun k => (area_start (map x_len rest) k <=? pos - x_len e)
                                  && (pos - x_len e <? area_start (map x_len rest) (S k)))).
    2:{ intros k. change (area_start (x_len e :: map x_len rest) (S k))
                   with (x_len e + area_start (map x_len rest) k).
        change (area_start (x_len e :: map x_len rest) (S (S k)))
          with (x_len e + area_start (map x_len rest) (S k)).
        destruct (Z.leb_spec (x_len e + area_start (map x_len rest) k) pos),
                 (Z.leb_spec (area_start (map x_len rest) k) (pos - x_len e)); try lia;
        destruct (Z.ltb_spec pos (x_len e + area_start (map x_len rest) (S k))),
                 (Z.ltb_spec (pos - x_len e) (area_start (map x_len rest) (S k))); try lia; reflexivity. }
    destruct rest as [|e2 r2]; [reflexivity|].
    assert (Hne2 : e2 :: r2 <> []) by discriminate.
    assert (Hp2 : 0 <= pos - x_len e <= 9223372036854775807) by lia.
    rewrite (IH (pos - x_len e) Hne2 Hok' Hp2). unfold loc_spec.
    destruct (find _ (seq 0 (length (map x_len (e2 :: r2))))) as [k|]; cbn [option_map]; [|reflexivity].
    cbn [nth_error].
    change (area_start (x_len e :: map x_len (e2 :: r2)) (S k))
      with (x_len e + area_start (map x_len (e2 :: r2)) k).
    destruct (nth_error (e2 :: r2) k); [|reflexivity]. f_equal. lia.
  - destruct (Z.leb_spec 0 pos); [|lia]. destruct (Z.ltb_spec pos (x_len e + 0)); [|lia]. cbn [andb nth_error].
    assert (Hio : in_off (pos + x_pos e) = true) by (apply in_off_iff; unfold OFF_MIN, OFF_MAX; lia).
    rewrite Hio. change (area_start (x_len e :: map x_len rest) 0) with 0. f_equal. lia.
Qed.

(** * A consistent disk set is accepted in every order *)

Lemma set_nth_length {A} (l : list A) a : forall k, length (set_nth l k a) = length l.
Proof. induction l as [|x t IH]; intros [|k]; cbn [set_nth length]; auto. Qed.

Lemma map_set_nth {A B} (f : A -> B) (l : list A) a : forall k,
  map f (set_nth l k a) = set_nth (map f l) k (f a).
Proof. induction l as [|x t IH]; intros [|k]; cbn [set_nth map]; auto. now rewrite IH. Qed.

Lemma forall2_nth {A B} (R : A -> B -> Prop) l l' : Forall2 R l l' ->
  forall k a t, nth_error l k = Some a -> nth_error l' k = Some t -> R a t.
Proof.
  induction 1 as [|x y l l' Hxy HF IH]; intros [|k] a t Ha Ht; cbn [nth_error] in *; try discriminate.
  - injection Ha as <-. injection Ht as <-. exact Hxy.
  - eapply IH; eassumption.
Qed.

Lemma forall2_set_nth {A B} (R : A -> B -> Prop) l l' : Forall2 R l l' ->
  forall k a t, nth_error l' k = Some t -> R a t -> Forall2 R (set_nth l k a) l'.
Proof.
  induction 1 as [|x y l l' Hxy HF IH]; intros [|k] a t Ht Ra; cbn [nth_error set_nth] in *; try discriminate.
  - injection Ht as <-. now constructor.
  - constructor; [exact Hxy|]. eapply IH; eassumption.
Qed.

Lemma forall2_impl {A B} (R R' : A -> B -> Prop) l l' :
  (forall a b, R a b -> R' a b) -> Forall2 R l l' -> Forall2 R' l l'.
Proof. intros H. induction 1; constructor; auto. Qed.

Lemma map_repeat' {A B} (f : A -> B) a n : map f (repeat a n) = repeat (f a) n.
Proof. induction n as [|n IH]; cbn [repeat map]; [reflexivity|now rewrite IH]. Qed.

Definition d1seen (dm : list dent) : bool := match dm with e :: _ => v_seen e | [] => false end.

Section Consistent.
  Variables bs sy se ti : N.
  Variable table : list N.

  (** what is remembered per disk agrees with the table wherever it matters *)
  Definition vol_ok (b : bool) (dm : list dent) : Prop :=
    Forall2 (fun e t => v_seen e = true \/ b = true -> v_id e = t) dm table.

  Definition hcons (n : nat) (h : hdr) : Prop :=
    h_bs h = bs /\ h_sys h = sy /\ h_set h = se /\ h_time h = ti /\
    nth_error table (N.to_nat (h_num h - 1)) = Some (h_vol h) /\
    (h_num h = 1%N -> h_disks h = N.of_nat n /\ h_table h = table).

  Definition pinv (n : nat) (st : pstate) : Prop :=
    length (ps_ext st) = n /\ length (ps_dm st) = n /\
    map v_seen (ps_dm st) = map x_seen (ps_ext st) /\
    (ps_first st = None \/ ps_first st = Some (bs, sy, se, ti)) /\
    vol_ok (d1seen (ps_dm st)) (ps_dm st).

  Lemma vol_table_ok : forall dm tb prev,
    Forall2 (fun e t => v_seen e = true -> v_id e = t) dm tb ->
    exists r, vol_table false prev dm tb = inl r /\
      map v_seen r = map v_seen dm /\ Forall2 (fun e t => v_id e = t) r tb.
  Proof.
    induction dm as [|e dm IH]; intros tb prev H; inversion H as [|e' t dm' tb' He HF E1 E2]; subst.
    - exists []. repeat split; constructor.
    - cbn [vol_table].
      destruct (v_seen e) eqn:Es.
      + rewrite (He eq_refl), N.eqb_refl.
        destruct (IH tb' (Some e) HF) as (r & -> & Hs & Hv).
        exists (e :: r). cbn [map]. rewrite Hs.
        repeat split. constructor; [now apply He|exact Hv].
      + destruct (IH tb' (Some {| v_id := t; v_seen := false |}) HF) as (r & -> & Hs & Hv).
        exists ({| v_id := t; v_seen := false |} :: r). cbn [map v_seen]. rewrite Hs, Es.
        repeat split. constructor; [reflexivity|exact Hv].
  Qed.

  Lemma probe_step_ok n st fidx h exts' :
    pinv n st -> hcons n h -> length table = n ->
    place (ps_ext st) fidx [disk_of h] = Some exts' ->
    exists st', probe_step false st fidx h = inl st' /\ ps_ext st' = exts' /\ pinv n st'.
  Proof.
    intros (Hle & Hld & Hsync & Hfirst & Hvol) (Hbs & Hsy & Hse & Hti & Htab & Hone) Htl Hpl.
    cbn [place disk_of d_num d_pos d_len] in Hpl. unfold probe_step. rewrite Hle in *.
    (* identification *)
    assert (Hid : exists first,
      match ps_first st with
      | None => inl (Some (h_bs h, h_sys h, h_set h, h_time h))
      | Some (bs0, sy0, se0, ti0) =>
          if negb (bs0 =? h_bs h)%N then inr ST_INVALID
          else if negb (sy0 =? h_sys h)%N then inr ST_INVALID
          else if negb (se0 =? h_set h)%N then inr ST_INVALID
          else if negb (ti0 =? h_time h)%N then inr ST_INVALID
          else inl (Some (bs0, sy0, se0, ti0))
      end = inl first /\ first = Some (bs, sy, se, ti)).
    { destruct Hfirst as [->| ->].
      - eexists. split; [reflexivity|]. now rewrite Hbs, Hsy, Hse, Hti.
      - rewrite Hbs, Hsy, Hse, Hti, !N.eqb_refl. cbn [negb]. eexists. split; reflexivity. }
    destruct Hid as (first & -> & Hf).
    destruct (N.eqb_spec (h_num h) 0) as [|Hn0]; [discriminate|].
    destruct (N.ltb_spec (N.of_nat n) (h_num h)) as [|Hnn]; [discriminate|]. cbn [orb] in Hpl.
    set (k := N.to_nat (h_num h - 1)) in *.
    destruct (nth_error (ps_ext st) k) as [e|] eqn:Ee; [|discriminate].
    destruct (x_seen e) eqn:Ese; [discriminate|]. injection Hpl as <-.
    assert (Hkn : (k < n)%nat) by (unfold k; lia).
    destruct (nth_error (ps_dm st) k) as [di|] eqn:Ed; [|apply nth_error_None in Ed; lia].
    assert (Hds : v_seen di = false).
    { assert (E : nth_error (map v_seen (ps_dm st)) k = nth_error (map x_seen (ps_ext st)) k) by now rewrite Hsync.
      rewrite !nth_error_map, Ed, Ee in E. cbn [option_map] in E. injection E as ->. exact Ese. }
    rewrite Hds. fold (d1seen (ps_dm st)).
    (* process_vol_id *)
    assert (Hdm1 : exists dm1,
      (if d1seen (ps_dm st)
       then if (v_id di =? h_vol h)%N then inl (ps_dm st) else inr ST_CORRUPT
       else inl (set_nth (ps_dm st) k {| v_id := h_vol h; v_seen := false |})) = inl dm1 /\
      length dm1 = n /\ map v_seen dm1 = map v_seen (ps_dm st) /\
      vol_ok (d1seen (ps_dm st)) dm1 /\
      (exists d', nth_error dm1 k = Some d' /\ v_id d' = h_vol h)).
    { destruct (d1seen (ps_dm st)) eqn:Eb.
      - assert (Hv : v_id di = h_vol h) by (eapply (forall2_nth _ _ _ Hvol k di (h_vol h) Ed Htab); now right).
        rewrite Hv, N.eqb_refl. exists (ps_dm st). repeat split; try assumption. now exists di.
      - eexists. split; [reflexivity|]. split; [now rewrite set_nth_length|].
        split.
        { rewrite map_set_nth. cbn [v_seen]. rewrite <- Hds.
          apply nth_error_ext. intros j. rewrite nth_error_set_nth, map_length, Hld.
          destruct (Nat.eqb_spec j k) as [->|]; [|reflexivity].
          destruct (Nat.ltb_spec k n); [|lia]. now rewrite nth_error_map, Ed. }
        split.
        { eapply forall2_set_nth; [exact Hvol|exact Htab|]. cbn [v_id]. reflexivity. }
        exists {| v_id := h_vol h; v_seen := false |}. split; [|reflexivity].
        rewrite nth_error_set_nth, Nat.eqb_refl, Hld. destruct (Nat.ltb_spec k n); [reflexivity|lia]. }
    destruct Hdm1 as (dm1 & -> & Hl1 & Hs1 & Hv1 & d' & Hd' & Hvd').
    destruct (N.ltb_spec 1 (h_num h)) as [Hgt|Hle1].
    - (* a disk other than #1 *)
      rewrite Hd'. eexists. split; [reflexivity|]. split; [reflexivity|].
      assert (Hk0 : exists k', k = S k') by (exists (N.to_nat (h_num h - 2)); unfold k; lia).
      destruct Hk0 as (k' & Hk').
      unfold pinv. cbn [ps_ext ps_dm ps_first].
      rewrite !set_nth_length, !map_set_nth. cbn [v_seen x_seen]. rewrite Hs1, Hsync.
      repeat split; try assumption; [now right|].
      assert (Hb : d1seen (set_nth dm1 k {| v_id := v_id d'; v_seen := true |}) = d1seen (ps_dm st)).
      { rewrite Hk'. assert (Hh : d1seen dm1 = d1seen (ps_dm st)).
        { destruct dm1 as [|a1 t1], (ps_dm st) as [|a2 t2]; cbn [map] in Hs1; try discriminate; [reflexivity|].
          cbn [d1seen]. now injection Hs1. }
        rewrite <- Hh. destruct dm1; reflexivity. }
      unfold vol_ok. rewrite Hb.
      eapply forall2_set_nth; [exact Hv1|exact Htab|]. cbn [v_id]. intros _. exact Hvd'.
    - (* disk #1: the volume table *)
      assert (Hn1 : h_num h = 1%N) by lia. destruct (Hone Hn1) as [Hdk Htb].
      assert (Hk0 : k = 0%nat) by (unfold k; lia).
      rewrite Hdk, N.eqb_refl, Htb. cbn [negb].
      assert (Hb0 : d1seen (ps_dm st) = false).
      { rewrite Hk0 in Ed. destruct (ps_dm st) as [|a t]; [discriminate|]. cbn [nth_error] in Ed.
        injection Ed as ->. exact Hds. }
      rewrite Hb0 in Hv1.
      destruct (vol_table_ok dm1 table None) as (r & -> & Hsr & Hvr).
      { eapply forall2_impl; [|exact Hv1]. cbn beta. intros a b H Hs. apply H. now left. }
      destruct r as [|d0 dmr].
      { destruct dm1; [cbn [length] in Hl1; lia|discriminate]. }
      eexists. split; [reflexivity|]. split; [reflexivity|].
      unfold pinv. cbn [ps_ext ps_dm ps_first].
      rewrite set_nth_length, map_set_nth. cbn [x_seen map v_seen d1seen length].
      assert (Hlr : length (d0 :: dmr) = n).
      { rewrite <- Hl1. rewrite <- (map_length v_seen), Hsr, map_length. reflexivity. }
      cbn [length] in Hlr.
      repeat split; try assumption; [| now right |].
      + rewrite <- Hsync, <- Hs1, <- Hsr, Hk0. cbn [map set_nth]. reflexivity.
      + unfold vol_ok. inversion Hvr as [|a b l l' Hab HF E1 E2]; subst.
        constructor; [intros _; reflexivity|].
        eapply forall2_impl; [|exact HF]. cbn beta. intros a b H _. exact H.
  Qed.

  Lemma place_split : forall ds exts fidx d exts',
    place exts fidx (d :: ds) = Some exts' ->
    exists mid, place exts fidx [d] = Some mid /\ place mid (fidx + 1)%N ds = Some exts'.
  Proof.
    intros ds exts fidx d exts' H. cbn [place] in *.
    destruct ((d_num d =? 0)%N || (N.of_nat (length exts) <? d_num d)%N); [discriminate|].
    destruct (nth_error exts (N.to_nat (d_num d - 1))) as [e|]; [|discriminate].
    destruct (x_seen e); [discriminate|]. eexists. split; [reflexivity|exact H].
  Qed.

  Lemma probe_loop_ok n : forall hs st fidx exts',
    pinv n st -> (forall h, In h hs -> hcons n h) -> length table = n ->
    place (ps_ext st) fidx (map disk_of hs) = Some exts' ->
    exists st', probe_loop false st fidx hs = inl st' /\ ps_ext st' = exts'.
  Proof.
    induction hs as [|h t IH]; intros st fidx exts' Hinv Hc Htl Hpl.
    - cbn [map place] in Hpl. injection Hpl as <-. exists st. split; reflexivity.
    - cbn [map] in Hpl. apply place_split in Hpl as (mid & Hp1 & Hp2).
      destruct (probe_step_ok n st fidx h mid Hinv (Hc h (or_introl eq_refl)) Htl Hp1)
        as (st1 & Hs1 & He1 & Hi1).
      cbn [probe_loop]. rewrite Hs1. rewrite <- He1 in Hp2.
      apply (IH st1 (fidx + 1)%N exts' Hi1); [|exact Htl|exact Hp2].
      intros h' Hh'. apply Hc. now right.
  Qed.
End Consistent.

(** [sadump_probe] accepts a consistent disk set whatever the order of the
    files, and files the extents exactly as [assemble] does *)
Theorem consistent_accepted_any_order hs hs' :
  consistent_set hs -> Permutation hs hs' ->
  exists exts, probe_set false hs' = inl exts /\ assemble (map disk_of hs') = Some exts.
Proof.
  intros (Hcs & bs & sy & se & ti & table & Htl & Hall) Hp.
  assert (Hcs' : complete_set (map disk_of hs')) by (eapply complete_set_perm; [exact Hcs|now apply Permutation_map]).
  pose proof (assemble_table _ Hcs') as Has.
  eexists. split; [|exact Has].
  unfold probe_set. unfold assemble in Has. rewrite map_length in Has.
  set (n := length hs') in *.
  assert (Hn : length hs = n) by (unfold n; now apply Permutation_length).
  set (st0 := {| ps_ext := repeat no_extent n; ps_dm := repeat {| v_id := 0; v_seen := false |} n;
                 ps_first := None |}).
  assert (Hinv : pinv bs sy se ti table n st0).
  { unfold pinv, st0. cbn [ps_ext ps_dm ps_first]. rewrite !repeat_length, !map_repeat'.
    cbn [v_seen x_seen no_extent].
    split; [reflexivity|]. split; [reflexivity|]. split; [reflexivity|]. split; [now left|].
    unfold vol_ok. rewrite <- Hn in *. clear -Htl. revert table Htl.
    induction (length hs) as [|m IH]; intros [|t tb] Hl; cbn [length repeat] in *; try discriminate; constructor.
    - cbn [v_seen d1seen]. intros [H|H]; discriminate.
    - assert (Hl' : length tb = m) by lia. specialize (IH tb Hl').
      eapply forall2_impl; [|exact IH]. cbn beta. intros a b H [Hs|Hb]; [apply H; now left|discriminate]. }
  assert (Hc : forall h, In h hs' -> hcons bs sy se ti table n h).
  { intros h Hh. assert (Hin : In h hs) by now apply (Permutation_in _ (Permutation_sym Hp)).
    destruct (Hall h Hin) as (H1 & H2 & H3 & H4 & H5 & H6). unfold hcons. rewrite <- Hn.
    split; [exact H1|]. split; [exact H2|]. split; [exact H3|]. split; [exact H4|]. split; [exact H5|exact H6]. }
  assert (Htl' : length table = n) by now rewrite Htl.
  destruct (probe_loop_ok bs sy se ti table n hs' st0 0%N _ Hinv Hc Htl' Has) as (st' & Hst & Hext).
  rewrite Hst, Hext, map_length. reflexivity.
Qed.

(** * Round trip: a consistent disk set, passed in any order, reads the
      concatenation of its data areas *)
Theorem diskset_roundtrip ds hs hs' pos :
  Forall sdisk_ok ds ->
  map disk_of hs = headers_of ds 0 ->
  consistent_set hs -> Permutation hs hs' ->
  0 <= pos < Z.of_nat (length (set_data ds)) -> pos <= OFF_MAX ->
  exists exts f fp k d h,
    probe_set false hs' = inl exts /\
    walk exts pos = WAt f fp /\
    nth_error hs' (N.to_nat f) = Some h /\ h_num h = N.of_nat (S k) /\
    nth_error ds k = Some d /\ 0 <= fp /\
    nth (Z.to_nat fp) (s_file d) 0%N = nth (Z.to_nat pos) (set_data ds) 0%N.
Proof.
  intros Hok Hmap Hcons Hp Hpos Hmax.
  destruct (consistent_accepted_any_order hs hs' Hcons Hp) as (exts & Hprobe & Hasm').
  destruct (assemble_in_order ds) as (Hcs & Hasm).
  destruct (walk_concat ds 0%N pos Hok Hpos Hmax) as (k & d & fp & Hk & Hw & Hfp & Hbyte).
  (* the answer for the files in disk order *)
  assert (Hloc : locate (headers_of ds 0) pos = Some (N.of_nat (S k), fp)).
  { unfold locate. rewrite Hasm, Hw.
    replace (N.to_nat (0 + N.of_nat k)) with k by lia.
    rewrite nth_error_headers, Hk. cbn [option_map d_num]. reflexivity. }
  (* the same answer in the order passed *)
  assert (Hperm : Permutation (headers_of ds 0) (map disk_of hs')).
  { rewrite <- Hmap. now apply Permutation_map. }
  assert (Hp0 : 0 <= pos) by lia.
  rewrite (locate_any_order _ _ pos Hcs Hperm Hp0) in Hloc.
  unfold locate in Hloc. rewrite Hasm' in Hloc.
  destruct (walk exts pos) as [f fp'| |w] eqn:Hw'; try discriminate.
  rewrite nth_error_map in Hloc.
  destruct (nth_error hs' (N.to_nat f)) as [h|] eqn:Hh; cbn [option_map] in Hloc; [|discriminate].
  injection Hloc as Hnum ->.
  exists exts, f, fp, k, d, h. repeat split; try assumption; try reflexivity.
Qed.
