(** C01 — reads return exactly the memory the dump file encodes, in every
    format.  Statements only; every proof is [exact <lemma>].

    Shape of the per-format statements: for every memory image [img], every
    well-formed layout [l] of the format and every stored representation
    [pages] of the image's pages (raw or compressed; [decompress] is any
    function that inverts the writer's compressor on the stored payloads),
    the reader model, run on the bytes that the format's writer ([encode_*],
    the spec) produces, opens the file, reports the geometry the layout says
    and answers every page read with exactly what the image holds
    ([spec_read_page]: the page's bytes; NODATA for an absent page, or zeroes
    when zero-fill of excluded pages is on; never other bytes).

    The reader model is tied to the C code by the differential run of
    bin/check C01 (engine fmt). *)
From Coq Require Import NArith ZArith List Bool Lia.
From KdV Require Import Fmt.Codec Fmt.CodecProofs Fmt.Rle Fmt.RleProofs
     Fmt.PfnModel Fmt.BitmapSpec Fmt.ImageSpec Fmt.DiskdumpModel Fmt.DiskdumpSpec Fmt.DiskdumpProofs
     Fmt.S390Model Fmt.S390Spec Fmt.S390Proofs Fmt.LkcdModel Fmt.LkcdSpec Fmt.LkcdProofs Fmt.PfnBridge Fmt.ElfMaxPfn Fmt.LkcdIndexModel Fmt.LkcdIndexProofs Fmt.ElfGeomModel Fmt.ElfGeomSpec Fmt.ElfGeomProofs Fmt.ElfGeomRoundtrip Fmt.ReadProofs
     Fmt.ElfModel Fmt.ElfSpec Fmt.ElfProofs Fmt.ElfRoundtrip Fmt.ElfOpenProofs
     Fmt.SadumpModel Fmt.SadumpSpec Fmt.SadumpProofs Fmt.SadumpOpenProofs Fmt.SadumpBridge.
Import ListNotations.
Local Open Scope N_scope.

(** * integer codecs *)

Theorem C01_codec_roundtrip : forall be n v,
  v < 256 ^ N.of_nat n -> get be (put be n v) = v.
Proof. exact get_put. Qed.
Print Assumptions C01_codec_roundtrip.

Theorem C01_codec_roundtrip_bytes : forall be l,
  bytes_ok l -> put be (length l) (get be l) = l.
Proof. exact put_get. Qed.
Print Assumptions C01_codec_roundtrip_bytes.

(** * RLE (LKCD pages) *)

(** every well-formed RLE stream (any mixture of literals, escaped zeroes and
    runs) decodes to its expansion when the destination is large enough *)
Theorem C01_rle_decode : forall ts dstlen,
  Forall tok_ok ts -> len (rle_expand ts) <= dstlen ->
  uncompress_rle (rle_render ts) dstlen = Some (rle_expand ts).
Proof. exact rle_decode_render. Qed.
Print Assumptions C01_rle_decode.

Theorem C01_rle_roundtrip : forall page dstlen,
  bytes_ok page -> len page <= dstlen ->
  uncompress_rle (rle_encode page) dstlen = Some page.
Proof. exact rle_roundtrip. Qed.
Print Assumptions C01_rle_roundtrip.

(** exact size: a stream that expands beyond the destination is rejected, and
    whatever the source bytes are, the output never exceeds the destination *)
Theorem C01_rle_exact_size : forall ts dstlen,
  Forall tok_ok ts -> dstlen < len (rle_expand ts) ->
  uncompress_rle (rle_render ts) dstlen = None.
Proof. exact rle_decode_overflow. Qed.
Print Assumptions C01_rle_exact_size.

Theorem C01_rle_never_overruns : forall src dstlen out,
  uncompress_rle src dstlen = Some out -> len out <= dstlen.
Proof. exact rle_output_bound. Qed.
Print Assumptions C01_rle_never_overruns.

(** * diskdump / makedumpfile KDUMP *)

(** Everything the property quantifies over for this format: header versions
    0-6, 32/64-bit headers, both sub-header layouts of 32-bit dumps, both byte
    orders, page sizes 2^12..2^18, one or two bitmaps, any exclusion pattern,
    any per-page method among raw/zlib/snappy/zstd with arbitrary unknown flag
    bits, any utsname / VMCOREINFO / notes / eraseinfo bytes; a whole dump in
    one file, one member of a split set on its own, and split sets with the
    files in any order.  (Flattened files are C11's; LZO is not in the build.) *)
Theorem C01_diskdump_geometry : forall decompress l pages img,
  dd_wf l img -> Forall2 (stores decompress) pages img -> len (encode_dd l pages) < 2^64 ->
  exists st, dd_open (read_files [encode_dd l pages]) 1 = Ok st /\
    dd_be st = dl_be l /\ dd_ptr_size st = (if dl_64 l then 8 else 4) /\
    dd_page_size st = dl_page_size l /\ dd_max_pfn st = dl_max_mapnr l.
Proof. exact diskdump_geometry. Qed.
Print Assumptions C01_diskdump_geometry.

Theorem C01_diskdump_roundtrip : forall decompress l pages img,
  dd_wf l img -> dl_split l = false ->
  Forall2 (stores decompress) pages img -> len (encode_dd l pages) < 2^64 ->
  exists st, dd_open (read_files [encode_dd l pages]) 1 = Ok st /\
    forall zero_excluded pfn,
      dd_read_page (read_files [encode_dd l pages]) decompress st zero_excluded pfn =
      spec_read_page img (dl_page_size l) (dl_max_mapnr l) zero_excluded pfn.
Proof. exact diskdump_roundtrip. Qed.
Print Assumptions C01_diskdump_roundtrip.

(** one file of a split set opened on its own: its window's pages, and
    "not in the dump" for every other page frame *)
Theorem C01_diskdump_member_roundtrip : forall decompress l pages img,
  dd_wf l img -> Forall2 (stores decompress) pages img -> len (encode_dd l pages) < 2^64 ->
  exists st, dd_open (read_files [encode_dd l pages]) 1 = Ok st /\
    forall zero_excluded pfn,
      dd_read_page (read_files [encode_dd l pages]) decompress st zero_excluded pfn =
      spec_read_page (if (win_start l <=? pfn) && (pfn <? win_end l) then img else [])
                     (dl_page_size l) (dl_max_mapnr l) zero_excluded pfn.
Proof. exact diskdump_member_roundtrip. Qed.
Print Assumptions C01_diskdump_member_roundtrip.

(** Split sets.  [ws] lists the PFN windows of the files in the order the
    files are passed to the library: any list of non-empty, pairwise disjoint
    windows that together hold every page frame below max_mapnr
    ([windows_ok]), in any order (the list is arbitrary; see also
    [C01_diskdump_split_any_order]).  Every file is the same dump with its own
    window ([with_window]): complete bitmaps, the descriptors and data of its
    window only.  Opening the set gives the dump's geometry and every page
    frame reads exactly as from the single-file dump: the image's page, or
    NODATA / zeroes.  The PFN -> file step is C11's theorem
    [SplitProofs.owner_spec], composed here with the per-file lookup. *)
Theorem C01_diskdump_split_roundtrip : forall decompress l ws pages img,
  ws <> [] ->
  (forall w, In w ws -> dd_wf (with_window l w) img) ->
  Forall2 (stores decompress) pages img ->
  (forall w, In w ws -> len (encode_dd (with_window l w) pages) < 2^64) ->
  windows_ok ws (dl_max_mapnr l) ->
  exists st, dd_open (read_files (encode_dd_set l ws pages)) (length ws) = Ok st /\
    dd_be st = dl_be l /\ dd_ptr_size st = (if dl_64 l then 8 else 4) /\
    dd_page_size st = dl_page_size l /\ dd_max_pfn st = dl_max_mapnr l /\
    forall zero_excluded pfn,
      dd_read_page (read_files (encode_dd_set l ws pages)) decompress st zero_excluded pfn =
      spec_read_page img (dl_page_size l) (dl_max_mapnr l) zero_excluded pfn.
Proof. exact diskdump_split_roundtrip. Qed.
Print Assumptions C01_diskdump_split_roundtrip.

(** the hypotheses on the windows do not depend on the order of the files *)
Theorem C01_diskdump_split_any_order : forall ws ws' m,
  Permutation.Permutation ws ws' -> windows_ok ws m -> windows_ok ws' m.
Proof. exact windows_ok_perm. Qed.
Print Assumptions C01_diskdump_split_any_order.

(** when is a member layout well-formed: the base layout is, the header
    version knows split dumps, and the window fits the header's fields *)
Theorem C01_diskdump_member_wf : forall l img w,
  dd_wf l img -> 2 <= dl_version l -> fst w < 2^64 -> snd w < 2^64 ->
  (dl_64 l = false -> dl_version l < 6 -> fst w < 2^32 /\ snd w < 2^32) ->
  dd_wf (with_window l w) img.
Proof. exact with_window_wf. Qed.
Print Assumptions C01_diskdump_member_wf.

(** unaligned, page-crossing ranges through [read_locked]'s page loop *)
Theorem C01_diskdump_read_range : forall decompress l pages img,
  dd_wf l img -> dl_split l = false ->
  Forall2 (stores decompress) pages img -> len (encode_dd l pages) < 2^64 ->
  exists st, dd_open (read_files [encode_dd l pages]) 1 = Ok st /\
    forall zero_excluded addr n, addr + n <= 2^64 ->
      let '(status, data) := dd_read (read_files [encode_dd l pages]) decompress st zero_excluded addr n in
      exists m, N.of_nat m <= n /\
        data = ReadProofs.bytes_from (spec_read_page img (dl_page_size l) (dl_max_mapnr l) zero_excluded)
                                     (dl_page_size l) addr m /\
        ((status = KDUMP_OK /\ N.of_nat m = n) \/
         (N.of_nat m < n /\
          spec_read_page img (dl_page_size l) (dl_max_mapnr l) zero_excluded
                         ((addr + N.of_nat m) / dl_page_size l) = Err status)).
Proof. exact diskdump_read_range. Qed.
Print Assumptions C01_diskdump_read_range.

(** The region lists of the diskdump and SADUMP readers come from the
    word-level model of [pfn_regions_from_bitmap] and its scanners
    ([skip_clear_lsb0/msb0], [skip_set_lsb0/msb0]: first partial byte, bytes up
    to 4-byte alignment, aligned 32-bit words with le32toh / be32toh, trailing
    bytes) of Pfn/BitmapModel.v - the model that C07 ties to pfn.c white-box
    and proves to yield the maximal runs ([BitmapProofs.regions_are_runs]).
    For every byte string, either bit numbering, every buffer alignment and
    every window it produces exactly the list that the round-trip theorems
    reason with (the walk over the bits, [PfnModel.regions_from_bitmap]):
    [runs_from] determines the list, and the walk satisfies it. *)
Theorem C01_regions_are_the_scanner : forall msb0 al bm s e off esz,
  bytes_ok bm -> (e + 7) / 8 <= len bm ->
  regions_of msb0 al bm s e off esz = Ok (PfnModel.regions_from_bitmap msb0 bm s e off esz).
Proof. exact regions_of_spec. Qed.
Print Assumptions C01_regions_are_the_scanner.

(** the right-hand side above, spelled out *)
Theorem C01_spec_read_page_meaning : forall img pgsz max_pfn z pfn,
  match spec_read_page img pgsz max_pfn z pfn with
  | Ok data =>
      pfn < max_pfn /\
      (nth_error img (N.to_nat pfn) = Some (Some data) \/
       (z = true /\ data = zeros pgsz /\
        match nth_error img (N.to_nat pfn) with Some (Some _) => False | _ => True end))
  | Err e =>
      e = ERR_NODATA /\
      (max_pfn <= pfn \/ (z = false /\
        match nth_error img (N.to_nat pfn) with Some (Some _) => False | _ => True end))
  end.
Proof. exact spec_read_page_cases. Qed.
Print Assumptions C01_spec_read_page_meaning.

(** the pieces of the page path that carry the content *)
Theorem C01_binary_search_is_first_match : forall rs p,
  Sorted.StronglySorted PfnProofs.before rs ->
  find_pfn_region rs p = PfnProofs.find_lin rs p.
Proof. exact PfnProofs.find_pfn_region_lin. Qed.
Print Assumptions C01_binary_search_is_first_match.

(** * s390 stand-alone dumps *)

(** full statement for this format: every memory (list of pages), every page
    size 2^12..2^18, both architectures, any header size / time stamps: the
    dump opens with the geometry the file encodes, every page frame below
    [num_pages] reads as the page, every other one as NODATA *)
Theorem C01_s390_roundtrip : forall l pages,
  s3_wf l pages ->
  exists st, s3_open (read_files [encode_s390 l pages]) 1 = Ok st /\
    s3_page_size st = s3l_page_size l /\ s3_max_pfn st = N.of_nat (length pages) /\
    s3_ptr_size st = (if s3l_arch64 l then 8 else 4) /\
    forall pfn, fst (s3_get_page (read_files [encode_s390 l pages]) st (pfn * s3l_page_size l))
                = spec_s390_page pages pfn.
Proof. exact s390_roundtrip. Qed.
Print Assumptions C01_s390_roundtrip.

(** * ELF core dumps *)

(** Every well-formed ELF core (32/64-bit, either byte order, any machine, any
    order of the program headers, gaps and extra bytes in the tables, NOTE
    and other segments in between, LOAD segments with unaligned starts and
    ends, [memsz > filesz], pages straddling two segments, virtual order
    different from the physical order; LOAD segments pairwise disjoint): the
    dump opens with the byte order, class and machine the header encodes, and
    - for every page size, every page-aligned address, physical or virtual,
    zero-fill on or off, and *whatever was looked up before* (any values of
    the [last_load] / [last_vload] shortcut pointers) - [elf_get_page] returns
    exactly the specified page: the file-backed bytes where a segment has
    them, zeroes elsewhere, and NODATA when no file-backed (resp. memory)
    byte lies in the page.
    Page size and pointer size: [C01_elf_geometry]; max_pfn: [C01_elf_max_pfn]. *)
Theorem C01_elf_roundtrip : forall l segs pgsz,
  elf_wf l segs -> 0 < pgsz ->
  exists st0,
    elf_open (read_files [encode_elf l segs]) 1 = Ok st0 /\
    es_be st0 = el_be l /\ es_64 st0 = el_64 l /\ es_machine st0 = el_machine l /\
    forall virt st, same_arrays st st0 ->
    forall z addr, addr + pgsz < 2^64 ->
      fst (elf_get_page (read_files [encode_elf l segs]) pgsz z virt st addr)
        = spec_elf_page segs pgsz z virt addr /\
      same_arrays (snd (elf_get_page (read_files [encode_elf l segs]) pgsz z virt st addr)) st0.
Proof. exact elf_roundtrip. Qed.
Print Assumptions C01_elf_roundtrip.

(** the state that [C01_elf_roundtrip] opens ([expected]) reports, for a page
    size 2^shift, the highest page frame that holds a byte of a LOAD segment's
    memory range, plus one (with fix 37) *)
Theorem C01_elf_max_pfn : forall l segs shift,
  elf_wf l segs ->
  (forall s, In s segs -> is_load s -> sg_phys s + sg_memsz s + 2^shift <= 2^64) ->
  elf_open (read_files [encode_elf l segs]) 1 = Ok (expected l segs) /\
  elf_max_pfn (expected l segs) shift = spec_elf_max_pfn segs (2^shift).
Proof. exact elf_max_pfn_full. Qed.
Print Assumptions C01_elf_max_pfn.

(** max_pfn is the maximum over *all* LOAD segments with a usable physical
    address of the page frame behind the segment's end - for any state, i.e.
    also when segments are nested or overlap (kernel text inside the direct
    mapping: the segment that starts highest is then not the one that ends
    highest); [seg_end_pfn] is C's expression, equal to the rounded-up quotient
    when nothing wraps *)
Theorem C01_elf_max_pfn_is_max_end : forall st shift,
  (forall s, In s (es_sorted st) -> seg_end_pfn shift s <= elf_max_pfn st shift) /\
  (es_sorted st = [] -> elf_max_pfn st shift = 0) /\
  (elf_max_pfn st shift <> 0 ->
   exists s, In s (es_sorted st) /\ elf_max_pfn st shift = seg_end_pfn shift s).
Proof. exact elf_max_pfn_is_max_end. Qed.
Print Assumptions C01_elf_max_pfn_is_max_end.

Theorem C01_elf_seg_end_pfn : forall shift s,
  ls_phys s + ls_memsz s + 2^shift <= 2^64 ->
  seg_end_pfn shift s = (ls_phys s + ls_memsz s + 2^shift - 1) / 2^shift.
Proof. exact seg_end_pfn_plain. Qed.
Print Assumptions C01_elf_seg_end_pfn.

(** Geometry.  [note_segs_hold]: the PT_NOTE segments of the dump hold ELF
    notes (gABI layout: sizes, type, name and descriptor padded to 4 bytes), in
    any number and order; VMCOREINFO notes (name stored with or without its
    NUL) hold KEY=VALUE lines, other notes are arbitrary ([snote_ok]: a
    PAGESIZE line carries a power of two in decimal, keys have no '=').  The
    way [open_common] derives the two sizes - note walk, VMCOREINFO line
    split, [strtoul] and the power-of-two test of [set_page_size]
    (Attr/AttrBase.v, Attr/Hooks.v), [mach2arch], [arch_ptr_size],
    [default_page_shift] - run on the encoded file gives: the byte order of
    EI_DATA, the pointer size of the machine's ABI, and the page size that the
    last PAGESIZE line announces, or else the architecture's fixed page size
    (none for AArch64 / IA-64 / PowerPC: [None], such dumps must announce
    theirs). *)
Theorem C01_elf_geometry : forall l segs nss,
  elf_wf l segs -> note_segs_hold l segs nss ->
  exists st, elf_open (read_files [encode_elf l segs]) 1 = Ok st /\
    es_be st = el_be l /\
    elf_geometry (read_files [encode_elf l segs]) st =
    Ok {| eg_ptr_size := spec_ptr_size (el_machine l) (el_64 l);
          eg_page_size := spec_page_size (el_machine l) (concat nss) |}.
Proof. exact elf_open_geometry. Qed.
Print Assumptions C01_elf_geometry.

(** the last-hit shortcut of [find_closest_*] never changes an answer *)
Theorem C01_elf_shortcut_irrelevant : forall virt file st addr dist,
  arr_ok virt (arrays virt st) -> addr + dist <= 2^64 -> 0 < dist ->
  fst (find_closest file virt st addr dist) = lookup virt file (arrays virt st) addr dist /\
  same_arrays (snd (find_closest file virt st addr dist)) st.
Proof. exact find_closest_pure. Qed.
Print Assumptions C01_elf_shortcut_irrelevant.

(** * SADUMP *)

(** [_partial]: the page path only.  For a state whose regions come from the
    dumpable bitmap (MSB 0 numbering) of the image and whose disk extents lay
    out the page data ([ext_loop] finds every whole page; shown for one disk
    by [single_extent_ok] and for a disk set whose members hold whole pages by
    [ext_loop_chunks]), [sadump_read_page] (with the in-region offset of fix
    04) returns the image's page.  That [sd_open] builds such a state from the
    three container kinds: the three theorems below. *)
Theorem C01_sadump_page_path_partial : forall rd img nbytes exts max_pfn bs ptr nf,
  Forall (fun oc => match oc with Some c => len c = 4096 | None => True end) img ->
  (length img <= 8 * nbytes)%nat ->
  (forall k, k < count_some img ->
     exists f o, ext_loop exts (4096 * k) = Some (f, o) /\
                 rd f o 4096 = read_of (page_data img) (4096 * k) 4096) ->
  forall z pfn,
    sd_read_page rd (the_state img nbytes exts max_pfn bs ptr nf) z pfn =
    spec_read_page img SADUMP_PAGE_SIZE max_pfn z pfn.
Proof. exact sadump_page_path. Qed.
Print Assumptions C01_sadump_page_path_partial.

(** End to end, for the three container kinds: block sizes 2^8..2^20 (found by
    [verify_magic_number] from the magic-number sequence), header versions 0
    and 1, any number of CPUs in long or legacy mode (x86_64 / ia32 pointer
    size), any bitmap sizes and exclusion pattern: geometry and every page. *)
Theorem C01_sadump_single_roundtrip : forall l img,
  sd_wf l img ->
  exists st, sd_open (read_files (encode_sadump l img)) 1 = Ok st /\
    sd_ptr_size st = (if existsb (fun b => b) (sl_lma l) then 8 else 4) /\
    sd_max_pfn st = sl_max_mapnr l /\ sd_block_size st = sl_block_size l /\
    forall z pfn,
      sd_read_page (read_files (encode_sadump l img)) st z pfn =
      spec_read_page img SADUMP_PAGE_SIZE (sl_max_mapnr l) z pfn.
Proof. exact sadump_single_roundtrip. Qed.
Print Assumptions C01_sadump_single_roundtrip.

(** a media backup: the media header in front, checked against the partition
    header's ids ([check_media_part]); everything else one block later *)
Theorem C01_sadump_media_roundtrip : forall l img,
  sd_wf_media l img ->
  exists st, sd_open (read_files (encode_sadump l img)) 1 = Ok st /\
    sd_ptr_size st = (if existsb (fun b => b) (sl_lma l) then 8 else 4) /\
    sd_max_pfn st = sl_max_mapnr l /\ sd_block_size st = sl_block_size l /\
    forall z pfn,
      sd_read_page (read_files (encode_sadump l img)) st z pfn =
      spec_read_page img SADUMP_PAGE_SIZE (sl_max_mapnr l) z pfn.
Proof. exact sadump_media_roundtrip. Qed.
Print Assumptions C01_sadump_media_roundtrip.

(** A disk set of any number of disks, **the files passed in any order**
    ([ord]: position i holds disk [nth i ord] + 1; [permuted_files]): disk 1
    carries the disk set header (volume ids of all members) and the dump
    headers, every other disk a partition header and page data.  Whatever the
    order, [open_common] accepts the set - a disk probed before disk 1 leaves
    its volume id for [init_disk_set] to compare with the table, a disk probed
    after it is compared with the table entry ([process_vol_id]); the first
    file probed is the reference for block size and ids - each file's extent
    goes to the slot of its disk number with the file's own index, and the
    page data of the set is the concatenation of the extents in disk order:
    geometry and every page. *)
Theorem C01_sadump_set_roundtrip : forall l img ord,
  sd_wf_set l img -> Permutation.Permutation ord (seq 0 (length (sl_vol_ids l))) ->
  exists st, sd_open (read_files (permuted_files l img ord)) (length (sl_vol_ids l)) = Ok st /\
    sd_ptr_size st = (if existsb (fun b => b) (sl_lma l) then 8 else 4) /\
    sd_max_pfn st = sl_max_mapnr l /\ sd_block_size st = sl_block_size l /\
    forall z pfn,
      sd_read_page (read_files (permuted_files l img ord)) st z pfn =
      spec_read_page img SADUMP_PAGE_SIZE (sl_max_mapnr l) z pfn.
Proof. exact sadump_set_roundtrip. Qed.
Print Assumptions C01_sadump_set_roundtrip.

(** the extent walk of the C01 reader model is the walk of C11's disk-set
    model (Flat/DiskSetModel.v; [off_t] in Z with overflow outcomes) wherever
    offsets stay below 2^62 *)
Theorem C01_sadump_extent_walk_is_c11 : forall exts pos,
  exts <> [] -> Forall (fun e => small (ex_pos e) /\ small (ex_len e)) exts -> small pos ->
  DiskSetModel.walk (map to_flat exts) (Z.of_N pos) =
  match ext_loop exts pos with
  | Some (f, o) => DiskSetModel.WAt f (Z.of_N o)
  | None => DiskSetModel.WNoData
  end.
Proof. exact ext_loop_is_walk. Qed.
Print Assumptions C01_sadump_extent_walk_is_c11.

Theorem C01_sadump_disk_set_extents : forall rd (chunks : list (extent * bytes)) pos,
  Forall (fun ec => ex_len (fst ec) = len (snd ec) /\ (len (snd ec)) mod 4096 = 0 /\
                    forall o n, o + n <= len (snd ec) ->
                                rd (ex_fidx (fst ec)) (ex_pos (fst ec) + o) n = read_of (snd ec) o n) chunks ->
  pos mod 4096 = 0 -> pos + 4096 <= len (concat (map snd chunks)) ->
  exists f o, ext_loop (map fst chunks) pos = Some (f, o) /\
              rd f o 4096 = read_of (concat (map snd chunks)) pos 4096.
Proof. exact ext_loop_chunks. Qed.
Print Assumptions C01_sadump_disk_set_extents.

(** * LKCD *)

(** [_partial]: the reader model keeps the *content* of libkdumpfile's lazily
    built three-level PFN index (page frame -> offset of its record, for the
    scanned prefix of the stream; where the scan stopped; whether the END
    marker was seen) but not its block structure (pfn_block lists,
    tolerance, splitting at the 32-bit offset limit).  Within that model the
    statement is complete: every header version 1-10 with both header
    variants and byte orders, every page size, RLE (any well-formed RLE
    stream) / gzip / raw records in *any* stream order, and any history of
    earlier requests ([inv] is the only thing a state has to satisfy, and
    every operation preserves it).  The [C01_lkcd_index_*] theorems further
    down replace the association by the blocks of lkcd.c. *)
Theorem C01_lkcd_open_partial : forall gunzip l stream img,
  lk_wf l stream -> Forall2 (rec_stores gunzip (ll_compression l) (ll_page_size l)) stream img ->
  exists st, lk_open (read_files [encode_lkcd l stream]) 1 = Ok st /\
    LkcdProofs.inv l stream st /\ lk_be st = ll_be l /\ lk_page_size st = ll_page_size l.
Proof. exact lkcd_open. Qed.
Print Assumptions C01_lkcd_open_partial.

Theorem C01_lkcd_roundtrip_partial : forall gunzip l stream img,
  lk_wf l stream -> Forall2 (rec_stores gunzip (ll_compression l) (ll_page_size l)) stream img ->
  forall fuel st pfn, LkcdProofs.inv l stream st -> (length stream + 1 < fuel)%nat ->
    fst (lk_read_page (read_files [encode_lkcd l stream]) gunzip fuel st pfn) = spec_lkcd_page img pfn /\
    LkcdProofs.inv l stream (snd (lk_read_page (read_files [encode_lkcd l stream]) gunzip fuel st pfn)).
Proof. exact lkcd_read_page. Qed.
Print Assumptions C01_lkcd_roundtrip_partial.

Theorem C01_lkcd_max_pfn_partial : forall gunzip l stream img,
  lk_wf l stream -> Forall2 (rec_stores gunzip (ll_compression l) (ll_page_size l)) stream img ->
  forall fuel st, LkcdProofs.inv l stream st -> (length stream + 1 < fuel)%nat ->
    fst (lk_scan_max_pfn (read_files [encode_lkcd l stream]) fuel st) = Ok (spec_lkcd_max_pfn img) /\
    LkcdProofs.inv l stream (snd (lk_scan_max_pfn (read_files [encode_lkcd l stream]) fuel st)).
Proof. exact lkcd_max_pfn. Qed.
Print Assumptions C01_lkcd_max_pfn_partial.

(** ** the PFN index at the level of its blocks (Fmt/LkcdIndexModel.v)

    [struct pfn_block] lists per level-2 slot, [lookup_pfn_block] with its
    tolerance (as repaired by fix 35), [idx_fits_block] for the block carried
    from one record to the next, gap entries, [alloc_pfn_block]'s sorted
    insertion, duplicate detection, the 32-bit limit (fix 90).

    One record of the page stream, for the block list [c] of its slot
    ([chain_ok]: sorted, no block reaches its successor): whichever block the
    code picks - looked up with tolerance, or the carried one - "Duplicate
    PFN" is reported iff the list already has the level-3 index, and
    otherwise the list afterwards has exactly one entry more: this index, at
    this offset. *)
Theorem C01_lkcd_index_record : forall c carried idx off,
  chain_ok c -> idx < PFN_IDX3_SIZE -> Forall (fun b => b_filepos b < off) c ->
  match chain_record c carried idx off with
  | RSplit => exists b, In b c /\ PFN_IDX_LIMIT <= off - b_filepos b
  | RDup => cfind c idx <> None
  | RDone c' pos =>
      cfind c idx = None /\ chain_ok c' /\
      (forall j, cfind c' j = if j =? idx then Some off else cfind c j) /\
      (pos < length c')%nat /\
      Forall (fun b => b_filepos b <= off) c'
  end.
Proof. exact chain_record_sound. Qed.
Print Assumptions C01_lkcd_index_record.

(** ... where [cfind] is what [get_page_desc] reads off the list
    ([lookup_pfn_block(pfn, 0)], [idx_is_gap], offset computation) *)
Theorem C01_lkcd_index_lookup : forall c idx,
  chain_ok c -> chain_find c idx = cfind c idx.
Proof. exact chain_find_spec. Qed.
Print Assumptions C01_lkcd_index_lookup.

(** The scan on blocks simulates the scan on the association ([rel]: same
    scalars, and the blocks answer every PFN as the association does): same
    status, same descriptor offset, related states - for any reader of file
    bytes, not only encoder output.  (The bound keeps descriptor offsets
    within 32 bits of their block: [split_pfn_block] is C04's.) *)
Theorem C01_lkcd_index_simulates : forall rd gunzip fuel b a pfn,
  rel b a -> fuel <> O ->
  lk_last (snd (lk_read_page rd gunzip fuel a pfn)) < PFN_IDX_LIMIT ->
  fst (kb_read_page rd gunzip fuel b pfn) = fst (lk_read_page rd gunzip fuel a pfn) /\
  rel (snd (kb_read_page rd gunzip fuel b pfn)) (snd (lk_read_page rd gunzip fuel a pfn)).
Proof. exact read_page_sim. Qed.
Print Assumptions C01_lkcd_index_simulates.

(** After any history of requests ([binv]: reachable from [open] by reads and
    max_pfn queries, see [C01_lkcd_index_history_partial]) some prefix of the
    page stream has been scanned, and a page frame is found in the blocks iff
    it occurs in that prefix, at the offset of its descriptor. *)
Theorem C01_lkcd_index_sound : forall l stream,
  lk_wf l stream -> forall b, binv l stream b ->
  exists n, (n <= length stream)%nat /\
    kb_last b = off l stream n /\
    forall pfn,
      tbl_find (kb_tbl b) pfn =
      match find_rec (firstn n stream) pfn 0 with
      | Some (i, _) => Some (off l stream i)
      | None => None
      end.
Proof. exact index_sound. Qed.
Print Assumptions C01_lkcd_index_sound.

(** [_partial]: dumps below 4 GiB (no block splitting).  Opening establishes
    [binv]; every history of page reads and max_pfn queries, in any order,
    answers exactly as the image demands - pages found in the blocks, pages
    the scan reaches, and pages that are not there. *)
Theorem C01_lkcd_index_open : forall gunzip l stream img,
  lk_wf l stream -> Forall2 (rec_stores gunzip (ll_compression l) (ll_page_size l)) stream img ->
  exists b, kb_open (read_files [encode_lkcd l stream]) 1 = Ok b /\ binv l stream b /\
            kb_be b = ll_be l /\ kb_page_size b = ll_page_size l.
Proof. intros gunzip l stream img Hwf Hst. exact (index_open gunzip l stream img Hwf Hst). Qed.
Print Assumptions C01_lkcd_index_open.

Theorem C01_lkcd_index_history_partial : forall gunzip l stream img,
  lk_wf l stream -> Forall2 (rec_stores gunzip (ll_compression l) (ll_page_size l)) stream img ->
  len (encode_lkcd l stream) < 2^32 ->
  forall fuel reqs b, binv l stream b -> (length stream + 1 < fuel)%nat ->
    fst (kb_run (read_files [encode_lkcd l stream]) gunzip fuel b reqs) = map (spec_answer img) reqs /\
    binv l stream (snd (kb_run (read_files [encode_lkcd l stream]) gunzip fuel b reqs)).
Proof. intros gunzip l stream img Hwf Hst Hs fuel. exact (index_any_history gunzip l stream img Hwf Hst Hs fuel). Qed.
Print Assumptions C01_lkcd_index_history_partial.

(** * arbitrary address ranges *)

(** The page loop of [read_locked] over any page source that answers aligned
    requests with [page (addr / pgsz)] (for a state invariant [Inv] that the
    source preserves): an unaligned, page-crossing read of [n] bytes at
    [addr] returns exactly the bytes of the pages it touches ([bytes_from]),
    all [n] of them with status OK, or - if some page is not available - the
    bytes before that page and that page's status. *)
Theorem C01_read_range : forall (St : Type) (get_page : St -> N -> res bytes * St)
    (Inv : St -> Prop) (page : N -> res bytes) (pgsz : N),
  0 < pgsz ->
  (forall st a, Inv st -> a mod pgsz = 0 ->
     fst (get_page st a) = page (a / pgsz) /\ Inv (snd (get_page st a))) ->
  (forall k c, page k = Ok c -> len c = pgsz) ->
  forall st addr n, Inv st -> addr + n <= 2^64 ->
  let '(status, data, st') := read_range get_page pgsz st addr n in
  Inv st' /\
  exists m, N.of_nat m <= n /\ data = ReadProofs.bytes_from page pgsz addr m /\
    ((status = KDUMP_OK /\ N.of_nat m = n) \/
     (N.of_nat m < n /\ page ((addr + N.of_nat m) / pgsz) = Err status)).
Proof. exact (@read_range_spec). Qed.
Print Assumptions C01_read_range.

(** * the hypotheses are satisfiable *)

Definition ex_layout : dd_layout :=
  {| dl_be := true; dl_64 := false; dl_pad := true; dl_kdump_sig := true;
     dl_version := 6; dl_page_size := 4096; dl_uts := []; dl_status := 1;
     dl_sub_blocks := 1; dl_two_bitmaps := true; dl_bmp_blocks := 1; dl_max_mapnr := 11;
     dl_phys_base := 0; dl_dump_level := 31; dl_split := false; dl_start_pfn := 0; dl_end_pfn := 0;
     dl_vmcoreinfo := [79; 83; 61; 49; 10]; dl_notes := []; dl_eraseinfo := [];
     dl_mem_extra := [true; true]; dl_data_gap := 8 |}.

Definition ex_page (b : N) : bytes := repeat b 4095 ++ [(b + 1) mod 256].
Definition ex_img : image :=
  [None; Some (ex_page 7); Some (ex_page 0); None; None; None; None; None; None; Some (ex_page 255)].
Definition ex_pages : list (option dd_page) :=
  map (option_map (fun c => {| dp_flags := 8; dp_payload := c |})) ex_img.
Definition ex_dec : N -> bytes -> option bytes := fun _ _ => None.

Lemma bytes_ok_check l : forallb (fun b => b <? 256) l = true -> bytes_ok l.
Proof.
  intro H. apply Forall_forall. intros x Hx.
  rewrite forallb_forall in H. apply N.ltb_lt. now apply H.
Qed.

Example C01_nonvacuous_diskdump_hyps :
  dd_wf ex_layout ex_img /\ Forall2 (stores ex_dec) ex_pages ex_img /\
  len (encode_dd ex_layout ex_pages) < 2^64.
Proof.
  assert (Hpage : forall b, b < 256 -> len (ex_page b) = 4096 /\ bytes_ok (ex_page b)).
  { intros b Hb. unfold ex_page. split.
    - rewrite len_app, len_repeat. reflexivity.
    - apply bytes_ok_app.
      + apply Forall_forall. intros x Hx. apply repeat_spec in Hx. now subst.
      + constructor; [apply N.mod_lt; discriminate | constructor]. }
  assert (H7 := Hpage 7 eq_refl). assert (H0 := Hpage 0 eq_refl). assert (H255 := Hpage 255 eq_refl).
  split; [| split].
  - constructor.
    + exists 12. split; [split; discriminate | reflexivity].
    + discriminate.
    + intro H. exfalso. revert H. cbn. discriminate.
    + reflexivity.
    + discriminate.
    + cbn [ex_layout dl_page_size ex_img]. repeat (constructor; try assumption).
    + reflexivity.
    + intros _. vm_compute. discriminate.
    + split; [discriminate | reflexivity].
    + vm_compute. discriminate.
    + discriminate.
    + discriminate.
    + intros _ _ _. discriminate.
    + repeat split.
    + repeat split.
  - unfold ex_pages, ex_img. cbn [map option_map].
    assert (Hs : forall b, b < 256 ->
              page_stores ex_dec {| dp_flags := 8; dp_payload := ex_page b |} (ex_page b)).
    { intros b Hb. unfold page_stores. cbn [dp_flags dp_payload].
      destruct (Hpage b Hb) as [Hl _]. rewrite Hl. repeat split. }
    repeat (constructor; try exact I; try (apply Hs; reflexivity)).
  - vm_compute. reflexivity.
Qed.

(** ... and on that instance the reader does return the image *)
Example C01_nonvacuous_diskdump :
  (match dd_open (read_files [encode_dd ex_layout ex_pages]) 1 with
   | Ok st =>
       (dd_be st, dd_ptr_size st, dd_page_size st, dd_max_pfn st) = (true, 4, 4096, 11) /\
       dd_read_page (read_files [encode_dd ex_layout ex_pages]) ex_dec st false 9 = Ok (ex_page 255) /\
       dd_read_page (read_files [encode_dd ex_layout ex_pages]) ex_dec st false 3 = Err ERR_NODATA /\
       dd_read_page (read_files [encode_dd ex_layout ex_pages]) ex_dec st true 3 = Ok (zeros 4096)
   | Err _ => False
   end).
Proof. vm_compute. repeat split; reflexivity. Qed.

(** a split set of the same dump: two files, given with the higher window first *)
Definition ex_windows : list (N * N) := [(5, 11); (0, 5)].

Example C01_nonvacuous_diskdump_split_hyps :
  windows_ok ex_windows (dl_max_mapnr ex_layout) /\
  (forall w, In w ex_windows -> dd_wf (with_window ex_layout w) ex_img).
Proof.
  split.
  - repeat split.
    + intros w [<- | [<- | []]]; reflexivity.
    + repeat constructor; cbn; intuition discriminate.
    + intros wi wj [<- | [<- | []]] [<- | [<- | []]] H; try congruence; cbn; lia.
    + intros pfn H. change (dl_max_mapnr ex_layout) with 11 in H.
      destruct (N.lt_ge_cases pfn 5).
      * exists (0, 5). split; [right; now left | cbn; lia].
      * exists (5, 11). split; [now left | cbn; lia].
  - intros w Hw. apply with_window_wf.
    + apply C01_nonvacuous_diskdump_hyps.
    + discriminate.
    + destruct Hw as [<- | [<- | []]]; reflexivity.
    + destruct Hw as [<- | [<- | []]]; reflexivity.
    + intros _ H. exfalso. revert H. cbn. discriminate.
Qed.

Example C01_nonvacuous_diskdump_split :
  (let rd := read_files (encode_dd_set ex_layout ex_windows ex_pages) in
   match dd_open rd 2 with
   | Ok st =>
       (dd_be st, dd_ptr_size st, dd_page_size st, dd_max_pfn st) = (true, 4, 4096, 11) /\
       dd_read_page rd ex_dec st false 9 = Ok (ex_page 255) /\
       dd_read_page rd ex_dec st false 1 = Ok (ex_page 7) /\
       dd_read_page rd ex_dec st false 3 = Err ERR_NODATA /\
       dd_read_page rd ex_dec st true 6 = Ok (zeros 4096)
   | Err _ => False
   end).
Proof. vm_compute. repeat split; reflexivity. Qed.

Example C01_nonvacuous_s390 :
  s3_wf {| s3l_page_size := 4096; s3l_arch64 := true; s3l_hdr_size := 4096; s3l_tod := 5;
           s3l_end_tod := 6; s3l_version := 5; s3l_cpu_id := 1 |} [ex_page 1; ex_page 2].
Proof.
  constructor; cbn [s3l_page_size s3l_hdr_size s3l_tod s3l_end_tod s3l_version s3l_cpu_id length N.of_nat Pos.of_succ_nat Pos.succ].
  - exists 12. split; [split; discriminate | reflexivity].
  - split; [discriminate | reflexivity].
  - assert (H : forall b, len (ex_page b) = 4096) by (intro b; unfold ex_page; rewrite len_app, len_repeat; reflexivity).
    constructor; [apply H | constructor; [apply H | constructor]].
  - reflexivity.
  - split; [discriminate | reflexivity].
  - split; reflexivity.
Qed.

Definition ex_s65 (s : bytes) : bytes := s ++ repeat 0 (65 - length s).
Definition ex_uts : bytes :=
  ex_s65 [76; 105; 110; 117; 120] ++ ex_s65 [110] ++ ex_s65 [50; 46; 54] ++ ex_s65 [35; 49]
  ++ ex_s65 [105; 54; 56; 54] ++ ex_s65 [].
Definition ex_lk_layout : lk_layout :=
  {| ll_be := true; ll_version := 9; ll_mclx := 2^31; ll_hdr64 := true; ll_page_size := 4096;
     ll_compression := 1; ll_uts := ex_uts; ll_data_offset := 1000; ll_memsize := 2^30 |}.
Definition ex_toks : list rle_tok := repeat (Run 255 7) 16 ++ [Run 16 7].
Definition ex_stream : list lk_page :=
  [ {| lp_pfn := 5; lp_flags := 1; lp_payload := ex_page 3 |};
    {| lp_pfn := 2; lp_flags := 2; lp_payload := rle_render ex_toks |} ].
Definition ex_lk_img : list (N * bytes) := [ (5, ex_page 3); (2, rle_expand ex_toks) ].

Example C01_nonvacuous_lkcd :
  lk_wf ex_lk_layout ex_stream /\
  Forall2 (rec_stores (fun _ => None) (ll_compression ex_lk_layout) (ll_page_size ex_lk_layout))
          ex_stream ex_lk_img.
Proof.
  split.
  - constructor.
    + exists 12. split; [split; discriminate | reflexivity].
    + cbn. tauto.
    + cbn. tauto.
    + cbn. split; [discriminate | reflexivity].
    + cbn. now left.
    + vm_compute. reflexivity.
    + cbn. repeat constructor; cbn; intuition discriminate.
    + repeat constructor.
    + repeat constructor.
    + vm_compute. reflexivity.
    + reflexivity.
  - constructor; [| constructor; [| constructor]].
    + split; [reflexivity |]. split; [unfold ex_page; cbn [snd]; rewrite len_app, len_repeat; reflexivity |].
      split; [unfold ex_page; cbn [lp_payload]; rewrite len_app, len_repeat; reflexivity |].
      left. split; reflexivity.
    + split; [reflexivity |]. split; [vm_compute; reflexivity |].
      split; [vm_compute; reflexivity |]. right. split; [reflexivity |].
      split; [vm_compute; discriminate |]. left. split; [reflexivity |].
      exists ex_toks. split; [| split; reflexivity].
      unfold ex_toks. apply Forall_app. split.
      * apply Forall_forall. intros t Ht. apply repeat_spec in Ht. subst. cbn. intuition (discriminate || reflexivity).
      * repeat constructor; cbn; intuition (discriminate || reflexivity).
Qed.

(** the same stream through the block-level index: page 2 is reached by the
    scan (which files page 5 on the way), page 5 is then found in the blocks,
    page 7 is not in the dump; the hypothesis of the [_partial] theorem holds *)
Example C01_nonvacuous_lkcd_index :
  len (encode_lkcd ex_lk_layout ex_stream) < 2^32 /\
  (let rd := read_files [encode_lkcd ex_lk_layout ex_stream] in
   match kb_open rd 1 with
   | Ok b =>
       let '(answers, b') := kb_run rd (fun _ => None) 10 b [ReqPage 2; ReqPage 5; ReqMaxPfn; ReqPage 7] in
       answers = [AnsPage (Ok (rle_expand ex_toks)); AnsPage (Ok (ex_page 3)); AnsMaxPfn (Ok 6);
                  AnsPage (Err ERR_NODATA)] /\
       tbl_find (kb_tbl b') 5 = Some 1000 /\ tbl_find (kb_tbl b') 2 = Some 5112 /\
       tbl_find (kb_tbl b') 3 = None /\ tbl_find (kb_tbl b') (2^32 + 5) = None
   | Err _ => False
   end).
Proof. split; [vm_compute; reflexivity |]. vm_compute. repeat split; reflexivity. Qed.

Definition ex_elf_layout : elf_layout :=
  {| el_be := true; el_64 := false; el_machine := 20; el_osabi := 0; el_flags := 0;
     el_phoff_gap := 4; el_phent_extra := 8 |}.
Definition ex_seg (ty phys virt : N) (data : bytes) (memsz gap : N) : elf_seg :=
  {| sg_type := ty; sg_flags := 7; sg_phys := phys; sg_virt := virt; sg_data := data;
     sg_filesz := len data; sg_memsz := memsz; sg_align := 0; sg_gap := gap |}.
Definition ex_notes : list snote :=
  [ SOther {| vn_name := [70; 79; 79; 0]; vn_type := 7; vn_desc := [1; 2; 3; 4; 5] |};
    SVmcoreinfo true [ ([79; 83], [54]); (key_PAGESIZE, [56; 49; 57; 50]) ] ].
Definition ex_segs : list elf_seg :=
  [ ex_seg 1 4090 8192 [1; 2; 3; 4; 5; 6; 7; 8; 9; 10] 20 3;
    ex_seg 4 0 0 (enc_notes true (map to_vnote ex_notes)) 0 0;
    ex_seg 1 4110 4096 [11; 12] 2 1 ].

Example C01_nonvacuous_elf :
  elf_wf ex_elf_layout ex_segs /\
  spec_elf_page ex_segs 4096 false false 4096 =
    Ok ([7; 8; 9; 10] ++ zeros 10 ++ [11; 12] ++ zeros 4080) /\
  spec_elf_page ex_segs 4096 false true 8192 = Ok ([1; 2; 3; 4; 5; 6; 7; 8; 9; 10] ++ zeros 4086).
Proof.
  split; [| split; vm_compute; reflexivity].
  constructor.
  - repeat constructor.
  - repeat constructor; cbn; try reflexivity.
  - repeat constructor; unfold is_load; cbn; intros; try discriminate; try reflexivity.
  - repeat split; reflexivity.
  - reflexivity.
  - reflexivity.
  - vm_compute. reflexivity.
  - eexists. split; [left; reflexivity | reflexivity].
  - left. eexists. split; [left; reflexivity |]. split; [reflexivity | discriminate].
  - repeat constructor; unfold is_load; cbn; intros; try discriminate; lia.
Qed.

(** the NOTE segment of the example holds two notes; the dump announces
    8192-byte pages on a machine (PowerPC) that has no fixed page size *)
Example C01_nonvacuous_elf_geometry :
  note_segs_hold ex_elf_layout ex_segs [ex_notes] /\
  spec_ptr_size (el_machine ex_elf_layout) (el_64 ex_elf_layout) = Some 4 /\
  spec_page_size (el_machine ex_elf_layout) (concat [ex_notes]) = Some 8192.
Proof.
  split; [| split; reflexivity].
  unfold note_segs_hold. cbn [ex_segs filter is_note_seg ex_seg sg_type N.eqb Pos.eqb].
  constructor; [| constructor]. split; [reflexivity |].
  constructor; [| constructor; [| constructor]].
  - split; [repeat split; reflexivity | reflexivity].
  - split; [repeat split; reflexivity |].
    constructor; [| constructor; [| constructor]].
    + split; [repeat split; repeat constructor; discriminate | intro H; discriminate H].
    + split; [repeat split; repeat constructor; discriminate |].
      intros _. exists 13. split; reflexivity.
Qed.

Definition ex_sd_layout : sd_layout :=
  {| sl_kind := SdSingle; sl_block_size := 256; sl_version := 1; sl_max_mapnr := 9;
     sl_cpu_size := 1024; sl_lma := [false; true]; sl_sub_blocks := 9; sl_bitmap_blocks := 1;
     sl_dumpable_blocks := 1; sl_mem_bits := [true]; sl_ids := repeat 5 48;
     sl_vol_ids := [repeat 6 16]; sl_disk_pages := []; sl_set_hdr_blocks := 1; sl_magic0 := 0 |}.
Definition ex_sd_img : image := [None; Some (ex_page 4); None; Some (ex_page 5)].

Lemma ex_sd_base kind vols pages :
  sd_wf_base {| sl_kind := kind; sl_block_size := 256; sl_version := 1; sl_max_mapnr := 9;
                sl_cpu_size := 1024; sl_lma := [false; true]; sl_sub_blocks := 9; sl_bitmap_blocks := 1;
                sl_dumpable_blocks := 1; sl_mem_bits := [true]; sl_ids := repeat 5 48;
                sl_vol_ids := vols; sl_disk_pages := pages; sl_set_hdr_blocks := 1; sl_magic0 := 0 |}
             ex_sd_img.
Proof.
  assert (Hp : forall b, len (ex_page b) = 4096)
    by (intro b; unfold ex_page; rewrite len_app, len_repeat; reflexivity).
  constructor; cbn [sl_block_size sl_version sl_max_mapnr sl_cpu_size sl_lma sl_sub_blocks sl_bitmap_blocks
                    sl_dumpable_blocks sl_ids sl_magic0 nr_cpus length N.of_nat Pos.of_succ_nat Pos.succ].
  - exists 8. split; [split; discriminate | reflexivity].
  - discriminate.
  - split; [discriminate | reflexivity].
  - split; [discriminate | reflexivity].
  - split; [discriminate | reflexivity].
  - split; [vm_compute; discriminate | reflexivity].
  - split; reflexivity.
  - split; vm_compute; discriminate.
  - constructor; [exact I |]. constructor; [apply Hp |]. constructor; [exact I |]. constructor; [apply Hp | constructor].
  - reflexivity.
  - reflexivity.
Qed.

Example C01_nonvacuous_sadump : sd_wf ex_sd_layout ex_sd_img.
Proof.
  constructor.
  - apply ex_sd_base.
  - reflexivity.
  - reflexivity.
  - vm_compute. discriminate.
  - vm_compute. reflexivity.
Qed.

Definition ex_sd_media : sd_layout :=
  {| sl_kind := SdMedia; sl_block_size := 256; sl_version := 1; sl_max_mapnr := 9;
     sl_cpu_size := 1024; sl_lma := [false; true]; sl_sub_blocks := 9; sl_bitmap_blocks := 1;
     sl_dumpable_blocks := 1; sl_mem_bits := [true]; sl_ids := repeat 5 48;
     sl_vol_ids := [repeat 6 16]; sl_disk_pages := []; sl_set_hdr_blocks := 1; sl_magic0 := 0 |}.

Example C01_nonvacuous_sadump_media : sd_wf_media ex_sd_media ex_sd_img.
Proof.
  constructor.
  - apply ex_sd_base.
  - reflexivity.
  - reflexivity.
  - vm_compute. discriminate.
  - vm_compute. reflexivity.
  - vm_compute. reflexivity.
Qed.

Definition ex_sd_set : sd_layout :=
  {| sl_kind := SdDiskSet; sl_block_size := 256; sl_version := 1; sl_max_mapnr := 9;
     sl_cpu_size := 1024; sl_lma := [false; true]; sl_sub_blocks := 9; sl_bitmap_blocks := 1;
     sl_dumpable_blocks := 1; sl_mem_bits := [true]; sl_ids := repeat 5 48;
     sl_vol_ids := [repeat 6 16; repeat 7 16]; sl_disk_pages := [1; 1]; sl_set_hdr_blocks := 1;
     sl_magic0 := 0 |}.

Example C01_nonvacuous_sadump_set : sd_wf_set ex_sd_set ex_sd_img.
Proof.
  constructor.
  - apply ex_sd_base.
  - reflexivity.
  - split; [discriminate |]. split; [repeat constructor | reflexivity].
  - split; [reflexivity |]. split; [repeat constructor; discriminate | vm_compute; reflexivity].
  - split; [vm_compute; discriminate | reflexivity].
  - vm_compute. discriminate.
  - cbn [tl split_data sl_disk_pages ex_sd_set]. constructor; [vm_compute; discriminate | constructor].
  - apply Forall_forall. intros f Hf. apply (in_map len) in Hf.
    assert (E : map len (encode_sadump ex_sd_set ex_sd_img) = [7680; 4352]) by (vm_compute; reflexivity).
    rewrite E in Hf. destruct Hf as [<- | [<- | []]]; reflexivity.
Qed.

(** the two-disk example with disk 2's file passed first *)
Example C01_nonvacuous_sadump_set_order :
  Permutation.Permutation [1; 0]%nat (seq 0 (length (sl_vol_ids ex_sd_set))) /\
  (let rd := read_files (permuted_files ex_sd_set ex_sd_img [1; 0]%nat) in
   match sd_open rd 2 with
   | Ok st => sd_read_page rd st false 1 = Ok (ex_page 4) /\ sd_read_page rd st false 3 = Ok (ex_page 5) /\
              sd_read_page rd st false 2 = Err ERR_NODATA
   | Err _ => False
   end).
Proof. split; [apply Permutation.perm_swap |]. vm_compute. repeat split; reflexivity. Qed.

Example C01_nonvacuous_rle :
  uncompress_rle (rle_encode [1; 0; 0; 0; 7; 7; 7; 7; 7; 2]) 10 = Some [1; 0; 0; 0; 7; 7; 7; 7; 7; 2]
  /\ rle_encode [1; 0; 0; 0; 7; 7; 7; 7; 7; 2] = [1; 0; 3; 0; 0; 5; 7; 2].
Proof. vm_compute. split; reflexivity. Qed.
