(** C01 — reads return exactly the memory the dump file encodes.
    Statements only; every proof is [exact <lemma>]. *)
From Coq Require Import NArith List Bool.
From KdV Require Import Fmt.Codec Fmt.Rle.
Import ListNotations.
Local Open Scope N_scope.

Example C01_nonvacuous_rle :
  uncompress_rle (rle_encode [1; 0; 0; 0; 7; 7; 7; 7; 7; 2]) 10 = Some [1; 0; 0; 0; 7; 7; 7; 7; 7; 2].
Proof. vm_compute. reflexivity. Qed.
