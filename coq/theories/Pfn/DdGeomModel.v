(** Model of the bitmap-geometry decision of src/kdumpfile/diskdump.c,
    [read_bitmap] and [mem_pagemap_revalidate]: the header announces
    [bitmap_blocks] blocks of bitmap after the sub-header; they hold either one
    bitmap of that length (old format) or two of half that length (1st: memory,
    2nd: dumpable pages).  [read_bitmap] decides by comparing [max_pfn] with the
    capacity, chooses the offset and size of the bitmap that feeds
    [file.pagemap], records where [memory.pagemap] will be read from, clips
    [max_pfn] and the scan window.

    Offsets are relative to the start of the bitmap area
    ((1 + sub_hdr_size) * block_size in the file); [area] is its content.
    [strict = true] is the seeded variant "max_pfn < capacity / 2"
    (seeded/C07-a1), kept to show that the comparison must be [<=]. *)
From Coq Require Import NArith ZArith List Bool.
From KdV Require Import Base.Wrap64 Pfn.BitmapModel Pfn.RegionModel.
Import ListNotations.
Local Open Scope N_scope.

Record geom := {
  file_off : N; file_size : N;      (* the bitmap pfn_regions_from_bitmap is run on *)
  mem_off : N; mem_size : N;        (* ddp->mem_pagemap_off / mem_pagemap_size *)
  max_pfn' : N;                     (* max_pfn after the clipping *)
  scan_end : N                      (* end_pfn argument of pfn_regions_from_bitmap *)
}.

Definition read_bitmap_geom (strict : bool) (bs bitmap_blocks max_pfn end_pfn : N) : geom :=
  let bitmapsize := bitmap_blocks * bs in
  let max_bitmap_pfn := bitmapsize * 8 in
  let partial := if strict then max_pfn <? max_bitmap_pfn / 2 else max_pfn <=? max_bitmap_pfn / 2 in
  let blocks := if partial then bitmap_blocks / 2 else bitmap_blocks in
  let size := blocks * bs in
  let off := if partial then size else 0 in
  let maxb := size * 8 in
  {| file_off := off; file_size := size; mem_off := 0; mem_size := size;
     max_pfn' := if maxb <? max_pfn then maxb else max_pfn;
     scan_end := if end_pfn <? maxb then end_pfn else maxb |}.

Definition slice (area : list N) (off size : N) : list N :=
  firstn (N.to_nat size) (skipn (N.to_nat off) area).

(* read_bitmap for one file of the set: the region list behind file.pagemap.
   descoff = offset of the page descriptors, sizeof(struct page_desc) = 24 *)
Definition dd_file_regions (strict : bool) (al : N) (area : list N)
           (bs bitmap_blocks max_pfn start_pfn end_pfn descoff : N) (orc : list bool) : rres * list bool :=
  let g := read_bitmap_geom strict bs bitmap_blocks max_pfn end_pfn in
  regions_from_bitmap true false al (slice area (file_off g) (file_size g))
                      start_pfn (scan_end g) descoff 24 [] orc.

(* mem_pagemap_revalidate: regions of the bitmap recorded by file 0 *)
Definition dd_mem_regions (strict : bool) (al : N) (area : list N)
           (bs bitmap_blocks max_pfn : N) (orc : list bool) : rres * list bool :=
  let g := read_bitmap_geom strict bs bitmap_blocks max_pfn MAXA in
  regions_from_bitmap true false al (slice area (mem_off g) (mem_size g))
                      0 (mem_size g * 8) 0 0 [] orc.

(* diskdump_read_page up to the descriptor lookup: [true] = a descriptor is found *)
Definition dd_page_stored (maps : list fmap) (max_pfn pfn : N) : res bool :=
  if max_pfn <=? pfn then Val false        (* "Out-of-bounds PFN" *)
  else match page_desc_lookup maps pfn with
       | Val (Some _) => Val true
       | Val None => Val false               (* "Excluded page" *)
       | Oob => Oob
       | Fuel => Fuel
       end.
