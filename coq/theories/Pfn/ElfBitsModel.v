(** Model of the segment-based page maps of src/kdumpfile/elfdump.c
    ([find_closest_file_load] / [find_closest_mem_load], [elf_get_bits],
    [elf_find_set], [elf_find_clear]) as repaired by fixes 07, 32, 38 and 39.

    [load_sorted] is a list of [seg]; [ismem] selects [memsz] or [filesz] as the
    size of a segment; [sh] is the page shift.  The pointer [edp->last_load]
    (a cache of the previous lookup, shared by all lookups) is the parameter
    [last : option nat]: the theorems hold for every value that designates a
    segment of the array, i.e. for every history.  64-bit arithmetic goes
    through [Base.Wrap64]; [Oob] = a store outside the caller's buffer. *)
From Coq Require Import NArith ZArith List Bool.
From KdV Require Import Base.Wrap64 Pfn.BitmapModel Pfn.RegionModel.
Import ListNotations.
Local Open Scope N_scope.

Record seg := { phys : N; filesz : N; memsz : N }.

Definition ssize (ismem : bool) (s : seg) : N := if ismem then memsz s else filesz s.

Definition addr_to_pfn (sh a : N) : N := N.shiftr a sh.
Definition pfn_to_addr (sh p : N) : N := wshl p sh.

(* the linear scan of find_closest_*_load from index i; result: index of the segment *)
Fixpoint closest_scan (ismem : bool) (segs : list seg) (i : nat) (paddr dist : N) : option nat :=
  match segs with
  | [] => None
  | s :: t =>
      if negb (ssize ismem s =? 0) && (paddr <=? wsub (wadd (phys s) (ssize ismem s)) 1) then
        if (paddr <? phys s) && (dist <=? wsub (phys s) paddr) then None       (* break *)
        else Some i
      else closest_scan ismem t (S i) paddr dist
  end.

Definition find_closest (ismem : bool) (segs : list seg) (last : option nat) (paddr dist : N)
  : option nat :=
  let cached :=
    match last with
    | Some k => match nth_error segs k with
                | Some s => (phys s <=? paddr) && (wsub paddr (phys s) <? ssize ismem s)
                | None => false
                end
    | None => false
    end in
  if cached then last else closest_scan ismem segs O paddr dist.

(* PFNs above this have no address (fix 39) *)
Definition max_addr_pfn (sh : N) : N := addr_to_pfn sh MAXA.

(* the do { } while loop of elf_get_bits over the segments from [pls] on *)
Fixpoint elf_bits_loop (ismem : bool) (sh : N) (segs : list seg) (first last cur : N)
         (bits : list N) : res (list N) :=
  match segs with
  | [] => lift (clear_bits bits (wsub cur first) (wsub last first))
  | s :: t =>
      let next := addr_to_pfn sh (phys s) in
      if last <? next then lift (clear_bits bits (wsub cur first) (wsub last first))   (* break *)
      else
        let step1 :=
          if cur <? next then
            match clear_bits bits (wsub cur first) (wsub (wsub next 1) first) with
            | None => None
            | Some b => Some (b, next)
            end
          else Some (bits, cur) in
        match step1 with
        | None => Oob
        | Some (bits, cur) =>
            let next := addr_to_pfn sh (wsub (wadd (phys s) (ssize ismem s)) 1) in
            if last <=? next then lift (set_bits bits (wsub cur first) (wsub last first))
            else if cur <=? next then
              match set_bits bits (wsub cur first) (wsub next first) with
              | None => Oob
              | Some bits => elf_bits_loop ismem sh t first last (wadd next 1) bits
              end
            else elf_bits_loop ismem sh t first last cur bits
        end
  end.

Definition elf_get_bits (ismem : bool) (sh : N) (segs : list seg) (lastc : option nat)
           (first last : N) (buf : list N) : res (list N) :=
  let n := N.to_nat (N.shiftr (wsub last first) 3) in
  let pls := if max_addr_pfn sh <? first then None
             else find_closest ismem segs lastc (pfn_to_addr sh first)
                               (pfn_to_addr sh (wadd (wsub last first) 1)) in
  match pls with
  | None => if (length buf <=? n)%nat then Oob
            else Val (repeat 0 (S n) ++ skipn (S n) buf)
  | Some k =>
      match set_byte buf n 0 with
      | None => Oob
      | Some bits => elf_bits_loop ismem sh (skipn k segs) first last first bits
      end
  end.

(* [None] = KDUMP_ERR_NODATA *)
Definition elf_find_set (ismem : bool) (sh : N) (segs : list seg) (lastc : option nat) (idx : N)
  : option N :=
  let pls := if max_addr_pfn sh <? idx then None
             else find_closest ismem segs lastc (pfn_to_addr sh idx) MAXA in
  match pls with
  | None => None
  | Some k => match nth_error segs k with
              | None => None
              | Some s => let pfn := addr_to_pfn sh (phys s) in
                          Some (if idx <? pfn then pfn else idx)
              end
  end.

Fixpoint elf_clear_loop (ismem : bool) (sh : N) (segs : list seg) (idx : N) : N :=
  match segs with
  | [] => idx
  | s :: t =>
      if addr_to_pfn sh (phys s) <=? idx then
        let pfn := addr_to_pfn sh (wsub (wadd (phys s) (ssize ismem s)) 1) in
        elf_clear_loop ismem sh t (if idx <=? pfn then wadd pfn 1 else idx)
      else idx
  end.

Definition elf_find_clear (ismem : bool) (sh : N) (segs : list seg) (lastc : option nat) (idx : N) : N :=
  let pls := if max_addr_pfn sh <? idx then None
             else find_closest ismem segs lastc (pfn_to_addr sh idx) MAXA in
  match pls with
  | None => idx
  | Some k => elf_clear_loop ismem sh (skipn k segs) idx
  end.
