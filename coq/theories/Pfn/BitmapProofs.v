(** Proofs about Pfn/BitmapModel.v: the four bit scanners return the least
    index with the wanted bit value whatever the alignment of the buffer;
    [pfn_regions_from_bitmap] yields exactly the maximal runs of set bits;
    [set_bits] / [clear_bits] change exactly the requested bit range. *)
From Coq Require Import NArith ZArith List Bool Lia.
From Coq Require Import ZifyBool ZifyNat ZifyN.
From KdV Require Import Pfn.BitmapModel Pfn.PfnSpec.
Import ListNotations.
Local Open Scope N_scope.

Ltac Zify.zify_post_hook ::= Z.div_mod_to_equations.

(** * Bits of sums, [ctz], [clz] *)

Lemma testbit_small a n i : a < 2 ^ n -> n <= i -> N.testbit a i = false.
Proof.
  intros Ha Hi. destruct (N.eq_dec a 0) as [->|Hnz]; [apply N.bits_0|].
  apply N.bits_above_log2. apply N.log2_lt_pow2 in Ha; [lia|lia].
Qed.

Lemma add_shift_lor a n r : a < 2 ^ n -> a + 2 ^ n * r = N.lor a (N.shiftl r n).
Proof.
  intros Ha. rewrite N.mul_comm, <- N.shiftl_mul_pow2.
  rewrite <- N.lxor_lor, <- N.add_nocarry_lxor; try reflexivity.
  all: apply N.bits_inj; intros i; rewrite N.land_spec, N.bits_0;
    destruct (N.lt_ge_cases i n) as [Hi|Hi];
    [rewrite N.shiftl_spec_low by exact Hi; apply andb_false_r
    |rewrite (testbit_small a n i Ha Hi); reflexivity].
Qed.

Lemma testbit_add_shift a n r q : a < 2 ^ n ->
  N.testbit (a + 2 ^ n * r) q = if q <? n then N.testbit a q else N.testbit r (q - n).
Proof.
  intros Ha. rewrite add_shift_lor by exact Ha. rewrite N.lor_spec.
  destruct (N.ltb_spec q n) as [Hq|Hq].
  - rewrite N.shiftl_spec_low by exact Hq. apply orb_false_r.
  - rewrite (testbit_small a n q Ha Hq), N.shiftl_spec_high' by exact Hq. reflexivity.
Qed.

Lemma ctz_pos_spec p :
  Pos.testbit p (ctz_pos p) = true /\ forall i, i < ctz_pos p -> Pos.testbit p i = false.
Proof.
  induction p as [p IH|p IH|]; cbn [ctz_pos].
  - split; [reflexivity|intros i Hi; lia].
  - destruct IH as [IH1 IH2]. split.
    + rewrite <- N.add_1_r.
      destruct (ctz_pos p) as [|c] eqn:E; cbn; [exact IH1|].
      rewrite Pos.add_1_r, Pos.pred_N_succ. exact IH1.
    + intros i Hi. destruct i as [|i]; [reflexivity|]. cbn [Pos.testbit].
      apply IH2. lia.
  - split; [reflexivity|intros i Hi; lia].
Qed.

Lemma ctz_spec x : x <> 0 ->
  N.testbit x (ctz x) = true /\ forall i, i < ctz x -> N.testbit x i = false.
Proof.
  destruct x as [|p]; [congruence|]. intros _. cbn [ctz N.testbit]. apply ctz_pos_spec.
Qed.

Lemma ctz_lt x n : x <> 0 -> x < 2 ^ n -> ctz x < n.
Proof.
  intros Hx Hn. destruct (ctz_spec x Hx) as [H1 _].
  destruct (N.lt_ge_cases (ctz x) n) as [H|H]; [exact H|].
  rewrite (testbit_small x n _ Hn H) in H1. discriminate.
Qed.

Lemma clz_spec x : x <> 0 -> x < 2 ^ 32 ->
  clz x <= 31 /\ N.testbit x (31 - clz x) = true /\
  forall i, i < clz x -> N.testbit x (31 - i) = false.
Proof.
  intros Hx Hn. unfold clz.
  assert (Hl : N.log2 x < 32) by (apply N.log2_lt_pow2; lia).
  split; [lia|]. split.
  - replace (31 - (31 - N.log2 x)) with (N.log2 x) by lia. apply N.bit_log2. exact Hx.
  - intros i Hi. apply N.bits_above_log2. lia.
Qed.

(** bits of the 32-bit loads *)
Definition wf_bytes (l : list N) : Prop := Forall (fun b => b < 256) l.

Definition nth4 (b0 b1 b2 b3 : N) (k : N) : N :=
  if k =? 0 then b0 else if k =? 1 then b1 else if k =? 2 then b2 else b3.

Lemma le32_lt b0 b1 b2 b3 : b0 < 256 -> b1 < 256 -> b2 < 256 -> b3 < 256 ->
  le32 b0 b1 b2 b3 < 2 ^ 32.
Proof. intros. unfold le32. change (2 ^ 32) with 4294967296. lia. Qed.

Lemma le32_testbit b0 b1 b2 b3 q :
  b0 < 256 -> b1 < 256 -> b2 < 256 -> b3 < 256 -> q < 32 ->
  N.testbit (le32 b0 b1 b2 b3) q = N.testbit (nth4 b0 b1 b2 b3 (q / 8)) (q mod 8).
Proof.
  intros H0 H1 H2 H3 Hq. unfold le32. change 256 with (2 ^ 8) in *.
  rewrite !testbit_add_shift by assumption. unfold nth4.
  destruct (N.ltb_spec q 8).
  { replace (q / 8) with 0 by (symmetry; apply N.div_small; lia).
    rewrite N.mod_small by lia. reflexivity. }
  destruct (N.ltb_spec (q - 8) 8).
  { replace (q / 8) with 1 by lia. replace (q mod 8) with (q - 8) by lia. reflexivity. }
  destruct (N.ltb_spec (q - 8 - 8) 8).
  { replace (q / 8) with 2 by lia. replace (q mod 8) with (q - 8 - 8) by lia. reflexivity. }
  replace (q / 8) with 3 by lia. replace (q mod 8) with (q - 8 - 8 - 8) by lia. reflexivity.
Qed.

Lemma be32_le32 b0 b1 b2 b3 : be32 b0 b1 b2 b3 = le32 b3 b2 b1 b0.
Proof. reflexivity. Qed.

Lemma be32_testbit b0 b1 b2 b3 q :
  b0 < 256 -> b1 < 256 -> b2 < 256 -> b3 < 256 -> q < 32 ->
  N.testbit (be32 b0 b1 b2 b3) (31 - q) = N.testbit (nth4 b0 b1 b2 b3 (q / 8)) (7 - q mod 8).
Proof.
  intros H0 H1 H2 H3 Hq. rewrite be32_le32, le32_testbit by (assumption || lia).
  replace ((31 - q) mod 8) with (7 - q mod 8) by lia.
  unfold nth4.
  assert (Hd : (31 - q) / 8 = 3 - q / 8) by lia. rewrite Hd.
  assert (Hq8 : q / 8 < 4) by lia.
  destruct (N.eq_dec (q / 8) 0) as [E|E]; [rewrite E; reflexivity|].
  destruct (N.eq_dec (q / 8) 1) as [E1|E1]; [rewrite E1; reflexivity|].
  destruct (N.eq_dec (q / 8) 2) as [E2|E2]; [rewrite E2; reflexivity|].
  replace (q / 8) with 3 by lia. reflexivity.
Qed.

Lemma lnot32_lt x : x < 2 ^ 32 -> N.lnot x 32 < 2 ^ 32.
Proof.
  intros Hx. destruct (N.eq_dec x 0) as [->|Hnz].
  - vm_compute. reflexivity.
  - rewrite N.lnot_sub_low by (apply N.log2_lt_pow2; lia).
    change (N.ones 32) with 4294967295. change (2 ^ 32) with 4294967296 in *. lia.
Qed.

Lemma lnot32_zero x : x < 2 ^ 32 -> (N.lnot x 32 = 0 <-> x = 4294967295).
Proof.
  intros Hx. destruct (N.eq_dec x 0) as [->|Hnz].
  - vm_compute. split; discriminate.
  - rewrite N.lnot_sub_low by (apply N.log2_lt_pow2; lia).
    change (N.ones 32) with 4294967295. change (2 ^ 32) with 4294967296 in *. lia.
Qed.

(** * What a "hit" expression must compute *)

(* bit [i] (0..7) of byte [b] in the numbering of the bitmap *)
Definition bbit (msb0 : bool) (b i : N) : bool := N.testbit b (if msb0 then 7 - i else i).

(* [r] is the offset of the first of [n] bits that equals [want], if any *)
Definition hit_spec (bits : N -> bool) (n : N) (want : bool) (r : option N) : Prop :=
  match r with
  | Some j => j < n /\ bits j = want /\ forall i, i < j -> bits i <> want
  | None => forall i, i < n -> bits i <> want
  end.

Fixpoint all_below (n : nat) (f : N -> bool) : bool :=
  match n with O => true | S k => f (N.of_nat k) && all_below k f end.

Lemma all_below_spec n f : all_below n f = true -> forall i, i < N.of_nat n -> f i = true.
Proof.
  induction n as [|n IH]; intros H i Hi; [lia|]. cbn [all_below] in H.
  apply andb_prop in H. destruct H as [H1 H2].
  destruct (N.eq_dec i (N.of_nat n)) as [->|Hne]; [exact H1|]. apply IH; [exact H2|lia].
Qed.

Definition hit_check (bits : N -> bool) (n : N) (want : bool) (r : option N) : bool :=
  match r with
  | Some j => (j <? n) && Bool.eqb (bits j) want &&
              all_below (N.to_nat j) (fun i => negb (Bool.eqb (bits i) want))
  | None => all_below (N.to_nat n) (fun i => negb (Bool.eqb (bits i) want))
  end.

Lemma hit_check_sound bits n want r : hit_check bits n want r = true -> hit_spec bits n want r.
Proof.
  unfold hit_check, hit_spec. destruct r as [j|]; intros H.
  - apply andb_prop in H. destruct H as [H H3]. apply andb_prop in H. destruct H as [H1 H2].
    split; [lia|]. split; [now apply Bool.eqb_prop|].
    intros i Hi E. pose proof (all_below_spec _ _ H3 i ltac:(lia)) as Hn. cbn in Hn.
    rewrite E, Bool.eqb_reflx in Hn. discriminate.
  - intros i Hi E. pose proof (all_below_spec _ _ H i ltac:(lia)) as Hn. cbn in Hn.
    rewrite E, Bool.eqb_reflx in Hn. discriminate.
Qed.

(** the byte-sized expressions of the four scanners: checked for all 256 byte
    values and all 8 shifts by computation inside the kernel *)
Definition bytes_checked : bool :=
  all_below 256 (fun b =>
    hit_check (bbit false b) 8 true (cl_byte b) &&
    hit_check (bbit true b) 8 true (cm_byte b) &&
    hit_check (bbit false b) 8 false (sl_byte b) &&
    hit_check (bbit true b) 8 false (sm_byte b) &&
    all_below 8 (fun k =>
      hit_check (fun i => bbit false b (k + i)) (8 - k) true (cl_first b k) &&
      hit_check (fun i => bbit true b (k + i)) (8 - k) true (cm_first b k) &&
      hit_check (fun i => bbit false b (k + i)) (8 - k) false (sl_first b k) &&
      hit_check (fun i => bbit true b (k + i)) (8 - k) false (sm_first true b k))).

Lemma bytes_checked_true : bytes_checked = true.
Proof. vm_compute. reflexivity. Qed.

Lemma byte_facts b : b < 256 ->
  hit_spec (bbit false b) 8 true (cl_byte b) /\
  hit_spec (bbit true b) 8 true (cm_byte b) /\
  hit_spec (bbit false b) 8 false (sl_byte b) /\
  hit_spec (bbit true b) 8 false (sm_byte b) /\
  forall k, k < 8 ->
    hit_spec (fun i => bbit false b (k + i)) (8 - k) true (cl_first b k) /\
    hit_spec (fun i => bbit true b (k + i)) (8 - k) true (cm_first b k) /\
    hit_spec (fun i => bbit false b (k + i)) (8 - k) false (sl_first b k) /\
    hit_spec (fun i => bbit true b (k + i)) (8 - k) false (sm_first true b k).
Proof.
  intros Hb. pose proof (all_below_spec _ _ bytes_checked_true b Hb) as H. cbn beta in H.
  repeat (apply andb_prop in H; destruct H as [H ?]).
  repeat split; try (apply hit_check_sound; assumption).
  all: match goal with Hk : all_below 8 _ = true |- _ =>
         pose proof (all_below_spec _ _ Hk k ltac:(assumption)) as Hk'; cbn beta in Hk' end.
  all: repeat (apply andb_prop in Hk'; destruct Hk' as [Hk' ?]).
  all: apply hit_check_sound; assumption.
Qed.

(** the word-sized expressions *)
Definition wbits (msb0 : bool) (b0 b1 b2 b3 q : N) : bool :=
  bbit msb0 (nth4 b0 b1 b2 b3 (q / 8)) (q mod 8).

Section Words.
  Variables b0 b1 b2 b3 : N.
  Hypotheses (H0 : b0 < 256) (H1 : b1 < 256) (H2 : b2 < 256) (H3 : b3 < 256).

  Let le := le32 b0 b1 b2 b3.
  Let be := be32 b0 b1 b2 b3.

  Lemma wbits_lsb q : q < 32 -> wbits false b0 b1 b2 b3 q = N.testbit le q.
  Proof. intros Hq. unfold wbits, bbit, le. now rewrite le32_testbit. Qed.

  Lemma wbits_msb q : q < 32 -> wbits true b0 b1 b2 b3 q = N.testbit be (31 - q).
  Proof. intros Hq. unfold wbits, bbit, be. now rewrite be32_testbit. Qed.

  Lemma le_lt : le < 2 ^ 32. Proof. now apply le32_lt. Qed.
  Lemma be_lt : be < 2 ^ 32. Proof. unfold be. rewrite be32_le32. now apply le32_lt. Qed.

  Lemma le_be_zero : le = 0 <-> be = 0.
  Proof. unfold le, be, le32, be32. lia. Qed.
  Lemma le_be_ones : le = 4294967295 <-> be = 4294967295.
  Proof. unfold le, be, le32, be32. lia. Qed.

  Lemma ones_bits i : i < 32 -> N.testbit 4294967295 i = true.
  Proof. intros Hi. change 4294967295 with (N.ones 32). now apply N.ones_spec_low. Qed.

  Lemma cl_word_ok : hit_spec (wbits false b0 b1 b2 b3) 32 true (cl_word b0 b1 b2 b3).
  Proof.
    unfold cl_word, nz. fold le. destruct (N.eqb_spec le 0) as [E|E]; cbn [hit_spec].
    - intros i Hi. rewrite wbits_lsb, E, N.bits_0 by exact Hi. discriminate.
    - destruct (ctz_spec le E) as [Ht Hl]. pose proof (ctz_lt le 32 E le_lt) as Hc.
      split; [exact Hc|]. split; [now rewrite wbits_lsb|].
      intros i Hi. rewrite wbits_lsb by lia. rewrite Hl by exact Hi. discriminate.
  Qed.

  Lemma sl_word_ok : hit_spec (wbits false b0 b1 b2 b3) 32 false (sl_word b0 b1 b2 b3).
  Proof.
    unfold sl_word, nz. fold le. pose proof le_lt as Hlt.
    destruct (N.eqb_spec (N.lnot le 32) 0) as [E|E]; cbn [hit_spec].
    - apply lnot32_zero in E; [|exact Hlt]. intros i Hi.
      rewrite wbits_lsb, E, ones_bits by exact Hi. discriminate.
    - destruct (ctz_spec _ E) as [Ht Hl].
      pose proof (ctz_lt _ 32 E (lnot32_lt le Hlt)) as Hc.
      split; [exact Hc|]. split.
      + rewrite wbits_lsb by exact Hc. rewrite N.lnot_spec_low in Ht by exact Hc.
        now apply negb_true_iff in Ht.
      + intros i Hi. rewrite wbits_lsb by lia. specialize (Hl i Hi).
        rewrite N.lnot_spec_low in Hl by lia. apply negb_false_iff in Hl. rewrite Hl. discriminate.
  Qed.

  Lemma cm_word_ok : hit_spec (wbits true b0 b1 b2 b3) 32 true (cm_word b0 b1 b2 b3).
  Proof.
    unfold cm_word, nz. fold le. fold be. destruct (N.eqb_spec le 0) as [E|E]; cbn [hit_spec].
    - apply le_be_zero in E. intros i Hi. rewrite wbits_msb, E, N.bits_0 by exact Hi. discriminate.
    - assert (E' : be <> 0) by (intro Hz; apply E; now apply le_be_zero).
      destruct (clz_spec be E' be_lt) as (Hc & Ht & Hl).
      split; [lia|]. split; [rewrite wbits_msb by lia; exact Ht|].
      intros i Hi. rewrite wbits_msb by lia. rewrite Hl by exact Hi. discriminate.
  Qed.

  Lemma sm_word_ok : hit_spec (wbits true b0 b1 b2 b3) 32 false (sm_word b0 b1 b2 b3).
  Proof.
    unfold sm_word, nz. fold le. fold be. pose proof le_lt as Hlt. pose proof be_lt as Hbt.
    destruct (N.eqb_spec (N.lnot le 32) 0) as [E|E]; cbn [hit_spec].
    - apply lnot32_zero in E; [|exact Hlt]. apply le_be_ones in E. intros i Hi.
      rewrite wbits_msb, E, ones_bits by lia. discriminate.
    - assert (E' : N.lnot be 32 <> 0).
      { intro Hz. apply E. apply lnot32_zero; [exact Hlt|]. apply le_be_ones.
        now apply lnot32_zero in Hz. }
      destruct (clz_spec _ E' (lnot32_lt be Hbt)) as (Hc & Ht & Hl).
      split; [lia|]. split.
      + rewrite wbits_msb by lia. rewrite N.lnot_spec_low in Ht by lia.
        now apply negb_true_iff in Ht.
      + intros i Hi. rewrite wbits_msb by lia. specialize (Hl i Hi).
        rewrite N.lnot_spec_low in Hl by lia. apply negb_false_iff in Hl. rewrite Hl. discriminate.
  Qed.
End Words.

(** * The skeleton: bytes, aligned words, bytes — whatever the alignment *)

(* bit [q] of a byte list in the bitmap's numbering ([false] outside) *)
Definition lbit (msb0 : bool) (l : list N) (q : N) : bool :=
  match nth_error l (N.to_nat (q / 8)) with
  | Some b => bbit msb0 b (q mod 8)
  | None => false
  end.

Lemma lbit_app_hi msb0 pre t q : 8 * N.of_nat (length pre) <= q ->
  lbit msb0 (pre ++ t) q = lbit msb0 t (q - 8 * N.of_nat (length pre)).
Proof.
  intros Hq. unfold lbit.
  assert (Hd : q / 8 = N.of_nat (length pre) + (q - 8 * N.of_nat (length pre)) / 8) by lia.
  assert (Hm : q mod 8 = (q - 8 * N.of_nat (length pre)) mod 8) by lia.
  rewrite nth_error_app2 by lia. rewrite Hm.
  replace (N.to_nat (q / 8) - length pre)%nat
    with (N.to_nat ((q - 8 * N.of_nat (length pre)) / 8)) by lia.
  reflexivity.
Qed.

Lemma lbit_cons_lo msb0 b t q : q < 8 -> lbit msb0 (b :: t) q = bbit msb0 b q.
Proof.
  intros Hq. unfold lbit. replace (q / 8) with 0 by lia. cbn [N.to_nat nth_error].
  now rewrite N.mod_small.
Qed.

Lemma lbit_4_lo msb0 b0 b1 b2 b3 t q : q < 32 ->
  lbit msb0 (b0 :: b1 :: b2 :: b3 :: t) q = wbits msb0 b0 b1 b2 b3 q.
Proof.
  intros Hq. unfold lbit, wbits, nth4.
  assert (Hd : q / 8 < 4) by lia.
  destruct (N.eq_dec (q / 8) 0) as [E|E0]; [rewrite E; reflexivity|].
  destruct (N.eq_dec (q / 8) 1) as [E|E1]; [rewrite E; reflexivity|].
  destruct (N.eq_dec (q / 8) 2) as [E|E2]; [rewrite E; reflexivity|].
  replace (q / 8) with 3 by lia. reflexivity.
Qed.

(* [r] is the position (counted from [P] = position of bit 0 of [l]) of the first bit of
   [l] that equals [want], or [P + 8 |l|] *)
Definition scan_ok (msb0 want : bool) (l : list N) (P r : N) : Prop :=
  P <= r /\ r <= P + 8 * N.of_nat (length l) /\
  (forall q, q < r - P -> lbit msb0 l q <> want) /\
  (r < P + 8 * N.of_nat (length l) -> lbit msb0 l (r - P) = want).

Lemma scan_ok_nil msb0 want P : scan_ok msb0 want [] P P.
Proof. unfold scan_ok. cbn [length]. repeat split; intros; lia. Qed.

(* a prefix without hit, then a correct scan of the rest *)
Lemma scan_ok_skip msb0 want pre t P r :
  (forall q, q < 8 * N.of_nat (length pre) -> lbit msb0 (pre ++ t) q <> want) ->
  scan_ok msb0 want t (P + 8 * N.of_nat (length pre)) r ->
  scan_ok msb0 want (pre ++ t) P r.
Proof.
  intros Hpre (Ha & Hb & Hc & Hd). unfold scan_ok. rewrite app_length.
  split; [lia|]. split; [lia|]. split.
  - intros q Hq. destruct (N.lt_ge_cases q (8 * N.of_nat (length pre))) as [Hlo|Hhi].
    + now apply Hpre.
    + rewrite lbit_app_hi by exact Hhi. apply Hc. lia.
  - intros Hr. rewrite lbit_app_hi by lia.
    replace (r - P - 8 * N.of_nat (length pre)) with (r - (P + 8 * N.of_nat (length pre))) by lia.
    apply Hd. lia.
Qed.

(* a hit inside the prefix *)
Lemma scan_ok_hit msb0 want pre t P j :
  j < 8 * N.of_nat (length pre) ->
  lbit msb0 (pre ++ t) j = want ->
  (forall i, i < j -> lbit msb0 (pre ++ t) i <> want) ->
  scan_ok msb0 want (pre ++ t) P (P + j).
Proof.
  intros Hj Hb Hl. unfold scan_ok. rewrite app_length.
  split; [lia|]. split; [lia|]. split.
  - intros q Hq. apply Hl. lia.
  - intros _. now replace (P + j - P) with j by lia.
Qed.

Lemma lor7 pfn : N.lor pfn 7 + 1 = 8 * (pfn / 8) + 8.
Proof.
  assert (H : N.lor pfn 7 = 7 + 2 ^ 3 * (pfn / 8)).
  { apply N.bits_inj. intros i. rewrite N.lor_spec, testbit_add_shift by reflexivity.
    change 7 with (N.ones 3). destruct (N.ltb_spec i 3) as [Hi|Hi].
    - rewrite N.ones_spec_low by exact Hi. apply orb_true_r.
    - rewrite N.ones_spec_high by exact Hi. rewrite orb_false_r.
      change 8 with (2 ^ 3). rewrite N.div_pow2_bits. f_equal. lia. }
  rewrite H. change (2 ^ 3) with 8. lia.
Qed.

Section Skeleton.
  Variables (msb0 want : bool).
  Variable first_hit : N -> N -> option N.
  Variable byte_hit : N -> option N.
  Variable word_hit : N -> N -> N -> N -> option N.
  Hypothesis Hbyte : forall b, b < 256 -> hit_spec (bbit msb0 b) 8 want (byte_hit b).
  Hypothesis Hfirst : forall b k, b < 256 -> k < 8 ->
    hit_spec (fun i => bbit msb0 b (k + i)) (8 - k) want (first_hit b k).
  Hypothesis Hword : forall b0 b1 b2 b3, b0 < 256 -> b1 < 256 -> b2 < 256 -> b3 < 256 ->
    hit_spec (wbits msb0 b0 b1 b2 b3) 32 want (word_hit b0 b1 b2 b3).

  Lemma byte_step b t P r : b < 256 ->
    match byte_hit b with Some j => r = P + j | None => scan_ok msb0 want t (P + 8) r end ->
    scan_ok msb0 want (b :: t) P r.
  Proof.
    intros Hb H. pose proof (Hbyte b Hb) as Hy. change (b :: t) with ([b] ++ t).
    destruct (byte_hit b) as [j|]; cbn [hit_spec] in Hy.
    - subst r. destruct Hy as (Hj & Hv & Hl). apply scan_ok_hit.
      + cbn [length]. lia.
      + cbn [app]. now rewrite lbit_cons_lo.
      + intros i Hi. cbn [app]. rewrite lbit_cons_lo by lia. now apply Hl.
    - apply scan_ok_skip.
      + intros q Hq. cbn [length] in Hq. cbn [app]. rewrite lbit_cons_lo by lia. apply Hy. lia.
      + cbn [length]. exact H.
  Qed.

  Lemma tail_bytes_ok l : forall P, wf_bytes l ->
    scan_ok msb0 want l P (tail_bytes byte_hit l P).
  Proof.
    induction l as [|b t IH]; intros P Hwf; cbn [tail_bytes]; [apply scan_ok_nil|].
    inversion Hwf as [|? ? Hb Hwf']; subst. apply byte_step; [exact Hb|].
    destruct (byte_hit b); [reflexivity|]. now apply IH.
  Qed.

  Lemma words_ok n : forall l P, (length l <= n)%nat -> wf_bytes l ->
    scan_ok msb0 want l P (words byte_hit word_hit l P).
  Proof.
    induction n as [|n IH]; intros l P Hlen Hwf.
    - destruct l; [apply scan_ok_nil|cbn [length] in Hlen; lia].
    - destruct l as [|b0 [|b1 [|b2 [|b3 t]]]]; try (now apply tail_bytes_ok).
      cbn [words].
      inversion Hwf as [|? ? Hb0 Hw1]; subst. inversion Hw1 as [|? ? Hb1 Hw2]; subst.
      inversion Hw2 as [|? ? Hb2 Hw3]; subst. inversion Hw3 as [|? ? Hb3 Hw4]; subst.
      pose proof (Hword b0 b1 b2 b3 Hb0 Hb1 Hb2 Hb3) as Hy.
      change (b0 :: b1 :: b2 :: b3 :: t) with ([b0; b1; b2; b3] ++ t).
      destruct (word_hit b0 b1 b2 b3) as [j|]; cbn [hit_spec] in Hy.
      + destruct Hy as (Hj & Hv & Hl). apply scan_ok_hit.
        * cbn [length]. lia.
        * cbn [app]. now rewrite lbit_4_lo.
        * intros i Hi. cbn [app]. rewrite lbit_4_lo by lia. now apply Hl.
      + apply scan_ok_skip.
        * intros q Hq. cbn [length] in Hq. cbn [app]. rewrite lbit_4_lo by lia. apply Hy. lia.
        * cbn [length]. replace (8 * N.of_nat 4) with 32 by reflexivity.
          apply IH; [cbn [length] in Hlen; lia|exact Hw4].
  Qed.

  Lemma head_bytes_ok l : forall addr P, wf_bytes l ->
    scan_ok msb0 want l P (head_bytes byte_hit word_hit addr l P).
  Proof.
    induction l as [|b t IH]; intros addr P Hwf; cbn [head_bytes]; [apply scan_ok_nil|].
    destruct (addr mod 4 =? 0).
    - apply (words_ok (length (b :: t))); [lia|exact Hwf].
    - inversion Hwf as [|? ? Hb Hwf']; subst. apply byte_step; [exact Hb|].
      destruct (byte_hit b); [reflexivity|]. now apply IH.
  Qed.

  (** the scanner as a whole: independent of [al] *)
  Definition least_at (bit : N -> bool) (start limit r : N) : Prop :=
    start <= r /\ r <= limit /\
    (forall p, start <= p -> p < r -> bit p <> want) /\
    (r < limit -> bit r = want).

  Theorem skip_ok al bm pfn : wf_bytes bm ->
    let r := skip first_hit byte_hit word_hit al bm pfn in
    if N.of_nat (length bm) <=? pfn / 8 then r = pfn
    else least_at (lbit msb0 bm) pfn (8 * N.of_nat (length bm)) r.
  Proof.
    intros Hwf. unfold skip. rewrite N.shiftr_div_pow2. change (2 ^ 3) with 8.
    destruct (N.leb_spec (N.of_nat (length bm)) (pfn / 8)) as [Hout|Hin]; [reflexivity|].
    cbn zeta.
    set (d := N.to_nat (pfn / 8)).
    assert (Hd : (d < length bm)%nat) by lia.
    pose proof (firstn_skipn d bm) as Hsplit.
    assert (Hpre : length (firstn d bm) = d) by (apply firstn_length_le; lia).
    destruct (skipn d bm) as [|b t] eqn:Es.
    { exfalso. assert (length (skipn d bm) = O) by now rewrite Es.
      rewrite skipn_length in H. lia. }
    assert (Hwf' : wf_bytes (b :: t)).
    { unfold wf_bytes in *. rewrite <- Hsplit in Hwf. apply Forall_app in Hwf. tauto. }
    inversion Hwf' as [|? ? Hb Hwt]; subst.
    change (N.land pfn 7) with (N.land pfn (N.ones 3)). rewrite N.land_ones.
    change (2 ^ 3) with 8.
    set (k := pfn mod 8). assert (Hk : k < 8) by (unfold k; lia).
    assert (Hlen : length bm = (d + S (length t))%nat).
    { rewrite <- Hsplit, app_length, Hpre. reflexivity. }
    assert (Hpfn : pfn = 8 * N.of_nat d + k) by (unfold d, k; lia).
    (* bits of bm at or above 8d are the bits of b :: t *)
    assert (Hshift : forall q, lbit msb0 bm (8 * N.of_nat d + q) = lbit msb0 (b :: t) q).
    { intros q. rewrite <- Hsplit. rewrite lbit_app_hi by (rewrite Hpre; lia).
      rewrite Hpre. f_equal. lia. }
    pose proof (Hfirst b k Hb Hk) as Hf.
    destruct (first_hit b k) as [j|]; cbn [hit_spec] in Hf.
    - destruct Hf as (Hj & Hv & Hl). unfold least_at. repeat split; try lia.
      + intros p Hp1 Hp2. replace p with (8 * N.of_nat d + (k + (p - pfn))) by lia.
        rewrite Hshift, lbit_cons_lo by lia. apply Hl. lia.
      + intros _. replace (pfn + j) with (8 * N.of_nat d + (k + j)) by lia.
        rewrite Hshift, lbit_cons_lo by lia. exact Hv.
    - rewrite lor7.
      pose proof (head_bytes_ok t (al + pfn / 8 + 1) (8 * (pfn / 8) + 8) Hwt)
        as (Ha & Hb' & Hc & Hd').
      set (r := head_bytes byte_hit word_hit (al + pfn / 8 + 1) t (8 * (pfn / 8) + 8)) in *.
      assert (Hbase : 8 * (pfn / 8) + 8 = 8 * N.of_nat d + 8) by (unfold d; lia).
      unfold least_at. repeat split; try lia.
      + intros p Hp1 Hp2. replace p with (8 * N.of_nat d + (p - 8 * N.of_nat d)) by lia.
        rewrite Hshift.
        destruct (N.lt_ge_cases (p - 8 * N.of_nat d) 8) as [Hlo|Hhi].
        * rewrite lbit_cons_lo by exact Hlo.
          replace (p - 8 * N.of_nat d) with (k + (p - pfn)) by lia. apply Hf. lia.
        * change (b :: t) with ([b] ++ t). rewrite lbit_app_hi by (cbn [length]; lia).
          cbn [length]. apply Hc. lia.
      + intros Hr. replace r with (8 * N.of_nat d + (r - 8 * N.of_nat d)) at 1 by lia.
        rewrite Hshift. change (b :: t) with ([b] ++ t).
        rewrite lbit_app_hi by (cbn [length]; lia). cbn [length].
        replace (r - 8 * N.of_nat d - 8 * N.of_nat 1) with (r - (8 * (pfn / 8) + 8)) by lia.
        apply Hd'. lia.
  Qed.
End Skeleton.

(** * The four scanners *)

Lemma lbit_bit_of msb0 bm p : lbit msb0 bm p = bit_of msb0 bm p.
Proof.
  unfold lbit, bit_of, bbit.
  destruct (N.leb_spec (N.of_nat (length bm)) (p / 8)) as [H|H]; [|reflexivity].
  assert (Hn : nth_error bm (N.to_nat (p / 8)) = None) by (apply nth_error_None; lia).
  now rewrite Hn.
Qed.

Lemma least_at_ext want f g start limit r :
  (forall p, f p = g p) -> least_at want f start limit r -> least_at want g start limit r.
Proof.
  intros E (H1 & H2 & H3 & H4). unfold least_at. repeat split; try assumption.
  - intros p Hp1 Hp2. rewrite <- E. now apply H3.
  - intros Hr. rewrite <- E. now apply H4.
Qed.

Definition first_facts b k (Hb : b < 256) (Hk : k < 8) :=
  proj2 (proj2 (proj2 (proj2 (byte_facts b Hb)))) k Hk.

(** [skip_clear_*] returns the least index >= [pfn] whose bit is set, or the
    size of the bitmap in bits; [pfn] itself if it lies beyond the bitmap.
    The buffer alignment [al] does not occur in the conclusion. *)
Theorem skip_clear_correct msb0 al bm pfn : wf_bytes bm ->
  let r := skip_clear msb0 al bm pfn in
  if N.of_nat (length bm) <=? pfn / 8 then r = pfn
  else least_at true (bit_of msb0 bm) pfn (8 * N.of_nat (length bm)) r.
Proof.
  intros Hwf. cbn zeta. unfold skip_clear.
  destruct msb0.
  - pose proof (skip_ok true true cm_first cm_byte cm_word
      (fun b Hb => proj1 (proj2 (byte_facts b Hb)))
      (fun b k Hb Hk => proj1 (proj2 (first_facts b k Hb Hk)))
      (fun b0 b1 b2 b3 => cm_word_ok b0 b1 b2 b3) al bm pfn Hwf) as H.
    cbn zeta in H. unfold skip_clear_msb0.
    destruct (N.of_nat (length bm) <=? pfn / 8); [exact H|].
    eapply least_at_ext; [|exact H]. intros p. apply lbit_bit_of.
  - pose proof (skip_ok false true cl_first cl_byte cl_word
      (fun b Hb => proj1 (byte_facts b Hb))
      (fun b k Hb Hk => proj1 (first_facts b k Hb Hk))
      (fun b0 b1 b2 b3 => cl_word_ok b0 b1 b2 b3) al bm pfn Hwf) as H.
    cbn zeta in H. unfold skip_clear_lsb0.
    destruct (N.of_nat (length bm) <=? pfn / 8); [exact H|].
    eapply least_at_ext; [|exact H]. intros p. apply lbit_bit_of.
Qed.

(** [skip_set_*] (repaired first byte for MSB-0): the least index >= [pfn]
    whose bit is clear, or the size in bits *)
Theorem skip_set_correct msb0 al bm pfn : wf_bytes bm ->
  let r := skip_set true msb0 al bm pfn in
  if N.of_nat (length bm) <=? pfn / 8 then r = pfn
  else least_at false (bit_of msb0 bm) pfn (8 * N.of_nat (length bm)) r.
Proof.
  intros Hwf. cbn zeta. unfold skip_set.
  destruct msb0.
  - pose proof (skip_ok true false (sm_first true) sm_byte sm_word
      (fun b Hb => proj1 (proj2 (proj2 (proj2 (byte_facts b Hb)))))
      (fun b k Hb Hk => proj2 (proj2 (proj2 (first_facts b k Hb Hk))))
      (fun b0 b1 b2 b3 => sm_word_ok b0 b1 b2 b3) al bm pfn Hwf) as H.
    cbn zeta in H. unfold skip_set_msb0.
    destruct (N.of_nat (length bm) <=? pfn / 8); [exact H|].
    eapply least_at_ext; [|exact H]. intros p. apply lbit_bit_of.
  - pose proof (skip_ok false false sl_first sl_byte sl_word
      (fun b Hb => proj1 (proj2 (proj2 (byte_facts b Hb))))
      (fun b k Hb Hk => proj1 (proj2 (proj2 (first_facts b k Hb Hk))))
      (fun b0 b1 b2 b3 => sl_word_ok b0 b1 b2 b3) al bm pfn Hwf) as H.
    cbn zeta in H. unfold skip_set_lsb0.
    destruct (N.of_nat (length bm) <=? pfn / 8); [exact H|].
    eapply least_at_ext; [|exact H]. intros p. apply lbit_bit_of.
Qed.

(** the pinned first-byte expression of [skip_set_msb0] is wrong: in the
    MSB-0 bitmap [8b d5] bits 7..9 are set, bit 10 is clear; started at 7 the
    scanner answers 8 (defect 28) *)
Lemma skip_set_msb0_pinned_wrong :
  skip_set false true 2 [139; 213] 7 = 8 /\ bit_of true [139; 213] 8 = true /\
  skip_set true true 2 [139; 213] 7 = 10.
Proof. vm_compute. repeat split; reflexivity. Qed.

(** * pfn_regions_from_bitmap yields the maximal runs of set bits *)

(* [rs] lists, in ascending order, exactly the maximal runs of set bits in [cur, hi);
   [pos] advances by [esz] per set bit; [first = false] says a run may not start at [cur] *)
Fixpoint runs_from (bit : N -> bool) (cur hi pos esz : N) (first : bool) (rs : list region) : Prop :=
  match rs with
  | [] => forall p, cur <= p -> p < hi -> bit p = false
  | r :: t =>
      cur <= g_pfn r /\ (first = false -> cur < g_pfn r) /\ 1 <= g_cnt r /\
      g_pfn r + g_cnt r <= hi /\
      (forall p, cur <= p -> p < g_pfn r -> bit p = false) /\
      (forall p, g_pfn r <= p -> p < g_pfn r + g_cnt r -> bit p = true) /\
      g_pos r = pos /\
      runs_from bit (g_pfn r + g_cnt r) hi (pos + g_cnt r * esz) esz false t
  end.

Lemma runs_from_extend bit c1 c2 hi pos esz f1 f2 rs :
  c1 <= c2 -> (forall p, c1 <= p -> p < c2 -> bit p = false) ->
  (f1 = false -> c1 < c2 \/ f2 = false) ->
  runs_from bit c2 hi pos esz f2 rs -> runs_from bit c1 hi pos esz f1 rs.
Proof.
  intros Hc Hclr Hf. destruct rs as [|r t]; cbn [runs_from].
  - intros H p Hp1 Hp2. destruct (N.lt_ge_cases p c2); [now apply Hclr|now apply H].
  - intros (H1 & H2 & H3 & H4 & H5 & H6 & H7 & H8).
    repeat split; try assumption; try lia.
    + intros Hf1. destruct (Hf Hf1) as [Hlt|Hf2]; [lia|]. specialize (H2 Hf2). lia.
    + intros p Hp1 Hp2. destruct (N.lt_ge_cases p c2); [now apply Hclr|now apply H5].
Qed.

Lemma runs_from_ext bit bit' cur hi pos esz first rs :
  (forall p, p < hi -> bit p = bit' p) ->
  runs_from bit cur hi pos esz first rs -> runs_from bit' cur hi pos esz first rs.
Proof.
  intros E. revert cur pos first. induction rs as [|r t IH]; intros cur pos first; cbn [runs_from].
  - intros H p Hp1 Hp2. rewrite <- E by exact Hp2. now apply H.
  - intros (H1 & H2 & H3 & H4 & H5 & H6 & H7 & H8).
    repeat split; try assumption.
    + intros p Hp1 Hp2. rewrite <- E by lia. now apply H5.
    + intros p Hp1 Hp2. rewrite <- E by lia. now apply H6.
    + now apply IH.
Qed.

Lemma add_region_cases rs r orc :
  (exists o, add_region rs r orc = (Some (rs ++ [r]), o) /\ (In false o -> In false orc)) \/
  (exists o, add_region rs r orc = (None, o) /\ In false orc).
Proof.
  unfold add_region. destruct (N.of_nat (length rs) mod RGN_ALLOC_INC =? 0).
  - destruct orc as [|[|] o].
    + left. exists []. split; [reflexivity|tauto].
    + left. exists o. split; [reflexivity|]. intros H. now right.
    + right. exists o. split; [reflexivity|now left].
  - left. exists orc. split; [reflexivity|tauto].
Qed.

Lemma not_true_false (b : bool) : b <> true -> b = false.
Proof. destruct b; congruence. Qed.
Lemma not_false_true (b : bool) : b <> false -> b = true.
Proof. destruct b; congruence. Qed.

Section Regions.
  Variables (msb0 : bool) (al : N) (bm : list N) (end_pfn esz : N).
  Hypothesis Hwf : wf_bytes bm.
  Hypothesis Hend : end_pfn <= 8 * N.of_nat (length bm).
  Let bit := bit_of msb0 bm.

  Lemma regions_loop_runs fuel : forall pfn pos rs orc first res orc',
    (first = false -> pfn < end_pfn -> bit pfn = false) ->
    (N.to_nat (end_pfn - pfn) + 2 <= fuel)%nat ->
    regions_loop fuel true msb0 al bm pfn end_pfn pos esz rs orc = (res, orc') ->
    match res with
    | ROk rs' => exists new, rs' = rs ++ new /\ runs_from bit pfn end_pfn pos esz first new
    | RNoMem _ => In false orc
    | ROob | RFuel => False
    end.
  Proof.
    induction fuel as [|fuel IH]; intros pfn pos rs orc first res orc' Hfirst Hfuel Hrun; [lia|].
    cbn [regions_loop] in Hrun.
    destruct (N.ltb_spec pfn end_pfn) as [Hlt|Hge].
    2:{ inversion Hrun; subst. exists []. split; [now rewrite app_nil_r|].
        cbn [runs_from]. intros p Hp1 Hp2. lia. }
    pose proof (skip_clear_correct msb0 al bm pfn Hwf) as Hc. cbn zeta in Hc.
    destruct (N.leb_spec (N.of_nat (length bm)) (pfn / 8)) as [Hx|_]; [lia|].
    set (rp := skip_clear msb0 al bm pfn) in *.
    destruct Hc as (Hc1 & Hc2 & Hc3 & Hc4).
    pose proof (skip_set_correct msb0 al bm rp Hwf) as Hs. cbn zeta in Hs.
    set (np := skip_set true msb0 al bm rp) in *.
    assert (Hnp : rp <= np /\ (rp < 8 * N.of_nat (length bm) ->
                   np <= 8 * N.of_nat (length bm) /\
                   (forall p, rp <= p -> p < np -> bit p = true) /\
                   (np < 8 * N.of_nat (length bm) -> bit np = false) /\ rp < np)).
    { destruct (N.leb_spec (N.of_nat (length bm)) (rp / 8)) as [Hx|Hx].
      - rewrite Hs. split; [lia|]. intros Hr. lia.
      - destruct Hs as (Hs1 & Hs2 & Hs3 & Hs4). split; [exact Hs1|]. intros Hr.
        split; [exact Hs2|]. split; [intros p Hp1 Hp2; apply not_false_true; now apply Hs3|].
        split; [exact Hs4|].
        destruct (N.eq_dec rp np) as [E|E]; [|lia]. exfalso.
        specialize (Hc4 Hr). rewrite E in Hc4. rewrite Hs4 in Hc4 by lia. discriminate. }
    destruct Hnp as [Hnp1 Hnp2].
    set (rp' := if end_pfn <? rp then end_pfn else rp) in *.
    set (np' := if end_pfn <? np then end_pfn else np) in *.
    assert (Hclr : forall p, pfn <= p -> p < rp -> bit p = false).
    { intros p Hp1 Hp2. apply not_true_false. now apply Hc3. }
    destruct (N.eqb_spec (np' - rp') 0) as [Hz|Hnz].
    - (* no region: the rest up to end_pfn is clear *)
      assert (Hnp' : np' = end_pfn /\ end_pfn <= rp).
      { unfold np', rp' in *.
        destruct (N.ltb_spec end_pfn rp); destruct (N.ltb_spec end_pfn np); lia. }
      destruct Hnp' as [Enp Hrp]. rewrite Enp in Hrun.
      specialize (IH end_pfn pos rs orc false res orc' ltac:(intros; lia) ltac:(lia) Hrun).
      destruct res; try exact IH.
      destruct IH as [new [E Hr]]. exists new. split; [exact E|].
      eapply (runs_from_extend bit pfn end_pfn); [lia| |right; reflexivity|exact Hr].
      intros p Hp1 Hp2. apply Hclr; lia.
    - (* a region [rp, np') *)
      assert (Hrp : rp' = rp /\ rp < end_pfn /\ rp < np').
      { unfold np', rp' in *.
        destruct (N.ltb_spec end_pfn rp); destruct (N.ltb_spec end_pfn np); lia. }
      destruct Hrp as (Erp & Hrp & Hrn).
      specialize (Hnp2 ltac:(lia)). destruct Hnp2 as (Hn1 & Hn2 & Hn3 & Hn4).
      assert (Hnp'le : np' <= np /\ np' <= end_pfn /\ (np' < end_pfn -> np' = np)).
      { unfold np'. destruct (N.ltb_spec end_pfn np); lia. }
      destruct Hnp'le as (Hle1 & Hle2 & Hle3).
      rewrite Erp in *.
      destruct (add_region_cases rs {| g_pfn := rp; g_cnt := np' - rp; g_pos := pos |} orc)
        as [[o [Ea Ho]]|[o [Ea Ho]]]; rewrite Ea in Hrun.
      + specialize (IH np' (pos + (np' - rp) * esz)
                       (rs ++ [{| g_pfn := rp; g_cnt := np' - rp; g_pos := pos |}]) o false res orc').
        assert (Hf' : false = false -> np' < end_pfn -> bit np' = false).
        { intros _ Hl. rewrite (Hle3 Hl). apply Hn3. lia. }
        specialize (IH Hf' ltac:(lia) Hrun).
        destruct res; try exact IH; [|now apply Ho].
        destruct IH as [new [E Hr]].
        exists ({| g_pfn := rp; g_cnt := np' - rp; g_pos := pos |} :: new).
        split; [rewrite E, <- app_assoc; reflexivity|].
        cbn [runs_from g_pfn g_cnt g_pos].
        replace (rp + (np' - rp)) with np' by lia.
        repeat split; try lia; try assumption.
        * intros Hf. specialize (Hfirst Hf Hlt).
          destruct (N.eq_dec pfn rp) as [E'|E']; [|lia].
          rewrite E' in Hfirst. unfold bit in Hfirst. rewrite (Hc4 ltac:(lia)) in Hfirst. discriminate.
        * intros p Hp1 Hp2. apply Hn2; lia.
      + inversion Hrun; subst. exact Ho.
  Qed.
End Regions.

Lemma bit_of_firstn msb0 bm n p : p < 8 * N.of_nat n -> (n <= length bm)%nat ->
  bit_of msb0 (firstn n bm) p = bit_of msb0 bm p.
Proof.
  intros Hp Hn. unfold bit_of. rewrite firstn_length_le by exact Hn.
  destruct (N.leb_spec (N.of_nat n) (p / 8)); [lia|].
  destruct (N.leb_spec (N.of_nat (length bm)) (p / 8)); [lia|].
  assert (E : nth_error (firstn n bm) (N.to_nat (p / 8)) = nth_error bm (N.to_nat (p / 8))).
  { rewrite <- (firstn_skipn n bm) at 2. rewrite nth_error_app1; [reflexivity|].
    rewrite firstn_length_le by exact Hn. lia. }
  now rewrite E.
Qed.

(** for every bitmap of at least (end_pfn + 7) / 8 bytes, either numbering,
    every buffer alignment and every allocation schedule: the regions added
    are exactly the maximal runs of set bits in [start_pfn, end_pfn), in
    ascending order, with [pos] advancing by [elemsz] per stored frame; the
    loop ends within its fuel and touches nothing outside the buffer *)
Theorem regions_are_runs msb0 al bm start_pfn end_pfn fileoff elemsz rs0 orc res orc' :
  wf_bytes bm -> (end_pfn + 7) / 8 <= N.of_nat (length bm) ->
  regions_from_bitmap true msb0 al bm start_pfn end_pfn fileoff elemsz rs0 orc = (res, orc') ->
  match res with
  | ROk rs' => exists new, rs' = rs0 ++ new /\
      runs_from (bit_of msb0 bm) start_pfn end_pfn fileoff elemsz true new
  | RNoMem _ => In false orc
  | ROob | RFuel => False
  end.
Proof.
  intros Hwf Hlen. unfold regions_from_bitmap. rewrite N.shiftr_div_pow2. change (2 ^ 3) with 8.
  destruct (N.ltb_spec (N.of_nat (length bm)) ((end_pfn + 7) / 8)) as [Hx|_]; [lia|].
  set (n := N.to_nat ((end_pfn + 7) / 8)).
  assert (Hn : (n <= length bm)%nat) by lia.
  assert (Hl : length (firstn n bm) = n) by now apply firstn_length_le.
  intros Hrun.
  assert (Hwf' : wf_bytes (firstn n bm)).
  { unfold wf_bytes in *. rewrite <- (firstn_skipn n bm) in Hwf. apply Forall_app in Hwf. tauto. }
  assert (Hend : end_pfn <= 8 * N.of_nat (length (firstn n bm))) by (rewrite Hl; lia).
  pose proof (regions_loop_runs msb0 al (firstn n bm) end_pfn elemsz Hwf' Hend
                (8 * length (firstn n bm) + 2) start_pfn fileoff rs0 orc true res orc'
                ltac:(discriminate) ltac:(rewrite Hl; lia) Hrun) as H.
  destruct res; try exact H.
  destruct H as [new [E Hr]]. exists new. split; [exact E|].
  eapply runs_from_ext; [|exact Hr].
  intros p Hp. apply bit_of_firstn; [lia|exact Hn].
Qed.

(** * set_bits / clear_bits change exactly the bits start..end *)

Definition sm8 (k : N) : N := (N.shiftl 1 k - 1) mod 256.
Definition em8 (k : N) : N := (N.shiftl 1 (k + 1) - 1) mod 256.

Lemma startmask_sm8 start : startmask start = sm8 (start mod 8).
Proof. unfold startmask, sm8. change 7 with (N.ones 3). now rewrite N.land_ones. Qed.
Lemma endmask_em8 e : endmask e = em8 (e mod 8).
Proof. unfold endmask, em8. change 7 with (N.ones 3). now rewrite N.land_ones. Qed.

Definition chk4 (b t k1 k2 : N) : bool :=
  Bool.eqb (N.testbit (N.lor b (N.land (not8 (sm8 k1)) (em8 k2))) t)
           (((k1 <=? t) && (t <=? k2)) || N.testbit b t) &&
  Bool.eqb (N.testbit (N.land b (N.lor (sm8 k1) (not8 (em8 k2)))) t)
           (((t <? k1) || (k2 <? t)) && N.testbit b t) &&
  (N.lor b (N.land (not8 (sm8 k1)) (em8 k2)) <? 256) &&
  (N.land b (N.lor (sm8 k1) (not8 (em8 k2))) <? 256).
Definition chk3 (b t k1 : N) : bool :=
  Bool.eqb (N.testbit (N.lor b (not8 (sm8 k1))) t) ((k1 <=? t) || N.testbit b t) &&
  Bool.eqb (N.testbit (N.lor b (em8 k1)) t) ((t <=? k1) || N.testbit b t) &&
  Bool.eqb (N.testbit (N.land b (sm8 k1)) t) ((t <? k1) && N.testbit b t) &&
  Bool.eqb (N.testbit (N.land b (not8 (em8 k1))) t) ((k1 <? t) && N.testbit b t) &&
  (N.lor b (not8 (sm8 k1)) <? 256) && (N.lor b (em8 k1) <? 256) &&
  (N.land b (sm8 k1) <? 256) && (N.land b (not8 (em8 k1)) <? 256) &&
  all_below 8 (chk4 b t k1).
Definition chk2 (b t : N) : bool :=
  Bool.eqb (N.testbit 255 t) true && all_below 8 (chk3 b t).
Definition chk1 (b : N) : bool := all_below 8 (chk2 b).

Lemma masks_checked_true : all_below 256 chk1 = true.
Proof. vm_compute. reflexivity. Qed.

Lemma mask_facts b t k1 k2 : b < 256 -> t < 8 -> k1 < 8 -> k2 < 8 ->
  N.testbit 255 t = true /\
  N.testbit (N.lor b (not8 (sm8 k1))) t = ((k1 <=? t) || N.testbit b t) /\
  N.testbit (N.lor b (em8 k1)) t = ((t <=? k1) || N.testbit b t) /\
  N.testbit (N.land b (sm8 k1)) t = ((t <? k1) && N.testbit b t) /\
  N.testbit (N.land b (not8 (em8 k1))) t = ((k1 <? t) && N.testbit b t) /\
  N.lor b (not8 (sm8 k1)) < 256 /\ N.lor b (em8 k1) < 256 /\
  N.land b (sm8 k1) < 256 /\ N.land b (not8 (em8 k1)) < 256 /\
  N.testbit (N.lor b (N.land (not8 (sm8 k1)) (em8 k2))) t
    = (((k1 <=? t) && (t <=? k2)) || N.testbit b t) /\
  N.testbit (N.land b (N.lor (sm8 k1) (not8 (em8 k2)))) t
    = (((t <? k1) || (k2 <? t)) && N.testbit b t) /\
  N.lor b (N.land (not8 (sm8 k1)) (em8 k2)) < 256 /\
  N.land b (N.lor (sm8 k1) (not8 (em8 k2))) < 256.
Proof.
  intros Hb Ht Hk1 Hk2.
  pose proof (all_below_spec 256 chk1 masks_checked_true b Hb) as G1. unfold chk1 in G1.
  pose proof (all_below_spec 8 (chk2 b) G1 t Ht) as G2. unfold chk2 in G2.
  apply andb_prop in G2. destruct G2 as [A0 G2].
  pose proof (all_below_spec 8 (chk3 b t) G2 k1 Hk1) as G3. unfold chk3 in G3.
  repeat (apply andb_prop in G3; destruct G3 as [G3 ?]).
  match goal with Hk : all_below 8 (chk4 b t k1) = true |- _ =>
    pose proof (all_below_spec 8 (chk4 b t k1) Hk k2 Hk2) as G4; unfold chk4 in G4; clear Hk end.
  repeat (apply andb_prop in G4; destruct G4 as [G4 ?]).
  clear G1 G2.
  repeat match goal with H : Bool.eqb _ _ = true |- _ => apply Bool.eqb_prop in H end.
  repeat match goal with H : (_ <? _) = true |- _ => apply N.ltb_lt in H end.
  repeat split; assumption.
Qed.

Lemma map_idx_nth f : forall l j0 i,
  nth_error (map_idx f j0 l) i = option_map (f (j0 + N.of_nat i)) (nth_error l i).
Proof.
  induction l as [|b t IH]; intros j0 i; cbn [map_idx].
  - destruct i; reflexivity.
  - destruct i as [|i]; cbn [nth_error].
    + cbn [option_map]. f_equal. f_equal. lia.
    + rewrite IH. f_equal. f_equal. lia.
Qed.

Lemma map_idx_length f : forall l j0, length (map_idx f j0 l) = length l.
Proof. induction l as [|b t IH]; intros j0; cbn [map_idx length]; [reflexivity|now rewrite IH]. Qed.

Lemma map_idx_wf f l j0 : wf_bytes l ->
  (forall j b, b < 256 -> f j b < 256) -> wf_bytes (map_idx f j0 l).
Proof.
  intros Hwf Hf. revert j0. induction Hwf as [|b t Hb _ IH]; intros j0; cbn [map_idx]; constructor.
  - now apply Hf.
  - apply IH.
Qed.

Definition rbit (raw : list N) (q : N) : bool := bit_of false raw q.

Lemma rbit_nth raw q : rbit raw q =
  match nth_error raw (N.to_nat (q / 8)) with Some b => N.testbit b (q mod 8) | None => false end.
Proof.
  unfold rbit. rewrite <- lbit_bit_of. reflexivity.
Qed.

Ltac split_div x xb xk Hx Hxk :=
  pose proof (N.div_mod x 8 ltac:(discriminate)) as Hx;
  pose proof (N.mod_lt x 8 ltac:(discriminate)) as Hxk;
  set (xb := x / 8) in *; set (xk := x mod 8) in *; clearbody xb xk.

Ltac cmp_cases :=
  repeat match goal with
  | |- context [?a <=? ?b] => destruct (N.leb_spec a b)
  | |- context [?a <? ?b] => destruct (N.ltb_spec a b)
  end; cbn [andb orb negb]; try reflexivity; try lia.

Theorem set_bits_spec buf s e : wf_bytes buf -> s <= e -> e / 8 < N.of_nat (length buf) ->
  exists buf', set_bits buf s e = Some buf' /\ length buf' = length buf /\ wf_bytes buf' /\
    forall q, rbit buf' q = ((s <=? q) && (q <=? e)) || rbit buf q.
Proof.
  intros Hwf Hse He. unfold set_bits. rewrite !N.shiftr_div_pow2. change (2 ^ 3) with 8.
  rewrite startmask_sm8, endmask_em8.
  split_div s sb sk Hs Hsk. split_div e eb ek He' Hek.
  destruct (N.leb_spec (N.of_nat (length buf)) eb) as [Hx|_]; [lia|].
  destruct (N.leb_spec (N.of_nat (length buf)) sb) as [Hx|_]; [lia|]. cbn [orb].
  eexists. split; [reflexivity|]. split; [apply map_idx_length|]. split.
  - apply map_idx_wf; [exact Hwf|]. intros j b Hb.
    destruct (mask_facts b 0 sk ek Hb ltac:(lia) Hsk Hek)
      as (_ & _ & _ & _ & _ & B1 & _ & _ & _ & _ & _ & B3 & _).
    destruct (mask_facts b 0 ek ek Hb ltac:(lia) Hek Hek)
      as (_ & _ & _ & _ & _ & _ & B2 & _).
    repeat match goal with |- context [if ?c then _ else _] => destruct c end; try assumption; lia.
  - intros q. rewrite !rbit_nth, map_idx_nth. rewrite N.add_0_l, Nnat.N2Nat.id.
    split_div q qb qk Hq Hqk.
    destruct (nth_error buf (N.to_nat qb)) as [b|] eqn:En; cbn [option_map].
    2:{ apply nth_error_None in En. cmp_cases. }
    assert (Hb : b < 256).
    { unfold wf_bytes in Hwf. rewrite Forall_forall in Hwf. apply Hwf. eapply nth_error_In; eauto. }
    destruct (mask_facts b qk sk ek Hb Hqk Hsk Hek)
      as (A0 & A1 & _ & _ & _ & _ & _ & _ & _ & A3 & _).
    destruct (mask_facts b qk ek ek Hb Hqk Hek Hek) as (_ & _ & A2 & _).
    destruct (N.ltb_spec sb eb) as [Hlt|Hge].
    + destruct (N.eqb_spec qb sb) as [E1|E1]; [rewrite A1; f_equal; cmp_cases|].
      destruct ((sb <? qb) && (qb <? eb))%bool eqn:Emid; [rewrite A0; cmp_cases|].
      destruct (N.eqb_spec qb eb) as [E2|E2]; [rewrite A2; f_equal; cmp_cases|].
      cmp_cases.
    + destruct (N.eqb_spec qb sb) as [E1|E1]; [rewrite A3; f_equal; cmp_cases|].
      cmp_cases.
Qed.

Theorem clear_bits_spec buf s e : wf_bytes buf -> s <= e -> e / 8 < N.of_nat (length buf) ->
  exists buf', clear_bits buf s e = Some buf' /\ length buf' = length buf /\ wf_bytes buf' /\
    forall q, rbit buf' q = negb ((s <=? q) && (q <=? e)) && rbit buf q.
Proof.
  intros Hwf Hse He. unfold clear_bits. rewrite !N.shiftr_div_pow2. change (2 ^ 3) with 8.
  rewrite startmask_sm8, endmask_em8.
  split_div s sb sk Hs Hsk. split_div e eb ek He' Hek.
  destruct (N.leb_spec (N.of_nat (length buf)) eb) as [Hx|_]; [lia|].
  destruct (N.leb_spec (N.of_nat (length buf)) sb) as [Hx|_]; [lia|]. cbn [orb].
  eexists. split; [reflexivity|]. split; [apply map_idx_length|]. split.
  - apply map_idx_wf; [exact Hwf|]. intros j b Hb.
    destruct (mask_facts b 0 sk ek Hb ltac:(lia) Hsk Hek)
      as (_ & _ & _ & _ & _ & _ & _ & B1 & _ & _ & _ & _ & B3).
    destruct (mask_facts b 0 ek ek Hb ltac:(lia) Hek Hek)
      as (_ & _ & _ & _ & _ & _ & _ & _ & B2 & _).
    repeat match goal with |- context [if ?c then _ else _] => destruct c end; try assumption; lia.
  - intros q. rewrite !rbit_nth, map_idx_nth. rewrite N.add_0_l, Nnat.N2Nat.id.
    split_div q qb qk Hq Hqk.
    destruct (nth_error buf (N.to_nat qb)) as [b|] eqn:En; cbn [option_map].
    2:{ now rewrite andb_false_r. }
    assert (Hb : b < 256).
    { unfold wf_bytes in Hwf. rewrite Forall_forall in Hwf. apply Hwf. eapply nth_error_In; eauto. }
    destruct (mask_facts b qk sk ek Hb Hqk Hsk Hek)
      as (_ & _ & _ & A1 & _ & _ & _ & _ & _ & _ & A3 & _).
    destruct (mask_facts b qk ek ek Hb Hqk Hek Hek) as (_ & _ & _ & _ & A2 & _).
    destruct (N.ltb_spec sb eb) as [Hlt|Hge].
    + destruct (N.eqb_spec qb sb) as [E1|E1]; [rewrite A1; f_equal; cmp_cases|].
      destruct ((sb <? qb) && (qb <? eb))%bool eqn:Emid; [rewrite N.bits_0; cmp_cases|].
      destruct (N.eqb_spec qb eb) as [E2|E2]; [rewrite A2; f_equal; cmp_cases|].
      cmp_cases.
    + destruct (N.eqb_spec qb sb) as [E1|E1]; [rewrite A3; f_equal; cmp_cases|].
      cmp_cases.
Qed.
