(** Proofs about Pfn/DdGeomModel.v: which bitmap feeds which page map. *)
From Coq Require Import NArith ZArith List Bool Lia.
From Coq Require Import ZifyBool ZifyNat ZifyN.
From KdV Require Import Base.Wrap64 Pfn.BitmapModel Pfn.RegionModel Pfn.PfnSpec
                        Pfn.BitmapProofs Pfn.RegionProofs Pfn.DdGeomModel.
Import ListNotations.
Local Open Scope N_scope.

Ltac Zify.zify_post_hook ::= Z.div_mod_to_equations.

(** a dump with two bitmaps of [h] blocks each: for every [max_pfn] up to and
    including the capacity 8 * h * bs of one bitmap, file.pagemap is read from the
    second bitmap, memory.pagemap from the first, [max_pfn] is kept *)
Theorem geom_two_bitmaps bs h max_pfn end_pfn :
  0 < bs -> 1 <= h -> max_pfn <= 8 * h * bs ->
  read_bitmap_geom false bs (2 * h) max_pfn end_pfn =
  {| file_off := h * bs; file_size := h * bs; mem_off := 0; mem_size := h * bs;
     max_pfn' := max_pfn;
     scan_end := if end_pfn <? 8 * h * bs then end_pfn else 8 * h * bs |}.
Proof.
  intros Hbs Hh Hm. unfold read_bitmap_geom.
  assert (E1 : 2 * h * bs * 8 / 2 = 8 * h * bs) by nia.
  rewrite E1. destruct (N.leb_spec max_pfn (8 * h * bs)) as [_|Hx]; [|lia].
  assert (E2 : 2 * h / 2 = h) by lia. rewrite E2.
  assert (E3 : h * bs * 8 = 8 * h * bs) by lia. rewrite E3.
  destruct (N.ltb_spec (8 * h * bs) max_pfn); [lia|]. reflexivity.
Qed.

(** more frames than half the area can describe: one bitmap of full length feeds
    both page maps and [max_pfn] is clipped to its capacity *)
Theorem geom_one_bitmap bs bb max_pfn end_pfn :
  bb * bs * 8 / 2 < max_pfn ->
  read_bitmap_geom false bs bb max_pfn end_pfn =
  {| file_off := 0; file_size := bb * bs; mem_off := 0; mem_size := bb * bs;
     max_pfn' := if bb * bs * 8 <? max_pfn then bb * bs * 8 else max_pfn;
     scan_end := if end_pfn <? bb * bs * 8 then end_pfn else bb * bs * 8 |}.
Proof.
  intros Hm. unfold read_bitmap_geom.
  destruct (N.leb_spec max_pfn (bb * bs * 8 / 2)); [lia|]. reflexivity.
Qed.

(** with the narrowed test of seeded/C07-a1 a dump whose bitmaps are exactly full
    is read as one bitmap: file.pagemap is built from the memory bitmap *)
Theorem geom_strict_boundary_wrong bs h end_pfn : 0 < bs -> 1 <= h ->
  file_off (read_bitmap_geom true bs (2 * h) (8 * h * bs) end_pfn) = 0 /\
  file_size (read_bitmap_geom true bs (2 * h) (8 * h * bs) end_pfn) = 2 * h * bs.
Proof.
  intros Hbs Hh. unfold read_bitmap_geom.
  assert (E1 : 2 * h * bs * 8 / 2 = 8 * h * bs) by nia.
  rewrite E1. rewrite N.ltb_irrefl. cbn [file_off file_size]. split; reflexivity.
Qed.

Lemma slice_second (a b : list N) n : length a = N.to_nat n -> length b = N.to_nat n ->
  slice (a ++ b) n n = b.
Proof.
  intros Ha Hb. unfold slice. rewrite <- Ha at 2.
  rewrite skipn_app, skipn_all, Nat.sub_diag. cbn [skipn app].
  rewrite <- Hb. apply firstn_all.
Qed.

Lemma slice_first (a b : list N) n : length a = N.to_nat n -> slice (a ++ b) 0 n = a.
Proof.
  intros Ha. unfold slice. cbn [N.to_nat skipn]. rewrite <- Ha.
  rewrite firstn_app, firstn_all, Nat.sub_diag. cbn [firstn]. apply app_nil_r.
Qed.

(** the regions behind file.pagemap are the maximal runs of the *dumpable*
    bitmap (clipped to the file's window), those behind memory.pagemap the
    maximal runs of the *memory* bitmap — for every max_pfn up to the exact
    capacity, every block size and number of blocks *)
Theorem dd_sources al (mem dump : list N) bs h max_pfn :
  0 < bs -> 1 <= h -> max_pfn <= 8 * h * bs ->
  length mem = N.to_nat (h * bs) -> length dump = N.to_nat (h * bs) ->
  wf_bytes mem -> wf_bytes dump ->
  (forall start_pfn end_pfn descoff orc res orc',
     dd_file_regions false al (mem ++ dump) bs (2 * h) max_pfn start_pfn end_pfn descoff orc = (res, orc') ->
     match res with
     | ROk rs => runs_from (bit_of false dump) start_pfn
                           (if end_pfn <? 8 * h * bs then end_pfn else 8 * h * bs) descoff 24 true rs
     | RNoMem _ => In false orc
     | ROob | RFuel => False
     end) /\
  (forall orc res orc',
     dd_mem_regions false al (mem ++ dump) bs (2 * h) max_pfn orc = (res, orc') ->
     match res with
     | ROk rs => runs_from (bit_of false mem) 0 (8 * h * bs) 0 0 true rs
     | RNoMem _ => In false orc
     | ROob | RFuel => False
     end).
Proof.
  intros Hbs Hh Hm Hlm Hld Hwm Hwd. split.
  - intros start_pfn end_pfn descoff orc res orc' H. unfold dd_file_regions in H.
    rewrite (geom_two_bitmaps bs h max_pfn end_pfn Hbs Hh Hm) in H.
    cbn [file_off file_size scan_end] in H. rewrite (slice_second mem dump (h * bs) Hlm Hld) in H.
    assert (Hlen : ((if end_pfn <? 8 * h * bs then end_pfn else 8 * h * bs) + 7) / 8
                   <= N.of_nat (length dump)).
    { destruct (N.ltb_spec end_pfn (8 * h * bs)); lia. }
    pose proof (regions_are_runs false al dump start_pfn _ descoff 24 [] orc res orc' Hwd Hlen H) as R.
    destruct res; try exact R. destruct R as [new [E Hr]]. cbn [app] in E. now subst.
  - intros orc res orc' H. unfold dd_mem_regions in H.
    rewrite (geom_two_bitmaps bs h max_pfn MAXA Hbs Hh Hm) in H.
    cbn [mem_off mem_size] in H. rewrite (slice_first mem dump (h * bs) Hlm) in H.
    replace (h * bs * 8) with (8 * h * bs) in H by lia.
    assert (Hlen : (8 * h * bs + 7) / 8 <= N.of_nat (length mem)) by lia.
    pose proof (regions_are_runs false al mem 0 _ 0 0 [] orc res orc' Hwm Hlen H) as R.
    destruct res; try exact R. destruct R as [new [E Hr]]. cbn [app] in E. now subst.
Qed.

(** a page is found by diskdump_read_page (no "Excluded page" / "Out-of-bounds")
    exactly when it is below max_pfn and its file.pagemap bit is set *)
Theorem dd_page_stored_spec maps maxp p : wf_maps maps -> p < W ->
  exists b, dd_page_stored maps maxp p = Val b /\ b = (p <? maxp) && mapped maps p.
Proof.
  intros Hwf Hp. unfold dd_page_stored.
  destruct (N.leb_spec maxp p) as [Hge|Hlt].
  - exists false. split; [reflexivity|]. destruct (N.ltb_spec p maxp); [lia|reflexivity].
  - destruct (page_lookup_iff_mapped maps p Hwf Hp) as [o [Ho Hiff]]. rewrite Ho.
    destruct (N.ltb_spec p maxp); [|lia]. cbn [andb].
    destruct o as [pos|].
    + exists true. split; [reflexivity|]. destruct (mapped maps p); [reflexivity|].
      destruct Hiff as [_ Hb]. specialize (Hb eq_refl). discriminate.
    + exists false. split; [reflexivity|]. symmetry. now apply Hiff.
Qed.
