(** "bit set <=> readable", per format: the page-map theorems of C07 composed
    with the reader theorems of C01 (Fmt/).  For every well-formed encoded image,
    bit p of file.pagemap (as the region lists of the opened state define it,
    [mapped]) is set exactly when the reader's page read of p does not return
    NODATA with zero-fill off, and that is exactly when the image has the page. *)
From Coq Require Import NArith ZArith List Bool Lia.
From Coq Require Import ZifyBool ZifyNat ZifyN.
From KdV Require Import Base.Wrap64 Pfn.BitmapModel Pfn.RegionModel Pfn.PfnSpec Pfn.DdGeomModel Pfn.DdGeomProofs Pfn.SadGeomModel Pfn.SadGeomProofs
                        Pfn.BitmapProofs Pfn.RegionProofs Pfn.FmtBridge.
From KdV Require Import Fmt.Codec Fmt.CodecProofs Fmt.ImageSpec Fmt.BitmapSpec Fmt.PfnProofs.
From KdV Require Fmt.PfnModel Fmt.DiskdumpModel Fmt.DiskdumpSpec Fmt.DiskdumpProofs.
Import ListNotations.
Local Open Scope N_scope.

Definition has_page (img : image) (p : N) : bool :=
  match nth_error img (N.to_nat p) with Some (Some _) => true | _ => false end.

(** * bits of a packed bitmap *)
Lemma bit_of_packed msb0 n bits p : (length bits <= 8 * n)%nat ->
  bit_of msb0 (bits_to_bytes msb0 n bits) p = nth (N.to_nat p) bits false.
Proof.
  intros Hlen. rewrite <- (Nnat.N2Nat.id p) at 1. rewrite <- nth_bits_of_bytes.
  change (F.bits_of_bytes msb0 (bits_to_bytes msb0 n bits))
    with (Fmt.PfnModel.bits_of_bytes msb0 (bits_to_bytes msb0 n bits)).
  rewrite unpack_bits_to_bytes, (padded_short _ _ Hlen). apply nth_app_repeat.
Qed.

Lemma nth_is_some_img {A} (l : list (option A)) k :
  nth k (map (@is_some A) l) false = match nth_error l k with Some (Some _) => true | _ => false end.
Proof.
  revert k. induction l as [|x t IH]; intros k.
  - destruct k; reflexivity.
  - destruct k as [|k]; cbn [map nth nth_error].
    + destruct x; reflexivity.
    + apply IH.
Qed.

(** what "not NODATA" means for the specified read *)
Lemma spec_read_readable img pgsz max_pfn p : N.of_nat (length img) <= max_pfn ->
  (spec_read_page img pgsz max_pfn false p <> Err ERR_NODATA <-> has_page img p = true).
Proof.
  intros Hlen. unfold spec_read_page, has_page.
  destruct (N.leb_spec max_pfn p) as [Hge|Hlt].
  - assert (E : nth_error img (N.to_nat p) = None) by (apply nth_error_None; lia).
    rewrite E. split; [intros H; now elim H|discriminate].
  - destruct (nth_error img (N.to_nat p)) as [[c|]|]; split; try discriminate; try reflexivity;
      intros H; now elim H.
Qed.

(** * diskdump, one file holding the whole dump *)
Module DD.
  Import Fmt.PfnModel Fmt.DiskdumpModel Fmt.DiskdumpSpec Fmt.DiskdumpProofs.

  Section Single.
    Variable decompress : N -> bytes -> option bytes.
    Variable l : dd_layout.
    Variable pages : list (option dd_page).
    Variable img : image.
    Hypothesis Hwf : dd_wf l img.
    Hypothesis Hns : dl_split l = false.
    Hypothesis Hst : Forall2 (stores decompress) pages img.
    Hypothesis Hsize : len (encode_dd l pages) < 2^64.

    Let rd := read_files [encode_dd l pages].
    Let st := expected_state l pages.
    Let maps := map conv_map (dd_maps st).

    Lemma len_pages : length pages = length img.
    Proof. exact (Forall2_len _ _ _ Hst). Qed.

    Lemma bmbytes_bound : N.of_nat (length pages) <= 8 * (dl_bmp_blocks l * dl_page_size l) /\
                          8 * (dl_bmp_blocks l * dl_page_size l) < W.
    Proof.
      pose proof (wf_img_len _ _ Hwf). pose proof (wf_cover _ _ Hwf).
      destruct (wf_bmp _ _ Hwf) as [_ Hb]. destruct (wf_pgsz _ _ Hwf) as [k [Hk Ek]].
      rewrite len_pages. split; [lia|].
      assert (dl_page_size l <= 262144).
      { rewrite Ek. change 262144 with (2 ^ 18). apply N.pow_le_mono_r; lia. }
      assert (dl_bmp_blocks l < 2 ^ 31).
      { unfold bitmap_blocks in Hb. destruct (dl_two_bitmaps l); lia. }
      rewrite W_val. change (2 ^ 31) with 2147483648 in *. nia.
    Qed.

    (* the one file map of the state, in C07 terms *)
    Lemma mapped_is_page p : mapped maps p = has_page img p.
    Proof.
      unfold maps, st, expected_state. cbn [dd_maps map]. unfold mapped. cbn [existsb].
      rewrite orb_false_r. unfold mapped1, conv_map. cbn [regions the_map pm_regions].
      rewrite fmt_regions_mapped.
      destruct bmbytes_bound as [Hb1 Hb2].
      rewrite bit_of_packed by (rewrite map_length; lia).
      rewrite nth_is_some_img. unfold has_page.
      assert (Ei : match nth_error pages (N.to_nat p) with Some (Some _) => true | _ => false end
                   = match nth_error img (N.to_nat p) with Some (Some _) => true | _ => false end).
      { pose proof (Forall2_nth_error _ _ _ Hst (N.to_nat p)) as R.
        destruct (nth_error pages (N.to_nat p)) as [[x|]|]; destruct (nth_error img (N.to_nat p)) as [[y|]|];
          try contradiction; reflexivity. }
      rewrite Ei.
      destruct (nth_error img (N.to_nat p)) as [[c|]|] eqn:En; try reflexivity.
      assert (Hp : (N.to_nat p < length img)%nat) by (apply nth_error_Some; congruence).
      unfold lim, win_start, win_end. rewrite Hns. cbn [andb].
      destruct (N.leb_spec 0 p); [|lia].
      destruct (N.ltb_spec (2 ^ 64 - 1) (dl_bmp_blocks l * dl_page_size l * 8)) as [Hx|Hx].
      - rewrite W_val in Hb2. lia.
      - destruct (N.ltb_spec p (dl_bmp_blocks l * dl_page_size l * 8)); [reflexivity|].
        rewrite len_pages in Hb1. lia.
    Qed.

    Lemma maps_wf : wf_maps maps.
    Proof.
      unfold maps, st, expected_state. cbn [dd_maps map]. split; [|repeat constructor].
      constructor; [|constructor].
      destruct bmbytes_bound as [Hb1 Hb2].
      pose proof (fmt_runs_from false
        (bits_to_bytes false (N.to_nat (dl_bmp_blocks l * dl_page_size l)) (map is_some pages))
        (win_start l) (lim l)
        ((1 + dl_sub_blocks l + bitmap_blocks l) * dl_page_size l) PAGE_DESC_SIZE) as Hr.
      destruct (runs_facts _ _ _ _ _ _ _ Hr) as (A1 & A2 & _).
      assert (Hlen : N.of_nat (length (bits_to_bytes false (N.to_nat (dl_bmp_blocks l * dl_page_size l))
                                                     (map is_some pages)))
                     = dl_bmp_blocks l * dl_page_size l).
      { pose proof (len_bits_to_bytes false (N.to_nat (dl_bmp_blocks l * dl_page_size l)) (map is_some pages)) as E.
        unfold len in E. lia. }
      rewrite Hlen in A1.
      unfold wf_map, conv_map. cbn [regions start_pfn end_pfn the_map pm_start pm_end pm_regions].
      unfold win_start, win_end in A1, A2 |- *. rewrite Hns in A1, A2 |- *.
      split; [lia|]. split; [rewrite W_val; reflexivity|]. split.
      - split; [|exact A2]. eapply Forall_impl; [|exact A1]. cbn beta. intros a (H1 & H2 & H3).
        split; [exact H3|]. unfold rend in *. lia.
      - eapply Forall_impl; [|exact A1]. cbn beta. intros a (H1 & H2 & H3).
        split; [lia|]. unfold rend in *. rewrite W_val in Hb2. lia.
    Qed.

    (** file.pagemap bit p is set <=> the image has page p <=> reading p does not
        report missing data *)
    Theorem bit_iff_readable :
      dd_open rd 1 = Ok st /\ wf_maps maps /\
      forall p,
        mapped maps p = has_page img p /\
        (mapped maps p = true <-> dd_read_page rd decompress st false p <> Err ERR_NODATA).
    Proof.
      split; [exact (single_open l pages img Hwf Hsize)|]. split; [exact maps_wf|].
      intros p. split; [apply mapped_is_page|].
      unfold rd, st. rewrite (read_page_spec decompress l pages img Hwf Hst Hsize false p Hns).
      rewrite mapped_is_page. symmetry. apply spec_read_readable. exact (wf_img_len _ _ Hwf).
    Qed.
  End Single.
End DD.

(** * SADUMP, single partition *)
From KdV Require Fmt.SadumpModel Fmt.SadumpSpec Fmt.SadumpProofs Fmt.SadumpOpenProofs.

Module SD.
  Import Fmt.PfnModel Fmt.SadumpModel Fmt.SadumpSpec Fmt.SadumpProofs Fmt.SadumpOpenProofs.

  (* the one map behind file.pagemap: read_bitmap sets start_pfn = 0, end_pfn = 8 * bmp_len *)
  Definition file_map (st : sd_state) (nb : nat) : fmap :=
    {| regions := map conv_region (sd_regions st); start_pfn := 0; end_pfn := 8 * N.of_nat nb |}.

  Section Single.
    Variable l : sd_layout.
    Variable img : image.
    Hypothesis Hwf : sd_wf l img.

    Let rd := read_files (encode_sadump l img).

    Lemma nbytes_bounds : N.of_nat (length img) <= 8 * N.of_nat (nbytes l) /\ 8 * N.of_nat (nbytes l) < W.
    Proof.
      pose proof (sw_base _ _ Hwf) as Hb. destruct (sw_cover _ _ Hb) as [H1 H2].
      destruct (sw_bitmaps _ _ Hb) as [_ Hd]. destruct (sw_bs _ _ Hb) as [k [Hk Ek]].
      unfold nbytes. split; [lia|].
      assert (sl_block_size l <= 1048576).
      { rewrite Ek. change 1048576 with (2 ^ 20). apply N.pow_le_mono_r; lia. }
      rewrite W_val. change (2 ^ 32) with 4294967296 in Hd. nia.
    Qed.

    Theorem bit_iff_readable :
      exists st, sd_open rd 1 = Ok st /\
        let m := file_map st (nbytes l) in
        wf_map m /\
        forall p,
          mapped1 m p = has_page img p /\
          (mapped1 m p = true <-> sd_read_page rd st false p <> Err ERR_NODATA).
    Proof.
      destruct (sadump_single_roundtrip l img Hwf) as [st (Hopen & _ & _ & _ & Hread)].
      exists st. split; [exact Hopen|].
      pose proof (sd_open_single l img Hwf) as H2.
      unfold rd in *. rewrite (enc_single l img Hwf) in Hopen. rewrite H2 in Hopen.
      injection Hopen as Est. subst st. clear H2.
      destruct nbytes_bounds as [Hb1 Hb2].
      pose proof (sw_base _ _ Hwf) as Hb. destruct (sw_cover _ _ Hb) as [_ Himg].
      cbn zeta. unfold file_map. cbn [sd_regions the_state].
      pose proof (fmt_runs_from true (bm img (nbytes l)) 0 (N.of_nat (8 * nbytes l)) 0 SADUMP_PAGE_SIZE) as Hr.
      destruct (runs_facts _ _ _ _ _ _ _ Hr) as (A1 & A2 & _).
      assert (Hlen : N.of_nat (length (bm img (nbytes l))) = N.of_nat (nbytes l)).
      { pose proof (Fmt.DiskdumpProofs.len_bits_to_bytes true (nbytes l) (map is_some img)) as E. unfold len, bm in *. exact E. }
      rewrite Hlen in A1.
      assert (Hmap : forall p, mapped1 {| regions := map conv_region
                        (regions_from_bitmap true (bm img (nbytes l)) 0 (N.of_nat (8 * nbytes l)) 0 SADUMP_PAGE_SIZE);
                        start_pfn := 0; end_pfn := 8 * N.of_nat (nbytes l) |} p = has_page img p).
      { intros p. unfold mapped1. cbn [regions]. rewrite fmt_regions_mapped. unfold bm.
        rewrite bit_of_packed by (rewrite map_length; lia).
        rewrite nth_is_some_img. unfold has_page.
        destruct (nth_error img (N.to_nat p)) as [[c|]|] eqn:En; try reflexivity.
        assert (Hp : (N.to_nat p < length img)%nat) by (apply nth_error_Some; congruence).
        destruct (N.leb_spec 0 p); [|lia].
        destruct (N.ltb_spec p (N.of_nat (8 * nbytes l))); [reflexivity|lia]. }
      split; [|intros p; split; [apply Hmap|]].
      - unfold wf_map. cbn [regions start_pfn end_pfn].
        split; [lia|]. split; [exact Hb2|]. split.
        + split; [|exact A2]. eapply Forall_impl; [|exact A1]. cbn beta. intros a (H1 & H2 & H3).
          split; [exact H3|]. unfold rend in *. lia.
        + eapply Forall_impl; [|exact A1]. cbn beta. intros a (H1 & H2 & H3). split; [lia|exact H2].
      - rewrite Hmap. rewrite Hread.
        symmetry. apply spec_read_readable. exact Himg.
    Qed.
  End Single.
End SD.

(** * memory.pagemap: exactly the frames the encoder marks as RAM *)

Lemma byte_of_bits_lt l : byte_of_bits l < 2 ^ N.of_nat (length l).
Proof.
  induction l as [|b t IH]; [cbn; lia|]. cbn [byte_of_bits fold_right length].
  fold (byte_of_bits t). rewrite Nnat.Nat2N.inj_succ, N.pow_succ_r'. destruct b; lia.
Qed.

Lemma pack_byte_lt msb0 l : pack_byte msb0 l < 256.
Proof.
  unfold pack_byte. change 256 with (2 ^ N.of_nat 8).
  destruct msb0.
  - rewrite <- (take8_length l), <- rev_length. apply byte_of_bits_lt.
  - rewrite <- (take8_length l). apply byte_of_bits_lt.
Qed.

Lemma bits_to_bytes_wf msb0 n : forall bits, wf_bytes (bits_to_bytes msb0 n bits).
Proof.
  induction n as [|n IH]; intros bits; cbn [bits_to_bytes]; [constructor|].
  constructor; [apply pack_byte_lt|apply IH].
Qed.

Lemma bits_to_bytes_length msb0 n : forall bits, length (bits_to_bytes msb0 n bits) = n.
Proof. induction n as [|n IH]; intros bits; cbn [bits_to_bytes length]; [reflexivity|now rewrite IH]. Qed.

(* regions that are the runs of a packed bit list contain exactly the set bits *)
Lemma packed_runs_membership msb0 n bits pos esz rs :
  (length bits <= 8 * n)%nat ->
  runs_from (bit_of msb0 (bits_to_bytes msb0 n bits)) 0 (8 * N.of_nat n) pos esz true rs ->
  forall p, existsb (fun r => inb r p) rs = nth (N.to_nat p) bits false.
Proof.
  intros Hlen Hr p. destruct (runs_facts _ _ _ _ _ _ _ Hr) as (_ & _ & H). rewrite H.
  rewrite bit_of_packed by exact Hlen.
  destruct (N.leb_spec 0 p); [|lia]. cbn [andb].
  destruct (N.ltb_spec p (8 * N.of_nat n)); [reflexivity|].
  cbn [andb]. symmetry. apply nth_overflow. lia.
Qed.

(** diskdump with two bitmaps: the regions [mem_pagemap_revalidate] builds (C07's
    geometry + scanner models, applied to the bitmap area [encode_dd] writes) hold
    exactly the frames of the 1st bitmap: stored pages and the extra RAM frames *)
Theorem dd_memory_pagemap (l : Fmt.DiskdumpSpec.dd_layout) (pages : list (option Fmt.DiskdumpSpec.dd_page)) img al orc res o' :
  Fmt.DiskdumpSpec.dd_wf l img -> Fmt.DiskdumpSpec.dl_two_bitmaps l = true ->
  let pgsz := Fmt.DiskdumpSpec.dl_page_size l in
  let h := Fmt.DiskdumpSpec.dl_bmp_blocks l in
  let nb := N.to_nat (h * pgsz) in
  let bits := map (@is_some _) pages in
  let ram := Fmt.DiskdumpSpec.orb_lists bits (Fmt.DiskdumpSpec.dl_mem_extra l) in
  (length ram <= 8 * nb)%nat ->
  DdGeomModel.dd_mem_regions false al (bits_to_bytes false nb ram ++ bits_to_bytes false nb bits)
                             pgsz (2 * h) (Fmt.DiskdumpSpec.dl_max_mapnr l) orc = (res, o') ->
  match res with
  | ROk rs => forall p, existsb (fun r => inb r p) rs = nth (N.to_nat p) ram false
  | RNoMem _ => In false orc
  | ROob | RFuel => False
  end.
Proof.
  intros Hwf Htwo pgsz h nb bits ram Hlen Hrun.
  destruct (Fmt.DiskdumpSpec.wf_pgsz _ _ Hwf) as [k [Hk Ek]].
  assert (Hpg : 0 < pgsz) by (unfold pgsz; rewrite Ek; apply N.neq_0_lt_0; apply N.pow_nonzero; discriminate).
  destruct (Fmt.DiskdumpSpec.wf_bmp _ _ Hwf) as [Hh _].
  pose proof (Fmt.DiskdumpSpec.wf_cover _ _ Hwf) as Hcov.
  destruct (DdGeomProofs.dd_sources al (bits_to_bytes false nb ram) (bits_to_bytes false nb bits)
              pgsz h (Fmt.DiskdumpSpec.dl_max_mapnr l) Hpg Hh ltac:(unfold h, pgsz; lia)
              ltac:(rewrite bits_to_bytes_length; reflexivity) ltac:(rewrite bits_to_bytes_length; reflexivity)
              (bits_to_bytes_wf _ _ _) (bits_to_bytes_wf _ _ _)) as [_ Hmem].
  specialize (Hmem orc res o' Hrun). destruct res; try exact Hmem.
  intros p. apply (packed_runs_membership false nb ram 0 0 rs Hlen).
  replace (8 * N.of_nat nb) with (8 * h * pgsz) by (unfold nb; lia). exact Hmem.
Qed.

(** SADUMP: file.pagemap's regions (geometry + scanner models on the two bitmaps
    the writer lays out) hold exactly the dumped frames, memory.pagemap's exactly
    the frames of the memory bitmap *)
Theorem sd_pagemap_sources al mbits dbits rest hdr_pos bs sub bb db max_pfn orc :
  (length mbits <= 8 * N.to_nat (bs * bb))%nat -> (length dbits <= 8 * N.to_nat (bs * db))%nat ->
  let mem := bits_to_bytes true (N.to_nat (bs * bb)) mbits in
  let dump := bits_to_bytes true (N.to_nat (bs * db)) dbits in
  let g := SadGeomModel.sadump_geom hdr_pos bs sub bb db in
  match fst (snd (SadGeomModel.sd_file_regions al (mem ++ dump ++ rest) g max_pfn orc)) with
  | ROk rs => forall p, existsb (fun r => inb r p) rs = nth (N.to_nat p) dbits false
  | RNoMem _ => In false orc
  | ROob | RFuel => False
  end /\
  match fst (snd (SadGeomModel.sd_mem_regions al (mem ++ dump ++ rest) g max_pfn orc)) with
  | ROk rs => forall p, existsb (fun r => inb r p) rs = nth (N.to_nat p) mbits false
  | RNoMem _ => In false orc
  | ROob | RFuel => False
  end.
Proof.
  intros Hlm Hld mem dump g.
  destruct (SadGeomProofs.sadump_sources al mem dump rest hdr_pos bs sub bb db max_pfn
              ltac:(unfold mem; apply bits_to_bytes_length) ltac:(unfold dump; apply bits_to_bytes_length)
              (bits_to_bytes_wf _ _ _) (bits_to_bytes_wf _ _ _)) as [Hf Hm].
  split.
  - destruct (Hf orc) as [_ H]. fold g in H.
    destruct (fst (snd (SadGeomModel.sd_file_regions al (mem ++ dump ++ rest) g max_pfn orc))); try exact H.
    intros p. apply (packed_runs_membership true (N.to_nat (bs * db)) dbits 0 SadGeomModel.SADUMP_PAGE rs Hld).
    replace (8 * N.of_nat (N.to_nat (bs * db))) with (bs * db * 8) by lia. exact H.
  - destruct (Hm orc) as [_ H]. fold g in H.
    destruct (fst (snd (SadGeomModel.sd_mem_regions al (mem ++ dump ++ rest) g max_pfn orc))); try exact H.
    intros p. apply (packed_runs_membership true (N.to_nat (bs * bb)) mbits 0 SadGeomModel.SADUMP_PAGE rs Hlm).
    replace (8 * N.of_nat (N.to_nat (bs * bb))) with (bs * bb * 8) by lia. exact H.
Qed.

(** * ELF: page-aligned LOAD segments *)
From KdV Require Fmt.ElfSpec Fmt.ElfModel Fmt.ElfProofs Fmt.ElfOpenProofs Fmt.ElfRoundtrip.
From KdV Require Import Pfn.ElfBitsModel Pfn.ElfProofs.
From Coq Require Import Sorting.Sorted.

Lemma covers_arith P a c p : 0 < P ->
  (N.max (P * a) (P * p) <? N.min (P * a + P * c) (P * p + P)) = (a <=? p) && (p <? a + c).
Proof.
  intros HP.
  destruct (N.leb_spec a p) as [Hap|Hap]; destruct (N.ltb_spec p (a + c)) as [Hpc|Hpc]; cbn [andb].
  - apply N.ltb_lt. assert (P * (p + 1) <= P * (a + c)) by (apply N.mul_le_mono_l; lia).
    assert (P * a <= P * p) by (apply N.mul_le_mono_l; lia). lia.
  - apply N.ltb_ge. assert (P * (a + c) <= P * p) by (apply N.mul_le_mono_l; lia). lia.
  - apply N.ltb_ge. assert (P * (p + 1) <= P * a) by (apply N.mul_le_mono_l; lia). lia.
  - apply N.ltb_ge. assert (P * (p + 1) <= P * a) by (apply N.mul_le_mono_l; lia). lia.
Qed.

Module EL.
  Import Fmt.ElfSpec Fmt.ElfModel Fmt.ElfOpenProofs.

  Definition of_ls (a : load_segment) : seg :=
    {| phys := ls_phys a; filesz := ls_filesz a; memsz := ls_memsz a |}.

  (* the covered flag of spec_elf_page (physical, zero-fill off) *)
  Definition covers (pgsz addr : N) (s : elf_seg) : bool :=
    (sg_type s =? 1) &&
    (N.max (sg_phys s) addr <? N.min (sg_phys s + sg_filesz s) (addr + pgsz)).

  Lemma fold_covered pgsz addr : forall segs pg c,
    snd (fold_left (overlay false false pgsz addr) segs (pg, c)) = c || existsb (covers pgsz addr) segs.
  Proof.
    induction segs as [|s t IH]; intros pg c; cbn [fold_left existsb]; [now rewrite orb_false_r|].
    unfold overlay at 2. unfold covers at 1. cbn [seg_base].
    destruct (N.eqb_spec (sg_type s) 1) as [E|E]; cbn [negb andb].
    - rewrite IH. cbn [andb]. rewrite orb_false_r. now rewrite orb_assoc.
    - rewrite IH. reflexivity.
  Qed.

  Lemma spec_page_nodata segs pgsz addr :
    spec_elf_page segs pgsz false false addr <> Err ERR_NODATA <-> existsb (covers pgsz addr) segs = true.
  Proof.
    unfold spec_elf_page.
    pose proof (fold_covered pgsz addr segs (zeros pgsz) false) as H.
    destruct (fold_left (overlay false false pgsz addr) segs (zeros pgsz, false)) as [page covered].
    cbn [snd orb] in H. subst covered.
    destruct (existsb (covers pgsz addr) segs); split; try discriminate; try reflexivity.
    intros H. now elim H.
  Qed.

  Section Aligned.
    Variable l : elf_layout.
    Variable segs : list elf_seg.
    Variable sh : N.
    Hypothesis Hwf : elf_wf l segs.
    Hypothesis Hsh : sh < 64.
    (* every LOAD segment is page aligned *)
    Hypothesis Halign : forall s, In s segs -> is_load s ->
      sg_phys s mod 2 ^ sh = 0 /\ sg_filesz s mod 2 ^ sh = 0 /\ sg_memsz s mod 2 ^ sh = 0.

    Let pgsz := 2 ^ sh.
    Let lsegs := map of_ls (es_sorted (expected l segs)).

    Lemma sorted_in a : In a (es_sorted (expected l segs)) ->
      exists s o, In s segs /\ is_load s /\ a = to_ls s o.
    Proof.
      intros H. change (es_sorted (expected l segs)) with (arr_of l segs false) in H.
      apply arr_of_in in H. unfold loads in H. now apply split_segs_in in H.
    Qed.

    Lemma load_in_sorted s : In s segs -> is_load s -> exists o, In (to_ls s o) (es_sorted (expected l segs)).
    Proof.
      intros Hin Hl. change (es_sorted (expected l segs)) with (arr_of l segs false).
      destruct (split_segs_load segs (data_start l segs) s Hin Hl) as [o Ho].
      exists o. apply arr_of_in. exact Ho.
    Qed.

    Lemma lsegs_wf : wf_segs sh lsegs.
    Proof.
      destruct (arr_of_ok l segs Hwf false) as [Hs Hok].
      change (arr_of l segs false) with (es_sorted (expected l segs)) in Hs, Hok.
      unfold lsegs. split.
      - apply Forall_forall. intros x Hx. apply in_map_iff in Hx. destruct Hx as [a [<- Ha]].
        destruct (sorted_in a Ha) as [s [o [Hin [Hl ->]]]].
        destruct (Halign s Hin Hl) as (A1 & A2 & A3).
        rewrite Forall_forall in Hok. destruct (Hok _ Ha) as (B1 & B2 & _).
        unfold wf_seg, of_ls. cbn [phys filesz memsz to_ls ls_phys ls_filesz ls_memsz seg_addr] in *.
        split; [exact A1|]. split; [exact A2|]. split; [exact A3|]. split; [exact B1|]. rewrite W_val. exact B2.
      - induction Hs as [|a t Hst IH Hall]; cbn [map]; constructor.
        + apply IH. inversion Hok; assumption.
        + apply Forall_forall. intros y Hy. apply in_map_iff in Hy. destruct Hy as [b [<- Hb]].
          rewrite Forall_forall in Hall. specialize (Hall b Hb). unfold Fmt.ElfProofs.before in Hall.
          cbn [of_ls phys memsz seg_addr] in *. exact Hall.
    Qed.

    (* covered by a LOAD segment's file bytes <=> inside the page range of a sorted segment *)
    Lemma covers_einb s p : In s segs -> is_load s ->
      covers pgsz (pgsz * p) s = einb false sh (of_ls (to_ls s 0)) p.
    Proof.
      intros Hin Hl. destruct (Halign s Hin Hl) as (A1 & A2 & A3).
      assert (HP : 0 < 2 ^ sh) by (apply N.neq_0_lt_0; apply N.pow_nonzero; discriminate).
      assert (E1 : sg_phys s = 2 ^ sh * (sg_phys s / 2 ^ sh)) by (apply N.div_exact; [lia|exact A1]).
      assert (E2 : sg_filesz s = 2 ^ sh * (sg_filesz s / 2 ^ sh)) by (apply N.div_exact; [lia|exact A2]).
      unfold covers, einb, lo, cnt, ssize, of_ls, pgsz. cbn [phys filesz to_ls ls_phys ls_filesz].
      unfold is_load in Hl. rewrite Hl. cbn [N.eqb Pos.eqb andb].
      rewrite E1 at 1 2. rewrite E2 at 1. apply covers_arith. exact HP.
    Qed.

    Lemma covered_iff_emapped p : p <= MAXA / pgsz ->
      existsb (covers pgsz (pgsz * p)) segs = emapped false sh lsegs p.
    Proof.
      intros Hp. unfold emapped, lsegs.
      destruct (existsb (covers pgsz (pgsz * p)) segs) eqn:E1.
      - apply existsb_exists in E1. destruct E1 as [s [Hin Hc]].
        assert (Hl : is_load s).
        { unfold covers in Hc. unfold is_load. destruct (N.eqb_spec (sg_type s) 1); [assumption|discriminate]. }
        destruct (load_in_sorted s Hin Hl) as [o Ho].
        symmetry. apply existsb_exists. exists (of_ls (to_ls s o)). split; [apply in_map; exact Ho|].
        rewrite (covers_einb s p Hin Hl) in Hc. exact Hc.
      - symmetry. destruct (existsb (fun s => einb false sh s p) (map of_ls (es_sorted (expected l segs)))) eqn:E2;
          [|reflexivity]. exfalso.
        apply existsb_exists in E2. destruct E2 as [x [Hx Hb]].
        apply in_map_iff in Hx. destruct Hx as [a [<- Ha]].
        destruct (sorted_in a Ha) as [s [o [Hin [Hl ->]]]].
        assert (Hc : covers pgsz (pgsz * p) s = true) by (rewrite (covers_einb s p Hin Hl); exact Hb).
        assert (Hex : existsb (covers pgsz (pgsz * p)) segs = true) by (apply existsb_exists; exists s; now split).
        congruence.
    Qed.

    (** bit p of file.pagemap (as the segment array of the opened state defines it,
        for every value of the lookup cache) is set <=> the reader's page read of
        frame p does not return NODATA with zero-fill off *)
    Theorem bit_iff_readable :
      exists st0, elf_open (read_files [encode_elf l segs]) 1 = Ok st0 /\
        wf_segs sh (map of_ls (es_sorted st0)) /\
        forall st, Fmt.ElfProofs.same_arrays st st0 ->
        forall p, pgsz * p + pgsz < 2 ^ 64 ->
          (emapped false sh (map of_ls (es_sorted st0)) p = true <->
           fst (elf_get_page (read_files [encode_elf l segs]) pgsz false false st (pgsz * p)) <> Err ERR_NODATA).
    Proof.
      assert (HP : 0 < pgsz) by (unfold pgsz; apply N.neq_0_lt_0; apply N.pow_nonzero; discriminate).
      destruct (elf_roundtrip l segs pgsz Hwf HP) as [st0 (Hopen & _ & _ & _ & Hread)].
      exists st0. split; [exact Hopen|].
      rewrite (elf_open_spec l segs Hwf) in Hopen. injection Hopen as Est. subst st0.
      split; [exact lsegs_wf|].
      intros st Hsame p Hp.
      destruct (Hread false st Hsame false (pgsz * p) Hp) as [Hr _]. rewrite Hr.
      rewrite spec_page_nodata.
      assert (Hpm : p <= MAXA / pgsz).
      { apply N.div_le_lower_bound; [lia|]. unfold MAXA. rewrite W_val. change (2 ^ 64) with 18446744073709551616 in Hp. lia. }
      rewrite (covered_iff_emapped p Hpm). reflexivity.
    Qed.
  End Aligned.
End EL.
