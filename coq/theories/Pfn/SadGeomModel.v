(** Model of how src/kdumpfile/sadump.c finds the sources of its two page maps:
    [open_common]'s offset arithmetic (dump header at [hdr_pos]; after it and the
    architecture sub-header comes the memory bitmap of [bitmap_blocks] blocks,
    then the dumpable bitmap of [dumpable_bitmap_blocks] blocks, then the page
    data), [read_bitmap] (file.pagemap: regions of the dumpable bitmap, MSB-0
    numbering, over all 8 * length bits, element size = page size, [max_pfn]
    clipped to the bitmap's capacity) and [mem_pagemap_revalidate]
    (memory.pagemap: regions of the memory bitmap), and the page lookup of
    [sadump_read_page].  In a disk set the bitmaps live on disk 1 only;
    [hdr_pos] absorbs the media / disk-set headers in front.

    [area] is the file content from [mem_off] on. *)
From Coq Require Import NArith ZArith List Bool.
From KdV Require Import Base.Wrap64 Pfn.BitmapModel Pfn.RegionModel Pfn.DdGeomModel.
Import ListNotations.
Local Open Scope N_scope.

Definition SADUMP_PAGE : N := 4096.

Record sgeom := {
  sg_mem_off : N; sg_mem_size : N;    (* sp->mem_pagemap_off / mem_pagemap_size *)
  sg_bmp_pos : N; sg_bmp_len : N;     (* dsi->bmp_pos, ext[0].data_pos - dsi->bmp_pos *)
  sg_data_pos : N                     (* sp->ext[0].data_pos *)
}.

Definition sadump_geom (hdr_pos bs sub_hdr_size bitmap_blocks dumpable_blocks : N) : sgeom :=
  let mem_off := hdr_pos + bs * (1 + sub_hdr_size) in
  let mem_size := bs * bitmap_blocks in
  let bmp_pos := mem_off + mem_size in
  let data_pos := bmp_pos + bs * dumpable_blocks in
  {| sg_mem_off := mem_off; sg_mem_size := mem_size; sg_bmp_pos := bmp_pos;
     sg_bmp_len := data_pos - bmp_pos; sg_data_pos := data_pos |}.

(* read_bitmap: (clipped max_pfn, regions behind file.pagemap) *)
Definition sd_file_regions (al : N) (area : list N) (g : sgeom) (max_pfn : N) (orc : list bool)
  : N * (rres * list bool) :=
  let maxb := sg_bmp_len g * 8 in
  (if maxb <? max_pfn then maxb else max_pfn,
   regions_from_bitmap true true al (slice area (sg_bmp_pos g - sg_mem_off g) (sg_bmp_len g))
                       0 maxb 0 SADUMP_PAGE [] orc).

(* mem_pagemap_revalidate *)
Definition sd_mem_regions (al : N) (area : list N) (g : sgeom) (max_pfn : N) (orc : list bool)
  : N * (rres * list bool) :=
  let maxb := sg_mem_size g * 8 in
  (if maxb <? max_pfn then maxb else max_pfn,
   regions_from_bitmap true true al (slice area 0 (sg_mem_size g)) 0 maxb 0 SADUMP_PAGE [] orc).

(* sadump_read_page up to the region lookup: [true] = the page is stored *)
Definition sd_page_stored (m : fmap) (max_pfn pfn : N) : res bool :=
  if max_pfn <=? pfn then Val false        (* "Out-of-bounds PFN" *)
  else match find_region m pfn with
       | Val (Some ri) => match nth_region (regions m) ri with
                          | Some rgn => Val (g_pfn rgn <=? pfn)
                          | None => Oob
                          end
       | Val None => Val false
       | Oob => Oob
       | Fuel => Fuel
       end.

(** ** disk sets: which file the bitmaps are read from

    [probe_file] records, for the file whose partition header says "disk #1", its file
    index in [sp->ext[0].fidx]; the dump header, the sub-header and both bitmaps live
    in that file only.  [read_bitmap] (file.pagemap) and [mem_pagemap_revalidate]
    (memory.pagemap) must both read from it, wherever it stands in the order the
    files were given.  [files] = the contents of the files in the order given,
    [nums] = their disk numbers.  [mem_from_first = true] is the variant of
    seeded/C07-c3 (memory bitmap fetched from file index 0). *)
Fixpoint disk1_index (nums : list N) (i : N) : option N :=
  match nums with
  | [] => None
  | d :: t => if d =? 1 then Some i else disk1_index t (i + 1)
  end.

Definition file_at (files : list (list N)) (fidx : N) : list N :=
  nth (N.to_nat fidx) files [].

(* (file index, offset, length) of the two sources *)
Definition sd_file_src (g : sgeom) (fidx1 : N) : N * N * N := (fidx1, sg_bmp_pos g, sg_bmp_len g).
Definition sd_mem_src (mem_from_first : bool) (g : sgeom) (fidx1 : N) : N * N * N :=
  (if mem_from_first then 0 else fidx1, sg_mem_off g, sg_mem_size g).

Definition sd_fetch (files : list (list N)) (src : N * N * N) : list N :=
  let '(f, off, len) := src in slice (file_at files f) off len.

Definition sd_set_file_regions (al : N) (files : list (list N)) (g : sgeom) (fidx1 max_pfn : N)
           (orc : list bool) : N * (rres * list bool) :=
  let maxb := sg_bmp_len g * 8 in
  (if maxb <? max_pfn then maxb else max_pfn,
   regions_from_bitmap true true al (sd_fetch files (sd_file_src g fidx1)) 0 maxb 0 SADUMP_PAGE [] orc).

Definition sd_set_mem_regions (mem_from_first : bool) (al : N) (files : list (list N)) (g : sgeom)
           (fidx1 max_pfn : N) (orc : list bool) : N * (rres * list bool) :=
  let maxb := sg_mem_size g * 8 in
  (if maxb <? max_pfn then maxb else max_pfn,
   regions_from_bitmap true true al (sd_fetch files (sd_mem_src mem_from_first g fidx1)) 0 maxb 0
                       SADUMP_PAGE [] orc).
