(** What property C07 means for bitmap-based page maps, written from the
    format descriptions (makedumpfile's diskdump 2nd bitmap: "bit p, LSB
    first, is set iff page p is stored"; SADUMP: MSB first; split dumps: file
    k stores exactly the frames of its window [start_pfn, end_pfn)) and from
    the public bitmap API ("raw bitmap, LSB 0 numbering": bit i of the result
    is frame first + i).

    No regions, no searching, no words: just "is bit p set". *)
From Coq Require Import NArith List Bool.
Import ListNotations.
Local Open Scope N_scope.

(* bit [p] of a byte string in LSB-0 / MSB-0 numbering; outside the string: clear *)
Definition bit_of (msb0 : bool) (bm : list N) (p : N) : bool :=
  if N.of_nat (length bm) <=? p / 8 then false
  else match nth_error bm (N.to_nat (p / 8)) with
       | None => false
       | Some b => N.testbit b (if msb0 then 7 - p mod 8 else p mod 8)
       end.

(* one file of a dump: its window and its bitmap *)
Record src := { s_start : N; s_end : N; s_msb0 : bool; s_bitmap : list N }.

Definition present1 (s : src) (p : N) : bool :=
  (s_start s <=? p) && (p <? s_end s) && bit_of (s_msb0 s) (s_bitmap s) p.

(* the dump stores frame [p] iff some file of the set does *)
Definition present (ss : list src) (p : N) : bool := existsb (fun s => present1 s p) ss.

(** executable checkers used to judge the implementation's answers *)

(* [f] holds on lo, lo+1, ..., lo+n-1 *)
Fixpoint all_range (n : nat) (lo : N) (f : N -> bool) : bool :=
  match n with O => true | S k => f lo && all_range k (lo + 1) f end.

Definition span (lo hi : N) : nat := N.to_nat (hi - lo).

(* [r] is the least index >= [start] whose bit equals [want], or [limit] if none below it *)
Definition least_ok (bit : N -> bool) (want : bool) (start limit r : N) : bool :=
  (start <=? r) && (r <=? limit) &&
  all_range (span start r) start (fun p => negb (Bool.eqb (bit p) want)) &&
  ((r =? limit) || Bool.eqb (bit r) want).

(* raw bitmap answer: bit i of [raw] is [bit (first + i)] for i <= last - first, padding clear *)
Definition raw_bit (raw : list N) (i : N) : bool := bit_of false raw i.
Definition raw_ok (bit : N -> bool) (first last : N) (raw : list N) : bool :=
  (N.of_nat (length raw) =? (last - first) / 8 + 1) &&
  all_range (span first (last + 1)) first (fun p => Bool.eqb (raw_bit raw (p - first)) (bit p)) &&
  all_range (span (last + 1 - first) (8 * N.of_nat (length raw))) (last + 1 - first)
            (fun i => negb (raw_bit raw i)).

(* the region list [(pfn, cnt, pos)] of one file is exactly the list of maximal runs of
   stored frames inside the file's window, in ascending order, and [pos] advances by
   [elemsz] per stored frame *)
Fixpoint runs_ok (s : src) (rs : list (N * N * N)) (first : bool) (cur pos elemsz : N) : bool :=
  match rs with
  | [] => all_range (span cur (s_end s)) cur (fun p => negb (present1 s p))
  | (p, c, ps) :: t =>
      (cur <=? p) && (first || (cur <? p)) && (1 <=? c) && (p + c <=? s_end s) &&
      all_range (span cur p) cur (fun q => negb (present1 s q)) &&
      all_range (N.to_nat c) p (present1 s) &&
      (ps =? pos) &&
      runs_ok s t false (p + c) (pos + c * elemsz) elemsz
  end.
Definition regions_ok (s : src) (fileoff elemsz : N) (rs : list (N * N * N)) : bool :=
  runs_ok s rs true (s_start s) fileoff elemsz.

(** ground truth of an end-to-end case: the set of frames the generator stored (or marked as
    RAM), as a list of half-open runs [a, b) *)
Definition truth_present (runs : list (N * N)) (p : N) : bool :=
  existsb (fun r => (fst r <=? p) && (p <? snd r)) runs.
