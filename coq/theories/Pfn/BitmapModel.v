(** Model of the bitmap scanners of src/kdumpfile/pfn.c ([skip_clear_lsb0],
    [skip_clear_msb0], [skip_set_lsb0], [skip_set_msb0]), of
    [pfn_regions_from_bitmap] / [add_pfn_region], and of [set_bits] /
    [clear_bits] of src/kdumpfile/bitmap.c.

    A bitmap is a [list N] of bytes (every element < 256; [wf_bytes]).  The
    four scanners share one skeleton in C (first byte with a shift; bytes
    until the pointer is 4-byte aligned; aligned 32-bit words; remaining
    bytes) — [Section Skip] — and differ in the three "hit" expressions, which
    are transcribed literally below with C's integer promotions:
      [sc b]            (signed char)b
      [u8 z] / [u32 z]  conversion of an int to unsigned char / uint32_t
      [N.lnot x 32]     ~ on a uint32_t,  [Z.lnot]  ~ on an int
      [le32]/[be32]     le32toh / be32toh of the four bytes at [bp]
      [ctz]/[clz]       __builtin_ctz / __builtin_clz on uint32_t (undefined
                        for 0: every call is guarded by the same non-zero
                        test as in C, so the value chosen for 0 is never used)
    The address of the buffer modulo 4 is the parameter [al]: it decides how
    many bytes the unaligned loop takes.  [pfn] arithmetic is plain [N]
    addition: every value is at most 8 * size + 7 where [size] is the
    [size_t] length of an in-memory buffer, far below 2^64.

    [fixed] selects the first-byte expression of [skip_set_msb0]:
      pinned   val = ~( *bp << (pfn & 7))            (defect 28)
      repaired val = (unsigned char)~*bp << (pfn & 7)  (fixes/28-*.patch)

    Allocation ([realloc] in [add_pfn_region], every 1024 regions) consumes
    one answer of the oracle list per call (an exhausted list means success). *)
From Coq Require Import NArith ZArith List Bool.
Import ListNotations.
Local Open Scope N_scope.

(** * C integer helpers *)

Fixpoint ctz_pos (p : positive) : N :=
  match p with xO q => N.succ (ctz_pos q) | _ => 0 end.
Definition ctz (x : N) : N := match x with 0 => 0 | Npos p => ctz_pos p end.
Definition clz (x : N) : N := 31 - N.log2 x.

Definition u8 (z : Z) : N := Z.to_N (z mod 256).
Definition u32 (z : Z) : N := Z.to_N (z mod 4294967296).
Definition sc (b : N) : Z := if b <? 128 then Z.of_N b else (Z.of_N b - 256)%Z.

Definition le32 (b0 b1 b2 b3 : N) : N := b0 + 256 * (b1 + 256 * (b2 + 256 * b3)).
Definition be32 (b0 b1 b2 b3 : N) : N := b3 + 256 * (b2 + 256 * (b1 + 256 * b0)).

Definition nz (x : N) : option N -> option N := fun r => if x =? 0 then None else r.

(** * The common skeleton *)
Section Skip.
  (* offset of the hit relative to [pfn] / to the start of the byte / word *)
  Variable first_hit : N -> N -> option N.       (* byte, pfn & 7 *)
  Variable byte_hit : N -> option N.
  Variable word_hit : N -> N -> N -> N -> option N.

  (* for (; endp - bp >= 1; pfn += 8, ++bp) *)
  Fixpoint tail_bytes (l : list N) (pfn : N) : N :=
    match l with
    | [] => pfn
    | b :: t => match byte_hit b with
                | Some j => pfn + j
                | None => tail_bytes t (pfn + 8)
                end
    end.

  (* for (; endp - bp >= 4; pfn += 32, bp += 4) then the byte loop *)
  Fixpoint words (l : list N) (pfn : N) : N :=
    match l with
    | b0 :: b1 :: b2 :: b3 :: t =>
        match word_hit b0 b1 b2 b3 with
        | Some j => pfn + j
        | None => words t (pfn + 32)
        end
    | _ => tail_bytes l pfn
    end.

  (* for (; endp - bp >= 1 && ((uintptr_t)bp & 3) != 0; pfn += 8, ++bp);
     [addr] is the address of the head of [l] *)
  Fixpoint head_bytes (addr : N) (l : list N) (pfn : N) : N :=
    match l with
    | [] => pfn
    | b :: t =>
        if addr mod 4 =? 0 then words l pfn
        else match byte_hit b with
             | Some j => pfn + j
             | None => head_bytes (addr + 1) t (pfn + 8)
             end
    end.

  (* [bm] holds exactly [size] bytes; [al] = (uintptr_t)bitmap & 3 *)
  Definition skip (al : N) (bm : list N) (pfn : N) : N :=
    if N.of_nat (length bm) <=? N.shiftr pfn 3 then pfn     (* bp >= endp *)
    else match skipn (N.to_nat (N.shiftr pfn 3)) bm with
    | [] => pfn
    | b :: t =>
        match first_hit b (N.land pfn 7) with
        | Some j => pfn + j
        | None => head_bytes (al + N.shiftr pfn 3 + 1) t (N.lor pfn 7 + 1)
        end
    end.
End Skip.

(** * The four scanners *)

(* skip_clear_lsb0 *)
Definition cl_first (b k : N) : option N :=
  let val := u8 (Z.of_N (N.shiftr b k)) in nz val (Some (ctz val)).
Definition cl_byte (b : N) : option N := nz b (Some (ctz b)).
Definition cl_word (b0 b1 b2 b3 : N) : option N :=
  nz (le32 b0 b1 b2 b3) (Some (ctz (le32 b0 b1 b2 b3))).
Definition skip_clear_lsb0 := skip cl_first cl_byte cl_word.

(* skip_clear_msb0 *)
Definition cm_first (b k : N) : option N :=
  let val := u8 (Z.of_N (N.shiftl b k)) in nz val (Some (clz (N.shiftl val 24))).
Definition cm_byte (b : N) : option N := nz b (Some (clz (N.shiftl b 24))).
Definition cm_word (b0 b1 b2 b3 : N) : option N :=
  nz (le32 b0 b1 b2 b3) (Some (clz (be32 b0 b1 b2 b3))).
Definition skip_clear_msb0 := skip cm_first cm_byte cm_word.

(* skip_set_lsb0 *)
Definition sl_first (b k : N) : option N :=
  let val := u8 (Z.lnot (Z.shiftr (sc b) (Z.of_N k))) in nz val (Some (ctz val)).
Definition sl_byte (b : N) : option N :=
  let x := u32 (Z.lnot (sc b)) in nz x (Some (ctz x)).
Definition sl_word (b0 b1 b2 b3 : N) : option N :=
  let x := N.lnot (le32 b0 b1 b2 b3) 32 in nz x (Some (ctz x)).
Definition skip_set_lsb0 := skip sl_first sl_byte sl_word.

(* skip_set_msb0 *)
Definition sm_first (fixed : bool) (b k : N) : option N :=
  let val := if fixed
             then u8 (Z.of_N (N.shiftl (u8 (Z.lnot (Z.of_N b))) k))
             else u8 (Z.lnot (Z.of_N (N.shiftl b k))) in
  nz val (Some (clz (N.shiftl val 24))).
Definition sm_byte (b : N) : option N :=
  if b =? 255 then None else Some (clz (N.lnot (N.shiftl b 24) 32)).
Definition sm_word (b0 b1 b2 b3 : N) : option N :=
  nz (N.lnot (le32 b0 b1 b2 b3) 32) (Some (clz (N.lnot (be32 b0 b1 b2 b3) 32))).
Definition skip_set_msb0 (fixed : bool) := skip (sm_first fixed) sm_byte sm_word.

Definition skip_clear (msb0 : bool) := if msb0 then skip_clear_msb0 else skip_clear_lsb0.
Definition skip_set (fixed msb0 : bool) := if msb0 then skip_set_msb0 fixed else skip_set_lsb0.

(** * pfn_regions_from_bitmap *)

Record region := { g_pfn : N; g_cnt : N; g_pos : N }.

Definition RGN_ALLOC_INC : N := 1024.

(* add_pfn_region: [None] = allocation failure, nothing stored *)
Definition add_region (rs : list region) (r : region) (orc : list bool)
  : option (list region) * list bool :=
  if N.of_nat (length rs) mod RGN_ALLOC_INC =? 0 then
    match orc with
    | false :: o => (None, o)
    | _ :: o => (Some (rs ++ [r]), o)
    | [] => (Some (rs ++ [r]), [])
    end
  else (Some (rs ++ [r]), orc).

Inductive rres := ROk (rs : list region) | RNoMem (rs : list region) | ROob | RFuel.

Fixpoint regions_loop (fuel : nat) (fixed msb0 : bool) (al : N) (bm : list N)
         (pfn end_pfn pos elemsz : N) (rs : list region) (orc : list bool)
  : rres * list bool :=
  match fuel with
  | O => (RFuel, orc)
  | S f =>
      if pfn <? end_pfn then
        let rp := skip_clear msb0 al bm pfn in
        let np := skip_set fixed msb0 al bm rp in
        let rp := if end_pfn <? rp then end_pfn else rp in
        let np := if end_pfn <? np then end_pfn else np in
        let cnt := np - rp in
        if cnt =? 0 then regions_loop f fixed msb0 al bm np end_pfn pos elemsz rs orc
        else match add_region rs {| g_pfn := rp; g_cnt := cnt; g_pos := pos |} orc with
             | (None, o) => (RNoMem rs, o)
             | (Some rs', o) =>
                 regions_loop f fixed msb0 al bm np end_pfn (pos + cnt * elemsz) elemsz rs' o
             end
      else (ROk rs, orc)
  end.

(* the caller's buffer must hold (end_pfn + 7) >> 3 bytes; the scanners see exactly those *)
Definition regions_from_bitmap (fixed msb0 : bool) (al : N) (bm : list N)
           (start_pfn end_pfn fileoff elemsz : N) (rs0 : list region) (orc : list bool)
  : rres * list bool :=
  let size := N.shiftr (end_pfn + 7) 3 in
  if N.of_nat (length bm) <? size then (ROob, orc)
  else let bm' := firstn (N.to_nat size) bm in
       regions_loop (8 * length bm' + 2) fixed msb0 al bm' start_pfn end_pfn fileoff elemsz rs0 orc.

(** * set_bits / clear_bits (bitmap.c) *)

(* (1 << (start & 7)) - 1  and  (1 << ((end & 7) + 1)) - 1, as the low 8 bits of the [char] *)
Definition startmask (start : N) : N := (N.shiftl 1 (N.land start 7) - 1) mod 256.
Definition endmask (end_ : N) : N := (N.shiftl 1 (N.land end_ 7 + 1) - 1) mod 256.
Definition not8 (x : N) : N := N.lnot x 8.

Fixpoint map_idx (f : N -> N -> N) (j : N) (l : list N) : list N :=
  match l with [] => [] | b :: t => f j b :: map_idx f (j + 1) t end.

(* the three stores (first byte, memset, last byte) written as "byte j becomes";
   [None] = a store beyond the buffer *)
Definition set_bits (buf : list N) (start end_ : N) : option (list N) :=
  let sb := N.shiftr start 3 in
  let eb := N.shiftr end_ 3 in
  if (N.of_nat (length buf) <=? eb) || (N.of_nat (length buf) <=? sb) then None
  else Some (map_idx (fun j b =>
    if sb <? eb then
      if j =? sb then N.lor b (not8 (startmask start))
      else if (sb <? j) && (j <? eb) then 255
      else if j =? eb then N.lor b (endmask end_)
      else b
    else if j =? sb then N.lor b (N.land (not8 (startmask start)) (endmask end_))
    else b) 0 buf).

Definition clear_bits (buf : list N) (start end_ : N) : option (list N) :=
  let sb := N.shiftr start 3 in
  let eb := N.shiftr end_ 3 in
  if (N.of_nat (length buf) <=? eb) || (N.of_nat (length buf) <=? sb) then None
  else Some (map_idx (fun j b =>
    if sb <? eb then
      if j =? sb then N.land b (startmask start)
      else if (sb <? j) && (j <? eb) then 0
      else if j =? eb then N.land b (not8 (endmask end_))
      else b
    else if j =? sb then N.land b (N.lor (startmask start) (not8 (endmask end_)))
    else b) 0 buf).
