(** Bridge between the two developments that model src/kdumpfile/pfn.c:

    - Pfn/ (C07): [BitmapModel.regions_from_bitmap] follows the C scanners
      (bytes, aligned words, ctz/clz), region record [BitmapModel.region],
      file maps [RegionModel.fmap];
    - Fmt/ (C01): [PfnModel.regions_from_bitmap] walks the bitmap bit by bit
      ([runs]), region record [PfnModel.pfn_region], maps [pfn_file_map].

    Proved once, here: both produce the same region list ([bridge_regions]);
    the C01 regions satisfy the C07 characterisation [runs_from]
    ([fmt_runs_from]), so every C07 theorem about region lists applies to the
    state the C01 readers open. *)
From Coq Require Import NArith ZArith List Bool Lia.
From Coq Require Import ZifyBool ZifyNat ZifyN.
From KdV Require Import Base.Wrap64 Pfn.BitmapModel Pfn.RegionModel Pfn.PfnSpec
                        Pfn.BitmapProofs Pfn.RegionProofs.
From KdV Require Fmt.PfnModel.
Import ListNotations.
Local Open Scope N_scope.

Module F := Fmt.PfnModel.

Definition conv_region (r : F.pfn_region) : region :=
  {| g_pfn := F.rg_pfn r; g_cnt := F.rg_cnt r; g_pos := F.rg_pos r |}.
Definition conv_map (m : F.pfn_file_map) : fmap :=
  {| regions := map conv_region (F.pm_regions m); start_pfn := F.pm_start m; end_pfn := F.pm_end m |}.

(** * [runs_from] determines the list *)
Lemma runs_from_unique bit : forall rs1 rs2 cur hi pos esz f,
  runs_from bit cur hi pos esz f rs1 -> runs_from bit cur hi pos esz f rs2 -> rs1 = rs2.
Proof.
  induction rs1 as [|r1 t1 IH]; intros rs2 cur hi pos esz f H1 H2.
  - destruct rs2 as [|r2 t2]; [reflexivity|]. cbn [runs_from] in *.
    destruct H2 as (A1 & A2 & A3 & A4 & A5 & A6 & _).
    specialize (H1 (g_pfn r2) A1 ltac:(lia)). rewrite (A6 (g_pfn r2)) in H1 by lia. discriminate.
  - destruct rs2 as [|r2 t2]; cbn [runs_from] in *.
    + destruct H1 as (A1 & A2 & A3 & A4 & A5 & A6 & _).
      specialize (H2 (g_pfn r1) A1 ltac:(lia)). rewrite (A6 (g_pfn r1)) in H2 by lia. discriminate.
    + destruct H1 as (A1 & A2 & A3 & A4 & A5 & A6 & A7 & A8).
      destruct H2 as (B1 & B2 & B3 & B4 & B5 & B6 & B7 & B8).
      (* same start: the least set bit at or above cur *)
      assert (Ep : g_pfn r1 = g_pfn r2).
      { destruct (N.lt_trichotomy (g_pfn r1) (g_pfn r2)) as [Hl|[E|Hg]]; [|exact E|].
        - specialize (B5 (g_pfn r1) A1 Hl). rewrite (A6 (g_pfn r1)) in B5 by lia. discriminate.
        - specialize (A5 (g_pfn r2) B1 Hg). rewrite (B6 (g_pfn r2)) in A5 by lia. discriminate. }
      (* the bit right after a run is clear (or the run ends at hi) *)
      assert (Hafter : forall r t p e, runs_from bit (g_pfn r + g_cnt r) hi p e false t ->
                g_pfn r + g_cnt r < hi -> bit (g_pfn r + g_cnt r) = false).
      { intros r t p e Ht Hlt. destruct t as [|r' t']; cbn [runs_from] in Ht.
        - apply Ht; lia.
        - destruct Ht as (C1 & C2 & _ & _ & C5 & _). apply C5; [lia|]. now apply C2. }
      assert (Ec : g_cnt r1 = g_cnt r2).
      { destruct (N.lt_trichotomy (g_cnt r1) (g_cnt r2)) as [Hl|[E|Hg]]; [|exact E|].
        - pose proof (Hafter r1 t1 _ _ A8 ltac:(lia)) as Hz.
          rewrite (B6 (g_pfn r1 + g_cnt r1)) in Hz by lia. discriminate.
        - pose proof (Hafter r2 t2 _ _ B8 ltac:(lia)) as Hz.
          rewrite (A6 (g_pfn r2 + g_cnt r2)) in Hz by lia. discriminate. }
      assert (Er : r1 = r2).
      { destruct r1, r2. cbn in *. congruence. }
      subst r2. f_equal. eapply IH; eauto.
Qed.

(** * the bit-by-bit walk of Fmt/PfnModel satisfies [runs_from] *)
Section Walk.
  Variables (esz start_pfn end_pfn : N).
  Variable B : N -> bool.          (* the bitmap, by absolute bit number *)

  Definition L (q : N) : bool := B q && (start_pfn <=? q) && (q <? end_pfn).

  (* [bs] holds the bits from position [pfn] on *)
  Definition suffix_at (bs : list bool) (pfn : N) : Prop :=
    forall k, (k < length bs)%nat -> nth k bs false = B (pfn + N.of_nat k).

  Lemma suffix_tail b t pfn : suffix_at (b :: t) pfn -> b = B pfn /\ suffix_at t (pfn + 1).
  Proof.
    intros H. split.
    - specialize (H O ltac:(cbn; lia)). cbn in H. now rewrite N.add_0_r in H.
    - intros k Hk. specialize (H (S k) ltac:(cbn; lia)). cbn [nth] in H. rewrite H. f_equal. lia.
  Qed.

  Lemma walk_spec bs : forall pfn pos cur,
    suffix_at bs pfn ->
    match cur with
    | None => forall f, (f = false -> match bs with [] => True | _ => L pfn = false end) ->
        runs_from L pfn (pfn + N.of_nat (length bs)) pos esz f
                  (map conv_region (F.runs esz start_pfn end_pfn bs pfn pos None))
    | Some st => st < pfn -> (forall q, st <= q -> q < pfn -> L q = true) ->
        runs_from L st (pfn + N.of_nat (length bs)) pos esz true
                  (map conv_region (F.runs esz start_pfn end_pfn bs pfn pos (Some st)))
    end.
  Proof.
    induction bs as [|b t IH]; intros pfn pos cur Hsuf.
    - destruct cur as [st|]; cbn [F.runs map length].
      + intros Hst Hrun. cbn [runs_from conv_region g_pfn g_cnt g_pos F.rg_pfn F.rg_cnt F.rg_pos].
        rewrite N.add_0_r. repeat split; try lia.
        all: first [ discriminate | (intros p Hp1 Hp2; lia) | (intros p Hp1 Hp2; apply Hrun; lia) ].
      + intros f _. cbn [runs_from]. intros p Hp1 Hp2. lia.
    - destruct (suffix_tail b t pfn Hsuf) as [Eb Ht]. cbn [F.runs length].
      assert (Elive : (b && (start_pfn <=? pfn) && (pfn <? end_pfn))%bool = L pfn)
        by (unfold L; now rewrite Eb).
      rewrite Elive.
      replace (pfn + N.of_nat (S (length t))) with (pfn + 1 + N.of_nat (length t)) by lia.
      destruct cur as [st|].
      + intros Hst Hrun. destruct (L pfn) eqn:El.
        * (* the run continues *)
          apply (IH (pfn + 1) pos (Some st) Ht); [lia|].
          intros q Hq1 Hq2. destruct (N.eq_dec q pfn) as [->|Hne]; [exact El|apply Hrun; lia].
        * (* the run ends at pfn *)
          cbn [map runs_from conv_region g_pfn g_cnt g_pos F.rg_pfn F.rg_cnt F.rg_pos].
          replace (st + (pfn - st)) with pfn by lia.
          repeat split; try lia.
          all: try (first [ discriminate | (intros p Hp1 Hp2; lia) | (intros p Hp1 Hp2; apply Hrun; lia) ]).
          pose proof (IH (pfn + 1) (pos + (pfn - st) * esz) None Ht) as Hn. cbn beta iota in Hn.
          specialize (Hn true ltac:(discriminate)).
          eapply (runs_from_extend L pfn (pfn + 1)); [lia| |intros _; left; lia|exact Hn].
          intros p Hp1 Hp2. replace p with pfn by lia. exact El.
      + intros f Hf. destruct (L pfn) eqn:El.
        * (* a run starts at pfn *)
          assert (Ef : f = true) by (destruct f; [reflexivity|specialize (Hf eq_refl); discriminate]).
          subst f.
          apply (IH (pfn + 1) pos (Some pfn) Ht); [lia|].
          intros q Hq1 Hq2. replace q with pfn by lia. exact El.
        * pose proof (IH (pfn + 1) pos None Ht) as Hn. cbn beta iota in Hn.
          specialize (Hn true ltac:(discriminate)).
          eapply (runs_from_extend L pfn (pfn + 1)); [lia| |left; lia|exact Hn].
          intros p Hp1 Hp2. replace p with pfn by lia. exact El.
  Qed.
End Walk.

(** * the bits of a byte string, as Fmt/PfnModel unpacks them *)
Lemma bits_of_byte_length msb0 b : length (F.bits_of_byte msb0 b) = 8%nat.
Proof. reflexivity. Qed.

Lemma bits_of_bytes_length msb0 bm : length (F.bits_of_bytes msb0 bm) = (8 * length bm)%nat.
Proof.
  unfold F.bits_of_bytes. induction bm as [|b t IH]; [reflexivity|].
  cbn [flat_map]. rewrite app_length, IH, bits_of_byte_length. cbn [length]. lia.
Qed.

Lemma nth_bits_of_byte msb0 b k : (k < 8)%nat ->
  nth k (F.bits_of_byte msb0 b) false = N.testbit b (if msb0 then 7 - N.of_nat k else N.of_nat k).
Proof.
  intros Hk. unfold F.bits_of_byte, F.bit_msb0, F.bit_lsb0.
  do 8 (destruct k as [|k]; [destruct msb0; reflexivity|]). lia.
Qed.

Lemma nth_bits_of_bytes msb0 bm : forall k,
  nth k (F.bits_of_bytes msb0 bm) false = bit_of msb0 bm (N.of_nat k).
Proof.
  unfold F.bits_of_bytes. induction bm as [|b t IH]; intros k.
  - cbn [flat_map]. unfold bit_of. cbn [length].
    destruct (N.leb_spec (N.of_nat 0) (N.of_nat k / 8)); [destruct k; reflexivity|lia].
  - cbn [flat_map]. destruct (Nat.lt_ge_cases k 8) as [Hlt|Hge].
    + rewrite app_nth1 by (rewrite bits_of_byte_length; exact Hlt).
      rewrite nth_bits_of_byte by exact Hlt. unfold bit_of. cbn [length].
      replace (N.of_nat k / 8) with 0 by lia.
      destruct (N.leb_spec (N.of_nat (S (length t))) 0); [lia|]. cbn [N.to_nat nth_error].
      replace (N.of_nat k mod 8) with (N.of_nat k) by lia. reflexivity.
    + rewrite app_nth2 by (rewrite bits_of_byte_length; exact Hge). rewrite bits_of_byte_length.
      rewrite IH. unfold bit_of. cbn [length].
      assert (E1 : N.of_nat k / 8 = N.of_nat (k - 8) / 8 + 1) by lia.
      assert (E2 : N.of_nat k mod 8 = N.of_nat (k - 8) mod 8) by lia.
      rewrite E1, E2.
      destruct (N.leb_spec (N.of_nat (length t)) (N.of_nat (k - 8) / 8));
        destruct (N.leb_spec (N.of_nat (S (length t))) (N.of_nat (k - 8) / 8 + 1)); try lia; try reflexivity.
      replace (N.to_nat (N.of_nat (k - 8) / 8 + 1)) with (S (N.to_nat (N.of_nat (k - 8) / 8))) by lia.
      reflexivity.
Qed.

(** the regions of Fmt/PfnModel in C07 terms *)
Theorem fmt_runs_from msb0 bm start_pfn end_pfn fileoff elemsz :
  runs_from (L start_pfn end_pfn (bit_of msb0 bm)) 0 (8 * N.of_nat (length bm)) fileoff elemsz true
            (map conv_region (F.regions_from_bitmap msb0 bm start_pfn end_pfn fileoff elemsz)).
Proof.
  unfold F.regions_from_bitmap.
  pose proof (walk_spec elemsz start_pfn end_pfn (bit_of msb0 bm) (F.bits_of_bytes msb0 bm) 0 fileoff None) as H.
  cbn beta iota in H. rewrite bits_of_bytes_length in H.
  replace (0 + N.of_nat (8 * length bm)) with (8 * N.of_nat (length bm)) in H by lia.
  apply H; [|discriminate].
  intros k Hk. rewrite nth_bits_of_bytes. f_equal.
Qed.

(* membership: inside a region <=> a set bit inside the window *)
Corollary fmt_regions_mapped msb0 bm start_pfn end_pfn fileoff elemsz p :
  existsb (fun r => inb r p) (map conv_region (F.regions_from_bitmap msb0 bm start_pfn end_pfn fileoff elemsz))
  = bit_of msb0 bm p && (start_pfn <=? p) && (p <? end_pfn).
Proof.
  destruct (runs_facts _ _ _ _ _ _ _ (fmt_runs_from msb0 bm start_pfn end_pfn fileoff elemsz)) as (_ & _ & H).
  rewrite H. unfold L.
  destruct (N.ltb_spec p (8 * N.of_nat (length bm))) as [Hlt|Hge].
  - destruct (N.leb_spec 0 p); [|lia]. reflexivity.
  - assert (E : bit_of msb0 bm p = false).
    { unfold bit_of. destruct (N.leb_spec (N.of_nat (length bm)) (p / 8)); [reflexivity|lia]. }
    rewrite E. now rewrite andb_false_r.
Qed.

(** restricting to the window: the C07 characterisation over [start, end) is the one
    over the whole bitmap with window-masked bits *)
Lemma runs_from_window bit s e H : e <= H -> forall rs cur pos esz f,
  s <= cur -> runs_from bit cur e pos esz f rs -> runs_from (L s e bit) cur H pos esz f rs.
Proof.
  intros HeH. induction rs as [|r t IH]; intros cur pos esz f Hs Hr; cbn [runs_from] in *.
  - intros p Hp1 Hp2. unfold L. destruct (N.ltb_spec p e); [|apply andb_false_r].
    rewrite (Hr p Hp1 ltac:(lia)). reflexivity.
  - destruct Hr as (A1 & A2 & A3 & A4 & A5 & A6 & A7 & A8).
    repeat split; try assumption; try lia.
    + intros p Hp1 Hp2. unfold L. rewrite (A5 p Hp1 Hp2). reflexivity.
    + intros p Hp1 Hp2. unfold L. rewrite (A6 p Hp1 Hp2).
      destruct (N.leb_spec s p); destruct (N.ltb_spec p e); try lia; reflexivity.
    + apply IH; [lia|exact A8].
Qed.

(** the bridging equality: what the scanner model of C07 returns is, record by
    record, what the bit-by-bit walk of C01 returns *)
Theorem bridge_regions msb0 al bm start_pfn end_pfn fileoff elemsz orc rs orc' :
  wf_bytes bm -> (end_pfn + 7) / 8 <= N.of_nat (length bm) ->
  regions_from_bitmap true msb0 al bm start_pfn end_pfn fileoff elemsz [] orc = (ROk rs, orc') ->
  rs = map conv_region (F.regions_from_bitmap msb0 bm start_pfn end_pfn fileoff elemsz).
Proof.
  intros Hwf Hlen Hrun.
  pose proof (regions_are_runs msb0 al bm start_pfn end_pfn fileoff elemsz [] orc (ROk rs) orc' Hwf Hlen Hrun)
    as [new [E Hr]]. cbn [app] in E. subst new.
  eapply (runs_from_unique (L start_pfn end_pfn (bit_of msb0 bm))).
  - apply (runs_from_extend (L start_pfn end_pfn (bit_of msb0 bm)) 0 start_pfn
             (8 * N.of_nat (length bm)) fileoff elemsz true true rs).
    + lia.
    + intros p _ Hp. unfold L. destruct (N.leb_spec start_pfn p); [lia|]. now rewrite andb_false_r.
    + intros Hf. discriminate Hf.
    + apply (runs_from_window (bit_of msb0 bm) start_pfn end_pfn (8 * N.of_nat (length bm)));
        [lia|lia|exact Hr].
  - apply fmt_runs_from.
Qed.
