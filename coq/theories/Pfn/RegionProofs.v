(** Proofs about Pfn/RegionModel.v: binary search, find-next-set,
    find-next-clear and bulk bit retrieval over one or several file maps agree
    with "is frame p inside a region" — and hence, through
    [BitmapProofs.regions_are_runs], with the bits of the source bitmaps. *)
From Coq Require Import NArith ZArith List Bool Lia Sorting.Sorted.
From Coq Require Import ZifyBool ZifyNat ZifyN.
From KdV Require Import Base.Wrap64 Pfn.BitmapModel Pfn.RegionModel Pfn.PfnSpec Pfn.BitmapProofs.
Import ListNotations.
Local Open Scope N_scope.

Ltac Zify.zify_post_hook ::= Z.div_mod_to_equations.

Definition rend (r : region) : N := g_pfn r + g_cnt r.

(* sorted, disjoint, non-empty regions whose ends fit 64 bits *)
Definition wf_regions (rs : list region) : Prop :=
  Forall (fun r => 1 <= g_cnt r /\ rend r < W) rs /\
  StronglySorted (fun a b => rend a <= g_pfn b) rs.

Lemma wadd_rend r : rend r < W -> wadd (g_pfn r) (g_cnt r) = rend r.
Proof. intros H. unfold rend in *. now apply wadd_small. Qed.

Lemma sorted_nth {A} (R : A -> A -> Prop) l : StronglySorted R l ->
  forall i j a b, (i < j)%nat -> nth_error l i = Some a -> nth_error l j = Some b -> R a b.
Proof.
  induction 1 as [|x l Hs IH Hall]; intros i j a b Hij Hi Hj.
  - destruct i; discriminate.
  - destruct j as [|j]; [lia|]. cbn [nth_error] in Hj. destruct i as [|i]; cbn [nth_error] in Hi.
    + inversion Hi; subst. rewrite Forall_forall in Hall. apply Hall. eapply nth_error_In; eauto.
    + apply (IH i j a b); [lia|exact Hi|exact Hj].
Qed.

(** * find_pfn_region *)

(* [o] designates the first region whose end lies above [p] *)
Definition region_idx_spec (rs : list region) (p : N) (o : option N) : Prop :=
  match o with
  | Some i => exists r, nth_region rs i = Some r /\ p < rend r /\
                        forall j r', j < i -> nth_region rs j = Some r' -> rend r' <= p
  | None => forall j r', nth_region rs j = Some r' -> rend r' <= p
  end.

Lemma nth_region_lt rs i r : nth_region rs i = Some r -> i < N.of_nat (length rs).
Proof.
  unfold nth_region. intros H. assert (Hs : nth_error rs (N.to_nat i) <> None) by congruence.
  apply nth_error_Some in Hs. lia.
Qed.

Lemma nth_region_some rs i : i < N.of_nat (length rs) -> exists r, nth_region rs i = Some r.
Proof.
  unfold nth_region. intros H. destruct (nth_error rs (N.to_nat i)) eqn:E; [eauto|].
  apply nth_error_None in E. lia.
Qed.

Lemma wf_nth rs i r : wf_regions rs -> nth_region rs i = Some r -> 1 <= g_cnt r /\ rend r < W.
Proof.
  intros [Hall _] H. rewrite Forall_forall in Hall. apply Hall.
  unfold nth_region in H. eapply nth_error_In; eauto.
Qed.

Lemma wf_sorted rs i j a b : wf_regions rs -> i < j ->
  nth_region rs i = Some a -> nth_region rs j = Some b -> rend a <= g_pfn b.
Proof.
  intros [_ Hs] Hij Hi Hj. unfold nth_region in *.
  eapply (sorted_nth _ rs Hs (N.to_nat i) (N.to_nat j)); eauto. lia.
Qed.

Lemma bsearch_spec rs p : wf_regions rs -> p < W ->
  forall fuel left right,
  left <= right -> right <= N.of_nat (length rs) -> (N.to_nat (right - left) < fuel)%nat ->
  (forall j r', j < left -> nth_region rs j = Some r' -> rend r' <= p) ->
  (forall j r', right <= j -> nth_region rs j = Some r' -> p < g_pfn r') ->
  exists o, bsearch fuel rs left right p = Val o /\ region_idx_spec rs p o.
Proof.
  intros Hwf Hp. induction fuel as [|fuel IH]; intros left right Hlr Hrn Hfuel Hlo Hhi; [lia|].
  cbn [bsearch]. destruct (N.eqb_spec left right) as [E|E].
  - subst right. destruct (N.ltb_spec left (N.of_nat (length rs))) as [Hin|Hout].
    + eexists. split; [reflexivity|]. cbn [region_idx_spec].
      destruct (nth_region_some rs left Hin) as [r Hr]. exists r. split; [exact Hr|].
      split; [|exact Hlo]. specialize (Hhi left r ltac:(lia) Hr).
      destruct (wf_nth rs left r Hwf Hr). unfold rend. lia.
    + eexists. split; [reflexivity|]. cbn [region_idx_spec]. intros j r' Hj.
      apply Hlo with j; [|exact Hj]. apply nth_region_lt in Hj. lia.
  - set (mid := (left + right) / 2).
    assert (Hmid : left <= mid /\ mid < right) by (unfold mid; lia).
    destruct (nth_region_some rs mid ltac:(lia)) as [rgn Hrgn]. rewrite Hrgn.
    destruct (wf_nth rs mid rgn Hwf Hrgn) as [Hcnt Hrend].
    rewrite (wadd_rend rgn Hrend).
    destruct (N.ltb_spec p (g_pfn rgn)) as [Hlt|Hge].
    + apply IH; try lia; [exact Hlo|].
      intros j r' Hj Hr'. destruct (N.eq_dec j mid) as [->|Hne]; [congruence|].
      pose proof (wf_sorted rs mid j rgn r' Hwf ltac:(lia) Hrgn Hr'). unfold rend in *. lia.
    + destruct (N.leb_spec (rend rgn) p) as [Hle|Hgt].
      * apply IH; try lia; [|exact Hhi].
        intros j r' Hj Hr'. destruct (N.eq_dec j mid) as [->|Hne]; [congruence|].
        pose proof (wf_sorted rs j mid r' rgn Hwf ltac:(lia) Hr' Hrgn).
        destruct (wf_nth rs j r' Hwf Hr'). unfold rend in *. lia.
      * eexists. split; [reflexivity|]. cbn [region_idx_spec]. exists rgn.
        split; [exact Hrgn|]. split; [exact Hgt|].
        intros j r' Hj Hr'. pose proof (wf_sorted rs j mid r' rgn Hwf Hj Hr' Hrgn). lia.
Qed.

Theorem find_region_spec m p : wf_regions (regions m) -> p < W ->
  exists o, find_region m p = Val o /\ region_idx_spec (regions m) p o.
Proof.
  intros Hwf Hp. unfold find_region.
  apply bsearch_spec; try assumption; try lia.
  intros j r' Hj Hr. apply nth_region_lt in Hr. lia.
Qed.

(** * Several file maps *)

Definition inb (r : region) (p : N) : bool := (g_pfn r <=? p) && (p <? rend r).
Definition mapped1 (m : fmap) (p : N) : bool := existsb (fun r => inb r p) (regions m).
(* frame [p] lies inside some region of some file map *)
Definition mapped (maps : list fmap) (p : N) : bool := existsb (fun m => mapped1 m p) maps.

Definition wf_map (m : fmap) : Prop :=
  start_pfn m <= end_pfn m /\ end_pfn m < W /\ wf_regions (regions m) /\
  Forall (fun r => start_pfn m <= g_pfn r /\ rend r <= end_pfn m) (regions m).

(* maps sorted by end_pfn with pairwise disjoint windows *)
Definition wf_maps (maps : list fmap) : Prop :=
  Forall wf_map maps /\ StronglySorted (fun a b => end_pfn a <= start_pfn b) maps.

(* position (k, idx) before (k', idx') in the concatenation of all region arrays *)
Definition lexlt (k idx k' idx' : N) : Prop := k < k' \/ (k = k' /\ idx < idx').

Definition at_pos (maps : list fmap) (k idx : N) (r : region) : Prop :=
  exists m, nth_map maps k = Some m /\ nth_region (regions m) idx = Some r.

Lemma nth_map_in maps k m : nth_map maps k = Some m -> In m maps.
Proof. unfold nth_map. apply nth_error_In. Qed.

Lemma wf_maps_map maps k m : wf_maps maps -> nth_map maps k = Some m -> wf_map m.
Proof. intros [Hall _] H. rewrite Forall_forall in Hall. apply Hall. eapply nth_map_in; eauto. Qed.

Lemma wf_map_region m idx r : wf_map m -> nth_region (regions m) idx = Some r ->
  start_pfn m <= g_pfn r /\ rend r <= end_pfn m /\ 1 <= g_cnt r /\ rend r < W.
Proof.
  intros (H1 & H2 & H3 & H4) Hr. rewrite Forall_forall in H4.
  destruct (H4 r) as [Ha Hb]; [unfold nth_region in Hr; eapply nth_error_In; eauto|].
  destruct (wf_nth _ _ _ H3 Hr). repeat split; assumption.
Qed.

(* the concatenation of all region arrays is sorted and disjoint *)
Lemma global_order maps k idx r k' idx' r' : wf_maps maps ->
  at_pos maps k idx r -> at_pos maps k' idx' r' -> lexlt k idx k' idx' -> rend r <= g_pfn r'.
Proof.
  intros Hwf [m [Hm Hr]] [m' [Hm' Hr']] [Hlt|[E Hlt]].
  - pose proof (wf_maps_map _ _ _ Hwf Hm) as Hw. pose proof (wf_maps_map _ _ _ Hwf Hm') as Hw'.
    destruct (wf_map_region _ _ _ Hw Hr) as (_ & Ha & _).
    destruct (wf_map_region _ _ _ Hw' Hr') as (Hb & _).
    destruct Hwf as [_ Hs]. unfold nth_map in *.
    pose proof (sorted_nth _ maps Hs (N.to_nat k) (N.to_nat k') m m' ltac:(lia) Hm Hm') as Hord.
    cbn beta in Hord. lia.
  - subst k'. rewrite Hm in Hm'. inversion Hm'; subst m'.
    pose proof (wf_maps_map _ _ _ Hwf Hm) as (_ & _ & Hw & _).
    eapply wf_sorted; eauto.
Qed.

Lemma at_pos_wf maps k idx r : wf_maps maps -> at_pos maps k idx r -> 1 <= g_cnt r /\ rend r < W.
Proof.
  intros Hwf [m [Hm Hr]]. pose proof (wf_maps_map _ _ _ Hwf Hm) as Hw.
  destruct (wf_map_region _ _ _ Hw Hr) as (_ & _ & H1 & H2). now split.
Qed.

Lemma mapped_true_intro maps k idx r p : at_pos maps k idx r -> inb r p = true -> mapped maps p = true.
Proof.
  intros [m [Hm Hr]] Hin. unfold mapped. apply existsb_exists. exists m.
  split; [eapply nth_map_in; eauto|]. unfold mapped1. apply existsb_exists. exists r.
  split; [unfold nth_region in Hr; eapply nth_error_In; eauto|exact Hin].
Qed.

Lemma mapped_false_intro maps p :
  (forall k idx r, at_pos maps k idx r -> inb r p = false) -> mapped maps p = false.
Proof.
  intros H. destruct (mapped maps p) eqn:E; [|reflexivity]. exfalso.
  unfold mapped in E. apply existsb_exists in E. destruct E as [m [Hm E]].
  unfold mapped1 in E. apply existsb_exists in E. destruct E as [r [Hr E]].
  apply In_nth_error in Hm. destruct Hm as [k Hk]. apply In_nth_error in Hr. destruct Hr as [i Hi].
  rewrite (H (N.of_nat k) (N.of_nat i) r) in E; [discriminate|].
  exists m. unfold nth_map, nth_region. now rewrite !Nnat.Nat2N.id.
Qed.

(* every region lies at or below [p] *)
Definition all_le (maps : list fmap) (p : N) : Prop :=
  forall k idx r, at_pos maps k idx r -> rend r <= p.

(* (mi, ri) designates the first region, in the global order, whose end lies above [p] *)
Definition ptr_spec (maps : list fmap) (p mi ri : N) (r : region) : Prop :=
  at_pos maps mi ri r /\ p < rend r /\
  forall k idx r', at_pos maps k idx r' -> lexlt k idx mi ri -> rend r' <= p.

Lemma all_le_unmapped maps p q : all_le maps p -> p <= q -> mapped maps q = false.
Proof.
  intros H Hq. apply mapped_false_intro. intros k idx r Hr. specialize (H k idx r Hr).
  unfold inb. destruct (N.ltb_spec q (rend r)); [lia|apply andb_false_r].
Qed.

Lemma lex_cases k idx k' idx' : lexlt k idx k' idx' \/ (k = k' /\ idx = idx') \/ lexlt k' idx' k idx.
Proof. unfold lexlt. lia. Qed.

Lemma at_pos_fun maps k idx r r' : at_pos maps k idx r -> at_pos maps k idx r' -> r = r'.
Proof. intros [m [Hm Hr]] [m' [Hm' Hr']]. congruence. Qed.

Lemma ptr_gap maps p mi ri r q : wf_maps maps -> ptr_spec maps p mi ri r ->
  p <= q -> q < g_pfn r -> mapped maps q = false.
Proof.
  intros Hwf (Hat & Hp & Hbefore) Hq1 Hq2. apply mapped_false_intro. intros k idx r' Hr'.
  unfold inb. destruct (lex_cases k idx mi ri) as [Hl|[[-> ->]|Hl]].
  - specialize (Hbefore k idx r' Hr' Hl). destruct (N.ltb_spec q (rend r')); [lia|apply andb_false_r].
  - rewrite (at_pos_fun _ _ _ _ _ Hr' Hat). destruct (N.leb_spec (g_pfn r) q); [lia|reflexivity].
  - pose proof (global_order _ _ _ _ _ _ _ Hwf Hat Hr' Hl).
    destruct (at_pos_wf _ _ _ _ Hwf Hat). unfold rend in *.
    destruct (N.leb_spec (g_pfn r') q); [lia|reflexivity].
Qed.

Lemma ptr_inside maps mi ri r q : at_pos maps mi ri r -> g_pfn r <= q -> q < rend r ->
  mapped maps q = true.
Proof.
  intros Hat H1 H2. eapply mapped_true_intro; [exact Hat|]. unfold inb.
  destruct (N.leb_spec (g_pfn r) q); destruct (N.ltb_spec q (rend r)); try lia; reflexivity.
Qed.

Lemma skipn_cons {A} (l : list A) i : (i < length l)%nat ->
  exists x, nth_error l i = Some x /\ skipn i l = x :: skipn (S i) l.
Proof.
  revert i. induction l as [|a l IH]; intros i Hi; [cbn in Hi; lia|].
  destruct i as [|i].
  - exists a. split; reflexivity.
  - destruct (IH i ltac:(cbn in Hi; lia)) as [x [H1 H2]]. exists x. split; [exact H1|exact H2].
Qed.

(** find_pfn_region_maps *)
Lemma frm_spec maps p : wf_maps maps -> p < W ->
  forall n i0, (n = length maps - N.to_nat i0)%nat -> i0 <= N.of_nat (length maps) ->
  (forall k idx r, at_pos maps k idx r -> k < i0 -> rend r <= p) ->
  exists o, find_region_maps (skipn (N.to_nat i0) maps) i0 p = Val o /\
    match o with
    | None => all_le maps p
    | Some (mi, ri) => i0 <= mi /\ exists r, ptr_spec maps p mi ri r
    end.
Proof.
  intros Hwf Hp. induction n as [|n IH]; intros i0 Hn Hi0 Hbefore.
  - rewrite skipn_all2 by lia. cbn [find_region_maps]. eexists. split; [reflexivity|].
    intros k idx r Hr. apply (Hbefore k idx r Hr). destruct Hr as [m [Hm _]].
    unfold nth_map in Hm. assert (Hs : nth_error maps (N.to_nat k) <> None) by congruence.
    apply nth_error_Some in Hs. lia.
  - destruct (skipn_cons maps (N.to_nat i0) ltac:(lia)) as [m [Hm Hsk]]. rewrite Hsk.
    cbn [find_region_maps].
    assert (Hm' : nth_map maps i0 = Some m) by exact Hm.
    pose proof (wf_maps_map _ _ _ Hwf Hm') as Hwm.
    destruct (find_region_spec m p (proj1 (proj2 (proj2 Hwm))) Hp) as [o [Ho Hspec]]. rewrite Ho.
    destruct o as [ri|]; cbn [region_idx_spec] in Hspec.
    + eexists. split; [reflexivity|]. split; [lia|].
      destruct Hspec as [r (Hr & Hpr & Hlow)]. exists r. split; [exists m; now split|].
      split; [exact Hpr|]. intros k idx r' Hr' [Hlt|[-> Hlt]].
      * now apply (Hbefore k idx r' Hr').
      * destruct Hr' as [m2 [Hm2 Hr2]]. rewrite Hm' in Hm2. inversion Hm2; subst m2.
        now apply (Hlow idx r' Hlt).
    + replace (S (N.to_nat i0)) with (N.to_nat (i0 + 1)) by lia.
      assert (Hb' : forall k idx r, at_pos maps k idx r -> k < i0 + 1 -> rend r <= p).
      { intros k idx r Hr Hk. destruct (N.eq_dec k i0) as [->|Hne].
        - destruct Hr as [m2 [Hm2 Hr2]]. rewrite Hm' in Hm2. inversion Hm2; subst m2.
          now apply (Hspec idx r).
        - apply (Hbefore k idx r Hr). lia. }
      destruct (IH (i0 + 1) ltac:(lia) ltac:(lia) Hb') as [o [Ho' Hs']].
      exists o. split; [exact Ho'|]. destruct o as [[mi ri]|]; [|exact Hs'].
      destruct Hs' as [Hle Hex]. split; [lia|exact Hex].
Qed.

(** find_pfn_file_map *)
Lemma ffm_spec maps p : forall i0 l,
  (forall j, nth_error l j = nth_error maps (N.to_nat i0 + j)) ->
  match find_file_map l i0 p with
  | Some mi => i0 <= mi /\ (exists m, nth_map maps mi = Some m /\ p < end_pfn m) /\
               forall k m, i0 <= k -> k < mi -> nth_map maps k = Some m -> end_pfn m <= p
  | None => forall k m, i0 <= k -> nth_map maps k = Some m -> end_pfn m <= p
  end.
Proof.
  intros i0 l. revert i0. induction l as [|m t IH]; intros i0 Hl; cbn [find_file_map].
  - intros k m Hk Hm. unfold nth_map in Hm.
    specialize (Hl (N.to_nat k - N.to_nat i0)%nat).
    replace (N.to_nat i0 + (N.to_nat k - N.to_nat i0))%nat with (N.to_nat k) in Hl by lia.
    rewrite Hm in Hl. destruct (N.to_nat k - N.to_nat i0)%nat; discriminate.
  - pose proof (Hl O) as H0. rewrite Nat.add_0_r in H0. cbn [nth_error] in H0.
    destruct (N.ltb_spec p (end_pfn m)) as [Hlt|Hge].
    + split; [lia|]. split; [exists m; split; [unfold nth_map; now rewrite <- H0|exact Hlt]|].
      intros k m' Hk1 Hk2. lia.
    + specialize (IH (i0 + 1)).
      assert (Ht : forall j, nth_error t j = nth_error maps (N.to_nat (i0 + 1) + j)).
      { intros j. specialize (Hl (S j)). cbn [nth_error] in Hl. rewrite Hl. f_equal. lia. }
      specialize (IH Ht). destruct (find_file_map t (i0 + 1) p) as [mi|].
      * destruct IH as (H1 & H2 & H3). split; [lia|]. split; [exact H2|].
        intros k m' Hk1 Hk2 Hm'. destruct (N.eq_dec k i0) as [->|Hne].
        -- unfold nth_map in Hm'. rewrite <- H0 in Hm'. inversion Hm'; subst. exact Hge.
        -- apply (H3 k m'); try lia. exact Hm'.
      * intros k m' Hk Hm'. destruct (N.eq_dec k i0) as [->|Hne].
        -- unfold nth_map in Hm'. rewrite <- H0 in Hm'. inversion Hm'; subst. exact Hge.
        -- apply (IH k m'); try lia. exact Hm'.
Qed.

Lemma below_file_map maps p mi : wf_maps maps ->
  (forall k m, k < mi -> nth_map maps k = Some m -> end_pfn m <= p) ->
  forall k idx r, at_pos maps k idx r -> k < mi -> rend r <= p.
Proof.
  intros Hwf H k idx r [m [Hm Hr]] Hk.
  pose proof (wf_maps_map _ _ _ Hwf Hm) as Hw.
  destruct (wf_map_region _ _ _ Hw Hr) as (_ & Ha & _). specialize (H k m Hk Hm). lia.
Qed.

(** ** find-next-set *)
Theorem find_mapped_spec maps p : wf_maps maps -> p < W ->
  exists o, find_mapped_pfn true maps p = Val o /\
    match o with
    | None => forall q, p <= q -> mapped maps q = false
    | Some q => p <= q /\ mapped maps q = true /\
                forall j, p <= j -> j < q -> mapped maps j = false
    end.
Proof.
  intros Hwf Hp. unfold find_mapped_pfn.
  pose proof (ffm_spec maps p 0 maps ltac:(intros j; reflexivity)) as Hf.
  destruct (find_file_map maps 0 p) as [mi|].
  - destruct Hf as (_ & [m [Hm Hpm]] & Hlow).
    assert (Hmi : mi < N.of_nat (length maps)).
    { unfold nth_map in Hm. assert (Hs : nth_error maps (N.to_nat mi) <> None) by congruence.
      apply nth_error_Some in Hs. lia. }
    destruct (frm_spec maps p Hwf Hp _ mi eq_refl ltac:(lia)
               (below_file_map maps p mi Hwf (fun k m Hk => Hlow k m ltac:(lia) Hk)))
      as [o [Ho Hspec]].
    rewrite Ho. destruct o as [[mi' ri]|].
    + destruct Hspec as [_ [r Hptr]]. pose proof Hptr as (Hat & Hpr & _).
      destruct Hat as [m' [Hm' Hr]]. unfold region_at. rewrite Hm', Hr.
      eexists. split; [reflexivity|]. cbn beta iota.
      destruct (N.ltb_spec p (g_pfn r)) as [Hlt|Hge].
      * split; [lia|]. split.
        -- eapply ptr_inside; [exists m'; split; eauto|lia|].
           destruct (at_pos_wf maps mi' ri r Hwf ltac:(exists m'; split; eauto)). unfold rend. lia.
        -- intros j Hj1 Hj2. eapply ptr_gap; eauto.
      * split; [lia|]. split.
        -- eapply ptr_inside; [exists m'; split; eauto|lia|lia].
        -- intros j Hj1 Hj2. lia.
    + eexists. split; [reflexivity|]. intros q Hq. eapply all_le_unmapped; eauto.
  - eexists. split; [reflexivity|]. intros q Hq. apply (all_le_unmapped maps p q); [|exact Hq].
    intros k idx r Hr. apply (below_file_map maps p (N.of_nat (length maps)) Hwf) with k idx; try assumption.
    + intros k' m' _ Hm'. apply (Hf k' m'); [lia|exact Hm'].
    + destruct Hr as [m [Hm _]]. unfold nth_map in Hm.
      assert (Hs : nth_error maps (N.to_nat k) <> None) by congruence. apply nth_error_Some in Hs. lia.
Qed.

(** ** find-next-clear *)

Lemma maps_order maps k k' m m' : wf_maps maps -> k < k' ->
  nth_map maps k = Some m -> nth_map maps k' = Some m' -> end_pfn m <= start_pfn m'.
Proof.
  intros [_ Hs] Hk Hm Hm'. unfold nth_map in *.
  pose proof (sorted_nth _ maps Hs (N.to_nat k) (N.to_nat k') m m' ltac:(lia) Hm Hm') as H.
  exact H.
Qed.

Lemma unmapped_step_spec maps p : wf_maps maps -> p < W ->
  exists o, unmapped_step maps p = Val o /\
    match o with
    | None => mapped maps p = false
    | Some p' => p < p' /\ (forall j, p <= j -> j < p' -> mapped maps j = true) /\
                 exists k idx r, at_pos maps k idx r /\ p' = rend r /\ p < rend r
    end.
Proof.
  intros Hwf Hp. unfold unmapped_step.
  pose proof (ffm_spec maps p 0 maps ltac:(intros j; reflexivity)) as Hf.
  destruct (find_file_map maps 0 p) as [mi|].
  - destruct Hf as (_ & [m [Hm Hpm]] & Hlow). rewrite Hm.
    pose proof (wf_maps_map _ _ _ Hwf Hm) as Hwm.
    assert (Hbelow : forall k idx r, at_pos maps k idx r -> k < mi -> rend r <= p).
    { apply below_file_map; [exact Hwf|]. intros k m' Hk. apply Hlow; lia. }
    assert (Hlater : forall k idx r, at_pos maps k idx r -> mi < k -> end_pfn m <= g_pfn r).
    { intros k idx r [m' [Hm' Hr]] Hk.
      pose proof (maps_order maps mi k m m' Hwf Hk Hm Hm').
      destruct (wf_map_region m' idx r (wf_maps_map _ _ _ Hwf Hm') Hr) as (Hs & _). lia. }
    destruct (N.leb_spec (start_pfn m) p) as [Hst|Hst].
    + destruct (find_region_spec m p (proj1 (proj2 (proj2 Hwm))) Hp) as [o [Ho Hspec]]. rewrite Ho.
      destruct o as [ri|]; cbn [region_idx_spec] in Hspec.
      * destruct Hspec as [r (Hr & Hpr & Hl)]. rewrite Hr.
        destruct (wf_map_region m ri r Hwm Hr) as (_ & _ & Hc & Hrw).
        destruct (N.leb_spec (g_pfn r) p) as [Hin|Hout].
        -- rewrite (wadd_rend r Hrw). eexists. split; [reflexivity|]. split; [exact Hpr|].
           split.
           ++ intros j Hj1 Hj2. eapply ptr_inside; [exists m; split; eauto|lia|lia].
           ++ exists mi, ri, r. split; [exists m; now split|]. split; [reflexivity|exact Hpr].
        -- eexists. split; [reflexivity|].
           apply (ptr_gap maps p mi ri r p Hwf); try lia.
           split; [exists m; now split|]. split; [exact Hpr|].
           intros k idx r' Hr' [Hlt|[-> Hlt]]; [now apply (Hbelow k idx r')|].
           destruct Hr' as [m2 [Hm2 Hr2]]. rewrite Hm in Hm2. inversion Hm2; subst m2.
           now apply (Hl idx r').
      * eexists. split; [reflexivity|]. apply mapped_false_intro. intros k idx r Hr. unfold inb.
        destruct (N.lt_trichotomy k mi) as [Hk|[->|Hk]].
        -- specialize (Hbelow k idx r Hr Hk).
           destruct (N.ltb_spec p (rend r)); [lia|apply andb_false_r].
        -- destruct Hr as [m2 [Hm2 Hr2]]. rewrite Hm in Hm2. inversion Hm2; subst m2.
           specialize (Hspec idx r Hr2).
           destruct (N.ltb_spec p (rend r)); [lia|apply andb_false_r].
        -- specialize (Hlater k idx r Hr Hk). destruct (N.leb_spec (g_pfn r) p); [lia|reflexivity].
    + eexists. split; [reflexivity|]. apply mapped_false_intro. intros k idx r Hr. unfold inb.
      destruct (N.lt_trichotomy k mi) as [Hk|[->|Hk]].
      * specialize (Hbelow k idx r Hr Hk).
        destruct (N.ltb_spec p (rend r)); [lia|apply andb_false_r].
      * destruct Hr as [m2 [Hm2 Hr2]]. rewrite Hm in Hm2. inversion Hm2; subst m2.
        destruct (wf_map_region m idx r Hwm Hr2) as (Hs & _).
        destruct (N.leb_spec (g_pfn r) p); [lia|reflexivity].
      * specialize (Hlater k idx r Hr Hk). destruct Hwm as (Hse & _).
        destruct (N.leb_spec (g_pfn r) p); [lia|reflexivity].
  - eexists. split; [reflexivity|]. apply (all_le_unmapped maps p p); [|lia].
    intros k idx r Hr. apply (below_file_map maps p (N.of_nat (length maps)) Hwf) with k idx; try assumption.
    + intros k' m' _ Hm'. apply (Hf k' m'); [lia|exact Hm'].
    + destruct Hr as [m [Hm _]]. unfold nth_map in Hm.
      assert (Hs : nth_error maps (N.to_nat k) <> None) by congruence. apply nth_error_Some in Hs. lia.
Qed.

Definition allr (maps : list fmap) : list region := flat_map regions maps.
Definition cnt_above (maps : list fmap) (p : N) : nat :=
  length (filter (fun r => p <? rend r) (allr maps)).

Lemma total_regions_allr maps : total_regions maps = length (allr maps).
Proof.
  unfold total_regions, allr. induction maps as [|m t IH]; cbn [fold_right flat_map]; [reflexivity|].
  rewrite app_length, IH. reflexivity.
Qed.

Lemma at_pos_in maps k idx r : at_pos maps k idx r -> In r (allr maps).
Proof.
  intros [m [Hm Hr]]. unfold allr. apply in_flat_map. exists m.
  split; [eapply nth_map_in; eauto|unfold nth_region in Hr; eapply nth_error_In; eauto].
Qed.

Lemma filter_length_lt {A} (f g : A -> bool) l x :
  (forall y, f y = true -> g y = true) -> In x l -> g x = true -> f x = false ->
  (length (filter f l) < length (filter g l))%nat.
Proof.
  intros Himp. induction l as [|a l IH]; intros Hin Hg Hf; [destruct Hin|].
  assert (Hle : forall l', (length (filter f l') <= length (filter g l'))%nat).
  { induction l' as [|b l' IHl]; cbn [filter]; [lia|].
    destruct (f b) eqn:Efb; [rewrite (Himp b Efb); cbn [length]; lia|].
    destruct (g b); cbn [length]; lia. }
  cbn [filter]. destruct Hin as [->|Hin].
  - rewrite Hg, Hf. cbn [length]. specialize (Hle l). lia.
  - specialize (IH Hin Hg Hf). destruct (f a) eqn:Efa; [rewrite (Himp a Efa); cbn [length]; lia|].
    destruct (g a); cbn [length]; lia.
Qed.

Lemma unmapped_loop_spec maps : wf_maps maps ->
  forall fuel p, (cnt_above maps p < fuel)%nat -> p < W ->
  exists q, unmapped_loop fuel maps p = Val q /\ p <= q /\
            (forall j, p <= j -> j < q -> mapped maps j = true) /\ mapped maps q = false.
Proof.
  intros Hwf. induction fuel as [|fuel IH]; intros p Hfuel Hp; [lia|].
  cbn [unmapped_loop].
  destruct (unmapped_step_spec maps p Hwf Hp) as [o [Ho Hspec]]. rewrite Ho.
  destruct o as [p'|].
  - destruct Hspec as (Hlt & Hall & k & idx & r & Hat & Ep & Hpr).
    destruct (at_pos_wf maps k idx r Hwf Hat) as [_ Hrw].
    assert (Hdec : (cnt_above maps p' < cnt_above maps p)%nat).
    { unfold cnt_above. apply filter_length_lt with r.
      - intros y Hy. apply N.ltb_lt in Hy. apply N.ltb_lt. lia.
      - eapply at_pos_in; eauto.
      - apply N.ltb_lt. exact Hpr.
      - apply N.ltb_ge. lia. }
    destruct (IH p' ltac:(lia) ltac:(lia)) as [q (Hq & Hle & Hin & Hout)].
    exists q. split; [exact Hq|]. split; [lia|]. split; [|exact Hout].
    intros j Hj1 Hj2. destruct (N.lt_ge_cases j p'); [now apply Hall|now apply Hin].
  - exists p. split; [reflexivity|]. split; [lia|]. split; [intros j Hj1 Hj2; lia|exact Hspec].
Qed.

Theorem find_unmapped_spec maps p : wf_maps maps -> p < W ->
  exists q, find_unmapped_pfn true maps p = Val q /\ p <= q /\
            (forall j, p <= j -> j < q -> mapped maps j = true) /\ mapped maps q = false.
Proof.
  intros Hwf Hp. unfold find_unmapped_pfn. apply unmapped_loop_spec; [exact Hwf| |exact Hp].
  rewrite total_regions_allr. unfold cnt_above.
  assert (H : forall l : list region, (length (filter (fun r => (p <? rend r)%N) l) <= length l)%nat).
  { induction l as [|a l IH]; cbn [filter length]; [lia|].
    destruct (p <? rend a); cbn [length]; lia. }
  specialize (H (allr maps)). lia.
Qed.

(** ** bulk bit retrieval *)

Section GetBits.
  Variables (maps : list fmap) (first last : N).
  Hypothesis Hwf : wf_maps maps.
  Hypothesis Hfl : first <= last.
  Hypothesis HlW : last < W.
  Let n := N.to_nat ((last - first) / 8).

  (* bits below [cur - first] are final, padding is clear *)
  Definition Jinv (cur : N) (bits : list N) : Prop :=
    first <= cur /\ cur <= last /\ length bits = S n /\ wf_bytes bits /\
    (forall i, i < cur - first -> rbit bits i = mapped maps (first + i)) /\
    (forall i, last - first < i -> rbit bits i = false).

  Definition Final (raw : list N) : Prop :=
    length raw = S n /\ wf_bytes raw /\
    forall i, rbit raw i = (i <=? last - first) && mapped maps (first + i).

  Lemma fin_clear cur bits : Jinv cur bits ->
    (forall q, cur <= q -> q <= last -> mapped maps q = false) ->
    exists raw, clear_bits bits (cur - first) (last - first) = Some raw /\ Final raw.
  Proof.
    intros (H1 & H2 & H3 & H4 & H5 & H6) Hun.
    destruct (clear_bits_spec bits (cur - first) (last - first) H4 ltac:(lia)
                ltac:(rewrite H3; unfold n; lia)) as [raw (Hc & Hl & Hw & Hb)].
    exists raw. split; [exact Hc|]. split; [congruence|]. split; [exact Hw|].
    intros i. rewrite Hb.
    destruct (N.leb_spec (cur - first) i); destruct (N.leb_spec i (last - first));
      cbn [andb negb].
    - symmetry. apply Hun; lia.
    - apply H6. lia.
    - apply H5. lia.
    - lia.
  Qed.

  Lemma fin_set cur bits : Jinv cur bits ->
    (forall q, cur <= q -> q <= last -> mapped maps q = true) ->
    exists raw, set_bits bits (cur - first) (last - first) = Some raw /\ Final raw.
  Proof.
    intros (H1 & H2 & H3 & H4 & H5 & H6) Hma.
    destruct (set_bits_spec bits (cur - first) (last - first) H4 ltac:(lia)
                ltac:(rewrite H3; unfold n; lia)) as [raw (Hc & Hl & Hw & Hb)].
    exists raw. split; [exact Hc|]. split; [congruence|]. split; [exact Hw|].
    intros i. rewrite Hb.
    destruct (N.leb_spec (cur - first) i); destruct (N.leb_spec i (last - first));
      cbn [andb orb].
    - symmetry. apply Hma; lia.
    - apply H6. lia.
    - apply H5. lia.
    - lia.
  Qed.

  Lemma step_clear cur c2 bits : Jinv cur bits -> cur < c2 -> c2 <= last ->
    (forall q, cur <= q -> q < c2 -> mapped maps q = false) ->
    exists bits', clear_bits bits (cur - first) (c2 - 1 - first) = Some bits' /\ Jinv c2 bits'.
  Proof.
    intros (H1 & H2 & H3 & H4 & H5 & H6) Hc Hc2 Hun.
    destruct (clear_bits_spec bits (cur - first) (c2 - 1 - first) H4 ltac:(lia)
                ltac:(rewrite H3; unfold n; lia)) as [raw (Hcl & Hl & Hw & Hb)].
    exists raw. split; [exact Hcl|]. unfold Jinv. repeat split; try lia; try assumption.
    - intros i Hi. rewrite Hb.
      destruct (N.leb_spec (cur - first) i); destruct (N.leb_spec i (c2 - 1 - first));
        cbn [andb negb]; try lia.
      + symmetry. apply Hun; lia.
      + apply H5. lia.
    - intros i Hi. rewrite Hb, (H6 i Hi). apply andb_false_r.
  Qed.

  Lemma step_set cur e bits : Jinv cur bits -> cur <= e -> e < last ->
    (forall q, cur <= q -> q <= e -> mapped maps q = true) ->
    exists bits', set_bits bits (cur - first) (e - first) = Some bits' /\ Jinv (e + 1) bits'.
  Proof.
    intros (H1 & H2 & H3 & H4 & H5 & H6) Hc He Hma.
    destruct (set_bits_spec bits (cur - first) (e - first) H4 ltac:(lia)
                ltac:(rewrite H3; unfold n; lia)) as [raw (Hcl & Hl & Hw & Hb)].
    exists raw. split; [exact Hcl|]. unfold Jinv. repeat split; try lia; try assumption.
    - intros i Hi. rewrite Hb.
      destruct (N.leb_spec (cur - first) i); destruct (N.leb_spec i (e - first));
        cbn [andb orb]; try lia.
      + symmetry. apply Hma; lia.
      + apply H5. lia.
    - intros i Hi. rewrite Hb, (H6 i Hi).
      destruct (N.leb_spec (cur - first) i); destruct (N.leb_spec i (e - first));
        cbn [andb orb]; try reflexivity. lia.
  Qed.

  Lemma ws a b : b <= a -> a < W -> wsub a b = a - b.
  Proof. apply wsub_le. Qed.

  Lemma bits_loop_spec : forall fuel mi ri cur bits r,
    (cnt_above maps cur < fuel)%nat ->
    Jinv cur bits -> ptr_spec maps cur mi ri r ->
    exists raw, bits_loop fuel maps mi ri first last cur bits = Val raw /\ Final raw.
  Proof.
    induction fuel as [|fuel IH]; intros mi ri cur bits r Hfuel HJ Hptr; [lia|].
    pose proof HJ as (J1 & J2 & J3 & J4 & J5 & J6).
    pose proof Hptr as (Hat & Hcr & Hbefore).
    destruct (at_pos_wf maps mi ri r Hwf Hat) as [Hcnt Hrw].
    destruct Hat as [m [Hm Hr]].
    assert (Hat : at_pos maps mi ri r) by (exists m; now split).
    cbn [bits_loop]. rewrite Hm, Hr.
    assert (HcW : cur < W) by lia. assert (HfW : first < W) by lia.
    assert (HgW : g_pfn r < W) by (unfold rend in Hrw; lia).
    (* first half: the gap below the region *)
    assert (Hhalf : forall cur' bits', Jinv cur' bits' -> g_pfn r <= cur' -> cur' < rend r ->
      (cnt_above maps cur' <= cnt_above maps cur)%nat ->
      exists raw,
        (let next := wsub (wadd (g_pfn r) (g_cnt r)) 1 in
         if last <=? next then lift (set_bits bits' (wsub cur' first) (wsub last first))
         else match set_bits bits' (wsub cur' first) (wsub next first) with
              | None => Oob
              | Some bits0 =>
                  let cur0 := wadd next 1 in
                  if ri + 1 =? N.of_nat (length (regions m)) then
                    match find_region_maps (skipn (N.to_nat (mi + 1)) maps) (mi + 1) cur0 with
                    | Val None => lift (clear_bits bits0 (wsub cur0 first) (wsub last first))
                    | Val (Some (mi', ri')) => bits_loop fuel maps mi' ri' first last cur0 bits0
                    | Oob => Oob
                    | Fuel => Fuel
                    end
                  else bits_loop fuel maps mi (ri + 1) first last cur0 bits0
              end) = Val raw /\ Final raw).
    { intros cur' bits' HJ' Hg Hc' Hcnt'.
      pose proof HJ' as (K1 & K2 & K3 & K4 & K5 & K6).
      cbn zeta. rewrite (wadd_rend r Hrw). rewrite (ws (rend r) 1) by (unfold rend in *; lia).
      rewrite (ws cur' first) by lia. rewrite (ws last first) by lia.
      destruct (N.leb_spec last (rend r - 1)) as [Hle|Hgt].
      - destruct (fin_set cur' bits' HJ') as [raw [Hs HF]].
        + intros q Hq1 Hq2. eapply ptr_inside; [exact Hat|lia|lia].
        + exists raw. rewrite Hs. split; [reflexivity|exact HF].
      - rewrite (ws (rend r - 1) first) by lia.
        destruct (step_set cur' (rend r - 1) bits' HJ' ltac:(lia) ltac:(lia)) as [bits0 [Hs HJ0]].
        + intros q Hq1 Hq2. eapply ptr_inside; [exact Hat|lia|lia].
        + rewrite Hs. replace (rend r - 1 + 1) with (rend r) in HJ0 by lia.
          rewrite (wadd_small (rend r - 1) 1) by lia.
          replace (rend r - 1 + 1) with (rend r) by lia.
          assert (Hdec : (cnt_above maps (rend r) < cnt_above maps cur')%nat).
          { unfold cnt_above. apply filter_length_lt with r.
            - intros y Hy. apply N.ltb_lt in Hy. apply N.ltb_lt. lia.
            - eapply at_pos_in; eauto.
            - apply N.ltb_lt. exact Hc'.
            - apply N.ltb_ge. lia. }
          (* all regions up to and including (mi, ri) end at or below rend r *)
          assert (Hupto : forall k idx r', at_pos maps k idx r' ->
                    lexlt k idx mi ri \/ (k = mi /\ idx = ri) -> rend r' <= rend r).
          { intros k idx r' Hr' [Hl|[-> ->]].
            - pose proof (global_order _ _ _ _ _ _ _ Hwf Hr' Hat Hl). unfold rend in *. lia.
            - rewrite (at_pos_fun _ _ _ _ _ Hr' Hat). lia. }
          destruct (N.eqb_spec (ri + 1) (N.of_nat (length (regions m)))) as [Elast|Enl].
          * (* last region of this map: continue in the following maps *)
            assert (Hb : forall k idx r', at_pos maps k idx r' -> k < mi + 1 -> rend r' <= rend r).
            { intros k idx r' Hr' Hk. apply (Hupto k idx r' Hr').
              destruct (N.eq_dec k mi) as [->|Hne]; [|left; left; lia].
              destruct Hr' as [m2 [Hm2 Hr2]]. rewrite Hm in Hm2. inversion Hm2; subst m2.
              pose proof (nth_region_lt _ _ _ Hr2).
              destruct (N.eq_dec idx ri) as [->|Hni]; [right; split; reflexivity|].
              left. right. split; [reflexivity|lia]. }
            assert (Hmi : mi + 1 <= N.of_nat (length maps)).
            { unfold nth_map in Hm. assert (Hs' : nth_error maps (N.to_nat mi) <> None) by congruence.
              apply nth_error_Some in Hs'. lia. }
            destruct (frm_spec maps (rend r) Hwf Hrw _ (mi + 1) eq_refl Hmi Hb) as [o [Ho Hspec]].
            rewrite Ho. destruct o as [[mi' ri']|].
            -- destruct Hspec as [_ [r2 Hptr2]].
               apply (IH mi' ri' (rend r) bits0 r2); [lia|exact HJ0|exact Hptr2].
            -- destruct (fin_clear (rend r) bits0 HJ0) as [raw [Hc HF]].
               ++ intros q Hq1 Hq2. eapply all_le_unmapped; eauto.
               ++ exists raw. rewrite (ws (rend r) first) by lia. rewrite Hc.
                  split; [reflexivity|exact HF].
          * (* next region of the same map *)
            pose proof (nth_region_lt _ _ _ Hr) as Hri.
            destruct (nth_region_some (regions m) (ri + 1) ltac:(lia)) as [r2 Hr2].
            assert (Hat2 : at_pos maps mi (ri + 1) r2) by (exists m; now split).
            apply (IH mi (ri + 1) (rend r) bits0 r2); [lia|exact HJ0|].
            split; [exact Hat2|]. split.
            -- pose proof (global_order _ _ _ _ _ _ _ Hwf Hat Hat2 ltac:(right; split; [reflexivity|lia])).
               destruct (at_pos_wf _ _ _ _ Hwf Hat2). unfold rend in *. lia.
            -- intros k idx r' Hr' Hl. apply (Hupto k idx r' Hr').
               destruct Hl as [Hl|[-> Hl]]; [left; left; exact Hl|].
               destruct (N.eq_dec idx ri) as [->|Hni]; [right; split; reflexivity|].
               left. right. split; [reflexivity|lia]. }
    destruct (N.ltb_spec cur (g_pfn r)) as [Hgap|Hnogap].
    - destruct (N.ltb_spec last (g_pfn r)) as [Hend|Hcont].
      + (* the region starts beyond the requested range *)
        rewrite (ws cur first), (ws last first) by lia.
        destruct (fin_clear cur bits HJ) as [raw [Hc HF]].
        * intros q Hq1 Hq2. eapply ptr_gap; eauto. lia.
        * exists raw. rewrite Hc. split; [reflexivity|exact HF].
      + rewrite (ws cur first) by lia. rewrite (ws (g_pfn r) 1) by lia.
        rewrite (ws (g_pfn r - 1) first) by lia.
        destruct (step_clear cur (g_pfn r) bits HJ Hgap ltac:(lia)) as [bits' [Hc HJ']].
        * intros q Hq1 Hq2. eapply ptr_gap; eauto.
        * rewrite Hc. apply (Hhalf (g_pfn r) bits' HJ'); try lia.
          -- unfold rend. lia.
          -- unfold cnt_above.
             assert (Hmono : forall l : list region,
               (length (filter (fun x => (g_pfn r <? rend x)%N) l)
                <= length (filter (fun x => (cur <? rend x)%N) l))%nat).
             { induction l as [|a l IHl]; cbn [filter]; [lia|].
               destruct (N.ltb_spec (g_pfn r) (rend a)); destruct (N.ltb_spec cur (rend a));
                 cbn [length]; lia. }
             apply Hmono.
    - apply (Hhalf cur bits HJ); try lia.
  Qed.
End GetBits.

Lemma set_byte_spec : forall l i v, (i < length l)%nat ->
  exists l', set_byte l i v = Some l' /\ length l' = length l /\
    forall j, nth_error l' j = if Nat.eqb j i then Some v else nth_error l j.
Proof.
  induction l as [|b t IH]; intros i v Hi; [cbn in Hi; lia|].
  destruct i as [|i]; cbn [set_byte].
  - eexists. split; [reflexivity|]. split; [reflexivity|]. intros [|j]; reflexivity.
  - destruct (IH i v ltac:(cbn in Hi; lia)) as [t' (Hs & Hl & Hn)]. rewrite Hs.
    eexists. split; [reflexivity|]. split; [cbn [length]; now rewrite Hl|].
    intros [|j]; [reflexivity|]. cbn [nth_error]. rewrite Hn. reflexivity.
Qed.

Lemma cnt_above_le_total maps p : (cnt_above maps p <= total_regions maps)%nat.
Proof.
  rewrite total_regions_allr. unfold cnt_above.
  assert (H : forall l : list region, (length (filter (fun r => (p <? rend r)%N) l) <= length l)%nat).
  { induction l as [|a l IH]; cbn [filter length]; [lia|].
    destruct (p <? rend a); cbn [length]; lia. }
  apply H.
Qed.

Lemma rbit_repeat0 k i : rbit (repeat 0 k) i = false.
Proof.
  rewrite rbit_nth. destruct (nth_error (repeat 0 k) (N.to_nat (i / 8))) as [b|] eqn:E; [|reflexivity].
  apply nth_error_In in E. apply repeat_spec in E. subst b. apply N.bits_0.
Qed.

(** for every (first, last), whatever the buffer held before: bit i of the
    result is "frame first + i is mapped" for i <= last - first, the padding
    bits of the last byte are clear; nothing outside the buffer is touched and
    the loop ends within its fuel *)
Theorem get_bits_exact maps first last buf :
  wf_maps maps -> first <= last -> last < W -> wf_bytes buf ->
  length buf = S (N.to_nat ((last - first) / 8)) ->
  exists raw, get_pfn_map_bits maps first last buf = Val raw /\
    length raw = length buf /\ wf_bytes raw /\
    forall i, rbit raw i = (i <=? last - first) && mapped maps (first + i).
Proof.
  intros Hwf Hfl HlW Hwb Hlen. unfold get_pfn_map_bits.
  rewrite (wsub_le last first Hfl HlW), N.shiftr_div_pow2. change (2 ^ 3) with 8.
  set (n := N.to_nat ((last - first) / 8)) in *.
  assert (HfW : first < W) by lia.
  assert (Hzero : all_le maps first ->
    exists raw, (if (length buf <=? n)%nat then @Oob (list N)
                 else Val (repeat 0 (S n) ++ skipn (S n) buf)) = Val raw /\
      length raw = length buf /\ wf_bytes raw /\
      forall i, rbit raw i = (i <=? last - first) && mapped maps (first + i)).
  { intros Hall. destruct (Nat.leb_spec (length buf) n); [lia|].
    eexists. split; [reflexivity|]. rewrite skipn_all2 by lia. rewrite app_nil_r.
    split; [rewrite repeat_length; lia|]. split.
    - unfold wf_bytes. apply Forall_forall. intros b Hb. apply repeat_spec in Hb. subst b. reflexivity.
    - intros i. rewrite rbit_repeat0. rewrite (all_le_unmapped maps first (first + i) Hall) by lia.
      now rewrite andb_false_r. }
  pose proof (ffm_spec maps first 0 maps ltac:(intros j; reflexivity)) as Hf.
  destruct (find_file_map maps 0 first) as [mi|].
  - destruct Hf as (_ & [m [Hm Hpm]] & Hlow).
    assert (Hmi : mi <= N.of_nat (length maps)).
    { unfold nth_map in Hm. assert (Hs : nth_error maps (N.to_nat mi) <> None) by congruence.
      apply nth_error_Some in Hs. lia. }
    destruct (frm_spec maps first Hwf HfW _ mi eq_refl Hmi
               (below_file_map maps first mi Hwf (fun k m Hk => Hlow k m ltac:(lia) Hk)))
      as [o [Ho Hspec]].
    rewrite Ho. destruct o as [[mi' ri]|]; [|now apply Hzero].
    destruct Hspec as [_ [r Hptr]].
    destruct (set_byte_spec buf n 0 ltac:(lia)) as [bits0 (Hs & Hl0 & Hn0)]. rewrite Hs.
    assert (HJ : Jinv maps first last first bits0).
    { unfold Jinv. fold n. repeat split; try lia.
      - unfold wf_bytes. apply Forall_forall. intros b Hb. apply In_nth_error in Hb.
        destruct Hb as [j Hj]. rewrite Hn0 in Hj. destruct (Nat.eqb j n).
        + inversion Hj. reflexivity.
        + unfold wf_bytes in Hwb. rewrite Forall_forall in Hwb. apply Hwb. eapply nth_error_In; eauto.
      - intros i Hi. rewrite rbit_nth, Hn0.
        destruct (Nat.eqb_spec (N.to_nat (i / 8)) n) as [E|E]; [apply N.bits_0|].
        assert (Hnone : nth_error buf (N.to_nat (i / 8)) = None).
        { apply nth_error_None. unfold n in *. lia. }
        now rewrite Hnone. }
    destruct (bits_loop_spec maps first last Hwf Hfl HlW (S (total_regions maps)) mi' ri first bits0 r
                ltac:(pose proof (cnt_above_le_total maps first); lia) HJ Hptr) as [raw [Hr HF]].
    exists raw. split; [exact Hr|]. destruct HF as (F1 & F2 & F3). fold n in F1.
    split; [lia|]. split; [exact F2|exact F3].
  - apply Hzero. intros k idx r Hr.
    apply (below_file_map maps first (N.of_nat (length maps)) Hwf) with k idx; try assumption.
    + intros k' m' _ Hm'. apply (Hf k' m'); [lia|exact Hm'].
    + destruct Hr as [m [Hm _]]. unfold nth_map in Hm.
      assert (Hs : nth_error maps (N.to_nat k) <> None) by congruence. apply nth_error_Some in Hs. lia.
Qed.

(** ** the three queries agree with each other *)
Corollary mutually_consistent maps first last buf idx :
  wf_maps maps -> first <= last -> last < W -> wf_bytes buf ->
  length buf = S (N.to_nat ((last - first) / 8)) -> first <= idx -> idx <= last ->
  exists raw, get_pfn_map_bits maps first last buf = Val raw /\
    (* find-next-set from idx lands on the first set bit of the raw bitmap at or after idx *)
    (exists o, find_mapped_pfn true maps idx = Val o /\
       match o with
       | Some q => (q <= last -> rbit raw (q - first) = true) /\
                   forall j, idx <= j -> j < q -> j <= last -> rbit raw (j - first) = false
       | None => forall j, idx <= j -> j <= last -> rbit raw (j - first) = false
       end) /\
    (* find-next-clear from idx lands on the first clear bit *)
    (exists q, find_unmapped_pfn true maps idx = Val q /\
       (q <= last -> rbit raw (q - first) = false) /\
       forall j, idx <= j -> j < q -> j <= last -> rbit raw (j - first) = true).
Proof.
  intros Hwf Hfl HlW Hwb Hlen Hi1 Hi2.
  destruct (get_bits_exact maps first last buf Hwf Hfl HlW Hwb Hlen) as [raw (Hg & _ & _ & Hb)].
  assert (Hbit : forall j, first <= j -> j <= last -> rbit raw (j - first) = mapped maps j).
  { intros j Hj1 Hj2. rewrite Hb. replace (first + (j - first)) with j by lia.
    destruct (N.leb_spec (j - first) (last - first)); [reflexivity|lia]. }
  exists raw. split; [exact Hg|]. split.
  - destruct (find_mapped_spec maps idx Hwf ltac:(lia)) as [o [Ho Hs]]. exists o. split; [exact Ho|].
    destruct o as [q|].
    + destruct Hs as (Hq1 & Hq2 & Hq3). split.
      * intros Hq. rewrite Hbit by lia. exact Hq2.
      * intros j Hj1 Hj2 Hj3. rewrite Hbit by lia. now apply Hq3.
    + intros j Hj1 Hj2. rewrite Hbit by lia. now apply Hs.
  - destruct (find_unmapped_spec maps idx Hwf ltac:(lia)) as [q (Hq & Hq1 & Hq2 & Hq3)].
    exists q. split; [exact Hq|]. split.
    + intros Hql. rewrite Hbit by lia. exact Hq3.
    + intros j Hj1 Hj2 Hj3. rewrite Hbit by lia. now apply Hq2.
Qed.

(** * From bitmaps to maps: "mapped" is "present" *)

Lemma runs_facts bit : forall rs cur hi pos esz f,
  runs_from bit cur hi pos esz f rs ->
  Forall (fun r => cur <= g_pfn r /\ rend r <= hi /\ 1 <= g_cnt r) rs /\
  StronglySorted (fun a b => rend a <= g_pfn b) rs /\
  forall p, existsb (fun r => inb r p) rs = (cur <=? p) && (p <? hi) && bit p.
Proof.
  induction rs as [|r t IH]; intros cur hi pos esz f H; cbn [runs_from] in H.
  - split; [constructor|]. split; [constructor|]. intros p. cbn [existsb].
    destruct (N.leb_spec cur p); destruct (N.ltb_spec p hi); cbn [andb]; try reflexivity.
    symmetry. now apply H.
  - destruct H as (H1 & H2 & H3 & H4 & H5 & H6 & H7 & H8).
    destruct (IH _ _ _ _ _ H8) as (A1 & A2 & A3).
    fold (rend r) in *. split; [|split].
    + constructor; [repeat split; assumption|].
      eapply Forall_impl; [|exact A1]. cbn beta. intros a (Ha1 & Ha2 & Ha3). unfold rend in *. lia.
    + constructor; [exact A2|]. eapply Forall_impl; [|exact A1]. cbn beta. intros a (Ha1 & _). exact Ha1.
    + intros p. cbn [existsb]. rewrite A3. unfold inb.
      destruct (N.leb_spec (g_pfn r) p); destruct (N.ltb_spec p (rend r)); cbn [andb orb].
      * rewrite (H6 p) by (unfold rend in *; lia).
        destruct (N.leb_spec cur p); destruct (N.ltb_spec p hi); cbn [andb]; try reflexivity;
          unfold rend in *; lia.
      * destruct (N.leb_spec (rend r) p); destruct (N.leb_spec cur p); cbn [andb]; try reflexivity;
          unfold rend in *; lia.
      * destruct (N.leb_spec (rend r) p); [unfold rend in *; lia|]. cbn [andb].
        destruct (N.leb_spec cur p); destruct (N.ltb_spec p hi); cbn [andb]; try reflexivity.
        symmetry. apply H5; lia.
      * unfold rend in *. lia.
Qed.

Definition map_of (s : src) (rs : list region) : fmap :=
  {| regions := rs; start_pfn := s_start s; end_pfn := s_end s |}.

(* the region list of file [s] is what pfn_regions_from_bitmap produces for it *)
Definition built_from (s : src) (rs : list region) : Prop :=
  s_start s <= s_end s /\ s_end s < W /\
  exists off esz, runs_from (bit_of (s_msb0 s) (s_bitmap s)) (s_start s) (s_end s) off esz true rs.

Lemma built_map s rs : built_from s rs ->
  wf_map (map_of s rs) /\ forall p, mapped1 (map_of s rs) p = present1 s p.
Proof.
  intros (H1 & H2 & off & esz & Hr). destruct (runs_facts _ _ _ _ _ _ _ Hr) as (A1 & A2 & A3).
  split.
  - unfold wf_map, map_of. cbn [regions start_pfn end_pfn]. split; [exact H1|]. split; [exact H2|].
    split.
    + split; [|exact A2]. eapply Forall_impl; [|exact A1]. cbn beta. intros a (Ha1 & Ha2 & Ha3).
      split; [exact Ha3|lia].
    + eapply Forall_impl; [|exact A1]. cbn beta. tauto.
  - intros p. unfold mapped1, map_of, present1. cbn [regions]. apply A3.
Qed.

Theorem mapped_is_present : forall ss rss,
  Forall2 built_from ss rss ->
  StronglySorted (fun a b => s_end a <= s_start b) ss ->
  let maps := map (fun x => map_of (fst x) (snd x)) (combine ss rss) in
  wf_maps maps /\ forall p, mapped maps p = present ss p.
Proof.
  intros ss rss HF. induction HF as [|s rs ss rss Hb HF IH]; intros Hs; cbn zeta.
  - cbn [combine map]. split; [split; constructor|reflexivity].
  - inversion Hs as [|? ? Hs' Hall]; subst. destruct (IH Hs') as [[W1 W2] Hm].
    destruct (built_map s rs Hb) as [Hwm Hp1].
    cbn [combine map fst snd]. split; [split|].
    + constructor; assumption.
    + constructor; [exact W2|]. apply Forall_forall. intros m Hin.
      apply in_map_iff in Hin. destruct Hin as [[s' rs'] [<- Hin]].
      apply in_combine_l in Hin. rewrite Forall_forall in Hall. cbn [map_of end_pfn start_pfn fst snd].
      now apply Hall.
    + intros p. unfold mapped, present in *. cbn [existsb]. rewrite Hp1. f_equal. apply Hm.
Qed.

(** sort_pfn_file_maps: a sorted permutation; with pairwise disjoint,
    non-empty windows "sorted by end_pfn" is the order [wf_maps] wants *)
From Coq Require Import Sorting.Permutation.

Lemma insert_map_perm m l : Permutation (insert_map m l) (m :: l).
Proof.
  induction l as [|x t IH]; cbn [insert_map]; [reflexivity|].
  destruct (map_le m x); [reflexivity|]. rewrite IH. apply perm_swap.
Qed.

Lemma sort_maps_perm l : Permutation (sort_maps l) l.
Proof.
  induction l as [|x t IH]; cbn [sort_maps fold_right]; [reflexivity|].
  fold (sort_maps t). rewrite insert_map_perm. now constructor.
Qed.

Definition map_leP (a b : fmap) : Prop :=
  end_pfn a < end_pfn b \/ (end_pfn a = end_pfn b /\ start_pfn a <= start_pfn b).

Lemma map_le_spec a b : map_le a b = true <-> map_leP a b.
Proof. unfold map_le, map_leP. lia. Qed.

Lemma insert_map_sorted m l :
  StronglySorted map_leP l -> StronglySorted map_leP (insert_map m l).
Proof.
  induction l as [|x t IH]; intros Hs; cbn [insert_map].
  - constructor; constructor.
  - inversion Hs as [|? ? Hs' Hall]; subst.
    destruct (map_le m x) eqn:E.
    + apply map_le_spec in E. constructor; [exact Hs|]. constructor; [exact E|].
      eapply Forall_impl; [|exact Hall]. cbn beta. unfold map_leP in *. intros a Ha. lia.
    + assert (Hx : map_leP x m).
      { assert (~ map_leP m x) by (intro H; apply map_le_spec in H; congruence). unfold map_leP in *. lia. }
      constructor; [apply IH; exact Hs'|].
      eapply Permutation_Forall; [symmetry; apply insert_map_perm|].
      constructor; [exact Hx|exact Hall].
Qed.

Theorem sort_maps_sorted l : StronglySorted map_leP (sort_maps l).
Proof.
  induction l as [|x t IH]; cbn [sort_maps fold_right]; [constructor|].
  apply insert_map_sorted. exact IH.
Qed.

Lemma sorted_disjoint_windows l :
  StronglySorted map_leP l ->
  Forall (fun m => start_pfn m <= end_pfn m) l ->
  ForallOrdPairs (fun a b => end_pfn a <= start_pfn b \/ end_pfn b <= start_pfn a) l ->
  StronglySorted (fun a b => end_pfn a <= start_pfn b) l.
Proof.
  induction 1 as [|a l Hs IH Hall]; intros Hne Hdis; [constructor|].
  inversion Hne as [|? ? Ha Hne']; subst. inversion Hdis as [|? ? Hda Hdis']; subst.
  constructor; [now apply IH|].
  rewrite Forall_forall in *. intros b Hb. specialize (Hall b Hb). specialize (Hda b Hb).
  specialize (Hne' b Hb). unfold map_leP in Hall. cbn beta in *. lia.
Qed.

(** the descriptor lookup of diskdump_read_page fails ("Excluded page")
    exactly for the frames whose page-map bit is clear *)
Theorem page_lookup_iff_mapped maps p : wf_maps maps -> p < W ->
  exists o, page_desc_lookup maps p = Val o /\ (o = None <-> mapped maps p = false).
Proof.
  intros Hwf Hp. destruct (unmapped_step_spec maps p Hwf Hp) as [o [Ho Hspec]].
  unfold page_desc_lookup. unfold unmapped_step in Ho.
  destruct (find_file_map maps 0 p) as [mi|].
  2:{ inversion Ho; subst o. eexists. split; [reflexivity|]. tauto. }
  destruct (nth_map maps mi) as [m|]; [|discriminate].
  destruct (start_pfn m <=? p).
  2:{ inversion Ho; subst o. eexists. split; [reflexivity|]. tauto. }
  destruct (find_region m p) as [[ri|]| |]; try discriminate.
  2:{ inversion Ho; subst o. eexists. split; [reflexivity|]. tauto. }
  destruct (nth_region (regions m) ri) as [rgn|]; [|discriminate].
  destruct (g_pfn rgn <=? p).
  - inversion Ho; subst o. eexists. split; [reflexivity|].
    destruct Hspec as (Hlt & Hall & _). rewrite (Hall p ltac:(lia) Hlt).
    split; discriminate.
  - inversion Ho; subst o. eexists. split; [reflexivity|]. tauto.
Qed.

(** the pinned code: defects 5 and 29 *)
Definition two_files : list fmap :=
  [ {| regions := [ {| g_pfn := 0; g_cnt := 4; g_pos := 0 |} ]; start_pfn := 0; end_pfn := 8 |};
    {| regions := [ {| g_pfn := 12; g_cnt := 4; g_pos := 96 |} ]; start_pfn := 8; end_pfn := 16 |} ].
Definition touching_files : list fmap :=
  [ {| regions := [ {| g_pfn := 4; g_cnt := 4; g_pos := 0 |} ]; start_pfn := 0; end_pfn := 8 |};
    {| regions := [ {| g_pfn := 8; g_cnt := 4; g_pos := 96 |} ]; start_pfn := 8; end_pfn := 16 |} ].

Lemma pinned_find_mapped_wrong :
  find_mapped_pfn false two_files 5 = Val None /\ mapped two_files 12 = true /\
  find_mapped_pfn true two_files 5 = Val (Some 12).
Proof. vm_compute. repeat split; reflexivity. Qed.

Lemma pinned_find_unmapped_wrong :
  find_unmapped_pfn false touching_files 4 = Val 8 /\ mapped touching_files 8 = true /\
  find_unmapped_pfn true touching_files 4 = Val 12.
Proof. vm_compute. repeat split; reflexivity. Qed.
