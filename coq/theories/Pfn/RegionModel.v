(** Model of the region-list side of src/kdumpfile/pfn.c: [find_pfn_region]
    (binary search), [find_pfn_file_map] (kdumpfile-priv.h),
    [find_pfn_region_maps] (added by fixes/05-*.patch), [find_mapped_pfn],
    [find_unmapped_pfn], [get_pfn_map_bits], [sort_pfn_file_maps].

    A [struct pfn_file_map] is [fmap]; the array of maps is a list; pointers
    into the arrays ([pfm], [rgn]) are index pairs.  An access outside an
    array is the outcome [Oob]; loops run on explicit fuel ([Fuel] if it runs
    out; the theorems state a fuel that suffices).  PFN arithmetic that can
    wrap in C ([rgn->pfn + rgn->cnt], [next - 1 - first] ...) goes through
    [Base.Wrap64].

    [fixed = false] gives the pinned code of [find_mapped_pfn] (only the first
    file map is searched: defect 5) and of [find_unmapped_pfn] (one region
    only: defect 29); the pinned [get_pfn_map_bits] dereferences a NULL region
    array for a map without regions and is not modelled. *)
From Coq Require Import NArith ZArith List Bool.
From KdV Require Import Base.Wrap64 Pfn.BitmapModel.
Import ListNotations.
Local Open Scope N_scope.

Record fmap := { regions : list region; start_pfn : N; end_pfn : N }.

Inductive res (A : Type) := Val (a : A) | Oob | Fuel.
Arguments Val {A}. Arguments Oob {A}. Arguments Fuel {A}.

Definition nth_region (rs : list region) (i : N) : option region := nth_error rs (N.to_nat i).
Definition nth_map (maps : list fmap) (i : N) : option fmap := nth_error maps (N.to_nat i).

(* find_pfn_region: index of the region that contains [pfn] or the closest higher
   one; [Val None] = NULL *)
Fixpoint bsearch (fuel : nat) (rs : list region) (left right pfn : N) : res (option N) :=
  match fuel with
  | O => Fuel
  | S f =>
      if left =? right then
        Val (if right <? N.of_nat (length rs) then Some right else None)
      else
        let mid := (left + right) / 2 in
        match nth_region rs mid with
        | None => Oob
        | Some rgn =>
            if pfn <? g_pfn rgn then bsearch f rs left mid pfn
            else if wadd (g_pfn rgn) (g_cnt rgn) <=? pfn then bsearch f rs (mid + 1) right pfn
            else Val (Some mid)
        end
  end.

Definition find_region (m : fmap) (pfn : N) : res (option N) :=
  bsearch (S (length (regions m))) (regions m) 0 (N.of_nat (length (regions m))) pfn.

(* find_pfn_file_map: first map with pfn < end_pfn *)
Fixpoint find_file_map (maps : list fmap) (i : N) (pfn : N) : option N :=
  match maps with
  | [] => None
  | m :: t => if pfn <? end_pfn m then Some i else find_file_map t (i + 1) pfn
  end.

(* find_pfn_region_maps: [maps] is the suffix starting at map [i] *)
Fixpoint find_region_maps (maps : list fmap) (i : N) (pfn : N) : res (option (N * N)) :=
  match maps with
  | [] => Val None
  | m :: t =>
      match find_region m pfn with
      | Val (Some ri) => Val (Some (i, ri))
      | Val None => find_region_maps t (i + 1) pfn
      | Oob => Oob
      | Fuel => Fuel
      end
  end.

Definition region_at (maps : list fmap) (mi ri : N) : option region :=
  match nth_map maps mi with Some m => nth_region (regions m) ri | None => None end.

(* find_mapped_pfn: [Val None] = false, [Val (Some p)] = true with *ppfn = p *)
Definition find_mapped_pfn (fixed : bool) (maps : list fmap) (pfn : N) : res (option N) :=
  match find_file_map maps 0 pfn with
  | None => Val None
  | Some mi =>
      let found :=
        if fixed then find_region_maps (skipn (N.to_nat mi) maps) mi pfn
        else match nth_map maps mi with
             | None => Oob
             | Some m => match find_region m pfn with
                         | Val (Some ri) => Val (Some (mi, ri))
                         | Val None => Val None
                         | Oob => Oob
                         | Fuel => Fuel
                         end
             end in
      match found with
      | Val None => Val None
      | Val (Some (mi', ri)) =>
          match region_at maps mi' ri with
          | None => Oob
          | Some rgn => Val (Some (if pfn <? g_pfn rgn then g_pfn rgn else pfn))
          end
      | Oob => Oob
      | Fuel => Fuel
      end
  end.

(* one evaluation of the loop condition of find_unmapped_pfn:
   [Val (Some p')] = condition true and pfn := p';  [Val None] = condition false *)
Definition unmapped_step (maps : list fmap) (pfn : N) : res (option N) :=
  match find_file_map maps 0 pfn with
  | None => Val None
  | Some mi =>
      match nth_map maps mi with
      | None => Oob
      | Some m =>
          if start_pfn m <=? pfn then
            match find_region m pfn with
            | Val (Some ri) =>
                match nth_region (regions m) ri with
                | None => Oob
                | Some rgn => if g_pfn rgn <=? pfn
                              then Val (Some (wadd (g_pfn rgn) (g_cnt rgn)))
                              else Val None
                end
            | Val None => Val None
            | Oob => Oob
            | Fuel => Fuel
            end
          else Val None
      end
  end.

Fixpoint unmapped_loop (fuel : nat) (maps : list fmap) (pfn : N) : res N :=
  match fuel with
  | O => Fuel
  | S f => match unmapped_step maps pfn with
           | Val (Some p') => unmapped_loop f maps p'
           | Val None => Val pfn
           | Oob => Oob
           | Fuel => Fuel
           end
  end.

Definition total_regions (maps : list fmap) : nat :=
  fold_right (fun m n => (length (regions m) + n)%nat) O maps.

Definition find_unmapped_pfn (fixed : bool) (maps : list fmap) (pfn : N) : res N :=
  if fixed then unmapped_loop (S (total_regions maps)) maps pfn
  else match unmapped_step maps pfn with
       | Val (Some p') => Val p'
       | Val None => Val pfn
       | Oob => Oob
       | Fuel => Fuel
       end.

(* get_pfn_map_bits (repaired).  [buf] is the caller's buffer with whatever it
   contained; [Oob] also covers a store outside it. *)
Definition lift (o : option (list N)) : res (list N) :=
  match o with Some b => Val b | None => Oob end.

Fixpoint set_byte (l : list N) (i : nat) (v : N) : option (list N) :=
  match l, i with
  | [], _ => None
  | _ :: t, O => Some (v :: t)
  | b :: t, S i' => match set_byte t i' v with Some t' => Some (b :: t') | None => None end
  end.

Fixpoint bits_loop (fuel : nat) (maps : list fmap) (mi ri : N) (first last cur : N)
         (bits : list N) : res (list N) :=
  match fuel with
  | O => Fuel
  | S f =>
      match nth_map maps mi with
      | None => Oob
      | Some m =>
          match nth_region (regions m) ri with
          | None => Oob
          | Some rgn =>
              let next := g_pfn rgn in
              (* if (cur < next) { if (next > last) {clear; break;} clear; cur = next; } *)
              let step1 :=
                if cur <? next then
                  if last <? next then inl (lift (clear_bits bits (wsub cur first) (wsub last first)))
                  else match clear_bits bits (wsub cur first) (wsub (wsub next 1) first) with
                       | None => inl Oob
                       | Some b => inr (b, next)
                       end
                else inr (bits, cur) in
              match step1 with
              | inl r => r
              | inr (bits, cur) =>
                  let next := wsub (wadd next (g_cnt rgn)) 1 in
                  if last <=? next then lift (set_bits bits (wsub cur first) (wsub last first))
                  else match set_bits bits (wsub cur first) (wsub next first) with
                       | None => Oob
                       | Some bits =>
                           let cur := wadd next 1 in
                           if ri + 1 =? N.of_nat (length (regions m)) then
                             (* ++pfm; rgn = find_pfn_region_maps(&pfm, endmap, cur) *)
                             match find_region_maps (skipn (N.to_nat (mi + 1)) maps) (mi + 1) cur with
                             | Val None => lift (clear_bits bits (wsub cur first) (wsub last first))
                             | Val (Some (mi', ri')) => bits_loop f maps mi' ri' first last cur bits
                             | Oob => Oob
                             | Fuel => Fuel
                             end
                           else bits_loop f maps mi (ri + 1) first last cur bits
                       end
              end
          end
      end
  end.

Definition get_pfn_map_bits (maps : list fmap) (first last : N) (buf : list N) : res (list N) :=
  let n := N.to_nat (N.shiftr (wsub last first) 3) in
  let start :=
    match find_file_map maps 0 first with
    | None => Val None
    | Some mi => find_region_maps (skipn (N.to_nat mi) maps) mi first
    end in
  match start with
  | Val None =>
      (* memset(bits, 0, ((last - first) >> 3) + 1) *)
      if (length buf <=? n)%nat then Oob
      else Val (repeat 0 (S n) ++ skipn (S n) buf)
  | Val (Some (mi, ri)) =>
      match set_byte buf n 0 with
      | None => Oob
      | Some bits => bits_loop (S (total_regions maps)) maps mi ri first last first bits
      end
  | Oob => Oob
  | Fuel => Fuel
  end.

(* sort_pfn_file_maps: qsort by (end_pfn, start_pfn) — the tie-break of fixes/40-*.patch puts
   an empty window [n, n) after the window that ends at n (insertion sort here) *)
Definition map_le (a b : fmap) : bool :=
  (end_pfn a <? end_pfn b) || ((end_pfn a =? end_pfn b) && (start_pfn a <=? start_pfn b)).
Fixpoint insert_map (m : fmap) (l : list fmap) : list fmap :=
  match l with
  | [] => [m]
  | x :: t => if map_le m x then m :: l else x :: insert_map m t
  end.
Definition sort_maps (l : list fmap) : list fmap := fold_right insert_map [] l.

(* diskdump.c, diskdump_read_page + pfn_to_pdpos: where the page descriptor of
   [pfn] lives; [Val None] = (off_t)-1 = "Excluded page" (KDUMP_ERR_NODATA when
   zero-fill is off).  sizeof(struct page_desc) = 24.  The same two lookups as
   in [unmapped_step]; no tie of its own. *)
Definition page_desc_lookup (maps : list fmap) (pfn : N) : res (option N) :=
  match find_file_map maps 0 pfn with
  | None => Val None
  | Some mi =>
      match nth_map maps mi with
      | None => Oob
      | Some m =>
          if start_pfn m <=? pfn then
            match find_region m pfn with
            | Val (Some ri) =>
                match nth_region (regions m) ri with
                | None => Oob
                | Some rgn => if g_pfn rgn <=? pfn
                              then Val (Some (g_pos rgn + (pfn - g_pfn rgn) * 24))
                              else Val None
                end
            | Val None => Val None
            | Oob => Oob
            | Fuel => Fuel
            end
          else Val None
      end
  end.
