(** Proofs about Pfn/ElfBitsModel.v: the segment-based page maps of ELF dumps
    answer "is frame p covered by a segment with data" — bulk retrieval exactly,
    find-next-set / find-next-clear with the least index — for every array of
    page-aligned, sorted, non-overlapping LOAD segments, every query and every
    value of the lookup cache [last_load]. *)
From Coq Require Import NArith ZArith List Bool Lia Sorting.Sorted.
From Coq Require Import ZifyBool ZifyNat ZifyN.
From KdV Require Import Base.Wrap64 Pfn.BitmapModel Pfn.RegionModel Pfn.PfnSpec
                        Pfn.BitmapProofs Pfn.RegionProofs Pfn.ElfBitsModel.
Import ListNotations.
Local Open Scope N_scope.

Ltac Zify.zify_post_hook ::= Z.div_mod_to_equations.

(** * Page arithmetic *)
Section Pages.
  Variable P : N.
  Hypothesis HP : 0 < P.

  Lemma A_le p l c : 1 <= c -> (P * p <=? P * l + P * c - 1) = (p <? l + c).
  Proof.
    intros Hc. destruct (N.ltb_spec p (l + c)) as [H|H].
    - apply N.leb_le. assert (P * (p + 1) <= P * (l + c)) by (apply N.mul_le_mono_l; lia). nia.
    - apply N.leb_gt. assert (P * (l + c) <= P * p) by (apply N.mul_le_mono_l; lia). nia.
  Qed.

  Lemma A_lt p l : (P * p <? P * l) = (p <? l).
  Proof.
    destruct (N.ltb_spec p l) as [H|H].
    - apply N.ltb_lt. apply N.mul_lt_mono_pos_l; assumption.
    - apply N.ltb_ge. apply N.mul_le_mono_l. exact H.
  Qed.

  Lemma A_dist d p l : p < l -> (P * d <=? P * l - P * p) = (d <=? l - p).
  Proof.
    intros Hpl. rewrite <- N.mul_sub_distr_l.
    destruct (N.leb_spec d (l - p)) as [H|H].
    - apply N.leb_le. apply N.mul_le_mono_l. exact H.
    - apply N.leb_gt. apply N.mul_lt_mono_pos_l; assumption.
  Qed.

  Lemma A_div l : P * l / P = l.
  Proof. rewrite N.mul_comm. apply N.div_mul. lia. Qed.

  Lemma A_hi l c : 1 <= c -> (P * l + P * c - 1) / P = l + c - 1.
  Proof.
    intros Hc. replace (P * l + P * c - 1) with ((l + c - 1) * P + (P - 1)) by nia.
    rewrite N.div_add_l by lia. rewrite N.div_small by lia. lia.
  Qed.

  Lemma A_pred l : 1 <= l -> (P * l - 1) / P = l - 1.
  Proof.
    intros Hl. replace (P * l - 1) with ((l - 1) * P + (P - 1)) by nia.
    rewrite N.div_add_l by lia. rewrite N.div_small by lia. lia.
  Qed.
End Pages.

(** * Well-formed segment arrays and what they mean *)

Definition wf_seg (sh : N) (s : seg) : Prop :=
  phys s mod 2 ^ sh = 0 /\ filesz s mod 2 ^ sh = 0 /\ memsz s mod 2 ^ sh = 0 /\
  filesz s <= memsz s /\ phys s + memsz s < W.

Definition wf_segs (sh : N) (segs : list seg) : Prop :=
  Forall (wf_seg sh) segs /\ StronglySorted (fun a b => phys a + memsz a <= phys b) segs.

Definition lo (sh : N) (s : seg) : N := phys s / 2 ^ sh.
Definition cnt (ismem : bool) (sh : N) (s : seg) : N := ssize ismem s / 2 ^ sh.

(* frame [p] is covered by segment [s] (which has data of the chosen kind) *)
Definition einb (ismem : bool) (sh : N) (s : seg) (p : N) : bool :=
  (lo sh s <=? p) && (p <? lo sh s + cnt ismem sh s).
Definition emapped (ismem : bool) (sh : N) (segs : list seg) (p : N) : bool :=
  existsb (fun s => einb ismem sh s p) segs.

Section Elf.
  Variables (ismem : bool) (sh : N).
  Hypothesis Hsh : sh < 64.
  Let P := 2 ^ sh.

  Lemma P_pos : 0 < P.
  Proof. unfold P. apply N.neq_0_lt_0. apply N.pow_nonzero. discriminate. Qed.

  Lemma P_le_W : P * (MAXA / P) <= MAXA.
  Proof. pose proof P_pos. apply N.mul_div_le. lia. Qed.

  (* page coordinates of a well-formed segment *)
  Lemma seg_coords s : wf_seg sh s ->
    phys s = P * lo sh s /\ ssize ismem s = P * cnt ismem sh s /\
    P * lo sh s + P * cnt ismem sh s < W.
  Proof.
    intros (H1 & H2 & H3 & H4 & H5). pose proof P_pos as HP. unfold lo, cnt. fold P in H1, H2, H3 |- *.
    assert (E1 : phys s = P * (phys s / P)) by (apply N.div_exact; lia).
    assert (E2 : ssize ismem s = P * (ssize ismem s / P)).
    { apply N.div_exact; [lia|]. unfold ssize. destruct ismem; assumption. }
    split; [exact E1|]. split; [exact E2|]. rewrite <- E1, <- E2.
    unfold ssize. destruct ismem; lia.
  Qed.

  Lemma max_pfn_eq : max_addr_pfn sh = MAXA / P.
  Proof. unfold max_addr_pfn, addr_to_pfn. now rewrite N.shiftr_div_pow2. Qed.

  Lemma pfn_addr p : p <= MAXA / P -> pfn_to_addr sh p = P * p.
  Proof.
    intros Hp. unfold pfn_to_addr, wshl, w. rewrite N.shiftl_mul_pow2. fold P.
    pose proof P_le_W. pose proof P_pos. pose proof W_pos.
    assert (p * P <= MAXA) by (assert (P * p <= P * (MAXA / P)) by (apply N.mul_le_mono_l; lia); lia).
    rewrite N.mod_small by (unfold MAXA in *; lia). lia.
  Qed.

  (* the segment tests in page coordinates *)
  Lemma seg_lo s : wf_seg sh s -> addr_to_pfn sh (phys s) = lo sh s.
  Proof. intros _. unfold addr_to_pfn, lo. now rewrite N.shiftr_div_pow2. Qed.

  Lemma seg_hi s : wf_seg sh s -> 1 <= cnt ismem sh s ->
    addr_to_pfn sh (wsub (wadd (phys s) (ssize ismem s)) 1) = lo sh s + cnt ismem sh s - 1.
  Proof.
    intros Hw Hc. destruct (seg_coords s Hw) as (E1 & E2 & E3). pose proof P_pos.
    unfold addr_to_pfn. rewrite N.shiftr_div_pow2. fold P. rewrite E1, E2.
    rewrite wadd_small by exact E3. rewrite wsub_le by nia. now apply A_hi.
  Qed.

  Lemma seg_hi0 s : wf_seg sh s -> cnt ismem sh s = 0 -> 1 <= lo sh s ->
    addr_to_pfn sh (wsub (wadd (phys s) (ssize ismem s)) 1) = lo sh s - 1.
  Proof.
    intros Hw Hc Hl. destruct (seg_coords s Hw) as (E1 & E2 & E3). pose proof P_pos.
    unfold addr_to_pfn. rewrite N.shiftr_div_pow2. fold P. rewrite E1, E2, Hc.
    rewrite Hc, N.mul_0_r, N.add_0_r in E3. rewrite N.mul_0_r.
    rewrite wadd_small by lia. rewrite N.add_0_r. rewrite wsub_le by nia. now apply A_pred.
  Qed.

  Lemma size_zero s : wf_seg sh s -> (ssize ismem s =? 0) = (cnt ismem sh s =? 0).
  Proof.
    intros Hw. destruct (seg_coords s Hw) as (_ & E2 & _). pose proof P_pos.
    destruct (N.eqb_spec (cnt ismem sh s) 0) as [E|E].
    - rewrite E2, E. now rewrite N.mul_0_r.
    - apply N.eqb_neq. rewrite E2. nia.
  Qed.

  (** * find_closest_*_load *)

  (* no page at or above [p] is covered by [l] *)
  Definition none_above (l : list seg) (p : N) : Prop :=
    forall q, p <= q -> emapped ismem sh l q = false.

  Lemma none_above_nil p : none_above [] p.
  Proof. intros q _. reflexivity. Qed.

  Lemma none_above_snoc l s p : none_above l p ->
    (forall q, p <= q -> einb ismem sh s q = false) -> none_above (l ++ [s]) p.
  Proof.
    intros Hl Hs q Hq. specialize (Hl q Hq). unfold emapped in *. rewrite existsb_app. cbn [existsb].
    rewrite Hl, (Hs q Hq). reflexivity.
  Qed.

  Lemma einb_zero s q : cnt ismem sh s = 0 -> einb ismem sh s q = false.
  Proof.
    intros E. unfold einb. rewrite E.
    destruct (N.leb_spec (lo sh s) q); destruct (N.ltb_spec q (lo sh s + 0)); try reflexivity; lia.
  Qed.

  Lemma einb_below s p q : lo sh s + cnt ismem sh s <= p -> p <= q -> einb ismem sh s q = false.
  Proof.
    intros H Hq. unfold einb.
    destruct (N.leb_spec (lo sh s) q); destruct (N.ltb_spec q (lo sh s + cnt ismem sh s));
      try reflexivity; lia.
  Qed.

  (* the lookup result [r] for page [p]: the array splits at the first segment with data
     whose pages reach [p] or beyond — unless that one starts [dd] or more pages above *)
  Definition closest_spec (segs : list seg) (p : N) (d : option N) (r : option nat) : Prop :=
    match r with
    | Some k => exists pre s post, segs = pre ++ s :: post /\ (length pre = k)%nat /\
                  1 <= cnt ismem sh s /\ p < lo sh s + cnt ismem sh s /\
                  (forall dd, d = Some dd -> lo sh s < p + dd) /\ none_above pre p
    | None => none_above segs p \/
              exists pre s post dd, segs = pre ++ s :: post /\ d = Some dd /\
                1 <= cnt ismem sh s /\ p + dd <= lo sh s /\ none_above pre p
    end.

  Definition dist_of (d : option N) : N := match d with Some dd => P * dd | None => MAXA end.

  Lemma scan_spec p d : p <= MAXA / P ->
    (forall dd, d = Some dd -> 1 <= dd /\ P * dd < W) ->
    forall segs pre0, Forall (wf_seg sh) segs -> none_above pre0 p ->
    closest_spec (pre0 ++ segs) p d (closest_scan ismem segs (length pre0) (P * p) (dist_of d)).
  Proof.
    intros Hp Hd. pose proof P_pos as HP. pose proof P_le_W as HPW.
    induction segs as [|s t IH]; intros pre0 Hwf Hpre; cbn [closest_scan].
    - left. now rewrite app_nil_r.
    - inversion Hwf as [|? ? Hs Hwt]; subst.
      destruct (seg_coords s Hs) as (E1 & E2 & E3).
      rewrite (size_zero s Hs).
      assert (Hnext : forall (Hskip : forall q, p <= q -> einb ismem sh s q = false),
                closest_spec (pre0 ++ s :: t) p d
                  (closest_scan ismem t (S (length pre0)) (P * p) (dist_of d))).
      { intros Hskip. specialize (IH (pre0 ++ [s]) Hwt (none_above_snoc pre0 s p Hpre Hskip)).
        rewrite app_length in IH. cbn [length] in IH. rewrite Nat.add_1_r in IH.
        rewrite <- app_assoc in IH. exact IH. }
      destruct (N.eqb_spec (cnt ismem sh s) 0) as [Ez|Enz]; cbn [negb andb].
      + apply Hnext. intros q _. now apply einb_zero.
      + rewrite E1, E2. rewrite wadd_small by exact E3.
        rewrite wsub_le by nia. rewrite (A_le P HP p (lo sh s) (cnt ismem sh s) ltac:(lia)).
        destruct (N.ltb_spec p (lo sh s + cnt ismem sh s)) as [Hin|Hout].
        2:{ apply Hnext. intros q Hq. eapply einb_below; eauto. }
        rewrite (A_lt P HP). destruct (N.ltb_spec p (lo sh s)) as [Hbelow|Hinside]; cbn [andb].
        * rewrite wsub_le by nia.
          destruct d as [dd|]; cbn [dist_of].
          -- destruct (Hd dd eq_refl) as [Hdd1 HddW].
             rewrite (A_dist P HP dd p (lo sh s) Hbelow).
             destruct (N.leb_spec dd (lo sh s - p)) as [Hfar|Hnear].
             ++ right. exists pre0, s, t, dd. repeat split; try assumption; try lia.
             ++ exists pre0, s, t. repeat split; try assumption; try lia.
                intros dd' Edd. inversion Edd; subst. lia.
          -- destruct (N.leb_spec MAXA (P * lo sh s - P * p)) as [Hfar|_].
             ++ exfalso. unfold MAXA in *. nia.
             ++ exists pre0, s, t. repeat split; try assumption; try lia. intros dd' Edd. discriminate.
        * exists pre0, s, t. repeat split; try assumption; try lia.
          intros dd Edd. destruct (Hd dd Edd). lia.
  Qed.
  (** sortedness of a split array *)
  Lemma ss_app {A} (R : A -> A -> Prop) (a b : list A) : StronglySorted R (a ++ b) ->
    StronglySorted R a /\ StronglySorted R b /\ forall x y, In x a -> In y b -> R x y.
  Proof.
    induction a as [|x a IH]; cbn [app]; intros H.
    - split; [constructor|]. split; [exact H|]. intros x y [].
    - inversion H as [|? ? Hs Hall]; subst. destruct (IH Hs) as (Ha & Hb & Hab).
      rewrite Forall_forall in Hall. split; [|split; [exact Hb|]].
      + constructor; [exact Ha|]. apply Forall_forall. intros y Hy. apply Hall. apply in_or_app. now left.
      + intros x' y [<-|Hx'] Hy; [apply Hall; apply in_or_app; now right|now apply Hab].
  Qed.

  Lemma split_facts pre s post : wf_segs sh (pre ++ s :: post) ->
    Forall (wf_seg sh) pre /\ wf_seg sh s /\ wf_segs sh post /\
    (forall x, In x pre -> lo sh x + cnt ismem sh x <= lo sh s) /\
    (forall y, In y post -> lo sh s + cnt ismem sh s <= lo sh y /\
                           (1 <= cnt ismem sh s -> 1 <= lo sh y)).
  Proof.
    intros [Hall Hs]. apply Forall_app in Hall. destruct Hall as [Hpre Hrest].
    inversion Hrest as [|? ? Hws Hpost]; subst.
    destruct (ss_app _ _ _ Hs) as (_ & Hsp & Hcross).
    inversion Hsp as [|? ? Hspost Hsall]; subst.
    pose proof P_pos as HP.
    assert (Hle : forall a b, wf_seg sh a -> wf_seg sh b -> phys a + memsz a <= phys b ->
                  lo sh a + cnt ismem sh a <= lo sh b).
    { intros a b Ha Hb Hab. destruct (seg_coords a Ha) as (A1 & A2 & _).
      destruct (seg_coords b Hb) as (B1 & _ & _). destruct Ha as (_ & _ & _ & Hfm & _).
      assert (Hsz : ssize ismem a <= memsz a) by (unfold ssize; destruct ismem; lia).
      assert (P * (lo sh a + cnt ismem sh a) <= P * lo sh b) by nia.
      apply (N.mul_le_mono_pos_l _ _ P HP). exact H. }
    split; [exact Hpre|]. split; [exact Hws|]. split; [split; assumption|]. split.
    - intros x Hx. rewrite Forall_forall in Hpre. apply Hle; [now apply Hpre|exact Hws|].
      apply Hcross; [exact Hx|now left].
    - intros y Hy. rewrite Forall_forall in Hpost, Hsall.
      pose proof (Hle s y Hws (Hpost y Hy) (Hsall y Hy)) as H1. split; [exact H1|]. lia.
  Qed.

  Lemma none_above_forall l p :
    (forall x, In x l -> lo sh x + cnt ismem sh x <= p) -> none_above l p.
  Proof.
    intros H q Hq. unfold emapped. destruct (existsb _ l) eqn:E; [|reflexivity].
    apply existsb_exists in E. destruct E as [x [Hx Hin]].
    rewrite (einb_below x p q (H x Hx) Hq) in Hin. discriminate.
  Qed.

  Lemma emapped_app l1 l2 q : emapped ismem sh (l1 ++ l2) q = emapped ismem sh l1 q || emapped ismem sh l2 q.
  Proof. unfold emapped. apply existsb_app. Qed.

  Lemma post_above (s : seg) post q : (forall y, In y post -> q < lo sh y) -> emapped ismem sh post q = false.
  Proof.
    intros H. unfold emapped. destruct (existsb _ post) eqn:E; [|reflexivity].
    apply existsb_exists in E. destruct E as [y [Hy Hin]]. specialize (H y Hy).
    unfold einb in Hin. destruct (N.leb_spec (lo sh y) q); [lia|discriminate].
  Qed.

  (* semantic content of a split *)
  Lemma split_gap pre s post p q : wf_segs sh (pre ++ s :: post) -> none_above pre p ->
    p <= q -> q < lo sh s -> emapped ismem sh (pre ++ s :: post) q = false.
  Proof.
    intros Hwf Hpre Hq1 Hq2. destruct (split_facts pre s post Hwf) as (_ & _ & _ & _ & Hpost).
    rewrite emapped_app. rewrite (Hpre q Hq1). cbn [orb].
    change (s :: post) with ([s] ++ post). rewrite emapped_app.
    rewrite (post_above s post q); [|intros y Hy; destruct (Hpost y Hy); lia].
    unfold emapped. cbn [existsb]. unfold einb.
    destruct (N.leb_spec (lo sh s) q); [lia|reflexivity].
  Qed.

  Lemma split_inside pre s post q : lo sh s <= q -> q < lo sh s + cnt ismem sh s ->
    emapped ismem sh (pre ++ s :: post) q = true.
  Proof.
    intros H1 H2. rewrite emapped_app. change (s :: post) with ([s] ++ post). rewrite emapped_app.
    assert (E : emapped ismem sh [s] q = true).
    { unfold emapped. cbn [existsb]. unfold einb.
      destruct (N.leb_spec (lo sh s) q); destruct (N.ltb_spec q (lo sh s + cnt ismem sh s)); try lia;
      reflexivity. }
    rewrite E. now rewrite orb_true_r.
  Qed.

  Lemma mapped_bound segs q : Forall (wf_seg sh) segs -> emapped ismem sh segs q = true -> q < MAXA / P.
  Proof.
    intros Hwf H. unfold emapped in H. apply existsb_exists in H. destruct H as [s [Hs Hin]].
    rewrite Forall_forall in Hwf. destruct (seg_coords s (Hwf s Hs)) as (_ & _ & E3).
    unfold einb in Hin. pose proof P_pos as HP. pose proof W_pos.
    assert (Hq : q < lo sh s + cnt ismem sh s) by lia.
    assert (P * (lo sh s + cnt ismem sh s) <= MAXA) by (unfold MAXA; lia).
    assert (lo sh s + cnt ismem sh s <= MAXA / P) by (apply N.div_le_lower_bound; lia). lia.
  Qed.

  Lemma nth_split {A} (l : list A) k x : nth_error l k = Some x ->
    exists pre post, l = pre ++ x :: post /\ length pre = k.
  Proof.
    revert k. induction l as [|a l IH]; intros k H; [destruct k; discriminate|].
    destruct k as [|k]; cbn [nth_error] in H.
    - inversion H; subst. exists [], l. split; reflexivity.
    - destruct (IH k H) as (pre & post & E & Hl). exists (a :: pre), post.
      split; [cbn [app]; now rewrite E|cbn [length]; now rewrite Hl].
  Qed.

  Theorem find_closest_spec segs lastc p d : wf_segs sh segs -> p <= MAXA / P ->
    (forall dd, d = Some dd -> 1 <= dd /\ P * dd < W) ->
    closest_spec segs p d (find_closest ismem segs lastc (P * p) (dist_of d)).
  Proof.
    intros Hwf Hp Hd. pose proof P_pos as HP. unfold find_closest.
    assert (Hscan : closest_spec segs p d (closest_scan ismem segs O (P * p) (dist_of d))).
    { exact (scan_spec p d Hp Hd segs [] (proj1 Hwf) (none_above_nil p)). }
    destruct lastc as [k|]; [|exact Hscan].
    destruct (nth_error segs k) as [s|] eqn:En; [|exact Hscan].
    destruct ((phys s <=? P * p) && (wsub (P * p) (phys s) <? ssize ismem s))%bool eqn:Ec; [|exact Hscan].
    apply andb_prop in Ec. destruct Ec as [Ec1 Ec2]. apply N.leb_le in Ec1. apply N.ltb_lt in Ec2.
    destruct (nth_split segs k s En) as (pre & post & E & Hl). subst segs.
    destruct (split_facts pre s post Hwf) as (_ & Hws & _ & Hpre & _).
    destruct (seg_coords s Hws) as (E1 & E2 & E3).
    pose proof P_le_W. pose proof W_pos.
    rewrite wsub_le in Ec2 by (unfold MAXA in *; nia).
    rewrite E1, E2 in *.
    assert (Hlo : lo sh s <= p) by (apply (N.mul_le_mono_pos_l _ _ P HP); exact Ec1).
    assert (Hhi : p < lo sh s + cnt ismem sh s).
    { apply (N.mul_lt_mono_pos_l P); [exact HP|]. nia. }
    exists pre, s, post. repeat split; try assumption; try lia.
    - intros dd Edd. destruct (Hd dd Edd). lia.
    - apply none_above_forall. intros x Hx. specialize (Hpre x Hx). lia.
  Qed.

  (** * elf_find_set: the least covered frame at or above the index *)
  Theorem elf_find_set_spec segs lastc idx : wf_segs sh segs ->
    match elf_find_set ismem sh segs lastc idx with
    | None => forall q, idx <= q -> emapped ismem sh segs q = false
    | Some r => idx <= r /\ emapped ismem sh segs r = true /\
                forall q, idx <= q -> q < r -> emapped ismem sh segs q = false
    end.
  Proof.
    intros Hwf. unfold elf_find_set. rewrite max_pfn_eq.
    destruct (N.ltb_spec (MAXA / P) idx) as [Hbig|Hok].
    { intros q Hq. destruct (emapped ismem sh segs q) eqn:E; [|reflexivity].
      pose proof (mapped_bound segs q (proj1 Hwf) E). lia. }
    rewrite (pfn_addr idx Hok).
    pose proof (find_closest_spec segs lastc idx None Hwf Hok ltac:(discriminate)) as Hc.
    cbn [dist_of] in Hc.
    destruct (find_closest ismem segs lastc (P * idx) MAXA) as [k|].
    - destruct Hc as (pre & s & post & E & Hl & Hc1 & Hc2 & _ & Hpre). subst segs.
      assert (En : nth_error (pre ++ s :: post) k = Some s).
      { rewrite nth_error_app2 by lia. rewrite Hl, Nat.sub_diag. reflexivity. }
      rewrite En. destruct (split_facts pre s post Hwf) as (_ & Hws & _).
      rewrite (seg_lo s Hws).
      destruct (N.ltb_spec idx (lo sh s)) as [Hlt|Hge].
      + split; [lia|]. split; [apply split_inside; lia|].
        intros q Hq1 Hq2. eapply split_gap; eauto.
      + split; [lia|]. split; [apply split_inside; lia|]. intros q Hq1 Hq2. lia.
    - destruct Hc as [Hnone|(pre & s & post & dd & _ & Edd & _)]; [exact Hnone|discriminate].
  Qed.

  (** * elf_find_clear: the least frame at or above the index that is not covered *)
  Definition seg_ok (s : seg) : Prop := 1 <= cnt ismem sh s \/ 1 <= lo sh s.

  Lemma clear_loop_spec rest : forall pre idx0 idx,
    wf_segs sh (pre ++ rest) -> none_above pre idx -> Forall seg_ok rest ->
    idx0 <= idx -> (forall q, idx0 <= q -> q < idx -> emapped ismem sh (pre ++ rest) q = true) ->
    let r := elf_clear_loop ismem sh rest idx in
    idx <= r /\ (forall q, idx0 <= q -> q < r -> emapped ismem sh (pre ++ rest) q = true) /\
    emapped ismem sh (pre ++ rest) r = false.
  Proof.
    induction rest as [|s t IH]; intros pre idx0 idx Hwf Hpre Hok Hi0 Hin; cbn [elf_clear_loop]; cbn zeta.
    - split; [lia|]. split; [exact Hin|]. rewrite app_nil_r. apply Hpre. lia.
    - destruct (split_facts pre s t Hwf) as (_ & Hws & _ & Hbefore & Hafter).
      inversion Hok as [|? ? Hoks Hokt]; subst.
      rewrite (seg_lo s Hws).
      destruct (N.leb_spec (lo sh s) idx) as [Hle|Hgt].
      2:{ split; [lia|]. split; [exact Hin|]. eapply split_gap; eauto. lia. }
      assert (Hwf' : wf_segs sh ((pre ++ [s]) ++ t)) by (rewrite <- app_assoc; exact Hwf).
      assert (Hrew : forall q, emapped ismem sh ((pre ++ [s]) ++ t) q = emapped ismem sh (pre ++ s :: t) q).
      { intros q. now rewrite <- app_assoc. }
      destruct (seg_coords s Hws) as (E1 & E2 & E3). pose proof P_pos as HP. pose proof W_pos.
      assert (Hcap : lo sh s + cnt ismem sh s <= MAXA).
      { assert (P * (lo sh s + cnt ismem sh s) <= MAXA) by (unfold MAXA; lia). nia. }
      destruct (N.le_gt_cases 1 (cnt ismem sh s)) as [Hc1|Hc0].
      + rewrite (seg_hi s Hws Hc1).
        destruct (N.leb_spec idx (lo sh s + cnt ismem sh s - 1)) as [Hcov|Hpast].
        * rewrite wadd_small by (unfold MAXA in *; lia).
          replace (lo sh s + cnt ismem sh s - 1 + 1) with (lo sh s + cnt ismem sh s) by lia.
          specialize (IH (pre ++ [s]) idx0 (lo sh s + cnt ismem sh s) Hwf').
          destruct IH as (I1 & I2 & I3); try assumption; try lia.
          -- apply none_above_snoc; [intros q Hq; apply Hpre; lia|].
             intros q Hq. apply (einb_below s (lo sh s + cnt ismem sh s) q); [lia|exact Hq].
          -- intros q Hq1 Hq2. rewrite Hrew.
             destruct (N.lt_ge_cases q idx); [now apply Hin|]. apply split_inside; lia.
          -- split; [lia|]. split; [intros q Hq1 Hq2; rewrite <- Hrew; now apply I2|].
             rewrite <- Hrew. exact I3.
        * specialize (IH (pre ++ [s]) idx0 idx Hwf').
          destruct IH as (I1 & I2 & I3); try assumption; try lia.
          -- apply none_above_snoc; [exact Hpre|]. intros q Hq. apply (einb_below s idx q); [lia|exact Hq].
          -- intros q Hq1 Hq2. rewrite Hrew. now apply Hin.
          -- split; [lia|]. split; [intros q Hq1 Hq2; rewrite <- Hrew; now apply I2|].
             rewrite <- Hrew. exact I3.
      + assert (Ez : cnt ismem sh s = 0) by lia.
        assert (Hl1 : 1 <= lo sh s) by (destruct Hoks; lia).
        rewrite (seg_hi0 s Hws Ez Hl1).
        destruct (N.leb_spec idx (lo sh s - 1)) as [Hx|_]; [lia|].
        specialize (IH (pre ++ [s]) idx0 idx Hwf').
        destruct IH as (I1 & I2 & I3); try assumption; try lia.
        * apply none_above_snoc; [exact Hpre|]. intros q Hq. now apply einb_zero.
        * intros q Hq1 Hq2. rewrite Hrew. now apply Hin.
        * split; [lia|]. split; [intros q Hq1 Hq2; rewrite <- Hrew; now apply I2|].
          rewrite <- Hrew. exact I3.
  Qed.

  Lemma post_ok s post pre : wf_segs sh (pre ++ s :: post) -> 1 <= cnt ismem sh s ->
    Forall seg_ok (s :: post).
  Proof.
    intros Hwf Hc. destruct (split_facts pre s post Hwf) as (_ & _ & _ & _ & Hafter).
    constructor; [left; exact Hc|]. apply Forall_forall. intros y Hy. right.
    destruct (Hafter y Hy) as [_ H]. now apply H.
  Qed.

  Lemma skipn_split {A} (pre : list A) x post : skipn (length pre) (pre ++ x :: post) = x :: post.
  Proof. induction pre as [|a pre IH]; [reflexivity|exact IH]. Qed.

  Theorem elf_find_clear_spec segs lastc idx : wf_segs sh segs -> idx < W ->
    let r := elf_find_clear ismem sh segs lastc idx in
    idx <= r /\ (forall q, idx <= q -> q < r -> emapped ismem sh segs q = true) /\
    emapped ismem sh segs r = false.
  Proof.
    intros Hwf HiW. cbn zeta. unfold elf_find_clear. rewrite max_pfn_eq.
    destruct (N.ltb_spec (MAXA / P) idx) as [Hbig|Hok].
    { split; [lia|]. split; [intros q H1 H2; lia|].
      destruct (emapped ismem sh segs idx) eqn:E; [|reflexivity].
      pose proof (mapped_bound segs idx (proj1 Hwf) E). lia. }
    rewrite (pfn_addr idx Hok).
    pose proof (find_closest_spec segs lastc idx None Hwf Hok ltac:(discriminate)) as Hc.
    cbn [dist_of] in Hc.
    destruct (find_closest ismem segs lastc (P * idx) MAXA) as [k|].
    - destruct Hc as (pre & s & post & E & Hl & Hc1 & Hc2 & _ & Hpre). subst segs k.
      rewrite skipn_split.
      apply (clear_loop_spec (s :: post) pre idx idx Hwf Hpre (post_ok s post pre Hwf Hc1)); [lia|].
      intros q H1 H2. lia.
    - destruct Hc as [Hnone|(pre & s & post & dd & _ & Edd & _)]; [|discriminate].
      split; [lia|]. split; [intros q H1 H2; lia|]. apply Hnone. lia.
  Qed.
  (** * elf_get_bits *)
  Section GetBits.
    Variables (segs : list seg) (first last : N).
    Hypothesis Hfl : first <= last.
    Hypothesis HlW : last < W.
    Let n := N.to_nat ((last - first) / 8).
    Let mp := emapped ismem sh segs.

    Definition EJinv (cur : N) (bits : list N) : Prop :=
      first <= cur /\ cur <= last /\ length bits = S n /\ wf_bytes bits /\
      (forall i, i < cur - first -> rbit bits i = mp (first + i)) /\
      (forall i, last - first < i -> rbit bits i = false).

    Definition EFinal (raw : list N) : Prop :=
      length raw = S n /\ wf_bytes raw /\
      forall i, rbit raw i = (i <=? last - first) && mp (first + i).

    Lemma e_fin_clear cur bits : EJinv cur bits ->
      (forall q, cur <= q -> q <= last -> mp q = false) ->
      exists raw, clear_bits bits (cur - first) (last - first) = Some raw /\ EFinal raw.
    Proof.
      intros (H1 & H2 & H3 & H4 & H5 & H6) Hun.
      destruct (clear_bits_spec bits (cur - first) (last - first) H4 ltac:(lia)
                  ltac:(rewrite H3; unfold n; lia)) as [raw (Hc & Hl & Hw & Hb)].
      exists raw. split; [exact Hc|]. split; [congruence|]. split; [exact Hw|].
      intros i. rewrite Hb.
      destruct (N.leb_spec (cur - first) i); destruct (N.leb_spec i (last - first)); cbn [andb negb].
      - symmetry. apply Hun; lia.
      - apply H6. lia.
      - apply H5. lia.
      - lia.
    Qed.

    Lemma e_fin_set cur bits : EJinv cur bits ->
      (forall q, cur <= q -> q <= last -> mp q = true) ->
      exists raw, set_bits bits (cur - first) (last - first) = Some raw /\ EFinal raw.
    Proof.
      intros (H1 & H2 & H3 & H4 & H5 & H6) Hma.
      destruct (set_bits_spec bits (cur - first) (last - first) H4 ltac:(lia)
                  ltac:(rewrite H3; unfold n; lia)) as [raw (Hc & Hl & Hw & Hb)].
      exists raw. split; [exact Hc|]. split; [congruence|]. split; [exact Hw|].
      intros i. rewrite Hb.
      destruct (N.leb_spec (cur - first) i); destruct (N.leb_spec i (last - first)); cbn [andb orb].
      - symmetry. apply Hma; lia.
      - apply H6. lia.
      - apply H5. lia.
      - lia.
    Qed.

    Lemma e_step_clear cur c2 bits : EJinv cur bits -> cur < c2 -> c2 <= last ->
      (forall q, cur <= q -> q < c2 -> mp q = false) ->
      exists bits', clear_bits bits (cur - first) (c2 - 1 - first) = Some bits' /\ EJinv c2 bits'.
    Proof.
      intros (H1 & H2 & H3 & H4 & H5 & H6) Hc Hc2 Hun.
      destruct (clear_bits_spec bits (cur - first) (c2 - 1 - first) H4 ltac:(lia)
                  ltac:(rewrite H3; unfold n; lia)) as [raw (Hcl & Hl & Hw & Hb)].
      exists raw. split; [exact Hcl|]. unfold EJinv. repeat split; try lia; try assumption.
      - intros i Hi. rewrite Hb.
        destruct (N.leb_spec (cur - first) i); destruct (N.leb_spec i (c2 - 1 - first));
          cbn [andb negb]; try lia.
        + symmetry. apply Hun; lia.
        + apply H5. lia.
      - intros i Hi. rewrite Hb, (H6 i Hi). apply andb_false_r.
    Qed.

    Lemma e_step_set cur e bits : EJinv cur bits -> cur <= e -> e < last ->
      (forall q, cur <= q -> q <= e -> mp q = true) ->
      exists bits', set_bits bits (cur - first) (e - first) = Some bits' /\ EJinv (e + 1) bits'.
    Proof.
      intros (H1 & H2 & H3 & H4 & H5 & H6) Hc He Hma.
      destruct (set_bits_spec bits (cur - first) (e - first) H4 ltac:(lia)
                  ltac:(rewrite H3; unfold n; lia)) as [raw (Hcl & Hl & Hw & Hb)].
      exists raw. split; [exact Hcl|]. unfold EJinv. repeat split; try lia; try assumption.
      - intros i Hi. rewrite Hb.
        destruct (N.leb_spec (cur - first) i); destruct (N.leb_spec i (e - first));
          cbn [andb orb]; try lia.
        + symmetry. apply Hma; lia.
        + apply H5. lia.
      - intros i Hi. rewrite Hb, (H6 i Hi).
        destruct (N.leb_spec (cur - first) i); destruct (N.leb_spec i (e - first));
          cbn [andb orb]; try reflexivity. lia.
    Qed.

    Lemma none_above_mono l p p' : none_above l p -> p <= p' -> none_above l p'.
    Proof. intros H Hp q Hq. apply H. lia. Qed.

    Lemma elf_loop_spec rest : forall pre cur bits,
      segs = pre ++ rest -> wf_segs sh segs -> none_above pre cur -> Forall seg_ok rest ->
      EJinv cur bits ->
      exists raw, elf_bits_loop ismem sh rest first last cur bits = Val raw /\ EFinal raw.
    Proof.
      induction rest as [|s t IH]; intros pre cur bits Esegs Hwf Hpre Hok HJ; cbn [elf_bits_loop].
      - pose proof HJ as (J1 & J2 & _).
        rewrite (wsub_le cur first) by lia. rewrite (wsub_le last first) by lia.
        destruct (e_fin_clear cur bits HJ) as [raw [Hc HF]].
        + intros q Hq1 Hq2. unfold mp. rewrite Esegs, app_nil_r. now apply Hpre.
        + exists raw. rewrite Hc. split; [reflexivity|exact HF].
      - pose proof HJ as (J1 & J2 & _).
        rewrite Esegs in Hwf.
        destruct (split_facts pre s t Hwf) as (_ & Hws & _ & Hbefore & Hafter).
        inversion Hok as [|? ? Hoks Hokt]; subst.
        rewrite (seg_lo s Hws).
        assert (HcW : cur < W) by lia. assert (HfW : first < W) by lia.
        destruct (seg_coords s Hws) as (E1 & E2 & E3). pose proof P_pos as HP. pose proof W_pos.
        assert (Hcap : lo sh s + cnt ismem sh s <= MAXA).
        { assert (P * (lo sh s + cnt ismem sh s) <= MAXA) by (unfold MAXA; lia). nia. }
        destruct (N.ltb_spec last (lo sh s)) as [Hend|Hcont].
        { rewrite (wsub_le cur first) by lia. rewrite (wsub_le last first) by lia.
          destruct (e_fin_clear cur bits HJ) as [raw [Hc HF]].
          - intros q Hq1 Hq2. unfold mp. rewrite Esegs. eapply split_gap; eauto. lia.
          - exists raw. rewrite Hc. split; [reflexivity|exact HF]. }
        (* after the optional clearing of the gap: cur1 >= lo s *)
        assert (Hstep1 : exists bits1 cur1,
                  (if cur <? lo sh s then
                     match clear_bits bits (wsub cur first) (wsub (wsub (lo sh s) 1) first) with
                     | None => None | Some b => Some (b, lo sh s) end
                   else Some (bits, cur)) = Some (bits1, cur1) /\
                  EJinv cur1 bits1 /\ lo sh s <= cur1 /\ cur <= cur1).
        { destruct (N.ltb_spec cur (lo sh s)) as [Hgap|Hnogap].
          - rewrite (wsub_le cur first) by lia. rewrite (wsub_le (lo sh s) 1) by lia.
            rewrite (wsub_le (lo sh s - 1) first) by lia.
            destruct (e_step_clear cur (lo sh s) bits HJ Hgap ltac:(lia)) as [b' [Hc HJ']].
            + intros q Hq1 Hq2. unfold mp. rewrite Esegs. eapply split_gap; eauto.
            + exists b', (lo sh s). rewrite Hc. split; [reflexivity|]. split; [exact HJ'|]. lia.
          - exists bits, cur. split; [reflexivity|]. split; [exact HJ|]. lia. }
        destruct Hstep1 as (bits1 & cur1 & Hs1 & HJ1 & Hlo1 & Hcc1). rewrite Hs1.
        pose proof HJ1 as (K1 & K2 & _).
        assert (Hpre1 : none_above pre cur1) by (eapply none_above_mono; eauto).
        assert (Esegs' : segs = (pre ++ [s]) ++ t) by (rewrite <- app_assoc; exact Esegs).
        assert (Hwf0 : wf_segs sh segs) by (rewrite Esegs; exact Hwf).
        destruct (N.le_gt_cases 1 (cnt ismem sh s)) as [Hc1|Hc0].
        + rewrite (seg_hi s Hws Hc1).
          destruct (N.leb_spec last (lo sh s + cnt ismem sh s - 1)) as [Hle|Hgt].
          * rewrite (wsub_le cur1 first) by lia. rewrite (wsub_le last first) by lia.
            destruct (e_fin_set cur1 bits1 HJ1) as [raw [Hs HF]].
            -- intros q Hq1 Hq2. unfold mp. rewrite Esegs. apply split_inside; lia.
            -- exists raw. rewrite Hs. split; [reflexivity|exact HF].
          * destruct (N.leb_spec cur1 (lo sh s + cnt ismem sh s - 1)) as [Hin|Hpast].
            -- rewrite (wsub_le cur1 first) by lia.
               rewrite (wsub_le (lo sh s + cnt ismem sh s - 1) first) by lia.
               destruct (e_step_set cur1 (lo sh s + cnt ismem sh s - 1) bits1 HJ1 Hin ltac:(lia))
                 as [bits2 [Hs HJ2]].
               ++ intros q Hq1 Hq2. unfold mp. rewrite Esegs. apply split_inside; lia.
               ++ rewrite Hs. rewrite wadd_small by (unfold MAXA in *; lia).
                  apply (IH (pre ++ [s])); try assumption.
                  apply none_above_snoc.
                  ** eapply none_above_mono; eauto. lia.
                  ** intros q Hq. apply (einb_below s (lo sh s + cnt ismem sh s) q); lia.
            -- apply (IH (pre ++ [s])); try assumption.
               apply none_above_snoc; [exact Hpre1|].
               intros q Hq. apply (einb_below s cur1 q); lia.
        + assert (Ez : cnt ismem sh s = 0) by lia.
          assert (Hl1 : 1 <= lo sh s) by (destruct Hoks; lia).
          rewrite (seg_hi0 s Hws Ez Hl1).
          destruct (N.leb_spec last (lo sh s - 1)) as [Hx|_]; [lia|].
          destruct (N.leb_spec cur1 (lo sh s - 1)) as [Hx|_]; [lia|].
          apply (IH (pre ++ [s])); try assumption.
          apply none_above_snoc; [exact Hpre1|]. intros q Hq. now apply einb_zero.
    Qed.
  End GetBits.

  (** for every (first, last) whose byte distance fits 64 bits, whatever the buffer
      held and whatever the lookup cache points to: bit i of the result is "frame
      first + i is covered by a segment with data", padding bits clear *)
  Theorem elf_get_bits_exact segs lastc first last buf :
    wf_segs sh segs -> first <= last -> last < W -> P * (last - first + 1) < W ->
    wf_bytes buf -> length buf = S (N.to_nat ((last - first) / 8)) ->
    exists raw, elf_get_bits ismem sh segs lastc first last buf = Val raw /\
      length raw = length buf /\ wf_bytes raw /\
      forall i, rbit raw i = (i <=? last - first) && emapped ismem sh segs (first + i).
  Proof.
    intros Hwf Hfl HlW Hdist Hwb Hlen. unfold elf_get_bits.
    rewrite (wsub_le last first Hfl HlW), N.shiftr_div_pow2. change (2 ^ 3) with 8.
    set (n := N.to_nat ((last - first) / 8)) in *.
    pose proof P_pos as HP. pose proof W_pos.
    assert (Hzero : (forall q, first <= q -> q <= last -> emapped ismem sh segs q = false) ->
      exists raw, (if (length buf <=? n)%nat then @Oob (list N)
                   else Val (repeat 0 (S n) ++ skipn (S n) buf)) = Val raw /\
        length raw = length buf /\ wf_bytes raw /\
        forall i, rbit raw i = (i <=? last - first) && emapped ismem sh segs (first + i)).
    { intros Hall. destruct (Nat.leb_spec (length buf) n); [lia|].
      eexists. split; [reflexivity|]. rewrite skipn_all2 by lia. rewrite app_nil_r.
      split; [rewrite repeat_length; lia|]. split.
      - unfold wf_bytes. apply Forall_forall. intros b Hb. apply repeat_spec in Hb. subst b. reflexivity.
      - intros i. rewrite rbit_repeat0.
        destruct (N.leb_spec i (last - first)); [|reflexivity]. cbn [andb].
        symmetry. apply Hall; lia. }
    rewrite max_pfn_eq.
    destruct (N.ltb_spec (MAXA / P) first) as [Hbig|Hok].
    { apply Hzero. intros q Hq1 Hq2. destruct (emapped ismem sh segs q) eqn:E; [|reflexivity].
      pose proof (mapped_bound segs q (proj1 Hwf) E). lia. }
    rewrite (pfn_addr first Hok).
    rewrite wadd_small by nia.
    assert (Hdd : last - first + 1 <= MAXA / P).
    { apply N.div_le_lower_bound; [lia|]. unfold MAXA. lia. }
    rewrite (pfn_addr (last - first + 1) Hdd).
    pose proof (find_closest_spec segs lastc first (Some (last - first + 1)) Hwf Hok) as Hc.
    cbn [dist_of] in Hc. specialize (Hc ltac:(intros dd E; inversion E; subst; split; lia)).
    destruct (find_closest ismem segs lastc (P * first) (P * (last - first + 1))) as [k|].
    - destruct Hc as (pre & s & post & E & Hl & Hc1 & Hc2 & _ & Hpre). subst k.
      destruct (set_byte_spec buf n 0 ltac:(lia)) as [bits0 (Hs & Hl0 & Hn0)]. rewrite Hs.
      rewrite E, skipn_split.
      assert (HJ : EJinv segs first last first bits0).
      { unfold EJinv. fold n. repeat split; try lia.
        - unfold wf_bytes. apply Forall_forall. intros b Hb. apply In_nth_error in Hb.
          destruct Hb as [j Hj]. rewrite Hn0 in Hj. destruct (Nat.eqb j n).
          + inversion Hj. reflexivity.
          + unfold wf_bytes in Hwb. rewrite Forall_forall in Hwb. apply Hwb. eapply nth_error_In; eauto.
        - intros i Hi. rewrite rbit_nth, Hn0.
          destruct (Nat.eqb_spec (N.to_nat (i / 8)) n) as [En|En]; [apply N.bits_0|].
          assert (Hnone : nth_error buf (N.to_nat (i / 8)) = None).
          { apply nth_error_None. unfold n in *. lia. }
          now rewrite Hnone. }
      destruct (elf_loop_spec segs first last Hfl HlW (s :: post) pre first bits0 E Hwf Hpre
                  ltac:(rewrite E in Hwf; exact (post_ok s post pre Hwf Hc1)) HJ) as [raw [Hr HF]].
      exists raw. split; [exact Hr|]. destruct HF as (F1 & F2 & F3). fold n in F1.
      split; [lia|]. split; [exact F2|]. intros i. rewrite <- E. apply F3.
    - apply Hzero. destruct Hc as [Hnone|(pre & s & post & dd & E & Edd & Hc1 & Hfar & Hpre)].
      + intros q Hq1 Hq2. now apply Hnone.
      + inversion Edd; subst dd. intros q Hq1 Hq2. rewrite E. eapply split_gap; eauto.
        * rewrite <- E. exact Hwf.
        * lia.
  Qed.

  (** the three queries are mutually consistent *)
  Corollary elf_mutually_consistent segs lastc first last buf idx :
    wf_segs sh segs -> first <= last -> last < W -> P * (last - first + 1) < W ->
    wf_bytes buf -> length buf = S (N.to_nat ((last - first) / 8)) -> first <= idx -> idx <= last ->
    exists raw, elf_get_bits ismem sh segs lastc first last buf = Val raw /\
      match elf_find_set ismem sh segs lastc idx with
      | Some q => (q <= last -> rbit raw (q - first) = true) /\
                  forall j, idx <= j -> j < q -> j <= last -> rbit raw (j - first) = false
      | None => forall j, idx <= j -> j <= last -> rbit raw (j - first) = false
      end /\
      let q := elf_find_clear ismem sh segs lastc idx in
      (q <= last -> rbit raw (q - first) = false) /\
      forall j, idx <= j -> j < q -> j <= last -> rbit raw (j - first) = true.
  Proof.
    intros Hwf Hfl HlW Hdist Hwb Hlen Hi1 Hi2.
    destruct (elf_get_bits_exact segs lastc first last buf Hwf Hfl HlW Hdist Hwb Hlen)
      as [raw (Hg & _ & _ & Hb)].
    assert (Hbit : forall j, first <= j -> j <= last ->
                   rbit raw (j - first) = emapped ismem sh segs j).
    { intros j Hj1 Hj2. rewrite Hb. replace (first + (j - first)) with j by lia.
      destruct (N.leb_spec (j - first) (last - first)); [reflexivity|lia]. }
    exists raw. split; [exact Hg|]. split.
    - pose proof (elf_find_set_spec segs lastc idx Hwf) as Hs.
      destruct (elf_find_set ismem sh segs lastc idx) as [q|].
      + destruct Hs as (Hq1 & Hq2 & Hq3). split.
        * intros Hq. rewrite Hbit by lia. exact Hq2.
        * intros j Hj1 Hj2 Hj3. rewrite Hbit by lia. now apply Hq3.
      + intros j Hj1 Hj2. rewrite Hbit by lia. now apply Hs.
    - pose proof (elf_find_clear_spec segs lastc idx Hwf ltac:(lia)) as Hc. cbn zeta in Hc.
      destruct Hc as (Hq1 & Hq2 & Hq3). cbn zeta. split.
      + intros Hql. rewrite Hbit by lia. exact Hq3.
      + intros j Hj1 Hj2 Hj3. rewrite Hbit by lia. now apply Hq2.
  Qed.
End Elf.
