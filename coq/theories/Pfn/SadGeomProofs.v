(** Proofs about Pfn/SadGeomModel.v. *)
From Coq Require Import NArith ZArith List Bool Lia.
From Coq Require Import ZifyBool ZifyNat ZifyN.
From KdV Require Import Base.Wrap64 Pfn.BitmapModel Pfn.RegionModel Pfn.PfnSpec
                        Pfn.BitmapProofs Pfn.RegionProofs Pfn.DdGeomModel Pfn.DdGeomProofs
                        Pfn.SadGeomModel.
Import ListNotations.
Local Open Scope N_scope.

(** the memory bitmap comes first, the dumpable bitmap right after it, the page
    data right after that; each is exactly its announced number of blocks *)
Theorem sadump_geometry hdr_pos bs sub bb db :
  let g := sadump_geom hdr_pos bs sub bb db in
  sg_mem_off g = hdr_pos + bs * (1 + sub) /\ sg_mem_size g = bs * bb /\
  sg_bmp_pos g = sg_mem_off g + sg_mem_size g /\ sg_bmp_len g = bs * db /\
  sg_data_pos g = sg_bmp_pos g + sg_bmp_len g.
Proof. cbn zeta. unfold sadump_geom. cbn [sg_mem_off sg_mem_size sg_bmp_pos sg_bmp_len sg_data_pos]. lia. Qed.

Lemma slice_mid (a b c : list N) n m : length a = N.to_nat n -> length b = N.to_nat m ->
  slice (a ++ b ++ c) n m = b.
Proof.
  intros Ha Hb. unfold slice. rewrite <- Ha.
  rewrite skipn_app, skipn_all, Nat.sub_diag. cbn [skipn app].
  rewrite <- Hb. rewrite firstn_app, firstn_all, Nat.sub_diag. cbn [firstn]. apply app_nil_r.
Qed.

Lemma slice_head (a c : list N) n : length a = N.to_nat n -> slice (a ++ c) 0 n = a.
Proof.
  intros Ha. unfold slice. cbn [N.to_nat skipn]. rewrite <- Ha.
  rewrite firstn_app, firstn_all, Nat.sub_diag. cbn [firstn]. apply app_nil_r.
Qed.

(** hence: the regions behind file.pagemap are the maximal runs of the MSB-0
    bits of the *dumpable* bitmap, those behind memory.pagemap the maximal runs
    of the *memory* bitmap, over the whole length of each; [max_pfn] is clipped
    to the capacity of the bitmap *)
Theorem sadump_sources al (mem dump rest : list N) hdr_pos bs sub bb db max_pfn :
  length mem = N.to_nat (bs * bb) -> length dump = N.to_nat (bs * db) ->
  wf_bytes mem -> wf_bytes dump ->
  let g := sadump_geom hdr_pos bs sub bb db in
  (forall orc,
     fst (sd_file_regions al (mem ++ dump ++ rest) g max_pfn orc)
       = (if bs * db * 8 <? max_pfn then bs * db * 8 else max_pfn) /\
     match fst (snd (sd_file_regions al (mem ++ dump ++ rest) g max_pfn orc)) with
     | ROk rs => runs_from (bit_of true dump) 0 (bs * db * 8) 0 SADUMP_PAGE true rs
     | RNoMem _ => In false orc
     | ROob | RFuel => False
     end) /\
  (forall orc,
     fst (sd_mem_regions al (mem ++ dump ++ rest) g max_pfn orc)
       = (if bs * bb * 8 <? max_pfn then bs * bb * 8 else max_pfn) /\
     match fst (snd (sd_mem_regions al (mem ++ dump ++ rest) g max_pfn orc)) with
     | ROk rs => runs_from (bit_of true mem) 0 (bs * bb * 8) 0 SADUMP_PAGE true rs
     | RNoMem _ => In false orc
     | ROob | RFuel => False
     end).
Proof.
  intros Hlm Hld Hwm Hwd. cbn zeta.
  destruct (sadump_geometry hdr_pos bs sub bb db) as (E1 & E2 & E3 & E4 & E5). cbn zeta in *.
  set (g := sadump_geom hdr_pos bs sub bb db) in *.
  split; intros orc.
  - unfold sd_file_regions. cbn [fst snd]. rewrite E4.
    replace (sg_bmp_pos g - sg_mem_off g) with (bs * bb) by lia.
    rewrite (slice_mid mem dump rest (bs * bb) (bs * db) Hlm Hld).
    split; [reflexivity|].
    destruct (regions_from_bitmap true true al dump 0 (bs * db * 8) 0 SADUMP_PAGE [] orc) as [res o'] eqn:Er.
    pose proof (regions_are_runs true al dump 0 (bs * db * 8) 0 SADUMP_PAGE [] orc res o' Hwd ltac:(lia) Er) as R.
    cbn [fst]. destruct res; try exact R. destruct R as [new [E Hr]]. cbn [app] in E. now subst.
  - unfold sd_mem_regions. cbn [fst snd]. rewrite E2.
    rewrite (slice_head mem (dump ++ rest) (bs * bb) Hlm).
    split; [reflexivity|].
    destruct (regions_from_bitmap true true al mem 0 (bs * bb * 8) 0 SADUMP_PAGE [] orc) as [res o'] eqn:Er.
    pose proof (regions_are_runs true al mem 0 (bs * bb * 8) 0 SADUMP_PAGE [] orc res o' Hwm ltac:(lia) Er) as R.
    cbn [fst]. destruct res; try exact R. destruct R as [new [E Hr]]. cbn [app] in E. now subst.
Qed.

(** the page lookup of sadump_read_page succeeds exactly below max_pfn on mapped frames *)
Theorem sd_page_stored_spec m maxp p : wf_map m -> p < W ->
  exists b, sd_page_stored m maxp p = Val b /\ b = (p <? maxp) && mapped1 m p.
Proof.
  intros Hwm Hp. unfold sd_page_stored.
  destruct (N.leb_spec maxp p) as [Hge|Hlt].
  - exists false. split; [reflexivity|]. destruct (N.ltb_spec p maxp); [lia|reflexivity].
  - destruct (N.ltb_spec p maxp); [|lia]. cbn [andb].
    destruct (find_region_spec m p (proj1 (proj2 (proj2 Hwm))) Hp) as [o [Ho Hs]]. rewrite Ho.
    assert (Hall : forall j r', nth_region (regions m) j = Some r' -> 1 <= g_cnt r' /\ rend r' < W).
    { intros j r' Hr'. exact (wf_nth _ _ _ (proj1 (proj2 (proj2 Hwm))) Hr'). }
    destruct o as [ri|]; cbn [region_idx_spec] in Hs.
    + destruct Hs as [r (Hr & Hpr & Hlow)]. rewrite Hr. eexists. split; [reflexivity|].
      unfold mapped1. destruct (N.leb_spec (g_pfn r) p) as [Hin|Hout].
      * symmetry. apply existsb_exists. exists r. split; [unfold nth_region in Hr; eapply nth_error_In; eauto|].
        unfold inb. destruct (N.leb_spec (g_pfn r) p); destruct (N.ltb_spec p (rend r)); try lia; reflexivity.
      * symmetry. destruct (existsb (fun r0 => inb r0 p) (regions m)) eqn:E; [|reflexivity]. exfalso.
        apply existsb_exists in E. destruct E as [r' [Hin' Hb']].
        apply In_nth_error in Hin'. destruct Hin' as [j Hj].
        assert (Hj' : nth_region (regions m) (N.of_nat j) = Some r') by (unfold nth_region; now rewrite Nnat.Nat2N.id).
        unfold inb in Hb'.
        destruct (N.lt_trichotomy (N.of_nat j) ri) as [Hl|[E|Hg]].
        -- specialize (Hlow _ _ Hl Hj'). lia.
        -- rewrite E in Hj'. rewrite Hr in Hj'. inversion Hj'; subst r'. lia.
        -- pose proof (wf_sorted _ _ _ _ _ (proj1 (proj2 (proj2 Hwm))) Hg Hr Hj').
           destruct (Hall _ _ Hr). unfold rend in *. lia.
    + eexists. split; [reflexivity|]. symmetry. unfold mapped1.
      destruct (existsb (fun r0 => inb r0 p) (regions m)) eqn:E; [|reflexivity]. exfalso.
      apply existsb_exists in E. destruct E as [r' [Hin' Hb']].
      apply In_nth_error in Hin'. destruct Hin' as [j Hj].
      assert (Hj' : nth_region (regions m) (N.of_nat j) = Some r') by (unfold nth_region; now rewrite Nnat.Nat2N.id).
      specialize (Hs _ _ Hj'). unfold inb in Hb'. lia.
Qed.

(** ** disk sets *)

Lemma disk1_index_spec nums : forall i,
  match disk1_index nums i with
  | Some k => i <= k /\ nth_error nums (N.to_nat (k - i)) = Some 1 /\
              forall j, (j < N.to_nat (k - i))%nat -> nth_error nums j <> Some 1
  | None => ~ In 1 nums
  end.
Proof.
  induction nums as [|d t IH]; intros i; cbn [disk1_index]; [tauto|].
  destruct (N.eqb_spec d 1) as [->|Hne].
  - split; [lia|]. replace (i - i) with 0 by lia. cbn. split; [reflexivity|]. intros j Hj. lia.
  - specialize (IH (i + 1)). destruct (disk1_index t (i + 1)) as [k|].
    + destruct IH as (H1 & H2 & H3). split; [lia|].
      replace (N.to_nat (k - i)) with (S (N.to_nat (k - (i + 1)))) by lia. cbn [nth_error].
      split; [exact H2|]. intros j Hj. destruct j as [|j]; cbn [nth_error]; [congruence|].
      apply H3. lia.
    + intros [E|Hin]; [congruence|tauto].
Qed.

Lemma slice_in_file (hdr mem dump rest : list N) off n m :
  length hdr = N.to_nat off -> length mem = N.to_nat n -> length dump = N.to_nat m ->
  slice (hdr ++ mem ++ dump ++ rest) off n = mem /\
  slice (hdr ++ mem ++ dump ++ rest) (off + n) m = dump.
Proof.
  intros Hh Hm Hd. split.
  - apply slice_mid; assumption.
  - rewrite app_assoc. replace (off + n) with (N.of_nat (length (hdr ++ mem))) by (rewrite app_length; lia).
    apply (slice_mid (hdr ++ mem) dump rest); [lia|exact Hd].
Qed.

(** both bitmaps come from the file that holds disk #1, in whatever position that file
    was given, and are the bitmaps that disk holds — the other files' bytes are never
    looked at *)
Theorem sadump_sources_file al files nums (hdr mem dump rest : list N) hdr_pos bs sub bb db max_pfn k :
  disk1_index nums 0 = Some k ->
  let g := sadump_geom hdr_pos bs sub bb db in
  file_at files k = hdr ++ mem ++ dump ++ rest ->
  length hdr = N.to_nat (sg_mem_off g) -> length mem = N.to_nat (bs * bb) -> length dump = N.to_nat (bs * db) ->
  wf_bytes mem -> wf_bytes dump ->
  fst (fst (sd_file_src g k)) = k /\ fst (fst (sd_mem_src false g k)) = k /\
  (forall orc,
     match fst (snd (sd_set_file_regions al files g k max_pfn orc)) with
     | ROk rs => runs_from (bit_of true dump) 0 (bs * db * 8) 0 SADUMP_PAGE true rs
     | RNoMem _ => In false orc
     | ROob | RFuel => False
     end) /\
  (forall orc,
     match fst (snd (sd_set_mem_regions false al files g k max_pfn orc)) with
     | ROk rs => runs_from (bit_of true mem) 0 (bs * bb * 8) 0 SADUMP_PAGE true rs
     | RNoMem _ => In false orc
     | ROob | RFuel => False
     end).
Proof.
  intros Hk g Hfile Hh Hm Hd Hwm Hwd.
  destruct (sadump_geometry hdr_pos bs sub bb db) as (E1 & E2 & E3 & E4 & E5). cbn zeta in *. fold g in E1, E2, E3, E4, E5.
  destruct (slice_in_file hdr mem dump rest (sg_mem_off g) (bs * bb) (bs * db) Hh Hm Hd) as [S1 S2].
  split; [reflexivity|]. split; [reflexivity|]. split; intros orc.
  - unfold sd_set_file_regions, sd_fetch, sd_file_src. cbn [fst snd]. rewrite Hfile, E3, E2, E4, S2.
    destruct (regions_from_bitmap true true al dump 0 (bs * db * 8) 0 SADUMP_PAGE [] orc) as [res o'] eqn:Er.
    pose proof (regions_are_runs true al dump 0 (bs * db * 8) 0 SADUMP_PAGE [] orc res o' Hwd ltac:(lia) Er) as R.
    cbn [fst]. destruct res; try exact R. destruct R as [new [E Hr]]. cbn [app] in E. now subst.
  - unfold sd_set_mem_regions, sd_fetch, sd_mem_src. cbn [fst snd]. rewrite Hfile, E2, S1.
    destruct (regions_from_bitmap true true al mem 0 (bs * bb * 8) 0 SADUMP_PAGE [] orc) as [res o'] eqn:Er.
    pose proof (regions_are_runs true al mem 0 (bs * bb * 8) 0 SADUMP_PAGE [] orc res o' Hwm ltac:(lia) Er) as R.
    cbn [fst]. destruct res; try exact R. destruct R as [new [E Hr]]. cbn [app] in E. now subst.
Qed.

(** the variant that fetches the memory bitmap from file index 0 reads another disk
    as soon as disk #1 is not given first *)
Theorem sadump_mem_from_first_refuted :
  exists files nums g k,
    disk1_index nums 0 = Some k /\
    sd_fetch files (sd_mem_src false g k) <> sd_fetch files (sd_mem_src true g k).
Proof.
  exists [[9; 9; 9; 9]; [0; 0; 255; 1]], [2; 1], (sadump_geom 0 1 1 1 1), 1.
  split; [reflexivity|]. vm_compute. discriminate.
Qed.
