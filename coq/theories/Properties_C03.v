(** C03 — no byte sequence offered as a dump can crash or corrupt the process.

    PARTIAL BY NATURE (DESIGN section 9 "C03", section 11): the theorems below
    are about executable models of the library's *parsing logic*.  They show
    that, for every byte string, every access the logic performs stays inside
    the bytes it was given, that it never divides by zero, shifts out of range
    or calls through a null function pointer, and that it terminates within an
    explicit fuel.  They cannot exhibit (or exclude) an invalid access of the
    compiled C; that half is covered only by the sanitizer-instrumented
    correspondence run (engine "corrupt").  Statements only; every proof is
    [exact <lemma>]. *)
From Coq Require Import NArith ZArith List Bool.
From KdV Require Import Parse.RleModel Parse.RleSpec Parse.RleProofs.
Import ListNotations.
Local Open Scope N_scope.

(** * (a) uncompress_rle (util.c) *)

(** for every input and every output capacity: no read outside the source, no
    write outside the destination, and fuel = input length suffices *)
Theorem C03_rle_in_bounds : forall src cap,
  uncompress_rle src cap <> RleOOBRead /\
  uncompress_rle src cap <> RleOOBWrite /\
  uncompress_rle src cap <> RleFuel.
Proof. exact rle_in_bounds. Qed.
Print Assumptions C03_rle_in_bounds.

(** [uncompress_rle] runs its loop with fuel [length src] (see its definition):
    the fuel outcome being unreachable is the linear bound *)
Theorem C03_rle_linear_fuel : forall src cap,
  rle_loop (length src) src (length src) cap 0%nat cap 0 [] <> RleFuel.
Proof. exact (fun src cap => proj2 (proj2 (rle_in_bounds src cap))). Qed.
Print Assumptions C03_rle_linear_fuel.

(** the result is an error (length untouched, writes inside the buffer) or the
    exact decoded length, which fits the buffer *)
Theorem C03_rle_error_or_exact_length : forall src cap,
  (exists out, uncompress_rle src cap = RleDone out /\
               rle_retlen cap (uncompress_rle src cap) = Some (true, N.of_nat (length out)) /\
               N.of_nat (length out) <= cap /\ rle_decode src = Some out)
  \/
  (exists e, uncompress_rle src cap = RleErr e /\
             rle_retlen cap (uncompress_rle src cap) = Some (false, cap) /\
             N.of_nat (length e) <= cap).
Proof. exact rle_error_or_exact_length. Qed.
Print Assumptions C03_rle_error_or_exact_length.

(** the model computes exactly the format's decoding, truncated by capacity *)
Theorem C03_rle_refines_spec : forall src cap,
  match rle_spec src cap with
  | Some out => uncompress_rle src cap = RleDone out
  | None => exists e, uncompress_rle src cap = RleErr e
  end.
Proof. exact rle_refines_spec. Qed.
Print Assumptions C03_rle_refines_spec.

Example C03_nonvacuous_rle :
  uncompress_rle [65; 0; 3; 66; 0; 0; 67] 16 = RleDone [65; 66; 66; 66; 0; 67] /\
  uncompress_rle [65; 0; 3; 66] 3 = RleErr [65] /\
  uncompress_rle [0; 3] 16 = RleErr [].
Proof. vm_compute. repeat split. Qed.
