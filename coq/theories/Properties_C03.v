(** C03 — no byte sequence offered as a dump can crash or corrupt the process.

    PARTIAL BY NATURE (DESIGN section 9 "C03", section 11): the theorems below
    are about executable models of the library's *parsing logic*.  They show
    that, for every byte string, every access the logic performs stays inside
    the bytes it was given, that it never divides by zero, shifts out of range
    or calls through a null function pointer, and that it terminates within an
    explicit fuel.  They cannot exhibit (or exclude) an invalid access of the
    compiled C; that half is covered only by the sanitizer-instrumented
    correspondence run (engine "corrupt").  Statements only; every proof is
    [exact <lemma>]. *)
From Coq Require Import NArith ZArith List Bool.
From KdV Require Import Parse.RleModel Parse.RleSpec Parse.RleProofs.
Import ListNotations.
Local Open Scope N_scope.

(** * (a) uncompress_rle (util.c) *)

(** for every input and every output capacity: no read outside the source, no
    write outside the destination, and fuel = input length suffices *)
Theorem C03_rle_in_bounds : forall src cap,
  uncompress_rle src cap <> RleOOBRead /\
  uncompress_rle src cap <> RleOOBWrite /\
  uncompress_rle src cap <> RleFuel.
Proof. exact rle_in_bounds. Qed.
Print Assumptions C03_rle_in_bounds.

(** [uncompress_rle] runs its loop with fuel [length src] (see its definition):
    the fuel outcome being unreachable is the linear bound *)
Theorem C03_rle_linear_fuel : forall src cap,
  rle_loop (length src) src (length src) cap 0%nat cap 0 [] <> RleFuel.
Proof. exact (fun src cap => proj2 (proj2 (rle_in_bounds src cap))). Qed.
Print Assumptions C03_rle_linear_fuel.

(** the result is an error (length untouched, writes inside the buffer) or the
    exact decoded length, which fits the buffer *)
Theorem C03_rle_error_or_exact_length : forall src cap,
  (exists out, uncompress_rle src cap = RleDone out /\
               rle_retlen cap (uncompress_rle src cap) = Some (true, N.of_nat (length out)) /\
               N.of_nat (length out) <= cap /\ rle_decode src = Some out)
  \/
  (exists e, uncompress_rle src cap = RleErr e /\
             rle_retlen cap (uncompress_rle src cap) = Some (false, cap) /\
             N.of_nat (length e) <= cap).
Proof. exact rle_error_or_exact_length. Qed.
Print Assumptions C03_rle_error_or_exact_length.

(** the model computes exactly the format's decoding, truncated by capacity *)
Theorem C03_rle_refines_spec : forall src cap,
  match rle_spec src cap with
  | Some out => uncompress_rle src cap = RleDone out
  | None => exists e, uncompress_rle src cap = RleErr e
  end.
Proof. exact rle_refines_spec. Qed.
Print Assumptions C03_rle_refines_spec.

Example C03_nonvacuous_rle :
  uncompress_rle [65; 0; 3; 66; 0; 0; 67] 16 = RleDone [65; 66; 66; 66; 0; 67] /\
  uncompress_rle [65; 0; 3; 66] 3 = RleErr [65] /\
  uncompress_rle [0; 3] 16 = RleErr [].
Proof. vm_compute. repeat split. Qed.

(** * Parsers over a file: [file := N -> N] is the byte at every offset (a
    finite byte string is zero from its length on), [alim] the largest
    allocation that succeeds.  The models are the *repaired* code (fix
    patches 08, 09, 10, 15, 33, 50, 62, 70-79, 90-94); [repaired = false] selects the
    pinned tree's logic where a [_refuted] witness is stated. *)
From KdV Require Import Parse.Bounded Parse.NotesModel Parse.PElfModel Parse.FlatInit Parse.SizesModel
     Parse.ProbeModel Parse.BoundedProofs Parse.NotesProofs Parse.ElfProofs Parse.FlatInitProofs
     Parse.SizesProofs Parse.ProbeProofs.

(** ** (c) do_notes (notes.c) *)

(** every buffer content: the iteration ends with the list of notes, and the
    name and descriptor handed to the callback lie inside the buffer *)
Theorem C03_notes_in_bounds : forall be c,
  exists l, do_notes be c = Ok l /\
    Forall (fun n => inside c (n_name n) /\ inside c (n_desc n)) l.
Proof. exact do_notes_in_bounds. Qed.
Print Assumptions C03_notes_in_bounds.

(** [size/12 + 1] iterations suffice: linear in the size of the note buffer *)
Theorem C03_notes_linear_fuel : forall be c,
  exists r, loop_nat (notes_body be c) (N.to_nat (clen c / 12 + 1)) (0, clen c, []) = inr r.
Proof. exact do_notes_linear_fuel. Qed.
Print Assumptions C03_notes_linear_fuel.

(** the model carries the C widths: were [descoff] an [Elf32_Word] (so that
    [size < descoff + descsz] is evaluated modulo 2^32), a 12-byte buffer with
    [n_descsz = 0xfffffff4] would hand the callback a descriptor outside the
    buffer *)
Theorem C03_notes_narrow_descoff_refuted : exists be c, do_notes_w true be c = OOB.
Proof. exact do_notes_narrow_refuted. Qed.
Print Assumptions C03_notes_narrow_descoff_refuted.

(** the callbacks' name comparison never looks outside the name *)
Theorem C03_note_names_in_bounds : forall n, exists a, noarch_note n = Ok a.
Proof. exact noarch_note_ok. Qed.
Print Assumptions C03_note_names_in_bounds.

(** ** (b) ELF probe (elfdump.c): header, program/section header tables with
    file-controlled entry sizes and counts, extended numbering, string table,
    first walk over the PT_NOTE segments *)
Theorem C03_elf_in_bounds : forall alim f flen, is_ub (elf_probe alim f flen) = false.
Proof. exact (fun alim f flen => proj1 (elf_probe_good alim f flen)). Qed.
Print Assumptions C03_elf_in_bounds.

(** never out of fuel: the table loops run [phnum] / [shnum] times (the header's
    counts or the extended-numbering counts) *)
Theorem C03_elf_linear_fuel_partial : forall alim f flen, elf_probe alim f flen <> OutOfFuel.
Proof. exact (fun alim f flen => proj1 (proj2 (elf_probe_good alim f flen))). Qed.
Print Assumptions C03_elf_linear_fuel_partial.

(** ... and since fix 94 those counts are linear in the length of the file:
    a table must lie within the file before it is walked.  PARTIAL only in
    that the bound is stated for a probe that succeeds; a failing probe
    performs a prefix of the same iterations, or none (the check precedes the
    loop), which the outcome-valued model does not count. *)
Theorem C03_elf_tables_linear_in_file : forall alim f flen r,
  elf_probe alim f flen = Ok r ->
  et_phnum (er_tables r) * 32 <= flen /\ et_shnum (er_tables r) * 40 <= flen.
Proof. exact elf_probe_counts. Qed.
Print Assumptions C03_elf_tables_linear_in_file.

(** ** (d) flattened files (flatmap.c) *)
Theorem C03_flat_in_bounds : forall alim f fuel,
  is_ub (flatmap_file_init alim f fuel) = false.
Proof. exact flatmap_file_init_in_bounds. Qed.
Print Assumptions C03_flat_in_bounds.

(** a file of [flen] bytes: the header walk ends within [flen/17 + 2] records *)
Theorem C03_flat_linear_fuel : forall alim f flen,
  (forall p, flen <= p -> f p = 0) ->
  flatmap_init alim f flen <> OutOfFuel /\ is_ub (flatmap_init alim f flen) = false.
Proof.
  exact (fun alim f flen Hz =>
    conj (proj1 (proj2 (flatmap_init_good alim f flen Hz))) (proj1 (flatmap_init_good alim f flen Hz))).
Qed.
Print Assumptions C03_flat_linear_fuel.

(** ** (g) page size validation before [%] and [>>] (util.c, read.c) *)
Theorem C03_page_size_validated : forall v ps shift,
  set_page_size true v = Ok (ps, shift) -> ps = v /\ v = 2 ^ shift /\ shift < 64 /\ v <> 0.
Proof. exact set_page_size_spec. Qed.
Print Assumptions C03_page_size_validated.

Theorem C03_page_size_in_bounds : forall v,
  is_ub (set_page_size true v) = false.
Proof. exact (fun v => proj1 (set_page_size_no_ub v)). Qed.
Print Assumptions C03_page_size_in_bounds.

(** no division by zero, no out-of-range shift when an address is split *)
Theorem C03_read_split_defined : forall v ps shift addr,
  set_page_size true v = Ok (ps, shift) ->
  exists pfn off, read_split true ps shift addr = Ok (pfn, off) /\ off < ps /\ addr = pfn * ps + off.
Proof. exact read_split_defined. Qed.
Print Assumptions C03_read_split_defined.

(** the faithful model of the pinned tree refutes the property: page size 0 is
    accepted and becomes a shift by 2^64-1 (item 10); an unset page size is a
    division by zero in read_locked (item 33) *)
Theorem C03_page_size_zero_unrepaired_refuted : set_page_size false 0 = BadShift.
Proof. exact set_page_size_unrepaired_refuted. Qed.
Print Assumptions C03_page_size_zero_unrepaired_refuted.
Theorem C03_unset_page_size_unrepaired_refuted : forall addr, read_split false 0 0 addr = DivZero.
Proof. exact read_split_unrepaired_refuted. Qed.
Print Assumptions C03_unset_page_size_unrepaired_refuted.

(** ** (e) diskdump (diskdump.c) *)
Theorem C03_diskdump_try_header : forall bs bmp mapnr ps shift,
  try_header true bs bmp mapnr = Ok (ps, shift) ->
  ps = bs /\ MIN_PAGE_SIZE <= ps <= MAX_PAGE_SIZE /\ ps = 2 ^ shift /\ mapnr <= (8 * bmp * bs) mod W64.
Proof. exact try_header_spec. Qed.
Print Assumptions C03_diskdump_try_header.

Theorem C03_diskdump_header_in_bounds : forall h, clen h = 464 ->
  is_ub (dd_choose true h) = false /\ dd_choose true h <> OutOfFuel.
Proof. exact (fun h H => conj (proj1 (dd_choose_good h H)) (proj1 (proj2 (dd_choose_good h H)))). Qed.
Print Assumptions C03_diskdump_header_in_bounds.

(** page descriptor [size] against the page buffer *)
Theorem C03_diskdump_page_in_bounds : forall alim f flen ps flags size off,
  is_ub (dd_page alim f flen ps flags size off) = false.
Proof. exact (fun alim f flen ps flags size off => proj1 (dd_page_good alim f flen ps flags size off)). Qed.
Print Assumptions C03_diskdump_page_in_bounds.

(** the size of a raw page is checked against the *current* page size, which
    is the size of the cache slot it is copied into (the page size can change
    after the header: VMCOREINFO PAGESIZE), and a decompressor is given that
    size as its capacity *)
Theorem C03_diskdump_raw_page_fits_slot : forall alim f flen ps flags size off a,
  dd_page alim f flen ps flags size off = Ok a ->
  match a with DdRaw => size = ps | DdDecompress _ cap => cap = ps end.
Proof. exact dd_page_fits_slot. Qed.
Print Assumptions C03_diskdump_raw_page_fits_slot.

(** ... whereas a check against the header's block size lets a 4096-byte raw
    page into a 512-byte slot (seeded change C03-c3) *)
Theorem C03_diskdump_raw_page_block_size_refuted :
  dd_page_gen 1073741824 (fun _ => 0) 8192 4096 512 0 4096 0 = OOB.
Proof. exact dd_page_block_size_refuted. Qed.
Print Assumptions C03_diskdump_raw_page_block_size_refuted.

(** ** (f) LKCD [dp_size] against the per-context buffer, composed with RLE *)
Theorem C03_lkcd_page_in_bounds : forall f ps comp dp_size dp_flags off,
  is_ub (lkcd_page true f ps comp dp_size dp_flags off) = false /\
  lkcd_page true f ps comp dp_size dp_flags off <> OutOfFuel.
Proof.
  exact (fun f ps comp dp_size dp_flags off =>
    conj (proj1 (lkcd_page_good f ps comp dp_size dp_flags off))
         (proj1 (proj2 (lkcd_page_good f ps comp dp_size dp_flags off)))).
Qed.
Print Assumptions C03_lkcd_page_in_bounds.

Theorem C03_lkcd_page_length : forall f ps comp dp_size dp_flags off out,
  lkcd_page true f ps comp dp_size dp_flags off = Ok (Some out) -> N.of_nat (length out) = ps.
Proof. exact lkcd_page_length. Qed.
Print Assumptions C03_lkcd_page_length.

(** item 9: 6000 compressed bytes pass the MAX_PAGE_SIZE test and overflow the
    4096-byte buffer *)
Theorem C03_lkcd_dp_size_unrepaired_refuted :
  lkcd_page false (fun _ => 0) 4096 DUMP_COMPRESS_RLE 6000 DUMP_COMPRESSED 0 = OOB.
Proof. exact lkcd_page_unrepaired_refuted. Qed.
Print Assumptions C03_lkcd_dp_size_unrepaired_refuted.

(** ** the probing chain (open.c) *)

(** for any list of probe functions: KDUMP_NOPROBE never escapes the loop *)
Theorem C03_noprobe_never_escapes : forall probes f stg,
  probe_loop probes f <> Err KNOPROBE stg.
Proof. exact probe_loop_never_noprobe. Qed.
Print Assumptions C03_noprobe_never_escapes.

(** the modelled open of a file of [flen] bytes: nothing forbidden, terminates,
    and every error status is from the documented set (and is not KDUMP_OK) *)
Theorem C03_open_in_bounds : forall alim f flen,
  (forall p, flen <= p -> f p = 0) ->
  is_ub (open_dump true alim f flen) = false /\ open_dump true alim f flen <> OutOfFuel.
Proof.
  exact (fun alim f flen Hz =>
    conj (proj1 (open_dump_settled alim f flen Hz)) (proj1 (proj2 (open_dump_settled alim f flen Hz)))).
Qed.
Print Assumptions C03_open_in_bounds.

Theorem C03_status_documented : forall alim f flen st stg,
  (forall p, flen <= p -> f p = 0) ->
  open_dump true alim f flen = Err st stg -> documented st = true /\ st <> KOK.
Proof. exact open_dump_status_documented. Qed.
Print Assumptions C03_status_documented.

(** concrete, non-trivial instances *)
Definition ex_elf_hdr : list N :=
  [127;69;76;70;2;1;1;0; 0;0;0;0;0;0;0;0;  4;0; 62;0; 1;0;0;0;  0;0;0;0;0;0;0;0;
   64;0;0;0;0;0;0;0;  0;0;0;0;0;0;0;0;  0;0;0;0; 64;0; 0;0; 1;0; 0;0; 0;0; 0;0].
Definition ex_file (l : list N) : file := fun p => nth (N.to_nat p) l 0.

Example C03_nonvacuous_parsers :
  (* an ELF64 core with one program header of entry size 0 (item 15) *)
  elf_probe 1000000 (ex_file ex_elf_hdr) 64 = Err KCORRUPT (StHdrSize false 0) /\
  (* a QEMU snapshot is recognised and refused; an empty file falls through to the unmodelled probes *)
  open_dump true 1000000 (ex_file [81;69;86;77]) 4 = Err KNOTIMPL (StOther 10) /\
  open_dump true 1000000 (ex_file []) 0 = Ok (OiProbe PoBeyond) /\
  (* page size 4096 *)
  set_page_size true 4096 = Ok (4096, 12) /\ set_page_size true 0 = Err KCORRUPT (StPageSize 0) /\
  (* one ELF note "AB\0" with a 2-byte descriptor *)
  (exists n, do_notes false {| cfile := ex_file [3;0;0;0; 2;0;0;0; 7;0;0;0; 65;66;0;0; 9;8;0;0];
                               cpos := 0; clen := 20 |} = Ok [n] /\ n_type n = 7 /\ clen (n_desc n) = 2).
Proof. vm_compute. repeat split. eexists. repeat split. Qed.
