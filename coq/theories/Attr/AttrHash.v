(** Model of the attribute hash table lookup
    (src/kdumpfile/attr.c [keycmp], [path_hash], [attr_hash_index],
    [lookup_dir_attr] for one dictionary, without the fallback).

    An attribute is seen the way [keycmp] sees it: the chain of
    (template key, template identity) from the attribute itself up to the root.
    The table is the list of all attributes, newest first; a bucket is the
    sub-list of those whose path string hashes like the looked-up string, for
    an arbitrary hash function (the library's partial hash + fold is one). *)
From Coq Require Import NArith ZArith List Bool.
From KdV Require Import Base.Wrap64 Attr.AttrBase.
Import ListNotations.
Local Open Scope N_scope.

(** memrchr(key, '.', len): (before the last dot, after it) *)
Fixpoint cut_dot (s : bytes) : option (bytes * bytes) :=
  match s with
  | [] => None
  | c :: t =>
      if c =? DOT then Some ([], t)
      else match cut_dot t with Some (a, b) => Some (c :: a, b) | None => None end
  end.

Definition rcut_dot (s : bytes) : option (bytes * bytes) :=
  match cut_dot (rev s) with
  | Some (a, b) => Some (rev b, rev a)
  | None => None
  end.

Definition chain := list (bytes * N).

(** the do-while loop of keycmp: the chain position after all components of
    [key] matched (the ancestor that must be [dir]), or [None] for "differs".
      p = memrchr(key, '.', len) ?: key - 1;  partlen = key + len - p - 1;
      if (strncmp(attr->template->key, p + 1, partlen)) return res;
      if (attr->template->key[partlen] != '\0') return 1;
      attr = attr->parent;  if (!attr) return 1;
      len = p - key;
    while (p > key);                                                          *)
Fixpoint keycmp_loop (fuel : nat) (ch : chain) (key : bytes) : option chain :=
  match fuel with
  | O => None
  | S f =>
      match ch with
      | [] => None
      | (k, _) :: up =>
          match rcut_dot key with
          | None =>                                  (* no dot: p = key - 1, last round *)
              if bytes_eqb k key then match up with [] => None | _ => Some up end else None
          | Some (before, after) =>
              if bytes_eqb k after then
                match up with
                | [] => None
                | _ => match before with
                       | [] => Some up               (* the dot is the first character: p == key *)
                       | _ => keycmp_loop f up before
                       end
                end
              else None
          end
      end
  end.

(** keycmp(attr, dir, key, len) == 0 *)
Definition keycmp (ch : chain) (dir_tmpl : N) (key : bytes) : bool :=
  match keycmp_loop (S (length key)) ch key with
  | Some ((_, t) :: _) => t =? dir_tmpl        (* attr->template == dir->template *)
  | _ => false
  end.

Section Table.
(** the hash of a path string (phash_update over the bytes, phash_value, fold_hash) *)
Variable hash : bytes -> N.
(** the template of the attribute at a path *)
Variable tmpl : list bytes -> N.

(** chain of the attribute at path [p], given reversed: own key first *)
Fixpoint chain_up (rp : list bytes) : chain :=
  match rp with
  | [] => [([], tmpl [])]                        (* the root directory: key "" *)
  | k :: rp' => (k, tmpl (rev rp)) :: chain_up rp'
  end.
Definition chain_of (p : list bytes) : chain := chain_up (rev p).

(** path_hash(dir) followed by the key: what lookup_dir_attr hashes *)
Definition hstring (dir : list bytes) (key : bytes) : bytes :=
  match dir with
  | [] => key
  | _ => join_with DOT dir ++ DOT :: key
  end.

(** hlist_for_each_entry(d, &dict->attr.table[hash], list) if (!keycmp(d, dir, key, keylen)) return d; *)
Definition lookup_hash (table : list (list bytes)) (dir : list bytes) (key : bytes)
  : option (list bytes) :=
  find (fun p => keycmp (chain_of p) (tmpl dir) key)
       (filter (fun p => hash (join_with DOT p) =? hash (hstring dir key)) table).
End Table.
