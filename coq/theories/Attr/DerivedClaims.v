(** C14: the vocabulary of the theorem statements that talks about model states
    (invariants, "one step meets the spec", traces).  Definitions only. *)
From Coq Require Import NArith ZArith List Bool.
From KdV Require Import Base.Wrap64 Attr.AttrBase Attr.Hooks Attr.Derived Attr.Vmcoreinfo Attr.DerivedSpec.
Import ListNotations.
Local Open Scope N_scope.

Definition pinv (s : pstate) : Prop :=
  (a_isset (p_size s) = true -> valid_size (a_val (p_size s))) /\
  (a_isset (p_shift s) = true -> a_val (p_shift s) < 64) /\
  (a_isset (p_size s) = true -> a_isset (p_shift s) = true ->
   a_val (p_size s) = 2 ^ a_val (p_shift s)).


Definition view (a : sattr) : option N := if a_isset a then Some (a_val a) else None.
Definition size_view (s : pstate) := view (p_size s).
Definition shift_view (s : pstate) := view (p_shift s).

Definition op_in_range (o : pop) : Prop :=
  match o with PSet _ v | PSetDefault _ v => v < W | PClear _ => True end.

(** what the property demands of one operation *)
Definition step_ok (o : pop) (s : pstate) (r : outcome) (s' : pstate) : Prop :=
  match o with
  | PSet KSize v | PSetDefault KSize v =>
      (valid_size v -> r = St KDUMP_OK /\ size_view s' = Some v) /\
      (~ valid_size v -> r = St ERR_CORRUPT /\ s' = s)
  | PSet KShift v | PSetDefault KShift v =>
      (valid_shift v -> r = St KDUMP_OK /\ shift_view s' = Some v) /\
      (~ valid_shift v -> r = St ERR_CORRUPT /\ s' = s)
  | PClear KSize => r = St KDUMP_OK /\ size_view s' = None /\ shift_view s' = shift_view s
  | PClear KShift => r = St KDUMP_OK /\ shift_view s' = None /\ size_view s' = size_view s
  end.


(** every step of a history meets the step specification and the two
    attributes are coherent after it *)
Fixpoint trace_ok (s : pstate) (ops : list pop) : Prop :=
  match ops with
  | [] => True
  | o :: t =>
      let '(r, s') := pstep o s in
      step_ok o s r s' /\ coherent (size_view s') (shift_view s') /\ trace_ok s' t
  end.


Definition rinv (defs : list ddef) (s : dstate) : Prop :=
  length (regs s) = length defs /\ Forall (fun r => g_invalid r = true) (regs s).

Definition defs_ok (defs : list ddef) : Prop :=
  Forall (fun d => valid_len (d_len d) = true) defs.

(** the spec's view of entry [d] in state [s] *)
Definition spec_view (d : ddef) (s : dstate) : option N :=
  if b_isset s
  then reg_view (big_endian s) (N.to_nat (d_off d)) (N.to_nat (d_len d)) (b_data s)
  else None.

Definition spec_write (d : ddef) (v : N) (s : dstate) : option bytes :=
  if b_isset s
  then reg_write (big_endian s) (N.to_nat (d_off d)) (N.to_nat (d_len d)) v (b_data s)
  else None.


(** the abstract (spec-level) state: the blob if any, the byte order, which
    registers have a value *)
Definition abs (s : dstate) : option bytes * bool * list bool :=
  (if b_isset s then Some (b_data s) else None, big_endian s, map g_isset (regs s)).


Definition set_nth_bool (i : nat) (l : list bool) : list bool :=
  firstn i l ++ true :: skipn (S i) l.


(** one operation of a history, judged against the spec-level state *)
Definition dstep_ok (defs : list ddef) (o : dop) (s : dstate) (out : dout) (s' : dstate) : Prop :=
  match o with
  | RGet i =>
      match nth_error defs i, nth_error (regs s) i with
      | Some d, Some r =>
          exists st v, out = DNum st v /\
          (if g_isset r
           then match spec_view d s with
                | Some x => st = KDUMP_OK /\ v = x
                | None => st <> KDUMP_OK
                end
           else st <> KDUMP_OK) /\ abs s' = abs s
      | _, _ => True
      end
  | RSet i v =>
      match nth_error defs i, nth_error (regs s) i with
      | Some d, Some r =>
          exists st, out = DStatus st /\
          match spec_write d v s with
          | Some b' => st = KDUMP_OK /\
                       abs s' = (Some b', big_endian s, set_nth_bool i (map g_isset (regs s)))
          | None => st <> KDUMP_OK /\
                    abs s' = (if b_isset s then Some (b_data s) else None, big_endian s,
                              set_nth_bool i (map g_isset (regs s)))
          end
      | _, _ => True
      end
  | BGet => out = (if b_isset s then DBytes KDUMP_OK (b_data s) else DBytes ERR_NODATA [])
            /\ s' = s
  | _ => True
  end.

Fixpoint dtrace_ok (defs : list ddef) (s : dstate) (ops : list dop) : Prop :=
  match ops with
  | [] => True
  | o :: t => let '(out, s') := dstep defs o s in
              dstep_ok defs o s out s' /\ dtrace_ok defs s' t
  end.


Definition kind_name (k : tkind) : bytes :=
  match k with
  | TLENGTH => s_LENGTH | TNUMBER => s_NUMBER | TOFFSET => s_OFFSET
  | TSIZE => s_SIZE | TSYMBOL => s_SYMBOL
  end.

