(** Proofs about [Attr/Derived.v]: a register attribute and the PRSTATUS blob are
    two views of the same bytes.  Lens laws of the spec ([reg_view] after
    [reg_write], bytes outside the window untouched), and the refinement: along
    every history the model's register read is [reg_view] of the current blob
    (never a stale cached number) and its register write is [reg_write]. *)
From Coq Require Import NArith ZArith List Bool Lia.
From KdV Require Import Base.Wrap64 Attr.AttrBase Attr.ListFacts Attr.Derived Attr.DerivedSpec Attr.DerivedClaims.
Import ListNotations.
Local Open Scope N_scope.

(** ** numbers and bytes *)

Lemma be_value_acc bs : forall acc,
  fold_left (fun a b => a * 256 + b) bs acc = acc * 256 ^ N.of_nat (length bs) + be_value bs.
Proof.
  unfold be_value. induction bs as [|b t IH]; intro acc.
  - cbn. lia.
  - cbn [fold_left length]. rewrite IH. rewrite (IH (0 * 256 + b)).
    rewrite Nat2N.inj_succ, N.pow_succ_r'. lia.
Qed.

Lemma be_value_cons b t : be_value (b :: t) = b * 256 ^ N.of_nat (length t) + be_value t.
Proof.
  unfold be_value at 1. cbn [fold_left]. rewrite be_value_acc. lia.
Qed.

Lemma be_value_snoc l b : be_value (l ++ [b]) = be_value l * 256 + b.
Proof.
  unfold be_value. rewrite fold_left_app. reflexivity.
Qed.

Lemma le_decode_rev bs : le_decode bs = be_value (rev bs).
Proof.
  induction bs as [|b t IH]; [reflexivity|].
  cbn [le_decode rev]. rewrite be_value_snoc, IH. lia.
Qed.

Lemma decode_is_reg_value be bs : decode be bs = reg_value be bs.
Proof.
  unfold decode, reg_value. destruct be.
  - rewrite le_decode_rev, rev_involutive. reflexivity.
  - apply le_decode_rev.
Qed.

Lemma be_bytes_length n v : length (be_bytes n v) = n.
Proof. induction n as [|k IH]; cbn [be_bytes length]; congruence. Qed.

Lemma le_encode_length n : forall v, length (le_encode n v) = n.
Proof. induction n as [|k IH]; intro v; cbn [le_encode length]; congruence. Qed.

Lemma le_encode_snoc k : forall v,
  le_encode (S k) v = le_encode k v ++ [(v / 256 ^ N.of_nat k) mod 256].
Proof.
  induction k as [|k IH]; intro v.
  - cbn. rewrite N.div_1_r. reflexivity.
  - change (le_encode (S (S k)) v) with (v mod 256 :: le_encode (S k) (v / 256)).
    rewrite IH. cbn [le_encode app]. f_equal. f_equal. f_equal.
    rewrite N.div_div by (try apply N.pow_nonzero; lia).
    rewrite Nat2N.inj_succ, N.pow_succ_r'. reflexivity.
Qed.

Lemma le_encode_rev n : forall v, le_encode n v = rev (be_bytes n v).
Proof.
  induction n as [|k IH]; intro v; [reflexivity|].
  rewrite le_encode_snoc. cbn [be_bytes rev]. rewrite IH. reflexivity.
Qed.

Lemma encode_is_reg_bytes be n v : encode be n v = reg_bytes be n v.
Proof.
  unfold encode, reg_bytes. destruct be.
  - rewrite le_encode_rev, rev_involutive. reflexivity.
  - apply le_encode_rev.
Qed.

Lemma reg_bytes_length be n v : length (reg_bytes be n v) = n.
Proof.
  unfold reg_bytes. destruct be; [|rewrite rev_length]; apply be_bytes_length.
Qed.

Lemma be_value_be_bytes n : forall v, be_value (be_bytes n v) = v mod 256 ^ N.of_nat n.
Proof.
  induction n as [|k IH]; intro v.
  - cbn. rewrite N.mod_1_r. reflexivity.
  - cbn [be_bytes]. rewrite be_value_cons, be_bytes_length, IH.
    rewrite Nat2N.inj_succ, N.pow_succ_r'.
    rewrite (N.mul_comm 256). rewrite N.mod_mul_r by (try apply N.pow_nonzero; lia).
    lia.
Qed.

Lemma reg_value_reg_bytes be n v : reg_value be (reg_bytes be n v) = v mod 256 ^ N.of_nat n.
Proof.
  unfold reg_value, reg_bytes. destruct be.
  - apply be_value_be_bytes.
  - rewrite rev_involutive. apply be_value_be_bytes.
Qed.

(** ** lens laws of the spec *)

Lemma window_write be off len v blob b' :
  reg_write be off len v blob = Some b' ->
  window off len b' = Some (reg_bytes be len v).
Proof.
  unfold reg_write, window. destruct (off + len <=? length blob)%nat eqn:E; [|discriminate].
  intro H. injection H as <-. apply Nat.leb_le in E.
  assert (Hl : length (firstn off blob ++ reg_bytes be len v ++ skipn (off + len) blob)
               = length blob).
  { rewrite !app_length, firstn_length, skipn_length, reg_bytes_length. lia. }
  rewrite Hl. apply Nat.leb_le in E. rewrite E. f_equal.
  apply Nat.leb_le in E.
  rewrite skipn_app. rewrite firstn_length. replace (off - Nat.min off (length blob))%nat with 0%nat by lia.
  rewrite skipn_all2 by (rewrite firstn_length; lia).
  cbn [app skipn].
  rewrite firstn_app. rewrite reg_bytes_length. replace (len - len)%nat with 0%nat by lia.
  cbn [firstn]. rewrite app_nil_r.
  apply firstn_all2. rewrite reg_bytes_length. lia.
Qed.

(** get after set: the register reads what was written (modulo its width) *)
Theorem view_write be off len v blob b' :
  reg_write be off len v blob = Some b' ->
  reg_view be off len b' = Some (v mod 256 ^ N.of_nat len).
Proof.
  intro H. unfold reg_view. rewrite (window_write _ _ _ _ _ _ H).
  rewrite reg_value_reg_bytes. reflexivity.
Qed.

(** set touches nothing outside the window and keeps the size *)
Theorem write_frame be off len v blob b' :
  reg_write be off len v blob = Some b' ->
  length b' = length blob /\
  forall j, (j < off \/ off + len <= j)%nat -> nth_error b' j = nth_error blob j.
Proof.
  unfold reg_write. destruct (off + len <=? length blob)%nat eqn:E; [|discriminate].
  intro H. injection H as <-. apply Nat.leb_le in E. split.
  - rewrite !app_length, firstn_length, skipn_length, reg_bytes_length. lia.
  - intros j Hj. destruct Hj as [Hj|Hj].
    + rewrite nth_error_app1 by (rewrite firstn_length; lia).
      rewrite nth_error_firstn_lt. destruct (Nat.ltb_spec j off); [reflexivity|lia].
    + rewrite nth_error_app2 by (rewrite firstn_length; lia).
      rewrite firstn_length. replace (Nat.min off (length blob)) with off by lia.
      rewrite nth_error_app2 by (rewrite reg_bytes_length; lia).
      rewrite reg_bytes_length. rewrite nth_error_skipn_add. f_equal. lia.
Qed.

(** a register write is seen by another register exactly on the shared bytes:
    disjoint windows do not interfere *)
Theorem view_write_disjoint be off len v blob b' off2 len2 :
  reg_write be off len v blob = Some b' ->
  (off2 + len2 <= off \/ off + len <= off2)%nat ->
  reg_view be off2 len2 b' = reg_view be off2 len2 blob.
Proof.
  intros H Hd. destruct (write_frame _ _ _ _ _ _ H) as [Hl Hf].
  unfold reg_view, window. rewrite Hl.
  destruct (off2 + len2 <=? length blob)%nat eqn:E; [|reflexivity].
  f_equal. f_equal.
  apply nth_error_ext_eq. intro j.
  rewrite !nth_error_firstn_lt.
  destruct (Nat.ltb_spec j len2); [|reflexivity].
  rewrite !nth_error_skipn_add. apply Hf. lia.
Qed.

(** ** the model refines the spec along every history *)

Lemma fits_iff d s :
  (N.of_nat (length (b_data s)) <? d_off d + d_len d) =
  negb (N.to_nat (d_off d) + N.to_nat (d_len d) <=? length (b_data s))%nat.
Proof.
  destruct (N.ltb_spec (N.of_nat (length (b_data s))) (d_off d + d_len d));
  destruct (Nat.leb_spec (N.to_nat (d_off d) + N.to_nat (d_len d)) (length (b_data s)));
  cbn; try reflexivity; lia.
Qed.

Lemma access_status_ok d s :
  valid_len (d_len d) = true ->
  (access_status d s = KDUMP_OK <->
   b_isset s = true /\
   (N.to_nat (d_off d) + N.to_nat (d_len d) <= length (b_data s))%nat).
Proof.
  intro Hv. unfold access_status. rewrite fits_iff, Hv.
  destruct (b_isset s); cbn [negb].
  - destruct (Nat.leb_spec (N.to_nat (d_off d) + N.to_nat (d_len d)) (length (b_data s)))
      as [Hle|Hgt]; cbn [negb]; split; intro Hx; try discriminate; try tauto.
    destruct Hx. lia.
  - split; [discriminate|]. intros [Hx _]. discriminate.
Qed.

Lemma set_reg_length i r l : (i < length l)%nat -> length (set_reg i r l) = length l.
Proof.
  intro H. unfold set_reg. rewrite app_length, firstn_length. cbn [length].
  rewrite skipn_length. lia.
Qed.

Lemma set_reg_forall (P : reg -> Prop) i r l :
  Forall P l -> P r -> Forall P (set_reg i r l).
Proof.
  intros Hl Hr. unfold set_reg. apply Forall_app. split.
  - now apply Forall_firstn.
  - constructor; [exact Hr|]. now apply Forall_skipn.
Qed.

Lemma nth_error_decompose {A} (l : list A) i x :
  nth_error l i = Some x -> l = firstn i l ++ x :: skipn (S i) l.
Proof.
  revert l. induction i as [|i IH]; intros [|a l] H; cbn in H; try discriminate.
  - injection H as ->. reflexivity.
  - cbn [firstn skipn app]. f_equal. now apply IH.
Qed.

Lemma map_set_reg {B} (f : reg -> B) i r r' l :
  nth_error l i = Some r -> f r' = f r -> map f (set_reg i r' l) = map f l.
Proof.
  intros Hn Hf. rewrite (nth_error_decompose l i r Hn) at 2.
  unfold set_reg. rewrite !map_app. cbn [map]. now rewrite Hf.
Qed.

Lemma window_slice off len blob :
  (off + len <= length blob)%nat -> window off len blob = Some (slice off len blob).
Proof.
  intro H. unfold window, slice. apply Nat.leb_le in H. now rewrite H.
Qed.

Lemma spec_view_ok d s :
  valid_len (d_len d) = true -> access_status d s = KDUMP_OK ->
  spec_view d s =
  Some (decode (big_endian s) (slice (N.to_nat (d_off d)) (N.to_nat (d_len d)) (b_data s))).
Proof.
  intros Hv Ha. apply (access_status_ok d s Hv) in Ha as [Hb Hf].
  unfold spec_view, reg_view. rewrite Hb, (window_slice _ _ _ Hf).
  now rewrite decode_is_reg_value.
Qed.

Lemma spec_view_none d s :
  valid_len (d_len d) = true -> access_status d s <> KDUMP_OK -> spec_view d s = None.
Proof.
  intros Hv Ha. unfold spec_view, reg_view, window.
  destruct (b_isset s) eqn:Hb; [|reflexivity].
  destruct (Nat.leb_spec (N.to_nat (d_off d) + N.to_nat (d_len d)) (length (b_data s)))
    as [Hle|Hgt]; [|reflexivity].
  exfalso. apply Ha. apply (access_status_ok d s Hv). auto.
Qed.

Lemma spec_write_ok d v s :
  valid_len (d_len d) = true -> access_status d s = KDUMP_OK ->
  spec_write d v s =
  Some (splice (N.to_nat (d_off d)) (encode (big_endian s) (N.to_nat (d_len d)) v) (b_data s)).
Proof.
  intros Hv Ha. apply (access_status_ok d s Hv) in Ha as [Hb Hf].
  unfold spec_write, reg_write, splice. rewrite Hb.
  apply Nat.leb_le in Hf. rewrite Hf.
  rewrite encode_is_reg_bytes, reg_bytes_length. reflexivity.
Qed.

Lemma spec_write_none d v s :
  valid_len (d_len d) = true -> access_status d s <> KDUMP_OK -> spec_write d v s = None.
Proof.
  intros Hv Ha. unfold spec_write, reg_write.
  destruct (b_isset s) eqn:Hb; [|reflexivity].
  destruct (Nat.leb_spec (N.to_nat (d_off d) + N.to_nat (d_len d)) (length (b_data s)))
    as [Hle|Hgt]; [|reflexivity].
  exfalso. apply Ha. apply (access_status_ok d s Hv). auto.
Qed.

Lemma rinv_nth defs s i r :
  rinv defs s -> nth_error (regs s) i = Some r -> g_invalid r = true.
Proof.
  intros [_ Hf] Hn. apply nth_error_In in Hn.
  revert r Hn. now apply Forall_forall.
Qed.

(** reading a register: the view of the current blob, nothing cached *)
Lemma reg_get_view defs i d r s :
  defs_ok defs -> rinv defs s ->
  nth_error defs i = Some d -> nth_error (regs s) i = Some r ->
  let '(st, v, s') := reg_get defs i s in
  (if g_isset r
   then match spec_view d s with
        | Some x => st = KDUMP_OK /\ v = x
        | None => st <> KDUMP_OK
        end
   else st <> KDUMP_OK) /\
  abs s' = abs s /\ rinv defs s'.
Proof.
  intros Hok Hi Hd Hr.
  assert (Hv : valid_len (d_len d) = true).
  { apply nth_error_In in Hd. revert d Hd. now apply Forall_forall. }
  pose proof (rinv_nth defs s i r Hi Hr) as Hinv.
  unfold reg_get. rewrite Hd, Hr.
  destruct (g_isset r) eqn:Hs; cbn [negb].
  2:{ split; [discriminate|]. split; [reflexivity|exact Hi]. }
  rewrite Hinv. cbn [negb]. unfold revalidate.
  destruct (access_status d s) eqn:Ha;
    try (rewrite (spec_view_none d s Hv) by (rewrite Ha; discriminate);
         split; [discriminate|]; split; [reflexivity|exact Hi]).
  rewrite (spec_view_ok d s Hv Ha).
  split; [split; reflexivity|]. split.
  - unfold abs; cbn. f_equal. apply (map_set_reg g_isset i r); [exact Hr|]. cbn. now rewrite Hs.
  - destruct Hi as [Hl Hf]. split; cbn.
    + rewrite set_reg_length; [exact Hl|]. apply nth_error_Some. rewrite Hr. discriminate.
    + apply set_reg_forall; [exact Hf|reflexivity].
Qed.

Lemma map_isset_set_reg i r' l :
  map g_isset (set_reg i r' l) = firstn i (map g_isset l) ++ g_isset r' :: skipn (S i) (map g_isset l).
Proof.
  unfold set_reg. rewrite map_app. cbn [map]. now rewrite firstn_map, skipn_map.
Qed.

(** writing a register: the blob becomes [reg_write] of itself, or nothing
    changes in the blob and the call fails; the register never keeps a private
    value *)
Lemma reg_set_write defs i d r v s :
  defs_ok defs -> rinv defs s ->
  nth_error defs i = Some d -> nth_error (regs s) i = Some r ->
  let '(st, s') := reg_set defs i v s in
  match spec_write d v s with
  | Some b' => st = KDUMP_OK /\
               abs s' = (Some b', big_endian s, set_nth_bool i (map g_isset (regs s)))
  | None => st <> KDUMP_OK /\
            abs s' = (if b_isset s then Some (b_data s) else None, big_endian s,
                      set_nth_bool i (map g_isset (regs s)))
  end /\ rinv defs s'.
Proof.
  intros Hok Hi Hd Hr.
  assert (Hv : valid_len (d_len d) = true).
  { apply nth_error_In in Hd. revert d Hd. now apply Forall_forall. }
  pose proof (rinv_nth defs s i r Hi Hr) as Hinv.
  assert (Hlt : (i < length (regs s))%nat) by (apply nth_error_Some; rewrite Hr; discriminate).
  unfold reg_set. rewrite Hd, Hr, Hinv. cbn [negb andb]. rewrite andb_false_r. cbn [andb].
  assert (Hri : forall b dd be,
    rinv defs {| b_isset := b; b_data := dd; big_endian := be;
                 regs := set_reg i {| g_isset := true; g_persist := true;
                                      g_invalid := true; g_val := v |} (regs s) |}).
  { intros. destruct Hi as [Hl Hf]. split; cbn.
    - now rewrite set_reg_length.
    - apply set_reg_forall; [exact Hf|reflexivity]. }
  destruct (access_status d s) eqn:Ha;
    try (rewrite (spec_write_none d v s Hv) by (rewrite Ha; discriminate);
         split; [|apply Hri]; split; [discriminate|];
         unfold abs; cbn; now rewrite map_isset_set_reg).
  rewrite (spec_write_ok d v s Hv Ha).
  split; [|apply Hri]. split; [reflexivity|].
  unfold abs; cbn. now rewrite map_isset_set_reg.
Qed.

Lemma rinv_with_blob defs s b d : rinv defs s -> rinv defs (with_blob s b d).
Proof. intros [A B]. split; cbn; assumption. Qed.

Lemma dstep_sound defs o s :
  defs_ok defs -> rinv defs s ->
  let '(out, s') := dstep defs o s in dstep_ok defs o s out s' /\ rinv defs s'.
Proof.
  intros Hok Hi. destruct o as [i|i v|i|off bs|bs|bs| | |be]; cbn [dstep dstep_ok].
  - destruct (nth_error defs i) as [d|] eqn:Hd; destruct (nth_error (regs s) i) as [r|] eqn:Hr.
    + pose proof (reg_get_view defs i d r s Hok Hi Hd Hr) as H.
      destruct (reg_get defs i s) as [[st v] s'] eqn:E. destruct H as (H1 & H2 & H3).
      split; [|exact H3]. rewrite ?Hd, ?Hr. exists st, v. auto.
    + unfold reg_get. rewrite ?Hd, ?Hr. split; [exact I|exact Hi].
    + unfold reg_get. rewrite ?Hd, ?Hr. split; [exact I|exact Hi].
    + unfold reg_get. rewrite ?Hd, ?Hr. split; [exact I|exact Hi].
  - destruct (nth_error defs i) as [d|] eqn:Hd; destruct (nth_error (regs s) i) as [r|] eqn:Hr.
    + pose proof (reg_set_write defs i d r v s Hok Hi Hd Hr) as H.
      destruct (reg_set defs i v s) as [st s'] eqn:E. destruct H as (H1 & H2).
      split; [|exact H2]. rewrite ?Hd, ?Hr. exists st. auto.
    + unfold reg_set. rewrite ?Hd, ?Hr. split; [exact I|exact Hi].
    + unfold reg_set. rewrite ?Hd, ?Hr. split; [exact I|exact Hi].
    + unfold reg_set. rewrite ?Hd, ?Hr. split; [exact I|exact Hi].
  - split; [exact I|]. unfold reg_clear.
    destruct (nth_error (regs s) i) as [r|] eqn:Hr; [|exact Hi].
    pose proof (rinv_nth defs s i r Hi Hr) as Hinv.
    destruct Hi as [Hl Hf]. split; cbn.
    + rewrite set_reg_length; [exact Hl|]. apply nth_error_Some. rewrite Hr. discriminate.
    + apply set_reg_forall; [exact Hf|exact Hinv].
  - destruct (b_isset s && (off + length bs <=? length (b_data s))%nat);
      (split; [exact I|]); [now apply rinv_with_blob|exact Hi].
  - destruct (b_isset s); (split; [exact I|]); [now apply rinv_with_blob|exact Hi].
  - split; [exact I|]. now apply rinv_with_blob.
  - split; [exact I|]. now apply rinv_with_blob.
  - destruct (b_isset s); (split; [split; reflexivity|exact Hi]).
  - split; [exact I|]. destruct Hi as [A B]. split; cbn; assumption.
Qed.

Lemma dtrace_sound defs ops : forall s,
  defs_ok defs -> rinv defs s -> dtrace_ok defs s ops.
Proof.
  induction ops as [|o t IH]; intros s Hok Hi; cbn [dtrace_ok]; [exact I|].
  pose proof (dstep_sound defs o s Hok Hi) as H.
  destruct (dstep defs o s) as [out s']. destruct H as [H1 H2].
  split; [exact H1|]. now apply IH.
Qed.

Lemma rinv_init defs blob be : rinv defs (dinit defs blob be).
Proof.
  split; cbn.
  - apply map_length.
  - apply Forall_forall. intros r Hr. apply in_map_iff in Hr as (d & <- & _). reflexivity.
Qed.

(** along every history that starts from a freshly opened dump, every register
    read returns the view of the current blob and every register write is the
    spec's write *)
Theorem reg_history defs blob be ops :
  defs_ok defs -> dtrace_ok defs (dinit defs blob be) ops.
Proof. intro H. apply dtrace_sound; [exact H|apply rinv_init]. Qed.

(** a write into the blob (through a pinned pointer) is seen by the next
    register read: the read is the view of the modified bytes *)
Theorem blob_write_visible defs off bs i d r s :
  defs_ok defs -> rinv defs s ->
  nth_error defs i = Some d -> nth_error (regs s) i = Some r -> g_isset r = true ->
  b_isset s = true -> (off + length bs <= length (b_data s))%nat ->
  let s1 := snd (dstep defs (BWrite off bs) s) in
  let '(st, v, _) := reg_get defs i s1 in
  match reg_view (big_endian s) (N.to_nat (d_off d)) (N.to_nat (d_len d))
                 (splice off bs (b_data s)) with
  | Some x => st = KDUMP_OK /\ v = x
  | None => st <> KDUMP_OK
  end.
Proof.
  intros Hok Hi Hd Hr Hs Hb Hfit. cbn [dstep].
  apply Nat.leb_le in Hfit. rewrite Hb, Hfit. cbn [andb snd].
  pose proof (reg_get_view defs i d r (with_blob s true (splice off bs (b_data s))) Hok
                (rinv_with_blob defs s true _ Hi) Hd Hr) as H.
  destruct (reg_get defs i (with_blob s true (splice off bs (b_data s)))) as [[st v] s2].
  destruct H as (H1 & _). rewrite Hs in H1. unfold spec_view in H1. cbn in H1. exact H1.
Qed.

Theorem reg_blob_lens be off len v blob b' :
  reg_write be off len v blob = Some b' ->
  reg_view be off len b' = Some (v mod 256 ^ N.of_nat len) /\
  length b' = length blob /\
  (forall j, (j < off \/ off + len <= j)%nat -> nth_error b' j = nth_error blob j) /\
  (forall off2 len2, (off2 + len2 <= off \/ off + len <= off2)%nat ->
     reg_view be off2 len2 b' = reg_view be off2 len2 blob).
Proof.
  intro H.
  split; [exact (view_write be off len v blob b' H)|].
  split; [exact (proj1 (write_frame be off len v blob b' H))|].
  split; [exact (proj2 (write_frame be off len v blob b' H))|].
  intros off2 len2 Hd. exact (view_write_disjoint be off len v blob b' off2 len2 H Hd).
Qed.

(** reads and writes of a derived attribute are the view of the blob on every access path *)
Theorem derived_any_access_path a defs i d r s :
  defs_ok defs -> rinv defs s ->
  nth_error defs i = Some d -> nth_error (regs s) i = Some r ->
  reg_get_via a defs i s = reg_get_via ByKey defs i s /\
  (forall v, reg_set_via a defs i v s = reg_set_via ByKey defs i v s) /\
  let '(st, v, _) := reg_get_via a defs i s in
  if g_isset r
  then match spec_view d s with
       | Some x => st = KDUMP_OK /\ v = x
       | None => st <> KDUMP_OK
       end
  else st <> KDUMP_OK.
Proof.
  intros Hok Hi Hd Hr. split; [reflexivity|]. split; [reflexivity|].
  unfold reg_get_via. pose proof (reg_get_view defs i d r s Hok Hi Hd Hr) as H.
  destruct (reg_get defs i s) as [[st v] s']. exact (proj1 H).
Qed.
