(** C14 — what "derived views stay coherent with their source" means, written
    from the documentation of the attributes and of the VMCOREINFO note, not
    from the C code.

    - [arch.page_size] and [arch.page_shift]: whenever both have a value,
      size = 2^shift; a value that is not a power of two (size) or does not
      leave the size representable in 64 bits (shift >= 64) is refused and
      nothing changes.
    - a register attribute is the number formed by [length] bytes at [offset]
      of the PRSTATUS blob in the dump's byte order; writing the register
      rewrites exactly those bytes.
    - VMCOREINFO is a list of lines "key=value" separated by newlines; the
      parsed views are functions of that list: for a key the value of the last
      line with that key; for SYMBOL/LENGTH/NUMBER/OFFSET/SIZE(name) the number
      written on the last such line that is a number.
    - the Linux version code of release "a.b.c..." is KERNEL_VERSION(a, b, c).

    Every definition here is executable; the correspondence check runs them on
    the answers of the real library. *)
From Coq Require Import NArith ZArith List Bool.
From KdV Require Import Base.Wrap64 Attr.AttrBase.
Import ListNotations.
Local Open Scope N_scope.

(** ** page size / page shift *)

Definition valid_shift (k : N) : Prop := k < 64.
Definition valid_size (v : N) : Prop := exists k, k < 64 /\ v = 2 ^ k.

Definition coherent (size shift : option N) : Prop :=
  match size, shift with
  | Some sz, Some sh => sz = 2 ^ sh
  | _, _ => True
  end.

Definition valid_shiftb (k : N) : bool := k <? 64.
Definition valid_sizeb (v : N) : bool :=
  existsb (fun k => v =? 2 ^ (N.of_nat k)) (seq 0 64).
Definition coherentb (size shift : option N) : bool :=
  match size, shift with
  | Some sz, Some sh => sz =? 2 ^ sh
  | _, _ => true
  end.

(** ** registers *)

(** the number a byte string denotes, most significant byte first *)
Definition be_value (bs : bytes) : N := fold_left (fun acc b => acc * 256 + b) bs 0.
Definition reg_value (be : bool) (bs : bytes) : N :=
  if be then be_value bs else be_value (rev bs).

(** the [n] bytes that denote [v mod 256^n], most significant first *)
Fixpoint be_bytes (n : nat) (v : N) : bytes :=
  match n with
  | O => []
  | S k => (v / 256 ^ N.of_nat k) mod 256 :: be_bytes k v
  end.
Definition reg_bytes (be : bool) (n : nat) (v : N) : bytes :=
  if be then be_bytes n v else rev (be_bytes n v).

(** the view: bytes [off, off+len) of the blob *)
Definition window (off len : nat) (blob : bytes) : option bytes :=
  if (off + len <=? length blob)%nat then Some (firstn len (skipn off blob)) else None.

Definition reg_view (be : bool) (off len : nat) (blob : bytes) : option N :=
  match window off len blob with
  | Some w => Some (reg_value be w)
  | None => None
  end.

(** writing the register: exactly the window changes *)
Definition reg_write (be : bool) (off len : nat) (v : N) (blob : bytes) : option bytes :=
  if (off + len <=? length blob)%nat
  then Some (firstn off blob ++ reg_bytes be len v ++ skipn (off + len) blob)
  else None.

(** ** VMCOREINFO *)

(** the lines of a text: pieces between newlines; a final newline ends the last
    line instead of starting another one *)
Definition text_lines (text : bytes) : list bytes :=
  let p := split_on NL text in
  match last p [] with
  | [] => removelast p
  | _ => p
  end.

Fixpoint take_until (c : N) (s : bytes) : bytes :=
  match s with
  | [] => []
  | x :: t => if x =? c then [] else x :: take_until c t
  end.
Fixpoint drop_until (c : N) (s : bytes) : bytes :=
  match s with
  | [] => []
  | x :: t => if x =? c then t else drop_until c t
  end.

(** key = up to the first '=', value = after it *)
Definition line_kv (l : bytes) : bytes * bytes := (take_until EQ l, drop_until EQ l).

Definition text_kvs (text : bytes) : list (bytes * bytes) := map line_kv (text_lines text).

(** the last binding of a key *)
Definition last_value {A} (k : bytes) (kvs : list (bytes * A)) : option A :=
  fold_left (fun acc kv => if bytes_eqb (fst kv) k then Some (snd kv) else acc) kvs None.

(** "TYPE(name)": ')' is the last character, name holds no ')' , TYPE no '(' *)
Definition has_byte (c : N) (s : bytes) : bool := existsb (fun x => x =? c) s.

Definition typed_key (key : bytes) : option (bytes * bytes) :=
  if has_byte LPAR key then
    let type := take_until LPAR key in
    match rev (drop_until LPAR key) with
    | c :: rn =>
        if (c =? RPAR) && negb (has_byte RPAR rn) then Some (type, rev rn) else None
    | [] => None
    end
  else None.

Definition type_base (type : bytes) : option N :=
  if bytes_eqb type s_SYMBOL then Some 16
  else if bytes_eqb type s_LENGTH || bytes_eqb type s_NUMBER
          || bytes_eqb type s_OFFSET || bytes_eqb type s_SIZE then Some 0
  else None.

(** a value is a number when [strtoull] consumes all of it *)
Definition number_of (base : N) (value : bytes) : option N :=
  match strtoull base value with
  | (n, []) => Some n
  | _ => None
  end.

(** the typed bindings of a text, in text order: (TYPE, name) -> number *)
Definition typed_binding (kv : bytes * bytes) : option (bytes * bytes * N) :=
  match typed_key (fst kv) with
  | Some (type, name) =>
      match type_base type with
      | Some base =>
          match number_of base (snd kv) with
          | Some n => Some (type, name, n)
          | None => None
          end
      | None => None
      end
  | None => None
  end.

Fixpoint filter_map {A B} (f : A -> option B) (l : list A) : list B :=
  match l with
  | [] => []
  | x :: t => match f x with Some y => y :: filter_map f t | None => filter_map f t end
  end.

Definition typed_bindings (text : bytes) : list (bytes * bytes * N) :=
  filter_map typed_binding (text_kvs text).

Definition typed_value (type name : bytes) (text : bytes) : option N :=
  fold_left (fun acc b => let '(t, n, v) := b in
                          if bytes_eqb t type && bytes_eqb n name then Some v else acc)
            (typed_bindings text) None.

(** Keys are attribute paths: components separated by dots.  A tree cannot hold
    a value at a path and attributes below it; a text with such a pair of keys
    (or a key that starts with a dot, which is path syntax) is not
    representable and must be refused as a whole. *)
Fixpoint strict_prefix (a b : list bytes) : bool :=
  match a, b with
  | [], _ :: _ => true
  | x :: a', y :: b' => bytes_eqb x y && strict_prefix a' b'
  | _, _ => false
  end.

Definition paths_clash (a b : list bytes) : bool := strict_prefix a b || strict_prefix b a.

Fixpoint clash_free (ps : list (list bytes)) : bool :=
  match ps with
  | [] => true
  | p :: t => negb (existsb (paths_clash p) t) && clash_free t
  end.

Definition leading_dot (k : bytes) : bool := match k with c :: _ => c =? DOT | [] => false end.

Definition line_paths (text : bytes) : list (list bytes) :=
  map (fun kv => split_on DOT (fst kv)) (text_kvs text).

Definition typed_paths (text : bytes) : list (list bytes) :=
  map (fun b => let '(t, n, _) := b in t :: split_on DOT n) (typed_bindings text).

(** PAGESIZE lines (Linux) must carry a valid page size when they are numbers *)
Definition pagesize_ok (kv : bytes * bytes) : bool :=
  if bytes_eqb (fst kv) s_PAGESIZE then
    match number_of 10 (snd kv) with
    | Some n => valid_sizeb n
    | None => true
    end
  else true.

Definition representable (linux : bool) (text : bytes) : bool :=
  negb (existsb (fun kv => leading_dot (fst kv)) (text_kvs text))
  && clash_free (line_paths text)
  && clash_free (typed_paths text)
  && (negb linux || forallb pagesize_ok (text_kvs text)).

(** ** version code *)

(** a decimal number at the start of a string: digits only (no sign, no blank) *)
Fixpoint dec_digits (s : bytes) : bytes :=
  match s with
  | c :: t => if (48 <=? c) && (c <=? 57) then c :: dec_digits t else []
  | [] => []
  end.
Definition dec_value (ds : bytes) : N :=
  let v := fold_left (fun acc c => acc * 10 + (c - 48)) ds 0 in
  if W <=? v then MAXA else v.            (* strtoul saturates *)

(** KERNEL_VERSION of <linux/version.h>: the sublevel saturates at 255; 64-bit wrap *)
Definition spec_version (a b c : N) : N :=
  (a * 65536 + b * 256 + N.min c 255) mod W.

(** Strings in which every number starts with a decimal digit: for those the
    answer is determined ([Some code] or "invalid"); strings where [strtoul]
    would accept blanks or a sign before a number are outside the spec. *)
Definition plain_start (s : bytes) : bool :=
  match s with
  | c :: _ => negb (isspace c || (c =? 45) || (c =? 43))
  | [] => true
  end.

(** [None]: outside the spec; [Some None]: must be refused as an invalid
    version; [Some (Some code)]: must be accepted with this code *)
Definition after_dot (s : bytes) : option bytes :=
  match s with c :: t => if c =? DOT then Some t else None | [] => None end.

Definition release_verdict (rel : bytes) : option (option N) :=
  if negb (plain_start rel) then None else
  let a := dec_digits rel in
  match a, after_dot (skipn (length a) rel) with
  | _ :: _, Some r1 =>
      if negb (plain_start r1) then None else
      let b := dec_digits r1 in
      match b, after_dot (skipn (length b) r1) with
      | _ :: _, Some r2 =>
          if negb (plain_start r2) then None else
          match dec_digits r2 with
          | _ :: _ =>
              Some (Some (spec_version (dec_value a) (dec_value b) (dec_value (dec_digits r2))))
          | [] => Some None
          end
      | _, _ => Some None
      end
  | _, _ => Some None
  end.
