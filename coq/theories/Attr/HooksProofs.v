(** Proofs about [Attr/Hooks.v]: the page_size / page_shift hooks keep the two
    attributes coherent along every history, refuse exactly the invalid values
    and leave the state untouched when they refuse; the version code of a
    well-formed release string is its version triple. *)
From Coq Require Import NArith ZArith List Bool Lia.
From KdV Require Import Base.Wrap64 Attr.AttrBase Attr.Hooks Attr.DerivedSpec Attr.DerivedClaims.
Import ListNotations.
Local Open Scope N_scope.

(** ** the power-of-two test *)

Lemma lowbit_double q : 0 < q -> N.ldiff (2 * q) (2 * q - 1) = 2 * N.ldiff q (q - 1).
Proof.
  intro Hq. apply N.bits_inj. intro n.
  rewrite N.ldiff_spec.
  destruct n as [|p] using N.peano_ind.
  - rewrite !N.testbit_even_0. reflexivity.
  - replace (2 * q - 1) with (2 * (q - 1) + 1) by lia.
    rewrite N.testbit_odd_succ by lia.
    rewrite !N.testbit_even_succ by lia.
    rewrite N.ldiff_spec. reflexivity.
Qed.

Lemma lowbit_odd q : N.ldiff (2 * q + 1) (2 * q) = 1.
Proof.
  apply N.bits_inj. intro n. rewrite N.ldiff_spec.
  destruct n as [|p] using N.peano_ind.
  - rewrite N.testbit_odd_0, N.testbit_even_0. reflexivity.
  - rewrite N.testbit_odd_succ, N.testbit_even_succ by lia.
    rewrite andb_negb_r. symmetry.
    change 1 with (2 * 0 + 1). rewrite N.testbit_odd_succ by lia. apply N.bits_0.
Qed.

Lemma lowbit_pos p : N.ldiff (Npos p) (Npos p - 1) = 2 ^ ctz_pos p.
Proof.
  induction p as [q IH|q IH|].
  - change (Npos q~1) with (2 * Npos q + 1).
    replace (2 * Npos q + 1 - 1) with (2 * Npos q) by lia.
    rewrite lowbit_odd. reflexivity.
  - change (Npos q~0) with (2 * Npos q).
    rewrite lowbit_double by lia. rewrite IH.
    cbn [ctz_pos]. rewrite N.pow_succ_r'. reflexivity.
  - reflexivity.
Qed.

Lemma land_lowbit v : 0 < v -> v < W -> N.land v (wnot (wsub v 1)) = N.ldiff v (v - 1).
Proof.
  intros Hpos Hlt.
  rewrite wsub_le by lia.
  unfold wnot. rewrite N.mod_small by lia.
  assert (HM : MAXA = N.ones 64) by (rewrite MAXA_val; reflexivity).
  rewrite HM.
  assert (Hlog : v - 1 = 0 \/ N.log2 (v - 1) < 64).
  { destruct (N.eq_dec (v - 1) 0) as [E|E]; [now left|right].
    apply N.log2_lt_pow2; [lia|]. rewrite W_val in Hlt.
    change (2 ^ 64) with 18446744073709551616. lia. }
  assert (Hl : N.ones 64 - (v - 1) = N.lnot (v - 1) 64).
  { destruct Hlog as [E|Hlog].
    - rewrite E, N.sub_0_r. symmetry. apply N.lnot_0_l.
    - symmetry. now apply N.lnot_sub_low. }
  rewrite Hl.
  apply N.bits_inj. intro n.
  rewrite N.land_spec, N.ldiff_spec.
  destruct (N.lt_ge_cases n 64) as [Hn|Hn].
  - rewrite N.lnot_spec_low by assumption. reflexivity.
  - assert (Hv : N.testbit v n = false).
    { apply N.bits_above_log2.
      apply N.lt_le_trans with 64; [|assumption].
      apply N.log2_lt_pow2; [lia|]. rewrite W_val in Hlt.
      change (2 ^ 64) with 18446744073709551616. lia. }
    rewrite Hv. reflexivity.
Qed.

Lemma ctz_pow2 k : forall p, Npos p = 2 ^ k -> ctz_pos p = k.
Proof.
  induction k as [|k IH] using N.peano_ind; intros p Hp.
  - change (2 ^ 0) with 1 in Hp. injection Hp as ->. reflexivity.
  - rewrite N.pow_succ_r' in Hp.
    destruct p as [q|q|].
    + exfalso. change (Npos q~1) with (2 * Npos q + 1) in Hp. lia.
    + change (Npos q~0) with (2 * Npos q) in Hp.
      cbn [ctz_pos]. f_equal. apply IH. lia.
    + exfalso. assert (0 < 2 ^ k) by (apply N.neq_0_lt_0, N.pow_nonzero; lia). lia.
Qed.

Lemma pow2_lt_W k : k < 64 -> 2 ^ k < W.
Proof.
  intro H. rewrite W_val. change 18446744073709551616 with (2 ^ 64).
  apply N.pow_lt_mono_r; lia.
Qed.

Lemma pow2_lt_W_inv k : 2 ^ k < W -> k < 64.
Proof.
  intro H. rewrite W_val in H. change 18446744073709551616 with (2 ^ 64) in H.
  apply N.pow_lt_mono_r_iff in H; lia.
Qed.

Lemma size_test_spec v : v < W -> (size_test v = true <-> valid_size v).
Proof.
  intro Hlt. unfold size_test, valid_size. split.
  - intro H. apply andb_prop in H as [Hnz Heq].
    apply negb_true_iff, N.eqb_neq in Hnz. apply N.eqb_eq in Heq.
    destruct v as [|p]; [congruence|].
    rewrite land_lowbit in Heq by lia. rewrite lowbit_pos in Heq.
    exists (ctz_pos p). split; [|exact Heq].
    apply pow2_lt_W_inv. rewrite <- Heq. exact Hlt.
  - intros (k & Hk & ->).
    assert (Hp : 0 < 2 ^ k) by (apply N.neq_0_lt_0, N.pow_nonzero; lia).
    apply andb_true_intro. split.
    + apply negb_true_iff, N.eqb_neq. lia.
    + apply N.eqb_eq. rewrite land_lowbit by lia.
      remember (2 ^ k) as v eqn:Ev. destruct v as [|p]; [lia|].
      rewrite lowbit_pos. rewrite (ctz_pow2 k p Ev). exact Ev.
Qed.

Lemma ffsl_pow2 k : k < 64 -> to_unsigned (ffsl (2 ^ k) - 1) = k.
Proof.
  intro Hk. unfold ffsl, to_unsigned.
  remember (2 ^ k) as v eqn:Ev. destruct v as [|p].
  - exfalso. assert (0 < 2 ^ k) by (apply N.neq_0_lt_0, N.pow_nonzero; lia). lia.
  - rewrite (ctz_pow2 k p Ev).
    replace (Z.of_N k + 1 - 1)%Z with (Z.of_N k) by lia.
    rewrite Z.mod_small by (change (2 ^ 32)%Z with 4294967296%Z; lia).
    apply N2Z.id.
Qed.

Lemma shl1_lt k : k < 64 -> shl1 k = Some (2 ^ k).
Proof.
  intro H. unfold shl1. apply N.ltb_lt in H. rewrite H.
  rewrite N.shiftl_1_l. reflexivity.
Qed.

(** ** closed form of [set_attr] *)

Lemma has_value_true a v : has_value a v = true <-> a_isset a = true /\ a_val a = v.
Proof.
  unfold has_value. rewrite andb_true_iff, N.eqb_eq. tauto.
Qed.

Lemma has_value_stored p v : has_value (stored p v) v = true.
Proof. unfold has_value, stored; cbn. now rewrite N.eqb_refl. Qed.

Lemma set_size_closed f persist v s :
  v < W ->
  set_attr (4 + f) KSize persist v s =
  if has_value (p_size s) v
  then (St KDUMP_OK, {| p_size := stored persist v; p_shift := p_shift s |})
  else if size_test v
       then (St KDUMP_OK, {| p_size := stored persist v;
                             p_shift := stored false (to_unsigned (ffsl v - 1)) |})
       else (St ERR_CORRUPT, s).
Proof.
  intro Hlt.
  change (4 + f)%nat with (S (S (S (S f)))).
  cbn [set_attr].
  destruct (has_value (p_size s) v) eqn:Hs; cbn [is_ok]; [reflexivity|].
  destruct (size_test v) eqn:Ht; cbn [is_ok]; [|reflexivity].
  pose proof (proj1 (size_test_spec v Hlt) Ht) as (k & Hk & ->).
  rewrite ffsl_pow2 by assumption.
  destruct (has_value (p_shift s) k) eqn:Hh; cbn [negb andb is_ok].
  - reflexivity.
  - assert (Hk64 : (64 <=? k) = false) by (apply N.leb_gt; exact Hk).
    rewrite Hk64. rewrite shl1_lt by assumption.
    cbn [p_size p_shift]. rewrite Hs, Ht. rewrite ffsl_pow2 by assumption.
    cbn [p_size p_shift]. rewrite has_value_stored. cbn [negb andb is_ok].
    reflexivity.
Qed.

Lemma set_shift_closed f persist v s :
  set_attr (4 + f) KShift persist v s =
  if has_value (p_shift s) v
  then (St KDUMP_OK, {| p_size := p_size s; p_shift := stored persist v |})
  else if 64 <=? v then (St ERR_CORRUPT, s)
  else if has_value (p_size s) (2 ^ v)
       then (St KDUMP_OK, {| p_size := stored false (2 ^ v); p_shift := stored persist v |})
       else (St KDUMP_OK, {| p_size := stored false (2 ^ v); p_shift := stored false v |}).
Proof.
  change (4 + f)%nat with (S (S (S (S f)))).
  cbn [set_attr].
  destruct (has_value (p_shift s) v) eqn:Hh; cbn [negb andb]; [reflexivity|].
  destruct (64 <=? v) eqn:H64; [reflexivity|].
  apply N.leb_gt in H64.
  rewrite shl1_lt by assumption. cbn [p_size p_shift].
  destruct (has_value (p_size s) (2 ^ v)) eqn:Hs; cbn [is_ok]; [reflexivity|].
  assert (Ht : size_test (2 ^ v) = true).
  { apply size_test_spec; [now apply pow2_lt_W|]. exists v. split; [assumption|reflexivity]. }
  rewrite Ht. rewrite ffsl_pow2 by assumption.
  rewrite has_value_stored. cbn [negb andb is_ok p_size p_shift]. reflexivity.
Qed.

(** ** the step specification *)

Lemma pinv_coherent s : pinv s -> coherent (size_view s) (shift_view s).
Proof.
  intros (_ & _ & H). unfold coherent, size_view, shift_view, view.
  destruct (a_isset (p_size s)), (a_isset (p_shift s)); auto.
Qed.

Lemma set_size_ok persist v s :
  v < W -> pinv s ->
  let '(r, s') := set_attr FUEL KSize persist v s in
  ((valid_size v -> r = St KDUMP_OK /\ size_view s' = Some v) /\
   (~ valid_size v -> r = St ERR_CORRUPT /\ s' = s)) /\ pinv s'.
Proof.
  intros Hlt (I1 & I2 & I3).
  change FUEL with (4 + 0)%nat. rewrite set_size_closed by assumption.
  destruct (has_value (p_size s) v) eqn:Hs.
  - apply has_value_true in Hs as [Hi Hv].
    assert (Hval : valid_size v) by (rewrite <- Hv; auto).
    split; [split|].
    + intros _. split; [reflexivity|]. unfold size_view, view; cbn. reflexivity.
    + intro Hn. contradiction.
    + unfold pinv; cbn. repeat split; auto.
      intros _ Hsh. rewrite <- Hv. auto.
  - destruct (size_test v) eqn:Ht.
    + pose proof (proj1 (size_test_spec v Hlt) Ht) as Hval.
      destruct Hval as (k & Hk & Ev). subst v.
      rewrite ffsl_pow2 by assumption.
      split; [split|].
      * intros _. split; [reflexivity|]. unfold size_view, view; cbn. reflexivity.
      * intro Hn. exfalso. apply Hn. exists k. auto.
      * unfold pinv; cbn. repeat split; auto. intros _. exists k. auto.
    + assert (Hn : ~ valid_size v).
      { intro Hv. apply (size_test_spec v Hlt) in Hv. congruence. }
      split; [split|].
      * intro Hv. contradiction.
      * intros _. split; reflexivity.
      * unfold pinv. auto.
Qed.

Lemma set_shift_ok persist v s :
  pinv s ->
  let '(r, s') := set_attr FUEL KShift persist v s in
  ((valid_shift v -> r = St KDUMP_OK /\ shift_view s' = Some v) /\
   (~ valid_shift v -> r = St ERR_CORRUPT /\ s' = s)) /\ pinv s'.
Proof.
  intros (I1 & I2 & I3). unfold valid_shift.
  change FUEL with (4 + 0)%nat. rewrite set_shift_closed.
  destruct (has_value (p_shift s) v) eqn:Hh.
  - apply has_value_true in Hh as [Hi Hv].
    assert (Hval : v < 64) by (rewrite <- Hv; auto).
    split; [split|].
    + intros _. split; [reflexivity|]. unfold shift_view, view; cbn. reflexivity.
    + intro Hn. contradiction.
    + unfold pinv; cbn. repeat split; auto.
      intros Hsz _. rewrite <- Hv. auto.
  - destruct (64 <=? v) eqn:H64.
    + apply N.leb_le in H64.
      split; [split|].
      * intro. lia.
      * intros _. split; reflexivity.
      * unfold pinv; auto.
    + apply N.leb_gt in H64.
      destruct (has_value (p_size s) (2 ^ v)) eqn:Hs.
      * split; [split|].
        -- intros _. split; [reflexivity|]. unfold shift_view, view; cbn. reflexivity.
        -- intro. lia.
        -- unfold pinv; cbn. repeat split; auto. intros _. exists v. auto.
      * split; [split|].
        -- intros _. split; [reflexivity|]. unfold shift_view, view; cbn. reflexivity.
        -- intro. lia.
        -- unfold pinv; cbn. repeat split; auto. intros _. exists v. auto.
Qed.

Lemma pstep_ok o s :
  op_in_range o -> pinv s ->
  let '(r, s') := pstep o s in step_ok o s r s' /\ pinv s'.
Proof.
  intros Hr Hi. destruct o as [k v|k v|k]; cbn [pstep op_in_range] in *.
  - destruct k.
    + pose proof (set_size_ok true v s Hr Hi) as H.
      destruct (set_attr FUEL KSize true v s) as [r s']. exact H.
    + pose proof (set_shift_ok true v s Hi) as H.
      destruct (set_attr FUEL KShift true v s) as [r s']. exact H.
  - destruct k.
    + pose proof (set_size_ok false v s Hr Hi) as H.
      destruct (set_attr FUEL KSize false v s) as [r s']. exact H.
    + pose proof (set_shift_ok false v s Hi) as H.
      destruct (set_attr FUEL KShift false v s) as [r s']. exact H.
  - destruct Hi as (I1 & I2 & I3).
    destruct k; cbn [step_ok]; unfold size_view, shift_view, view, pinv, cleared; cbn;
      repeat split; auto; intros; discriminate.
Qed.

Lemma pinv0 : pinv pstate0.
Proof. unfold pinv, pstate0, sattr0; cbn. repeat split; intros; discriminate. Qed.

Lemma trace_ok_inv ops : forall s,
  Forall op_in_range ops -> pinv s -> trace_ok s ops.
Proof.
  induction ops as [|o t IH]; intros s Hr Hi; cbn [trace_ok]; [exact I|].
  inversion Hr as [|? ? Ho Ht]; subst.
  pose proof (pstep_ok o s Ho Hi) as H.
  destruct (pstep o s) as [r s']. destruct H as [Hs Hi'].
  split; [exact Hs|]. split; [now apply pinv_coherent|]. now apply IH.
Qed.

Theorem pagesize_pow2 ops :
  Forall op_in_range ops -> trace_ok pstate0 ops.
Proof. intro H. apply trace_ok_inv; [exact H|exact pinv0]. Qed.

(** no outcome other than a status is reachable (in particular no undefined
    shift and no exhausted fuel) *)
Lemma pstep_status o s :
  op_in_range o -> pinv s -> exists st, fst (pstep o s) = St st.
Proof.
  intros Hr Hi. pose proof (pstep_ok o s Hr Hi) as H.
  destruct (pstep o s) as [r s'] eqn:E. destruct H as [Hs _]. cbn [fst].
  destruct o as [[|] v|[|] v|[|]]; cbn [step_ok] in Hs.
  - destruct Hs as [H1 H2].
    destruct (size_test v) eqn:Ht.
    + destruct H1 as [-> _]; [apply size_test_spec; assumption|eauto].
    + destruct H2 as [-> _]; [|eauto]. intro Hv. apply size_test_spec in Hv; [congruence|assumption].
  - destruct Hs as [H1 H2]. unfold valid_shift in *.
    destruct (N.lt_ge_cases v 64) as [Hv|Hv].
    + destruct H1 as [-> _]; eauto.
    + destruct H2 as [-> _]; [lia|eauto].
  - destruct Hs as [H1 H2].
    destruct (size_test v) eqn:Ht.
    + destruct H1 as [-> _]; [apply size_test_spec; assumption|eauto].
    + destruct H2 as [-> _]; [|eauto]. intro Hv. apply size_test_spec in Hv; [congruence|assumption].
  - destruct Hs as [H1 H2]. unfold valid_shift in *.
    destruct (N.lt_ge_cases v 64) as [Hv|Hv].
    + destruct H1 as [-> _]; eauto.
    + destruct H2 as [-> _]; [lia|eauto].
  - destruct Hs as [-> _]. eauto.
  - destruct Hs as [-> _]. eauto.
Qed.

(** the executable validity test used by the check agrees with the definition *)
Lemma valid_sizeb_spec v : valid_sizeb v = true <-> valid_size v.
Proof.
  unfold valid_sizeb, valid_size. rewrite existsb_exists. split.
  - intros (k & Hin & He). apply N.eqb_eq in He. apply in_seq in Hin.
    exists (N.of_nat k). split; [lia|exact He].
  - intros (k & Hk & ->). exists (N.to_nat k). split.
    + apply in_seq. lia.
    + rewrite N2Nat.id. apply N.eqb_refl.
Qed.

(** ** release string -> version code *)

Definition is_dec (c : N) : bool := (48 <=? c) && (c <=? 57).

Lemma digit_val_dec c : is_dec c = true -> digit_val c = Some (c - 48) /\ c - 48 < 10.
Proof.
  unfold is_dec, digit_val. intro H. rewrite H.
  apply andb_prop in H as [H1 H2]. apply N.leb_le in H1, H2. split; [reflexivity|lia].
Qed.

Lemma digit_val_nondec c : is_dec c = false ->
  match digit_val c with Some d => 10 <= d | None => True end.
Proof.
  unfold is_dec, digit_val. intro H. rewrite H.
  destruct ((97 <=? c) && (c <=? 122)) eqn:E1.
  - apply andb_prop in E1 as [A B]. apply N.leb_le in A, B. lia.
  - destruct ((65 <=? c) && (c <=? 90)) eqn:E2; [|exact I].
    apply andb_prop in E2 as [A B]. apply N.leb_le in A, B. lia.
Qed.

Definition dec_step (acc c : N) : N := acc * 10 + (c - 48).

Lemma dec_digits_is s : dec_digits s =
  match s with
  | c :: t => if is_dec c then c :: dec_digits t else []
  | [] => []
  end.
Proof. destruct s; reflexivity. Qed.

Lemma fold_dstep_mono ds : forall acc, acc <= fold_left dec_step ds acc.
Proof.
  induction ds as [|c t IH]; intro acc; cbn [fold_left]; [lia|].
  eapply N.le_trans; [|apply IH]. unfold dec_step. lia.
Qed.

(** once the overflow flag is set the loop only consumes digits *)
Lemma digits10_ovf s : forall acc any,
  digits 10 s acc true any =
  (acc, true, any || negb (Nat.eqb (length (dec_digits s)) 0), skipn (length (dec_digits s)) s).
Proof.
  induction s as [|c t IH]; intros acc any; cbn [digits].
  - cbn. now rewrite orb_false_r.
  - rewrite (dec_digits_is (c :: t)).
    destruct (is_dec c) eqn:Hd.
    + destruct (digit_val_dec c Hd) as [-> Hlt].
      apply N.ltb_lt in Hlt. rewrite Hlt. cbn [orb].
      rewrite IH. cbn [length skipn Nat.eqb negb]. now rewrite orb_true_r.
    + pose proof (digit_val_nondec c Hd) as Hn.
      destruct (digit_val c) as [d|].
      * assert (E : (d <? 10) = false) by (apply N.ltb_ge; exact Hn). rewrite E.
        cbn. now rewrite orb_false_r.
      * cbn. now rewrite orb_false_r.
Qed.

Lemma digits10_spec s : forall acc any, acc < W ->
  let ds := dec_digits s in
  let full := fold_left dec_step ds acc in
  exists v,
    digits 10 s acc false any =
      (v, W <=? full, any || negb (Nat.eqb (length ds) 0), skipn (length ds) s) /\
    (full < W -> v = full).
Proof.
  induction s as [|c t IH]; intros acc any Hacc; cbn zeta.
  - cbn. exists acc. rewrite orb_false_r.
    assert (E : (W <=? acc) = false) by (apply N.leb_gt; exact Hacc). rewrite E. auto.
  - rewrite (dec_digits_is (c :: t)). cbn [digits].
    destruct (is_dec c) eqn:Hd.
    + destruct (digit_val_dec c Hd) as [-> Hlt].
      apply N.ltb_lt in Hlt. rewrite Hlt. cbn [orb fold_left length skipn].
      fold (dec_step acc c).
      destruct (W <=? dec_step acc c) eqn:Ho.
      * rewrite digits10_ovf. exists acc. apply N.leb_le in Ho.
        pose proof (fold_dstep_mono (dec_digits t) (dec_step acc c)) as Hm.
        assert (E : (W <=? fold_left dec_step (dec_digits t) (dec_step acc c)) = true)
          by (apply N.leb_le; lia).
        rewrite E. cbn [Nat.eqb negb]. rewrite orb_true_r. split; [reflexivity|]. lia.
      * apply N.leb_gt in Ho.
        destruct (IH (dec_step acc c) true Ho) as (v & Hv & Hf). cbn zeta in Hv, Hf.
        exists v. rewrite Hv. cbn [Nat.eqb negb orb]. rewrite orb_true_r. auto.
    + pose proof (digit_val_nondec c Hd) as Hn.
      assert (E : (W <=? acc) = false) by (apply N.leb_gt; exact Hacc).
      exists acc. cbn [fold_left length skipn Nat.eqb negb]. rewrite E, orb_false_r.
      destruct (digit_val c) as [d|].
      * assert (E2 : (d <? 10) = false) by (apply N.ltb_ge; exact Hn). rewrite E2. auto.
      * auto.
Qed.

Lemma dec_value_fold ds :
  dec_value ds = let v := fold_left dec_step ds 0 in if W <=? v then MAXA else v.
Proof. reflexivity. Qed.

(** [strtoul(s, &endp, 10)] on a string that starts with neither a blank nor a sign *)
Lemma strtoull10_plain s : plain_start s = true ->
  strtoull 10 s =
  if Nat.eqb (length (dec_digits s)) 0 then (0, s)
  else (dec_value (dec_digits s), skipn (length (dec_digits s)) s).
Proof.
  intro Hp. unfold strtoull.
  assert (Hsk : skip_space s = s).
  { destruct s as [|c t]; [reflexivity|]. cbn [plain_start] in Hp. cbn [skip_space].
    apply negb_true_iff in Hp. apply orb_false_iff in Hp as [Hp _].
    apply orb_false_iff in Hp as [Hp _]. now rewrite Hp. }
  rewrite Hsk.
  assert (Hsign : match s with
                  | c :: t => if c =? 45 then (true, t) else if c =? 43 then (false, t) else (false, s)
                  | [] => (false, s)
                  end = (false, s)).
  { destruct s as [|c t]; [reflexivity|]. cbn [plain_start] in Hp.
    apply negb_true_iff in Hp. apply orb_false_iff in Hp as [Hp H43].
    apply orb_false_iff in Hp as [_ H45]. now rewrite H45, H43. }
  rewrite Hsign.
  change (10 =? 16) with false. change (10 =? 0) with false.
  cbn [orb andb].
  assert (Hpre : match s with
                 | c :: x :: t =>
                     if (c =? 48) && is_x x && false then (16, t, Some (x :: t))
                     else if (c =? 48) && false then (8, s, None) else (10, s, None)
                 | [c] => if (c =? 48) && false then (8, s, None) else (10, s, None)
                 | [] => (10, s, None)
                 end = (10, s, @None bytes)).
  { destruct s as [|c [|x t]]; try reflexivity; now rewrite !andb_false_r. }
  rewrite Hpre.
  destruct (digits10_spec s 0 false W_pos) as (v & Hv & Hf). cbn zeta in Hv, Hf.
  rewrite Hv. cbn [orb].
  destruct (Nat.eqb (length (dec_digits s)) 0) eqn:El; cbn [negb]; [reflexivity|].
  rewrite dec_value_fold. cbn zeta.
  destruct (W <=? fold_left dec_step (dec_digits s) 0) eqn:Ho; [reflexivity|].
  apply N.leb_gt in Ho. rewrite (Hf Ho). reflexivity.
Qed.

Lemma skipn_shorter {A} (l : list A) n : (0 < n)%nat -> (n <= length l)%nat ->
  Nat.eqb (length (skipn n l)) (length l) = false.
Proof.
  intros H1 H2. apply Nat.eqb_neq. rewrite skipn_length. lia.
Qed.

Lemma dec_digits_length s : (length (dec_digits s) <= length s)%nat.
Proof.
  induction s as [|c t IH]; [cbn; lia|].
  rewrite dec_digits_is. destruct (is_dec c); cbn [length]; lia.
Qed.

Lemma num_then_dot_plain s : plain_start s = true ->
  num_then_dot s =
  if Nat.eqb (length (dec_digits s)) 0 then None
  else match after_dot (skipn (length (dec_digits s)) s) with
       | Some t => Some (dec_value (dec_digits s), t)
       | None => None
       end.
Proof.
  intro Hp. unfold num_then_dot. rewrite (strtoull10_plain s Hp).
  destruct (Nat.eqb (length (dec_digits s)) 0) eqn:El.
  - unfold noconv. now rewrite Nat.eqb_refl.
  - unfold noconv. apply Nat.eqb_neq in El.
    pose proof (dec_digits_length s) as Hl.
    rewrite skipn_shorter by lia.
    unfold after_dot. destruct (skipn (length (dec_digits s)) s) as [|c t]; [reflexivity|].
    unfold DOT. destruct (c =? 46); reflexivity.
Qed.

Lemma kernel_version_spec a b c : kernel_version a b c = spec_version a b c.
Proof.
  unfold kernel_version, spec_version, wadd, wshl, w.
  rewrite !N.shiftl_mul_pow2.
  change (2 ^ 16) with 65536. change (2 ^ 8) with 256.
  assert (Hm : (if 255 <? c then 255 else c) = N.min c 255).
  { destruct (255 <? c) eqn:E.
    - apply N.ltb_lt in E. lia.
    - apply N.ltb_ge in E. lia. }
  rewrite Hm.
  set (x := a * 65536). set (y := b * 256). set (z := N.min c 255).
  rewrite N.add_mod_idemp_l by exact W_nz.
  rewrite <- N.add_assoc.
  rewrite N.add_mod_idemp_l by exact W_nz.
  rewrite (N.add_comm x), <- N.add_assoc.
  rewrite N.add_mod_idemp_l by exact W_nz.
  f_equal. lia.
Qed.

(** the version code of a release string is what the spec says, whenever the
    spec says anything *)
Theorem version_code_spec rel x :
  release_verdict rel = Some x -> version_code rel = x.
Proof.
  unfold release_verdict, version_code.
  destruct (plain_start rel) eqn:Hp; cbn [negb]; [|discriminate].
  rewrite (num_then_dot_plain rel Hp).
  destruct (dec_digits rel) as [|a0 ar] eqn:Ea; cbn [length Nat.eqb].
  - intro H. injection H as <-. reflexivity.
  - destruct (after_dot (skipn (S (length ar)) rel)) as [r1|].
    2:{ intro H. injection H as <-. reflexivity. }
    destruct (plain_start r1) eqn:Hp1; cbn [negb]; [|discriminate].
    rewrite (num_then_dot_plain r1 Hp1).
    destruct (dec_digits r1) as [|b0 br] eqn:Eb; cbn [length Nat.eqb].
    + intro H. injection H as <-. reflexivity.
    + destruct (after_dot (skipn (S (length br)) r1)) as [r2|].
      2:{ intro H. injection H as <-. reflexivity. }
      destruct (plain_start r2) eqn:Hp2; cbn [negb]; [|discriminate].
      rewrite (strtoull10_plain r2 Hp2).
      destruct (dec_digits r2) as [|c0 cr] eqn:Ec; cbn [length Nat.eqb].
      * intro H. injection H as <-. unfold noconv. now rewrite Nat.eqb_refl.
      * intro H. injection H as <-. unfold noconv.
        pose proof (dec_digits_length r2) as Hl. rewrite Ec in Hl.
        rewrite skipn_shorter by (cbn [length] in *; lia).
        now rewrite kernel_version_spec.
Qed.
