(** Model of derived (register) attributes: a numeric attribute that is a view of
    [length] bytes at [offset] of a blob attribute in the dump's byte order
    (src/kdumpfile/util.c [get_attr_blob], [derived_attr_revalidate],
    [derived_attr_update], [create_derived_attr]; attr.c [set_attr],
    [attr_has_value], [check_set_attr], [kdump_get_attr], [clear_single_attr];
    blob.c [kdump_blob_set]; with fixes 53, 54, 55 applied).

    One CPU: the blob attribute [cpu.N.PRSTATUS] and the register attributes
    created from an architecture's [derived_attr_def] table (offset, length).
    The attribute keeps a cached number and the [invalid] flag; [kdump_get_attr]
    revalidates an invalid attribute from the blob on every read. *)
From Coq Require Import NArith ZArith List Bool.
From KdV Require Import Base.Wrap64 Attr.AttrBase.
Import ListNotations.
Local Open Scope N_scope.

(** little-endian number <-> bytes; big-endian = reversed *)
Fixpoint le_decode (bs : bytes) : N :=
  match bs with [] => 0 | b :: t => b + 256 * le_decode t end.
Fixpoint le_encode (n : nat) (v : N) : bytes :=
  match n with O => [] | S k => (v mod 256) :: le_encode k (v / 256) end.

Definition decode (be : bool) (bs : bytes) : N :=
  if be then le_decode (rev bs) else le_decode bs.
Definition encode (be : bool) (n : nat) (v : N) : bytes :=
  if be then rev (le_encode n v) else le_encode n v.

Definition slice (off len : nat) (b : bytes) : bytes := firstn len (skipn off b).
Definition splice (off : nat) (bs b : bytes) : bytes :=
  firstn off b ++ bs ++ skipn (off + length bs) b.

(** [struct derived_attr_def]: offset, length *)
Record ddef := { d_off : N; d_len : N }.

(** a register attribute *)
Record reg := { g_isset : bool; g_persist : bool; g_invalid : bool; g_val : N }.
(* create_derived_attr(): set_attr_number(ctx, attr, ATTR_INVALID, 0) *)
Definition reg0 : reg := {| g_isset := true; g_persist := false; g_invalid := true; g_val := 0 |}.

Record dstate := {
  b_isset : bool;       (* cpu.N.PRSTATUS has a value *)
  b_data : bytes;       (* the blob's bytes (meaningless while unset: freed) *)
  big_endian : bool;    (* arch.byte_order == KDUMP_BIG_ENDIAN *)
  regs : list reg       (* one per table entry *)
}.

Definition set_reg (i : nat) (r : reg) (l : list reg) : list reg :=
  firstn i l ++ r :: skipn (S i) l.

Definition valid_len (n : N) : bool := (n =? 1) || (n =? 2) || (n =? 4) || (n =? 8).

(** get_attr_blob + bounds + length switch of derived_attr_revalidate /
    derived_attr_update: the status before any byte is touched *)
Definition access_status (d : ddef) (s : dstate) : status :=
  if negb (b_isset s) then ERR_NODATA                       (* fix 54 *)
  else if N.of_nat (length (b_data s)) <? d_off d + d_len d then ERR_CORRUPT
  else if valid_len (d_len d) then KDUMP_OK else ERR_NOTIMPL.

(** derived_attr_revalidate: new cached value *)
Definition revalidate (d : ddef) (s : dstate) : status * option N :=
  match access_status d s with
  | KDUMP_OK => (KDUMP_OK,
                 Some (decode (big_endian s)
                         (slice (N.to_nat (d_off d)) (N.to_nat (d_len d)) (b_data s))))
  | e => (e, None)
  end.

(** kdump_get_attr("cpu.N.reg.X") on table entry [i] *)
Definition reg_get (defs : list ddef) (i : nat) (s : dstate) : status * N * dstate :=
  match nth_error defs i, nth_error (regs s) i with
  | Some d, Some r =>
      if negb (g_isset r) then (ERR_NODATA, 0, s)
      else if negb (g_invalid r) then (KDUMP_OK, g_val r, s)
      else match revalidate d s with
           | (KDUMP_OK, Some v) =>
               (KDUMP_OK, v,
                {| b_isset := b_isset s; b_data := b_data s; big_endian := big_endian s;
                   regs := set_reg i {| g_isset := true; g_persist := g_persist r;
                                        g_invalid := true; g_val := v |} (regs s) |})
           | (e, _) => (e, 0, s)
           end
  | _, _ => (ERR_NOKEY, 0, s)
  end.

(** kdump_set_attr("cpu.N.reg.X", {KDUMP_NUMBER, v}) *)
Definition reg_set (defs : list ddef) (i : nat) (v : N) (s : dstate) : status * dstate :=
  match nth_error defs i, nth_error (regs s) i with
  | Some d, Some r =>
      (* attr_has_value (fix 53): an invalid value is never equal *)
      let skip := g_isset r && negb (g_invalid r) && (g_val r =? v) in
      (* store: attr->val = *pval; attr->flags = ATTR_PERSIST + isset *)
      let r1 := {| g_isset := true; g_persist := true; g_invalid := false; g_val := v |} in
      if skip then
        (KDUMP_OK, {| b_isset := b_isset s; b_data := b_data s; big_endian := big_endian s;
                      regs := set_reg i r1 (regs s) |})
      else
        (* post_set = derived_attr_update; flags.invalid is clear here; fix 55: set it first *)
        let r2 := {| g_isset := true; g_persist := true; g_invalid := true; g_val := v |} in
        let rs := set_reg i r2 (regs s) in
        match access_status d s with
        | KDUMP_OK =>
            (KDUMP_OK,
             {| b_isset := true;
                b_data := splice (N.to_nat (d_off d))
                                 (encode (big_endian s) (N.to_nat (d_len d)) v) (b_data s);
                big_endian := big_endian s; regs := rs |})
        | e => (e, {| b_isset := b_isset s; b_data := b_data s; big_endian := big_endian s;
                      regs := rs |})
        end
  | _, _ => (ERR_NOKEY, s)
  end.

(** kdump_set_attr("cpu.N.reg.X", {KDUMP_NIL}) *)
Definition reg_clear (i : nat) (s : dstate) : dstate :=
  match nth_error (regs s) i with
  | Some r => {| b_isset := b_isset s; b_data := b_data s; big_endian := big_endian s;
                 regs := set_reg i {| g_isset := false; g_persist := g_persist r;
                                      g_invalid := g_invalid r; g_val := g_val r |} (regs s) |}
  | None => s
  end.

Inductive dop :=
| RGet (i : nat)
| RSet (i : nat) (v : N)
| RClear (i : nat)
| BWrite (off : nat) (bs : bytes)  (* kdump_blob_pin + memcpy inside the blob + unpin *)
| BResize (bs : bytes)             (* kdump_blob_set(blob, data, size) on the attribute's blob *)
| BReplace (bs : bytes)            (* kdump_set_attr("cpu.N.PRSTATUS", {KDUMP_BLOB, new blob}) *)
| BClear                           (* kdump_set_attr("cpu.N.PRSTATUS", {KDUMP_NIL}) *)
| BGet                             (* kdump_get_attr("cpu.N.PRSTATUS") + pin + copy *)
| SetOrder (be : bool).            (* kdump_set_number_attr("arch.byte_order", ...) *)

Inductive dout :=
| DStatus (st : status)
| DNum (st : status) (v : N)
| DBytes (st : status) (bs : bytes).

Definition with_blob (s : dstate) (isset : bool) (bs : bytes) : dstate :=
  {| b_isset := isset; b_data := bs; big_endian := big_endian s; regs := regs s |}.

Definition dstep (defs : list ddef) (o : dop) (s : dstate) : dout * dstate :=
  match o with
  | RGet i => let '(st, v, s') := reg_get defs i s in (DNum st v, s')
  | RSet i v => let '(st, s') := reg_set defs i v s in (DStatus st, s')
  | RClear i => (DStatus KDUMP_OK, reg_clear i s)
  | BWrite off bs =>
      (* the driver only writes inside the blob; no attribute is touched *)
      if b_isset s && (off + length bs <=? length (b_data s))%nat
      then (DStatus KDUMP_OK, with_blob s true (splice off bs (b_data s)))
      else (DStatus ERR_NODATA, s)
  | BResize bs =>
      if b_isset s then (DStatus KDUMP_OK, with_blob s true bs) else (DStatus ERR_NODATA, s)
  | BReplace bs => (DStatus KDUMP_OK, with_blob s true bs)
  | BClear => (DStatus KDUMP_OK, with_blob s false [])
  | BGet => if b_isset s then (DBytes KDUMP_OK (b_data s), s) else (DBytes ERR_NODATA [], s)
  | SetOrder be =>
      (DStatus KDUMP_OK,
       {| b_isset := b_isset s; b_data := b_data s; big_endian := be; regs := regs s |})
  end.

Fixpoint drun (defs : list ddef) (ops : list dop) (s : dstate) : list dout :=
  match ops with
  | [] => []
  | o :: t => let '(r, s') := dstep defs o s in r :: drun defs t s'
  end.

Definition dfinal (defs : list ddef) (ops : list dop) (s : dstate) : dstate :=
  fold_left (fun st o => snd (dstep defs o st)) ops s.

(** state after the ELF note has been processed: blob set, all registers created *)
Definition dinit (defs : list ddef) (blob : bytes) (be : bool) : dstate :=
  {| b_isset := true; b_data := blob; big_endian := be; regs := map (fun _ => reg0) defs |}.

(** The three ways of reading an attribute — kdump_get_attr by key,
    kdump_attr_ref_get through a reference, kdump_attr_ref_get at an iterator
    position — all run attr_revalidate before the value is copied out; likewise
    kdump_set_attr and kdump_attr_ref_set share check_set_attr.  The access path
    is therefore not part of the model's read and write. *)
Inductive access := ByKey | ByRef | ByIter.
Definition reg_get_via (a : access) := reg_get.
Definition reg_set_via (a : access) := reg_set.
