(** Model of the attribute set path with hooks, for the two attributes that are
    views of each other: [arch.page_size] and [arch.page_shift]
    (src/kdumpfile/attr.c [set_attr], [attr_has_value], [clear_single_attr];
    src/kdumpfile/util.c [page_size_pre_hook], [page_size_post_hook],
    [page_shift_pre_hook] (fix 50), [page_shift_post_hook]), and of
    [linux_ver_revalidate] / [linux_ver_post_hook] (release string -> version code).

    Both page attributes are static (indirect) attributes: the value lives in
    [struct kdump_shared] and survives a clear; [flags] are replaced wholesale by
    every [set_attr].  The hooks call each other through [set_page_shift] /
    [set_page_size] ([set_attr] with [ATTR_DEFAULT]); the recursion ends because
    [attr_has_value] skips the hooks when the attribute already holds the value.
    The model keeps the recursion and bounds it by fuel; [HooksProofs] shows
    that 4 is always enough.

    The context has no dump file open and no [arch.name]: [page_size_post_hook]
    finds neither [ops->realloc_caches] nor an architecture to initialise and
    returns [KDUMP_OK]. *)
From Coq Require Import NArith ZArith List Bool.
From KdV Require Import Base.Wrap64 Attr.AttrBase.
Import ListNotations.
Local Open Scope N_scope.

(** a numeric static attribute: [flags.isset], [flags.persist], the stored value *)
Record sattr := { a_isset : bool; a_persist : bool; a_val : N }.
Definition sattr0 : sattr := {| a_isset := false; a_persist := false; a_val := 0 |}.

Record pstate := { p_size : sattr; p_shift : sattr }.
Definition pstate0 : pstate := {| p_size := sattr0; p_shift := sattr0 |}.

Inductive pkey := KSize | KShift.

(* attr_has_value(): KDUMP_NUMBER *)
Definition has_value (a : sattr) (v : N) : bool := a_isset a && (a_val a =? v).

(* *attr->pval = *pval; flags.isset = 1; attr->flags = flags; *)
Definition stored (persist : bool) (v : N) : sattr :=
  {| a_isset := true; a_persist := persist; a_val := v |}.

(* clear_single_attr(): attr->flags.isset = 0 (value and other flags stay) *)
Definition cleared (a : sattr) : sattr :=
  {| a_isset := false; a_persist := a_persist a; a_val := a_val a |}.

(** ffsl(): 1-based index of the least significant set bit, 0 for 0 *)
Fixpoint ctz_pos (p : positive) : N :=
  match p with xO q => N.succ (ctz_pos q) | _ => 0 end.
Definition ffsl (v : N) : Z :=
  match v with N0 => 0%Z | Npos p => (Z.of_N (ctz_pos p) + 1)%Z end.

(* set_page_shift(ctx, unsigned newval): int -> unsigned conversion *)
Definition to_unsigned (z : Z) : N := Z.to_N (z mod 2^32).

(* page_size != (page_size & ~(page_size - 1)), on a 64-bit size_t;
   fix 10 adds the test for zero *)
Definition size_test (v : N) : bool :=
  negb (v =? 0) && (v =? N.land v (wnot (wsub v 1))).

(* (size_t)1 << number: undefined for a count of 64 or more *)
Definition shl1 (k : N) : option N := if k <? 64 then Some (N.shiftl 1 k) else None.

(** [set_attr(ctx, gattr(ctx, GKI_page_size | GKI_page_shift), flags, &val)] *)
Fixpoint set_attr (fuel : nat) (k : pkey) (persist : bool) (v : N) (s : pstate)
  : outcome * pstate :=
  match fuel with
  | O => (OutOfFuel, s)
  | S f =>
      match k with
      | KSize =>
          let skip := has_value (p_size s) v in
          (* ops->pre_set = page_size_pre_hook *)
          let '(r, s1) :=
            if skip then (St KDUMP_OK, s)
            else if size_test v
                 then set_attr f KShift false (to_unsigned (ffsl v - 1)) s
                 else (St ERR_CORRUPT, s) in
          if is_ok r then
            (* store; ops->post_set = page_size_post_hook returns KDUMP_OK *)
            (St KDUMP_OK, {| p_size := stored persist v; p_shift := p_shift s1 |})
          else (r, s1)
      | KShift =>
          let skip := has_value (p_shift s) v in
          (* ops->pre_set = page_shift_pre_hook *)
          if negb skip && (64 <=? v) then (St ERR_CORRUPT, s)
          else
            let s1 := {| p_size := p_size s; p_shift := stored persist v |} in
            if skip then (St KDUMP_OK, s1)
            else
              (* ops->post_set = page_shift_post_hook *)
              match shl1 v with
              | None => (BadShift, s1)
              | Some sz => set_attr f KSize false sz s1
              end
      end
  end.

Definition FUEL : nat := 4.

(** operations of the public API on the two attributes *)
Inductive pop :=
| PSet (k : pkey) (v : N)        (* kdump_set_attr(key, {KDUMP_NUMBER, v}): ATTR_PERSIST *)
| PSetDefault (k : pkey) (v : N) (* internal set_page_size()/set_page_shift(): ATTR_DEFAULT *)
| PClear (k : pkey).             (* kdump_set_attr(key, {KDUMP_NIL}) *)

Definition pstep (o : pop) (s : pstate) : outcome * pstate :=
  match o with
  | PSet k v => set_attr FUEL k true v s
  | PSetDefault k v => set_attr FUEL k false v s
  | PClear KSize => (St KDUMP_OK, {| p_size := cleared (p_size s); p_shift := p_shift s |})
  | PClear KShift => (St KDUMP_OK, {| p_size := p_size s; p_shift := cleared (p_shift s) |})
  end.

Fixpoint prun (ops : list pop) (s : pstate) : list (outcome * pstate) :=
  match ops with
  | [] => []
  | o :: t => let '(r, s') := pstep o s in (r, s') :: prun t s'
  end.

Definition pfinal (ops : list pop) (s : pstate) : pstate :=
  fold_left (fun st o => snd (pstep o st)) ops s.

(** ** linux.uts.release -> linux.version_code *)

(* a = strtoul(p, &endp, 10); if (endp == p || *endp != '.') goto err; *)
Definition num_then_dot (s : bytes) : option (N * bytes) :=
  let '(a, rest) := strtoull 10 s in
  if noconv s rest then None
  else match rest with
       | c :: t => if c =? DOT then Some (a, t) else None
       | [] => None
       end.

(* KERNEL_VERSION(a,b,c) of <linux/version.h> on unsigned long (fix 52):
   ((a) << 16) + ((b) << 8) + ((c) > 255 ? 255 : (c)) *)
Definition kernel_version (a b c : N) : N :=
  wadd (wadd (wshl a 16) (wshl b 8)) (if 255 <? c then 255 else c).

(** [linux_ver_revalidate] on a set release string: [Some code], or [None] for
    KDUMP_ERR_CORRUPT ("Invalid kernel version") *)
Definition version_code (rel : bytes) : option N :=
  match num_then_dot rel with
  | None => None
  | Some (a, s1) =>
      match num_then_dot s1 with
      | None => None
      | Some (b, s2) =>
          let '(c, rest) := strtoull 10 s2 in
          if noconv s2 rest then None else Some (kernel_version a b c)
      end
  end.

(** the two attributes: release (string, may be unset) and version_code
    (number with the [invalid] flag) *)
Record vstate := {
  r_isset : bool; r_val : bytes;             (* linux.uts.release *)
  vc_isset : bool; vc_invalid : bool; vc_val : N   (* linux.version_code *)
}.
Definition vstate0 : vstate :=
  {| r_isset := false; r_val := []; vc_isset := false; vc_invalid := false; vc_val := 0 |}.

(* set_attr_string(release): hooks skipped if the string is already there;
   linux_ver_post_hook: set_attr_number(version_code, ATTR_INVALID, 0).
   attr_has_value(version_code, 0) is false for an invalid attribute (fix 53);
   version_code has no set hooks, so the store is the whole effect. *)
Definition set_release (v : bytes) (s : vstate) : vstate :=
  if r_isset s && bytes_eqb (r_val s) v then s
  else {| r_isset := true; r_val := v; vc_isset := true; vc_invalid := true; vc_val := 0 |}.

Definition clear_release (s : vstate) : vstate :=
  {| r_isset := false; r_val := r_val s;
     vc_isset := vc_isset s; vc_invalid := vc_invalid s; vc_val := vc_val s |}.

(** kdump_get_attr("linux.version_code"): status, value, new state *)
Definition get_version_code (s : vstate) : status * N * vstate :=
  if negb (vc_isset s) then (ERR_NODATA, 0, s)
  else if negb (vc_invalid s) then (KDUMP_OK, vc_val s, s)
  else if negb (r_isset s) then (KDUMP_OK, vc_val s, s)     (* revalidate: release unset *)
  else match version_code (r_val s) with
       | None => (ERR_CORRUPT, 0, s)
       | Some c => (KDUMP_OK, c,
                    {| r_isset := r_isset s; r_val := r_val s;
                       vc_isset := true; vc_invalid := false; vc_val := c |})
       end.
