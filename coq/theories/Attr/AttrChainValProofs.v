(** Proofs about [Attr/AttrChainVal.v]: who sees a value set through one level. *)
From Coq Require Import NArith List Bool Arith Lia.
From KdV Require Import Base.Wrap64 Attr.AttrBase Attr.AttrChain Attr.AttrChainProofs Attr.AttrChainVal.
Import ListNotations.

Lemma cpath_eqb_refl p : cpath_eqb p p = true.
Proof. unfold cpath_eqb. destruct (cpath_eq_dec p p); congruence. Qed.
Lemma cpath_eqb_neq p q : p <> q -> cpath_eqb p q = false.
Proof. unfold cpath_eqb. destruct (cpath_eq_dec p q); congruence. Qed.

Lemma vowner_vset s i p v i' p' : vowner (vset s i p v) i' p' = vowner s i' p'.
Proof. unfold vset. destruct (vowner s i p); reflexivity. Qed.

(** a set (or clear) through level i of the attribute that i resolves p to is
    seen through EXACTLY the levels whose lookup of p ends at the same attribute;
    every other level keeps seeing what it saw *)
Theorem vget_vset s i p v k i' :
  vowner s i p = Some k ->
  vget (vset s i p v) i' p =
  match vowner s i' p with
  | Some k' => if Nat.eqb k' k then v else vget s i' p
  | None => None
  end.
Proof.
  intro H. unfold vget. rewrite vowner_vset. unfold vset. rewrite H. cbn [vals].
  destruct (vowner s i' p) as [k'|]; [|reflexivity]. unfold upd. rewrite cpath_eqb_refl, andb_true_r.
  reflexivity.
Qed.

Corollary vset_seen_by_sharers s i p v k i' :
  vowner s i p = Some k -> vowner s i' p = Some k -> vget (vset s i p v) i' p = v.
Proof. intros H H'. rewrite (vget_vset s i p v k i' H), H', Nat.eqb_refl. reflexivity. Qed.

Corollary vset_unseen_by_others s i p v k i' :
  vowner s i p = Some k -> vowner s i' p <> Some k -> vget (vset s i p v) i' p = vget s i' p.
Proof.
  intros H H'. rewrite (vget_vset s i p v k i' H). unfold vget. destruct (vowner s i' p) as [k'|]; [|reflexivity].
  destruct (Nat.eqb k' k) eqn:E; [|reflexivity]. apply Nat.eqb_eq in E. congruence.
Qed.

(** ... and no other key changes, through any level *)
Theorem vget_vset_other s i p v i' p' : p' <> p -> vget (vset s i p v) i' p' = vget s i' p'.
Proof.
  intro H. unfold vget. rewrite vowner_vset. unfold vset. destruct (vowner s i p) as [k|]; [|reflexivity].
  cbn [vals]. destruct (vowner s i' p') as [k'|]; [|reflexivity]. unfold upd.
  rewrite (cpath_eqb_neq p' p H), andb_false_r. reflexivity.
Qed.

(** a set of a key that the level does not have changes nothing *)
Theorem vset_nokey s i p v : vowner s i p = None -> vset s i p v = s.
Proof. intro H. unfold vset. now rewrite H. Qed.

(** * cloning: what the new level and the old levels see *)

(** fallback pointers lead to older dictionaries *)
Definition dwf (s : cstate) : Prop :=
  forall k d j, dict_at s k = Some d -> d_fallback d = Some j -> j < k.
Definition fb (s : cstate) (m : nat) : option (option nat) := option_map d_fallback (dict_at s m).

Lemma chain_fuel_agree s s' n : dwf s -> (forall m, m < n -> fb s' m = fb s m) ->
  forall f i, i < n -> chain_fuel f s' i = chain_fuel f s i.
Proof.
  intros Hw Hfb. induction f as [|f IH]; intros i Hi; [reflexivity|]. cbn [chain_fuel].
  pose proof (Hfb i Hi) as E. unfold fb in E.
  destruct (dict_at s' i) as [d'|], (dict_at s i) as [d|] eqn:Ed; cbn in E; try discriminate; [|reflexivity].
  injection E as E. rewrite E. destruct (d_fallback d) as [j|] eqn:Ej; [|reflexivity].
  f_equal. apply IH. pose proof (Hw i d j Ed Ej). lia.
Qed.

Lemma chain_fuel_enough s : dwf s -> forall f1 f2 i, i < f1 -> i < f2 -> chain_fuel f1 s i = chain_fuel f2 s i.
Proof.
  intro Hw. induction f1 as [|f1 IH]; intros [|f2] i H1 H2; try lia. cbn [chain_fuel].
  destruct (dict_at s i) as [d|] eqn:Ed; [|reflexivity]. destruct (d_fallback d) as [j|] eqn:Ej; [|reflexivity].
  f_equal. pose proof (Hw i d j Ed Ej). apply IH; lia.
Qed.

Lemma chain_fuel_lt s n : (forall k, dict_at s k <> None -> k < n) -> forall f i k, In k (chain_fuel f s i) -> k < n.
Proof.
  intros Hn. induction f as [|f IH]; intros i k H; [contradiction|]. cbn [chain_fuel] in H.
  destruct (dict_at s i) as [d|] eqn:Ed; [|contradiction]. destruct H as [<-|H].
  - apply Hn. rewrite Ed. discriminate.
  - destruct (d_fallback d); [eapply IH; eauto|contradiction].
Qed.

Lemma length_add_ref k up : forall ds, length (add_ref k up ds) = length ds.
Proof. induction k as [|k IH]; intros [|d t]; cbn; auto. Qed.

Lemma first_owner_ext s s' ks p :
  (forall k, In k ks -> table s' k = table s k) -> first_owner s' ks p = first_owner s ks p.
Proof.
  induction ks as [|k rest IH]; intro H; [reflexivity|]. cbn [first_owner].
  rewrite (H k (or_introl eq_refl)). rewrite IH; [reflexivity|]. intros k' Hk'. apply H. now right.
Qed.

Lemma clone_attrs c i priv :
  attrs (clone_xlat_ref c i priv) =
  map (fun p => {| a_path := p; a_table := length (dicts c); a_tree := length (dicts c) |}) priv ++ attrs c.
Proof. unfold clone_xlat_ref, clone_xlat, ref_dict. cbn [attrs dicts]. now rewrite length_add_ref. Qed.

Lemma clone_dicts c i priv :
  dicts (clone_xlat_ref c i priv) =
  add_ref i true (dicts c) ++ [{| d_alive := true; d_fallback := Some i; d_refs := 1 |}].
Proof. reflexivity. Qed.

Section Clone.
Variable s : vstate.
Variable i : nat.
Variable priv : list cpath.
Let n := length (dicts (cs s)).
Hypothesis Hw : dwf (cs s).
Hypothesis Hi : i < n.
(* every attribute is in the table of an existing dictionary (from [inv]) *)
Hypothesis Ht : forall a, In a (attrs (cs s)) -> a_table a < n.
Let s' := vclone_xlat s i priv.

Lemma clone_fb m : m < n -> fb (cs s') m = fb (cs s) m.
Proof.
  intro Hm. unfold fb, dict_at. unfold s'. cbn [cs vclone_xlat]. rewrite clone_dicts.
  rewrite nth_error_app1 by (rewrite length_add_ref; exact Hm). rewrite nth_add_ref.
  destruct (nth_error (dicts (cs s)) m) as [d|]; [|reflexivity]. cbn. now destruct (Nat.eqb m i).
Qed.

Lemma clone_table_old k : k < n -> table (cs s') k = table (cs s) k.
Proof.
  intro Hk. unfold table. unfold s'. cbn [cs vclone_xlat]. rewrite clone_attrs. fold n. rewrite filter_app, map_app.
  replace (filter (fun a => Nat.eqb (a_table a) k) (map (fun p => {| a_path := p; a_table := n; a_tree := n |}) priv))
    with (@nil cattr); [reflexivity|].
  induction priv as [|p l IH]; [reflexivity|]. cbn. destruct (Nat.eqb n k) eqn:E; [apply Nat.eqb_eq in E; lia|exact IH].
Qed.

Lemma clone_table_new : table (cs s') n = priv.
Proof.
  unfold table. unfold s'. cbn [cs vclone_xlat]. rewrite clone_attrs. fold n. rewrite filter_app, map_app.
  replace (filter (fun a => Nat.eqb (a_table a) n) (attrs (cs s))) with (@nil cattr).
  - rewrite app_nil_r. induction priv as [|p l IH]; [reflexivity|]. cbn. rewrite Nat.eqb_refl. cbn. now rewrite IH.
  - symmetry. induction (attrs (cs s)) as [|a l IH]; [reflexivity|]. cbn.
    destruct (Nat.eqb (a_table a) n) eqn:E.
    + apply Nat.eqb_eq in E. pose proof (Ht a (or_introl eq_refl)). lia.
    + apply IH. intros b Hb. apply Ht. now right.
Qed.

Lemma old_lt k : dict_at (cs s) k <> None -> k < n.
Proof. intro H. apply nth_error_Some. exact H. Qed.

Lemma clone_chain_old i' : i' < n -> chain (cs s') i' = chain (cs s) i'.
Proof. intro H. unfold chain. apply (chain_fuel_agree (cs s) (cs s') n Hw clone_fb). exact H. Qed.

Lemma clone_chain_new : chain (cs s') n = n :: chain (cs s) i.
Proof.
  unfold chain at 1. cbn [chain_fuel].
  assert (E : dict_at (cs s') n = Some {| d_alive := true; d_fallback := Some i; d_refs := 1 |}).
  { unfold dict_at. unfold s'. cbn [cs vclone_xlat]. rewrite clone_dicts.
    rewrite nth_error_app2 by (rewrite length_add_ref; fold n; lia). rewrite length_add_ref. fold n.
    now rewrite Nat.sub_diag. }
  rewrite E. cbn [d_fallback]. f_equal.
  rewrite (chain_fuel_agree (cs s) (cs s') n Hw clone_fb n i Hi). unfold chain.
  apply chain_fuel_enough; [exact Hw|exact Hi|lia].
Qed.

(** through every level that existed before, nothing changes *)
Theorem vclone_old_levels i' p : i' < n -> vget s' i' p = vget s i' p.
Proof.
  intro H. unfold vget, vowner. rewrite (clone_chain_old i' H).
  assert (Hlt : forall k, In k (chain (cs s) i') -> k < n) by (intros k; apply (chain_fuel_lt (cs s) n old_lt)).
  rewrite (first_owner_ext (cs s) (cs s') _ p (fun k Hk => clone_table_old k (Hlt k Hk))).
  destruct (first_owner (cs s) (chain (cs s) i') p) as [k|] eqn:E; [|reflexivity].
  apply first_owner_in in E as [Hk _]. cbn [vals s' vclone_xlat]. fold n.
  destruct (Nat.eqb k n) eqn:En; [apply Nat.eqb_eq in En; pose proof (Hlt k Hk); lia|reflexivity].
Qed.

(** the new level shows for EVERY key what the level it was cloned from shows:
    the private copies carry the values, everything else falls through *)
Theorem vclone_new_level p : vget s' n p = vget s i p.
Proof.
  unfold vget at 1, vowner. rewrite clone_chain_new. cbn [first_owner]. rewrite clone_table_new.
  destruct (in_dec cpath_eq_dec p priv) as [Hin|Hn].
  - cbn [vals s' vclone_xlat]. fold n. rewrite Nat.eqb_refl.
    destruct (in_dec cpath_eq_dec p priv); [reflexivity|contradiction].
  - assert (Hlt : forall k, In k (chain (cs s) i) -> k < n) by (intros k; apply (chain_fuel_lt (cs s) n old_lt)).
    rewrite (first_owner_ext (cs s) (cs s') _ p (fun k Hk => clone_table_old k (Hlt k Hk))).
    unfold vget, vowner. destruct (first_owner (cs s) (chain (cs s) i) p) as [k|] eqn:E; [|reflexivity].
    apply first_owner_in in E as [Hk _]. cbn [vals s' vclone_xlat]. fold n.
    destruct (Nat.eqb k n) eqn:En; [apply Nat.eqb_eq in En; pose proof (Hlt k Hk); lia|reflexivity].
Qed.

(** afterwards the two part ways exactly on the private paths: the clone's
    lookup of a private path ends in its own dictionary, of any other path where
    the original's lookup ends *)
Theorem vclone_owner p :
  vowner s' n p = if in_dec cpath_eq_dec p priv then Some n else vowner s i p.
Proof.
  unfold vowner. rewrite clone_chain_new. cbn [first_owner]. rewrite clone_table_new.
  destruct (in_dec cpath_eq_dec p priv); [reflexivity|].
  assert (Hlt : forall k, In k (chain (cs s) i) -> k < n) by (intros k; apply (chain_fuel_lt (cs s) n old_lt)).
  apply (first_owner_ext (cs s) (cs s') _ p (fun k Hk => clone_table_old k (Hlt k Hk))).
Qed.
End Clone.

(** the hypotheses of the clone theorems hold for the states the check replays *)
Theorem dwfb_sound c : dwfb c = true -> dwf c.
Proof.
  unfold dwfb. rewrite forallb_forall. intros H k d j Hd Hj.
  assert (Hk : k < length (dicts c)) by (apply nth_error_Some; unfold dict_at in Hd; rewrite Hd; discriminate).
  specialize (H k). rewrite Hd, Hj in H. apply Nat.ltb_lt. apply H. apply in_seq. lia.
Qed.

Theorem inv_tables_lt c : inv c -> forall a, In a (attrs c) -> a_table a < length (dicts c).
Proof.
  intros H a Hin. destruct (inv_alive c H a Hin) as (d & Hd & _). apply nth_error_Some.
  unfold dict_at in Hd. rewrite Hd. discriminate.
Qed.

Theorem dwf_clone c i priv : dwf c -> i < length (dicts c) -> dwf (clone_xlat_ref c i priv).
Proof.
  intros Hw Hi k d j Hd Hj. unfold dict_at in Hd. rewrite clone_dicts in Hd.
  destruct (Nat.lt_ge_cases k (length (dicts c))) as [Hk|Hk].
  - rewrite nth_error_app1 in Hd by (now rewrite length_add_ref). rewrite nth_add_ref in Hd.
    destruct (nth_error (dicts c) k) as [d0|] eqn:E0; [|discriminate]. injection Hd as <-.
    apply (Hw k d0 j E0). destruct (Nat.eqb k i); exact Hj.
  - rewrite nth_error_app2 in Hd by (now rewrite length_add_ref). rewrite length_add_ref in Hd.
    destruct (k - length (dicts c)) as [|m] eqn:Em.
    + cbn in Hd. injection Hd as <-. cbn in Hj. injection Hj as <-. lia.
    + cbn in Hd. destruct m; discriminate.
Qed.

Theorem vclone_values s i priv :
  dwf (cs s) -> i < length (dicts (cs s)) ->
  (forall a, In a (attrs (cs s)) -> a_table a < length (dicts (cs s))) ->
  let n := length (dicts (cs s)) in
  let s' := vclone_xlat s i priv in
  (forall i' p, i' < n -> vget s' i' p = vget s i' p) /\
  (forall p, vget s' n p = vget s i p) /\
  (forall p, vowner s' n p = if in_dec cpath_eq_dec p priv then Some n else vowner s i p).
Proof.
  intros Hw Hi Ht n s'. split; [|split]; intros.
  - apply vclone_old_levels; assumption.
  - apply vclone_new_level; assumption.
  - apply vclone_owner; assumption.
Qed.

(** concrete: three dictionaries on top of each other ([s_chain3]); a set of the
    private key through the top clone is seen there only, a set of the shared key
    through the top clone is seen through all three levels; a further clone of the
    top clone starts with the top clone's values *)
Definition v_chain3 : vstate := {| cs := s_chain3; vals := fun _ _ => None |}.
Example v_chain3_private :
  map (fun i => vget (vset v_chain3 2 [nm_xlat] (Some 7%N)) i [nm_xlat]) [0; 1; 2] = [None; None; Some 7%N].
Proof. vm_compute. reflexivity. Qed.
Example v_chain3_shared :
  map (fun i => vget (vset v_chain3 2 [nm_linux] (Some 9%N)) i [nm_linux]) [0; 1; 2] = [Some 9%N; Some 9%N; Some 9%N].
Proof. vm_compute. reflexivity. Qed.
Example v_chain3_clone :
  let s := vset (vset v_chain3 2 [nm_xlat] (Some 7%N)) 0 [nm_xlat] (Some 5%N) in
  let s' := vclone_xlat s 2 [[]; [nm_xlat]] in
  map (fun i => vget s' i [nm_xlat]) [0; 1; 2; 3] = [Some 5%N; None; Some 7%N; Some 7%N] /\
  dwfb (cs s') = true /\ invb (cs s') = true.
Proof. vm_compute. auto. Qed.
