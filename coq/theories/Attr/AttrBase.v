(** Shared vocabulary of the attribute models (C13, C14): status codes,
    outcomes (including the undefined-behaviour outcomes the C code could
    reach), byte strings, and a model of glibc's [strtoul]/[strtoull] as the
    attribute hooks use it ("C" locale, glibc 2.36: no binary prefix).

    Bytes are [N] (0..255); C strings are byte lists without the final NUL. *)
From Coq Require Import NArith ZArith List Bool.
From KdV Require Import Base.Wrap64.
Import ListNotations.
Local Open Scope N_scope.

(** [kdump_status] (include/libkdumpfile/kdumpfile.h), in enumerator order *)
Inductive status :=
| KDUMP_OK | ERR_SYSTEM | ERR_NOTIMPL | ERR_NODATA | ERR_CORRUPT | ERR_INVALID
| ERR_NOKEY | ERR_EOF | ERR_BUSY | ERR_ADDRXLAT.

Definition status_code (s : status) : N :=
  match s with
  | KDUMP_OK => 0 | ERR_SYSTEM => 1 | ERR_NOTIMPL => 2 | ERR_NODATA => 3
  | ERR_CORRUPT => 4 | ERR_INVALID => 5 | ERR_NOKEY => 6 | ERR_EOF => 7
  | ERR_BUSY => 8 | ERR_ADDRXLAT => 9
  end.

Definition status_eqb (a b : status) : bool := status_code a =? status_code b.

(** What a call can do: return a status, or run into behaviour the C standard
    leaves undefined (never a convenient default). *)
Inductive outcome :=
| St (s : status)
| BadShift          (* shift count >= width of the type, or of a negative value *)
| Undef             (* an uninitialised variable is returned *)
| OutOfFuel.        (* the model's recursion bound was too small (never, see proofs) *)

Definition is_ok (o : outcome) : bool :=
  match o with St KDUMP_OK => true | _ => false end.

(** byte strings *)
Definition bytes := list N.

Fixpoint bytes_eqb (a b : bytes) : bool :=
  match a, b with
  | [], [] => true
  | x :: a', y :: b' => (x =? y) && bytes_eqb a' b'
  | _, _ => false
  end.

(** ** strtoul / strtoull (unsigned long = unsigned long long = 64 bits) *)

Definition isspace (c : N) : bool := (c =? 32) || ((9 <=? c) && (c <=? 13)).

Definition digit_val (c : N) : option N :=
  if (48 <=? c) && (c <=? 57) then Some (c - 48)
  else if (97 <=? c) && (c <=? 122) then Some (c - 87)
  else if (65 <=? c) && (c <=? 90) then Some (c - 55)
  else None.

Fixpoint skip_space (s : bytes) : bytes :=
  match s with
  | c :: t => if isspace c then skip_space t else s
  | [] => []
  end.

(** the digit loop: accumulated value, "overflowed", "at least one digit",
    and the unconsumed rest *)
Fixpoint digits (base : N) (s : bytes) (acc : N) (ovf any : bool)
  : N * bool * bool * bytes :=
  match s with
  | c :: t =>
      match digit_val c with
      | Some d =>
          if d <? base then
            let acc' := acc * base + d in
            if ovf || (W <=? acc') then digits base t acc true true
            else digits base t acc' false true
          else (acc, ovf, any, s)
      | None => (acc, ovf, any, s)
      end
  | [] => (acc, ovf, any, [])
  end.

Definition is_x (c : N) : bool := (c =? 120) || (c =? 88).

(** [strtoull base s] = (value, the string at [*endptr]).  [base] is 0, 10 or 16
    at the call sites. *)
Definition strtoull (base : N) (s : bytes) : N * bytes :=
  let s1 := skip_space s in
  let '(neg, s2) :=
    match s1 with
    | c :: t => if c =? 45 then (true, t) else if c =? 43 then (false, t) else (false, s1)
    | [] => (false, s1)
    end in
  let dflt := if base =? 0 then 10 else base in
  let '(b, s3, atx) :=
    match s2 with
    | c :: x :: t =>
        if (c =? 48) && is_x x && ((base =? 16) || (base =? 0)) then (16, t, Some (x :: t))
        else if (c =? 48) && (base =? 0) then (8, s2, None)
        else (dflt, s2, None)
    | [c] => if (c =? 48) && (base =? 0) then (8, s2, None) else (dflt, s2, None)
    | [] => (dflt, s2, None)
    end in
  let '(v, ovf, any, rest) := digits b s3 0 false false in
  if any then ((if ovf then MAXA else if neg then wsub 0 v else v), rest)
  else match atx with
       | Some px => (0, px)        (* "0x" without a hex digit: the "0" is the number *)
       | None => (0, s)            (* no conversion: endptr = nptr *)
       end.

(** [endp == p] after [strtoul(p, &endp, ...)]: no conversion was performed.
    Without a conversion [strtoull] returns the argument itself, otherwise a
    strictly shorter string. *)
Definition noconv (s rest : bytes) : bool := Nat.eqb (length rest) (length s).

(** splitting a key at dots, as [create_attr_path]/[keycmp] see it *)
Fixpoint split_on_rev (sep : N) (s : bytes) (cur : bytes) : list bytes :=
  match s with
  | [] => [rev cur]
  | c :: t => if c =? sep then rev cur :: split_on_rev sep t [] else split_on_rev sep t (c :: cur)
  end.
Definition split_on (sep : N) (s : bytes) : list bytes := split_on_rev sep s [].

Fixpoint join_with (sep : N) (l : list bytes) : bytes :=
  match l with
  | [] => []
  | [x] => x
  | x :: t => x ++ sep :: join_with sep t
  end.

Definition DOT : N := 46.
Definition NL : N := 10.
Definition EQ : N := 61.
Definition LPAR : N := 40.
Definition RPAR : N := 41.

(** ASCII literals used by the hooks *)
Definition s_PAGESIZE : bytes := [80;65;71;69;83;73;90;69].
Definition s_OSRELEASE : bytes := [79;83;82;69;76;69;65;83;69].
Definition s_SYMBOL : bytes := [83;89;77;66;79;76].
Definition s_LENGTH : bytes := [76;69;78;71;84;72].
Definition s_NUMBER : bytes := [78;85;77;66;69;82].
Definition s_OFFSET : bytes := [79;70;70;83;69;84].
Definition s_SIZE : bytes := [83;73;90;69].
Definition s_phys_base : bytes := [112;104;121;115;95;98;97;115;101].
