(** Proofs about [Attr/AttrHash.v]: [keycmp] answers 0 exactly for the attribute
    whose path below [dir] is the key, and the bucket lookup returns the
    attribute with exactly the looked-up path, for every hash function. *)
From Coq Require Import NArith ZArith List Bool Lia.
From KdV Require Import Base.Wrap64 Attr.AttrBase Attr.AttrHash Attr.VmcoreinfoProofs.
Import ListNotations.
Local Open Scope N_scope.

Lemma beq_eq a : forall b, bytes_eqb a b = true <-> a = b.
Proof.
  induction a as [|x a IH]; intros [|y b]; cbn; split; intro H; try discriminate; try reflexivity.
  - apply andb_prop in H as [H1 H2]. apply N.eqb_eq in H1. apply IH in H2. congruence.
  - injection H as -> ->. rewrite N.eqb_refl. cbn. now apply IH.
Qed.

Lemma beq_refl a : bytes_eqb a a = true.
Proof. now apply beq_eq. Qed.

Definition dotfree (s : bytes) : Prop := Forall (fun c => c <> DOT) s.

Lemma cut_dot_none s : dotfree s -> cut_dot s = None.
Proof.
  induction s as [|c t IH]; intro H; [reflexivity|]. inversion H as [|? ? Hc Ht]; subst.
  cbn [cut_dot]. destruct (c =? DOT) eqn:E; [apply N.eqb_eq in E; contradiction|].
  now rewrite IH.
Qed.

Lemma cut_dot_app x y : dotfree x -> cut_dot (x ++ DOT :: y) = Some (x, y).
Proof.
  induction x as [|c t IH]; intro H; cbn [app cut_dot].
  - now rewrite N.eqb_refl.
  - inversion H as [|? ? Hc Ht]; subst.
    destruct (c =? DOT) eqn:E; [apply N.eqb_eq in E; contradiction|]. now rewrite IH.
Qed.

Lemma dotfree_rev s : dotfree s -> dotfree (rev s).
Proof. unfold dotfree. intro H. apply Forall_forall. intros c Hc. apply in_rev in Hc. revert c Hc. now apply Forall_forall. Qed.

Lemma rcut_dot_none s : dotfree s -> rcut_dot s = None.
Proof. intro H. unfold rcut_dot. now rewrite cut_dot_none by now apply dotfree_rev. Qed.

Lemma rcut_dot_app b a : dotfree a -> rcut_dot (b ++ DOT :: a) = Some (b, a).
Proof.
  intro H. unfold rcut_dot. rewrite rev_app_distr. cbn [rev]. rewrite <- app_assoc. cbn [app].
  rewrite cut_dot_app by now apply dotfree_rev. now rewrite !rev_involutive.
Qed.

(** joining *)
Lemma join_snoc init last : init <> [] ->
  join_with DOT (init ++ [last]) = join_with DOT init ++ DOT :: last.
Proof.
  induction init as [|x t IH]; intro H; [congruence|].
  destruct t as [|y t].
  - reflexivity.
  - change ((x :: y :: t) ++ [last]) with (x :: (y :: t) ++ [last]).
    change (join_with DOT (x :: (y :: t) ++ [last])) with
      (x ++ DOT :: join_with DOT ((y :: t) ++ [last])).
    rewrite IH by discriminate. cbn [join_with]. now rewrite <- app_assoc.
Qed.

Lemma join_nil_iff l : l <> [] -> (join_with DOT l = [] <-> l = [[]]).
Proof.
  intro H. destruct l as [|x [|y t]]; [congruence| |].
  - cbn. split; intro E; [now subst|now injection E].
  - cbn [join_with]. split; intro E; [|discriminate]. destruct x; discriminate.
Qed.

(** components of a key: none empty list, no dot inside; the key does not start
    with a dot (lookup_dir_attr strips a leading dot before hashing) *)
Definition valid (comps : list bytes) : Prop :=
  comps <> [] /\ Forall dotfree comps /\ (length comps = 1%nat \/ hd [] comps <> []).

Lemma valid_init init last : valid (init ++ [last]) -> init <> [] ->
  valid init /\ join_with DOT init <> [].
Proof.
  intros (Hne & Hdf & Hhd) Hi. apply Forall_app in Hdf as [Hdf _].
  assert (Hv : length init = 1%nat \/ hd [] init <> []).
  { destruct init as [|x [|y t]]; [congruence|now left|right].
    destruct Hhd as [Hl|Hh]; [rewrite app_length in Hl; cbn in Hl; lia|exact Hh]. }
  split; [repeat split; assumption|].
  intro E. apply join_nil_iff in E; [|exact Hi]. subst init.
  destruct Hhd as [Hl|Hh]; [cbn in Hl; discriminate|]. now apply Hh.
Qed.

(** what the loop computes: strip the components (last first) off the chain;
    after every component there must be a parent *)
Fixpoint strip (rc : list bytes) (ch : chain) : option chain :=
  match rc with
  | [] => Some ch
  | c :: rc' =>
      match ch with
      | (k, _) :: up =>
          if bytes_eqb k c then match up with [] => None | _ => strip rc' up end else None
      | [] => None
      end
  end.

Lemma join_length_snoc init last : init <> [] ->
  (length (join_with DOT init) < length (join_with DOT (init ++ [last])))%nat.
Proof. intro H. rewrite join_snoc by exact H. rewrite app_length. cbn. lia. Qed.

Lemma match_nonnil {A B} (l : list A) (a b : B) :
  l <> [] -> match l with [] => a | _ :: _ => b end = b.
Proof. destruct l; [congruence|reflexivity]. Qed.

Lemma loop_spec comps : forall fuel ch,
  valid comps -> (length (join_with DOT comps) < fuel)%nat ->
  keycmp_loop fuel ch (join_with DOT comps) = strip (rev comps) ch.
Proof.
  induction comps as [|last init IH] using rev_ind; intros fuel ch Hv Hf.
  - destruct Hv as [H _]. congruence.
  - destruct fuel as [|f]; [lia|]. cbn [keycmp_loop]. rewrite rev_app_distr. cbn [rev app strip].
    destruct ch as [|[k t] up]; [reflexivity|].
    assert (Hdl : dotfree last).
    { destruct Hv as (_ & Hdf & _). apply Forall_app in Hdf as [_ Hl]. now inversion Hl. }
    destruct init as [|x init'].
    + cbn [app join_with]. rewrite rcut_dot_none by exact Hdl.
      destruct (bytes_eqb k last); [|reflexivity]. destruct up; reflexivity.
    + assert (Hi : x :: init' <> []) by discriminate.
      destruct (valid_init _ _ Hv Hi) as [Hvi Hjn].
      rewrite join_snoc by exact Hi. rewrite rcut_dot_app by exact Hdl.
      destruct (bytes_eqb k last); [|reflexivity].
      destruct up as [|u up']; [reflexivity|].
      rewrite (match_nonnil _ _ _ Hjn). apply IH; [exact Hvi|].
      pose proof (join_length_snoc (x :: init') last Hi). lia.
Qed.

(** the chain matches: its first keys are the components (last first) and the
    next attribute up is [dir] *)
Fixpoint matches (rc : list bytes) (ch : chain) (dt : N) : Prop :=
  match rc, ch with
  | [], (_, t) :: _ => t = dt
  | c :: rc', (k, _) :: up => k = c /\ matches rc' up dt
  | _, _ => False
  end.

Lemma strip_matches rc : forall ch dt, rc <> [] ->
  (match strip rc ch with Some ((_, t) :: _) => t =? dt | _ => false end = true
   <-> matches rc ch dt).
Proof.
  induction rc as [|c rc IH]; intros ch dt Hne; [congruence|].
  cbn [strip matches]. destruct ch as [|[k t] up]; [split; [discriminate|tauto]|].
  destruct (bytes_eqb k c) eqn:E.
  - apply beq_eq in E. subst k. destruct rc as [|c2 rc2].
    + cbn [strip matches]. destruct up as [|[k2 t2] up2].
      * split; [discriminate|]. intros [_ []].
      * rewrite N.eqb_eq. tauto.
    + destruct up as [|u up'].
      * split; [discriminate|]. intros [_ H]. destruct H.
      * rewrite (IH (u :: up') dt ltac:(discriminate)). tauto.
  - split; [discriminate|]. intros [H _]. subst k. rewrite beq_refl in E. discriminate.
Qed.

(** [keycmp] is exact: it answers 0 iff the attribute's keys, from itself
    upwards, are the components of the key and the next ancestor is [dir] *)
Theorem keycmp_exact comps ch dt :
  valid comps ->
  (keycmp ch dt (join_with DOT comps) = true <-> matches (rev comps) ch dt).
Proof.
  intro Hv. unfold keycmp. rewrite (loop_spec comps _ ch Hv) by lia.
  apply strip_matches. destruct Hv as [Hne _]. intro E. apply Hne.
  apply (f_equal (@rev bytes)) in E. now rewrite rev_involutive in E.
Qed.

(** * the bucket lookup *)
Section Table.
Variable hash : bytes -> N.
Variable tmpl : list bytes -> N.
Hypothesis tmpl_inj : forall a b, tmpl a = tmpl b -> a = b.

Lemma matches_chain rc : forall rp dir,
  matches rc (chain_up tmpl rp) (tmpl dir) <-> rp = rc ++ rev dir.
Proof.
  induction rc as [|c rc IH]; intros rp dir.
  - cbn [matches app]. destruct rp as [|k rp']; cbn [chain_up].
    + split; intro H.
      * apply tmpl_inj in H. now subst.
      * symmetry in H. apply (f_equal (@rev bytes)) in H. rewrite rev_involutive in H. now subst.
    + split; intro H.
      * apply tmpl_inj in H. rewrite <- H. now rewrite rev_involutive.
      * rewrite H. now rewrite rev_involutive.
  - cbn [matches app]. destruct rp as [|k rp']; cbn [chain_up].
    + split; [intros [_ H]; destruct rc; destruct H|discriminate].
    + rewrite IH. split.
      * intros [-> ->]. reflexivity.
      * intro H. injection H as -> ->. tauto.
Qed.

Lemma join_app_key dir comps : comps <> [] ->
  join_with DOT (dir ++ comps) = hstring dir (join_with DOT comps).
Proof.
  intro Hc. unfold hstring. induction dir as [|x t IH]; [reflexivity|].
  destruct t as [|y t].
  - cbn [app]. destruct comps as [|c cs]; [congruence|]. reflexivity.
  - change ((x :: y :: t) ++ comps) with (x :: (y :: t) ++ comps).
    change (join_with DOT (x :: (y :: t) ++ comps)) with (x ++ DOT :: join_with DOT ((y :: t) ++ comps)).
    rewrite IH. cbn [join_with]. now rewrite <- app_assoc.
Qed.

(** for every hash function: looking up [key] below [dir] returns the attribute
    whose path is [dir ++ components of key] if the table has it, nothing otherwise *)
Theorem lookup_hash_exact table dir comps :
  valid comps ->
  lookup_hash hash tmpl table dir (join_with DOT comps) =
  if in_dec (list_eq_dec (list_eq_dec N.eq_dec)) (dir ++ comps) table
  then Some (dir ++ comps) else None.
Proof.
  intros Hv. unfold lookup_hash.
  assert (Hk : forall p, keycmp (chain_of tmpl p) (tmpl dir) (join_with DOT comps) = true
                         <-> p = dir ++ comps).
  { intro p. rewrite (keycmp_exact comps _ _ Hv). unfold chain_of. rewrite matches_chain.
    split; intro H.
    - apply (f_equal (@rev bytes)) in H. rewrite rev_involutive, rev_app_distr, !rev_involutive in H. exact H.
    - subst p. now rewrite rev_app_distr. }
  destruct (in_dec (list_eq_dec (list_eq_dec N.eq_dec)) (dir ++ comps) table) as [Hin|Hnin].
  - (* present: it is in its bucket, and it is the only attribute keycmp accepts *)
    set (flt := filter _ table).
    assert (Hinf : In (dir ++ comps) flt).
    { apply filter_In. split; [exact Hin|]. apply N.eqb_eq. f_equal.
      apply join_app_key. now destruct Hv. }
    clearbody flt. induction flt as [|p l IHl]; [contradiction|].
    cbn [find]. destruct (keycmp (chain_of tmpl p) (tmpl dir) (join_with DOT comps)) eqn:E.
    + apply Hk in E. now subst.
    + destruct Hinf as [->|Hinf]; [|now apply IHl].
      rewrite (proj2 (Hk (dir ++ comps)) eq_refl) in E. discriminate.
  - set (flt := filter _ table).
    assert (Hsub : forall p, In p flt -> In p table) by (intros p Hp; now apply filter_In in Hp).
    clearbody flt. induction flt as [|p l IHl]; [reflexivity|].
    cbn [find]. destruct (keycmp (chain_of tmpl p) (tmpl dir) (join_with DOT comps)) eqn:E.
    + apply Hk in E. subst p. exfalso. apply Hnin. apply Hsub. now left.
    + apply IHl. intros q Hq. apply Hsub. now right.
Qed.

(** the same for a key as the API passes it (after lookup_dir_attr has stripped
    one leading dot): any byte string that does not start with a dot *)
Lemma split_on_rev_dotfree s : forall cur, dotfree cur -> Forall dotfree (split_on_rev DOT s cur).
Proof.
  induction s as [|c t IH]; intros cur Hc; cbn [split_on_rev].
  - constructor; [now apply dotfree_rev|constructor].
  - destruct (c =? DOT) eqn:E.
    + constructor; [now apply dotfree_rev|]. apply IH. constructor.
    + apply IH. constructor; [|exact Hc]. intro H. subst c. now rewrite N.eqb_refl in E.
Qed.

Lemma split_on_rev_hd s : forall cur, cur <> [] -> hd [] (split_on_rev DOT s cur) <> [].
Proof.
  induction s as [|c t IH]; intros cur Hc; cbn [split_on_rev].
  - cbn. intro E. apply Hc. apply (f_equal (@rev N)) in E. now rewrite rev_involutive in E.
  - destruct (c =? DOT).
    + cbn. intro E. apply Hc. apply (f_equal (@rev N)) in E. now rewrite rev_involutive in E.
    + apply IH. discriminate.
Qed.

Definition no_leading_dot (key : bytes) : Prop :=
  match key with c :: _ => c <> DOT | [] => True end.

Lemma split_valid key : no_leading_dot key -> valid (split_on DOT key).
Proof.
  intro H. split; [apply split_on_nonempty|]. split; [apply split_on_rev_dotfree; constructor|].
  destruct key as [|c t]; [now left|]. right. unfold split_on. cbn [split_on_rev].
  cbn in H. destruct (c =? DOT) eqn:E; [apply N.eqb_eq in E; contradiction|].
  apply split_on_rev_hd. discriminate.
Qed.

Theorem lookup_hash_key table dir key :
  no_leading_dot key ->
  lookup_hash hash tmpl table dir key =
  if in_dec (list_eq_dec (list_eq_dec N.eq_dec)) (dir ++ split_on DOT key) table
  then Some (dir ++ split_on DOT key) else None.
Proof.
  intro H. rewrite <- (join_split DOT key) at 1. apply lookup_hash_exact. now apply split_valid.
Qed.
End Table.
