(** Model of the chain of attribute dictionaries behind cloned contexts
    (src/kdumpfile/attr.c [attr_dict_clone], [lookup_dir_attr] with the
    fallback loop, [owner_dict] / [alloc_attr] as repaired by /repo commit
    34936d6, [new_attr], [attr_dict_free]; context.c [kdump_clone], [kdump_free]).

    Every dictionary has its own hash table and an optional fallback dictionary;
    a KDUMP_CLONE_XLAT clone's dictionary holds private copies of the [addrxlat]
    attributes and falls back to the dictionary of the context it was cloned
    from, so chains of any length arise.  An attribute is a record: its path,
    the dictionary whose HASH TABLE holds it, and the dictionary in whose TREE
    (below whose root) it is linked.  The two can differ only through a faulty
    [owner_dict]; then freeing the table's dictionary leaves the tree with a
    dangling entry.  Values are not part of this model ([AttrTree.v] has them). *)
From Coq Require Import NArith List Bool Arith.
From KdV Require Import Base.Wrap64 Attr.AttrBase Attr.AttrHash.
Import ListNotations.

Definition cpath := list bytes.

Record cattr := { a_path : cpath; a_table : nat; a_tree : nat }.

(** a dictionary: alive?, fallback, reference count (contexts + dictionaries falling back to it) *)
Record cdict := { d_alive : bool; d_fallback : option nat; d_refs : nat }.

Record cstate := { dicts : list cdict; attrs : list cattr }.

Definition cpath_eq_dec : forall a b : cpath, {a = b} + {a <> b} :=
  list_eq_dec (list_eq_dec N.eq_dec).

Definition dict_at (s : cstate) (k : nat) : option cdict := nth_error (dicts s) k.

(** the fallback chain of dictionary [i]: i, its fallback, ... (fallbacks have smaller numbers) *)
Fixpoint chain_fuel (fuel : nat) (s : cstate) (i : nat) : list nat :=
  match fuel with
  | O => []
  | S f =>
      match dict_at s i with
      | Some d => i :: match d_fallback d with Some j => chain_fuel f s j | None => [] end
      | None => []
      end
  end.
Definition chain (s : cstate) (i : nat) : list nat := chain_fuel (S i) s i.

(** the paths in the hash table of dictionary [k] *)
Definition table (s : cstate) (k : nat) : list cpath :=
  map a_path (filter (fun a => Nat.eqb (a_table a) k) (attrs s)).

Section Lookup.
Variable hash : bytes -> N.
Variable tmpl : cpath -> N.

(** lookup_dir_attr(dict, dir, key) without a leading dot:
    do { bucket search in dict's table with keycmp } while ((dict = dict->fallback)) *)
Fixpoint lookup_in (s : cstate) (ks : list nat) (dir : cpath) (key : bytes) : option (nat * cpath) :=
  match ks with
  | [] => None
  | k :: rest =>
      match lookup_hash hash tmpl (table s k) dir key with
      | Some p => Some (k, p)
      | None => lookup_in s rest dir key
      end
  end.
Definition lookup_chain (s : cstate) (i : nat) (dir : cpath) (key : bytes) := lookup_in s (chain s i) dir key.
End Lookup.

(** the dictionary semantics: the first dictionary of the chain that has the path *)
Fixpoint first_owner (s : cstate) (ks : list nat) (p : cpath) : option nat :=
  match ks with
  | [] => None
  | k :: rest => if in_dec cpath_eq_dec p (table s k) then Some k else first_owner s rest p
  end.

(** owner_dict(dict i, attr): walk the chain until the dictionary whose table holds
    THIS attribute (pointer identity: the attribute's own table); a dictionary
    without fallback ends the walk *)
Fixpoint owner_in (ks : list nat) (a : cattr) : option nat :=
  match ks with
  | [] => None
  | [k] => Some k
  | k :: rest => if Nat.eqb k (a_table a) then Some k else owner_in rest a
  end.
Definition owner_dict (s : cstate) (i : nat) (a : cattr) : nat :=
  match owner_in (chain s i) a with Some k => k | None => i end.

(** new_attr(dict i, parent, template with key c): linked into the parent's directory
    (the parent's tree), hashed into owner_dict(i, parent) *)
Definition create (s : cstate) (i : nat) (parent : cattr) (c : bytes) : cstate :=
  {| dicts := dicts s;
     attrs := {| a_path := a_path parent ++ [c]; a_table := owner_dict s i parent;
                 a_tree := a_tree parent |} :: attrs s |}.

(** attr_dict_free(dict k): dealloc_attr(root) frees everything in k's tree; the
    table goes with the dictionary; the fallback loses a reference *)
Fixpoint kill (k : nat) (ds : list cdict) : list cdict :=
  match ds, k with
  | [], _ => []
  | d :: t, O => {| d_alive := false; d_fallback := d_fallback d; d_refs := 0 |} :: t
  | d :: t, S k' => d :: kill k' t
  end.

Definition free_dict (s : cstate) (k : nat) : cstate :=
  {| dicts := kill k (dicts s); attrs := filter (fun a => negb (Nat.eqb (a_tree a) k)) (attrs s) |}.

(** an entry of a dead dictionary's hash table that is still linked in a living tree *)
Definition dangling (s : cstate) (a : cattr) : Prop :=
  In a (attrs s) /\ match dict_at s (a_table a) with Some d => d_alive d = false | None => True end.

(** kdump_clone(ctx with dictionary i, KDUMP_CLONE_XLAT): a new dictionary that falls
    back to i and owns private copies of the given paths (the root and the addrxlat subtree) *)
Definition clone_xlat (s : cstate) (i : nat) (priv : list cpath) : cstate :=
  let n := length (dicts s) in
  {| dicts := dicts s ++ [{| d_alive := true; d_fallback := Some i; d_refs := 1 |}];
     attrs := map (fun p => {| a_path := p; a_table := n; a_tree := n |}) priv ++ attrs s |}.

(** * reference counts, creation of a whole path, removal (the executable part
    that the correspondence check replays against the real hash tables) *)
Fixpoint add_ref (k : nat) (up : bool) (ds : list cdict) : list cdict :=
  match ds, k with
  | [], _ => []
  | d :: t, O => {| d_alive := d_alive d; d_fallback := d_fallback d;
                    d_refs := if up then S (d_refs d) else pred (d_refs d) |} :: t
  | d :: t, S k' => d :: add_ref k' up t
  end.
(** a context (or a fallback pointer) takes a reference to dictionary k *)
Definition ref_dict (s : cstate) (k : nat) : cstate := {| dicts := add_ref k true (dicts s); attrs := attrs s |}.
(** kdump_clone(.., 0): the new context shares dictionary k *)
Definition clone_shared (s : cstate) (k : nat) : cstate := ref_dict s k.
(** kdump_clone(.., KDUMP_CLONE_XLAT): the new dictionary's fallback pointer holds a reference to i *)
Definition clone_xlat_ref (s : cstate) (i : nat) (priv : list cpath) : cstate := clone_xlat (ref_dict s i) i priv.

(** attr_dict_decref: the last reference frees the dictionary and releases its fallback *)
Fixpoint release (fuel : nat) (s : cstate) (k : nat) : cstate :=
  match fuel with
  | O => s
  | S f =>
      match dict_at s k with
      | Some d =>
          if d_alive d then
            if Nat.leb (d_refs d) 1 then
              let s' := free_dict s k in
              match d_fallback d with Some j => release f s' j | None => s' end
            else {| dicts := add_ref k false (dicts s); attrs := attrs s |}
          else s
      | None => s
      end
  end.

(** the attribute with path p in the table of dictionary k *)
Definition attr_in (s : cstate) (k : nat) (p : cpath) : option cattr :=
  find (fun a => Nat.eqb (a_table a) k && if cpath_eq_dec (a_path a) p then true else false) (attrs s).

(** create_attr_path(dict i, ..): every missing component is created below the
    directory found through the chain of i *)
Fixpoint create_path (s : cstate) (i : nat) (done : cpath) (todo : list bytes) : cstate :=
  match todo with
  | [] => s
  | c :: rest =>
      match first_owner s (chain s i) (done ++ [c]) with
      | Some _ => create_path s i (done ++ [c]) rest
      | None =>
          match first_owner s (chain s i) done with
          | Some k =>
              match attr_in s k done with
              | Some parent => create_path (create s i parent c) i (done ++ [c]) rest
              | None => s
              end
          | None => s
          end
      end
  end.

Fixpoint prefixb (p q : cpath) : bool :=
  match p, q with
  | [], _ => true
  | _, [] => false
  | x :: p', y :: q' => if list_eq_dec N.eq_dec x y then prefixb p' q' else false
  end.
(** dealloc_attr(the attribute with path p found through level i): it and everything
    below leave the tree and the tables; [strict]: only what is below it (dealloc_vmcoreinfo) *)
Definition remove_below (s : cstate) (i : nat) (p : cpath) (strict : bool) : cstate :=
  match first_owner s (chain s i) p with
  | Some k => {| dicts := dicts s;
                 attrs := filter (fun a => negb (Nat.eqb (a_tree a) k && prefixb p (a_path a) &&
                                                 (negb strict || Nat.ltb (length p) (length (a_path a)))))
                                 (attrs s) |}
  | None => s
  end.

(** the paths that clone_xlat_attrs copies into the new dictionary: the given single
    attributes (root, addrxlat, addrxlat.ostype) and the whole subtrees of the given
    directories (addrxlat.default, addrxlat.force), as seen through level i *)
Definition clone_priv (s : cstate) (i : nat) (singles roots : list cpath) : list cpath :=
  singles ++ filter (fun p => existsb (fun r => prefixb r p) roots)
                    (nodup cpath_eq_dec (concat (map (table s) (chain s i)))).

(** decidable well-formedness, evaluated by the check on every state it replays *)
Definition invb (s : cstate) : bool :=
  forallb (fun a =>
    Nat.eqb (a_table a) (a_tree a) &&
    match dict_at s (a_table a) with Some d => d_alive d | None => false end &&
    match rev (a_path a) with
    | [] => true
    | _ :: rq => if in_dec cpath_eq_dec (rev rq) (table s (a_table a)) then true else false
    end) (attrs s).

(** the observable side: live dictionaries, chain of a level, sorted-insensitive table *)
Definition alive_dicts (s : cstate) : list nat :=
  filter (fun k => match dict_at s k with Some d => d_alive d | None => false end) (seq 0 (length (dicts s))).
(** attributes hashed in one dictionary but linked in the tree of another *)
Definition misplaced (s : cstate) : list cattr := filter (fun a => negb (Nat.eqb (a_table a) (a_tree a))) (attrs s).
