(** Model of the attribute store for keys without set/clear hooks
    (src/kdumpfile/attr.c [lookup_dir_attr], [lookup_attr], [set_attr],
    [instantiate_path], [check_set_attr], [clear_attr], [clear_single_attr],
    [clear_volatile], [kdump_get_attr], [kdump_attr_ref*], [kdump_sub_attr_ref],
    [kdump_set_sub_attr], [set_iter_pos], [attr_iter_start], [kdump_attr_iter_next],
    [attr_dict_clone], [clone_attr_path], [clone_subtree], [copy_data];
    src/kdumpfile/context.c [kdump_clone], [clone_xlat_attrs]).

    A dictionary is a tree of nodes in sibling-list order.  The hash table is
    abstracted: looking a dotted path up below a directory is resolving its
    components downwards, which is what the hash lookup + [keycmp] compute for
    every hash function.  A clone made with KDUMP_CLONE_XLAT has its own
    dictionary (an overlay holding a copy of the [addrxlat] subtree) with the
    cloned context's dictionary as fallback; a key that starts with a dot is
    looked up without the fallback.

    References and iterator positions are node addresses (dictionary, path):
    attributes without hooks are never freed while their dictionary lives. *)
From Coq Require Import NArith ZArith List Bool.
From KdV Require Import Base.Wrap64 Attr.AttrBase.
Import ListNotations.
Local Open Scope N_scope.

(** kdump_attr_type_t *)
Inductive atype := TNil | TDir | TNum | TAddr | TStr | TBmp | TBlob.

Definition atype_eqb (a b : atype) : bool :=
  match a, b with
  | TNil, TNil | TDir, TDir | TNum, TNum | TAddr, TAddr | TStr, TStr
  | TBmp, TBmp | TBlob, TBlob => true
  | _, _ => false
  end.

(** values; bitmaps and blobs are objects known by identity *)
Inductive aval := VNone | VNum (n : N) | VAddr (n : N) | VStr (s : bytes) | VObj (id : N).

(** struct attr_data: template key and type, flags.isset, flags.persist, value, children *)
Inductive anode :=
  ANode (key : bytes) (ty : atype) (isset persist : bool) (val : aval) (kids : list anode).

Definition akey (n : anode) := let 'ANode k _ _ _ _ _ := n in k.
Definition aty (n : anode) := let 'ANode _ t _ _ _ _ := n in t.
Definition aisset (n : anode) := let 'ANode _ _ i _ _ _ := n in i.
Definition apersist (n : anode) := let 'ANode _ _ _ p _ _ := n in p.
Definition aval_of (n : anode) := let 'ANode _ _ _ _ v _ := n in v.
Definition akids (n : anode) := let 'ANode _ _ _ _ _ k := n in k.

Definition path := list bytes.

(** position of the first sibling with a key *)
Fixpoint child_index (k : bytes) (l : list anode) : option nat :=
  match l with
  | [] => None
  | n :: t => if bytes_eqb (akey n) k then Some O
              else match child_index k t with Some i => Some (S i) | None => None end
  end.

Definition child (k : bytes) (l : list anode) : option anode :=
  match child_index k l with Some i => nth_error l i | None => None end.

(** the node at a path below a node ([] = the node itself) *)
Fixpoint node_at (p : path) (n : anode) : option anode :=
  match p with
  | [] => Some n
  | c :: rest => match child c (akids n) with
                 | Some m => node_at rest m
                 | None => None
                 end
  end.

Fixpoint replace_nth {A} (i : nat) (x : A) (l : list A) : list A :=
  match l, i with
  | [], _ => []
  | _ :: t, O => x :: t
  | a :: t, S j => a :: replace_nth j x t
  end.

Definition mark_set (n : anode) : anode :=
  let 'ANode k t _ p v kids := n in ANode k t true p v kids.

(** apply [f] to the node at [p].  With [inst], instantiate_path runs on the
    parent of that node: while (!attr_isset(attr)) { attr->flags.isset = 1;
    attr = attr->parent; } — ancestors are marked set from the parent upwards
    until one is found that is set already.  The boolean result tells the
    caller (the level above) whether the walk reaches it. *)
Fixpoint update_at (p : path) (f : anode -> anode) (inst : bool) (n : anode) : anode * bool :=
  match p with
  | [] => (f n, inst)
  | c :: rest =>
      match child_index c (akids n) with
      | Some i =>
          match nth_error (akids n) i with
          | Some m =>
              let '(m', up) := update_at rest f inst m in
              let 'ANode k t s pe v kids := (if up then mark_set n else n) in
              (ANode k t s pe v (replace_nth i m' kids), up && negb (aisset n))
          | None => (n, false)
          end
      | None => (n, false)
      end
  end.

(* set_attr with ATTR_PERSIST: value stored (not for directories), flags = isset + persist *)
Definition store_val (v : aval) (n : anode) : anode :=
  let 'ANode k t _ _ old kids := n in
  ANode k t true true (match t with TDir => old | _ => v end) kids.

(* set_attr with ATTR_DEFAULT (values taken from a dump file): flags = isset only *)
Definition store_default (v : aval) (n : anode) : anode :=
  let 'ANode k t _ _ old kids := n in
  ANode k t true false (match t with TDir => old | _ => v end) kids.

(* clear_attr: children first (directories only have children), then
   clear_single_attr: isset = 0; the other flags stay *)
Fixpoint clear_node (n : anode) : anode :=
  let 'ANode k t _ p v kids := n in ANode k t false p v (map clear_node kids).

(* clear_volatile: returns the node and "something below or here is persistent" *)
Fixpoint clear_volatile (n : anode) : anode * bool :=
  let 'ANode k t s p v kids := n in
  let r := map clear_volatile kids in
  let persist := p || existsb snd r in
  (ANode k t (if persist then s else false) p v (map fst r), persist).

Definition val_type (v : aval) (want : atype) : bool :=
  match v, want with
  | VNum _, TNum | VAddr _, TAddr | VStr _, TStr | VObj _, TBmp | VObj _, TBlob
  | VNone, TDir => true
  | _, _ => false
  end.

(** ** dictionaries, contexts, references *)

(** a key as the API takes it: [None] = NULL (the root directory); otherwise
    "no fallback" (leading dot) and the components *)
Definition akeyarg := option (bool * path).

(** dictionary 0 is the original one; dictionary [S k] is the overlay of the
    k-th KDUMP_CLONE_XLAT clone ([None] once freed) *)
Record astate := {
  base : anode;
  overlays : list (option anode);
  ctxs : list (option nat);                    (* context -> dictionary *)
  refs : list (option (nat * path));           (* reference slot -> node address *)
  iters : list (option (nat * path * option nat))  (* iterator: directory address, child index / end *)
}.

Definition dict_root (d : nat) (s : astate) : option anode :=
  match d with
  | O => Some (base s)
  | S k => match nth_error (overlays s) k with Some (Some r) => Some r | _ => None end
  end.

Definition addr_node (a : nat * path) (s : astate) : option anode :=
  match dict_root (fst a) s with
  | Some r => node_at (snd a) r
  | None => None
  end.

(** lookup_attr / lookup_dir_attr from dictionary [d] for the full path [p] *)
Definition resolve (d : nat) (nofallback : bool) (p : path) (s : astate) : option (nat * path) :=
  match d with
  | O => match node_at p (base s) with Some _ => Some (O, p) | None => None end
  | S _ =>
      match addr_node (d, p) s with
      | Some _ => Some (d, p)
      | None =>
          if nofallback then None
          else match node_at p (base s) with Some _ => Some (O, p) | None => None end
      end
  end.

Definition resolve_key (d : nat) (k : akeyarg) (s : astate) : option (nat * path) :=
  match k with
  | None => match dict_root d s with Some _ => Some (d, []) | None => None end
  | Some (nf, p) => resolve d nf p s
  end.

Definition set_dict_root (d : nat) (r : anode) (s : astate) : astate :=
  match d with
  | O => {| base := r; overlays := overlays s; ctxs := ctxs s; refs := refs s; iters := iters s |}
  | S k => {| base := base s; overlays := replace_nth k (Some r) (overlays s);
              ctxs := ctxs s; refs := refs s; iters := iters s |}
  end.

Definition update_addr (a : nat * path) (f : anode -> anode) (inst : bool) (s : astate) : astate :=
  match dict_root (fst a) s with
  | Some r => set_dict_root (fst a) (fst (update_at (snd a) f inst r)) s
  | None => s
  end.

(** check_set_attr on the attribute at an address *)
Definition check_set (a : nat * path) (ty : atype) (v : aval) (s : astate) : status * astate :=
  match addr_node a s with
  | None => (ERR_NOKEY, s)
  | Some n =>
      match ty with
      | TNil => (KDUMP_OK, update_addr a clear_node false s)
      | _ =>
          if negb (atype_eqb ty (aty n)) then (ERR_INVALID, s)
          else (KDUMP_OK, update_addr a (store_val v) true s)
      end
  end.

(** kdump_get_attr / kdump_attr_ref_get on the attribute at an address *)
Definition get_at (a : nat * path) (s : astate) : status * atype * aval :=
  match addr_node a s with
  | None => (ERR_NOKEY, TNil, VNone)
  | Some n => if aisset n then (KDUMP_OK, aty n, aval_of n) else (ERR_NODATA, TNil, VNone)
  end.

(** set_iter_pos: first set sibling at or after index [i] *)
Fixpoint first_set (l : list anode) (i : nat) : option nat :=
  match l with
  | [] => None
  | n :: t =>
      match i with
      | O => if aisset n then Some O
             else match first_set t O with Some j => Some (S j) | None => None end
      | S i' => match first_set t i' with Some j => Some (S j) | None => None end
      end
  end.

Definition set_nth_opt {A} (i : nat) (x : A) (l : list (option A)) : list (option A) :=
  let l' := l ++ repeat None (S i - length l) in replace_nth i (Some x) l'.

Definition ctx_dict (c : nat) (s : astate) : option nat :=
  match nth_error (ctxs s) c with Some (Some d) => Some d | _ => None end.

(** operations of the public API *)
Inductive aop :=
| OSet (c : nat) (k : akeyarg) (ty : atype) (v : aval)        (* kdump_set_attr *)
| OGet (c : nat) (k : akeyarg)                                (* kdump_get_attr *)
| ORef (c : nat) (slot : nat) (k : akeyarg)                   (* kdump_attr_ref *)
| OSubRef (c : nat) (slot' slot : nat) (nf : bool) (sub : path)   (* kdump_sub_attr_ref *)
| ORefGet (c : nat) (slot : nat)                              (* kdump_attr_ref_get *)
| ORefSet (c : nat) (slot : nat) (ty : atype) (v : aval)      (* kdump_attr_ref_set *)
| OSetSub (c : nat) (slot : nat) (nf : bool) (sub : path) (ty : atype) (v : aval) (* kdump_set_sub_attr *)
| ORefInfo (slot : nat)                                       (* kdump_attr_ref_type / _isset *)
| OIterStart (c : nat) (islot : nat) (k : akeyarg)            (* kdump_attr_iter_start *)
| OIterStartRef (c : nat) (islot slot : nat)                  (* kdump_attr_ref_iter_start *)
| OIterNext (c : nat) (islot : nat)                           (* kdump_attr_iter_next *)
| OClone (from : nat) (xlat : bool)                           (* kdump_clone *)
| OFree (c : nat)                                             (* kdump_free (a clone) *)
| OIterSet (c : nat) (islot : nat) (bypath : bool) (ty : atype) (v : aval)
    (* set or clear the attribute the iterator stands on: kdump_attr_ref_set(&iter.pos, ...),
       or kdump_set_attr with the path <directory>.<iter.key> *)
| OClearVolatile (c : nat)                                    (* re-open through context c: clear_volatile_attrs *)
| ODerive (c : nat) (p : path) (v : aval).                    (* the format sets a value it read from the file *)

Inductive aout :=
| AStatus (st : status)
| AValue (st : status) (ty : atype) (v : aval)
| AInfo (ty : atype) (isset : bool)
| AIter (st : status) (key : option bytes) (st2 : status) (ty : atype) (v : aval)
| ACtx (c : nat)
| ANoIter                                (* kdump_attr_iter_next on an iterator that was never started *)
| ABad.                                  (* the history uses a freed context / empty slot *)

(** copy of a subtree into a new dictionary: clone_attr + copy_data + clone_subtree
    (children are linked at the head: their order is reversed) *)
Fixpoint clone_node (n : anode) : anode :=
  let 'ANode k t s p v kids := n in
  ANode k t s (if s then p else false) (if s then v else VNone) (rev (map clone_node kids)).

(** attr_dict_clone + clone_xlat_attrs: an unset root holding a copy of the
    [addrxlat] directory: [default] and [force] with their subtrees, [ostype];
    each clone_attr_path links its attribute at the head *)
Definition s_addrxlat : bytes := [97;100;100;114;120;108;97;116].
Definition s_default : bytes := [100;101;102;97;117;108;116].
Definition s_force : bytes := [102;111;114;99;101].
Definition s_ostype : bytes := [111;115;116;121;112;101].

Definition clone_leafdir (n : anode) : anode :=      (* clone_attr of the directory alone *)
  let 'ANode k t s p v _ := n in ANode k t s (if s then p else false) (if s then v else VNone) [].

Definition make_overlay (b : anode) : option anode :=
  match child s_addrxlat (akids b) with
  | None => None
  | Some ax =>
      match child s_default (akids ax), child s_force (akids ax), child s_ostype (akids ax) with
      | Some d, Some f, Some o =>
          let 'ANode k t s p v _ := clone_leafdir ax in
          Some (ANode [] TDir false false VNone
                  [ANode k t s p v [clone_node o; clone_node f; clone_node d]])
      | _, _, _ => None
      end
  end.

Definition iter_out (dir : nat * path) (pos : option nat) (s : astate) : aout :=
  match pos with
  | None => AIter KDUMP_OK None KDUMP_OK TNil VNone
  | Some i =>
      match addr_node dir s with
      | Some n =>
          match nth_error (akids n) i with
          | Some ch =>
              let '(st2, ty, v) := get_at (fst dir, snd dir ++ [akey ch]) s in
              AIter KDUMP_OK (Some (akey ch)) st2 ty v
          | None => ABad
          end
      | None => ABad
      end
  end.

(* a failed start leaves the caller's iterator as it was; the harness then treats
   the slot as not started *)
Definition drop_iter (islot : nat) (s : astate) : astate :=
  {| base := base s; overlays := overlays s; ctxs := ctxs s; refs := refs s;
     iters := replace_nth islot None (iters s) |}.

Definition iter_start_at (a : nat * path) (islot : nat) (s : astate) : aout * astate :=
  match addr_node a s with
  | None => (AIter ERR_NOKEY None KDUMP_OK TNil VNone, drop_iter islot s)
  | Some n =>
      if negb (aisset n) then (AIter ERR_NODATA None KDUMP_OK TNil VNone, drop_iter islot s)
      else if negb (atype_eqb (aty n) TDir)
           then (AIter ERR_INVALID None KDUMP_OK TNil VNone, drop_iter islot s)
      else
        let pos := first_set (akids n) O in
        let s' := {| base := base s; overlays := overlays s; ctxs := ctxs s; refs := refs s;
                     iters := set_nth_opt islot (a, pos) (iters s) |} in
        (iter_out a pos s', s')
  end.

Definition astep (o : aop) (s : astate) : aout * astate :=
  match o with
  | OSet c k ty v =>
      match ctx_dict c s with
      | None => (ABad, s)
      | Some d =>
          match resolve_key d k s with
          | None => (AStatus ERR_NODATA, s)      (* kdump_set_attr: "No such key" is NODATA *)
          | Some a => let '(st, s') := check_set a ty v s in (AStatus st, s')
          end
      end
  | OGet c k =>
      match ctx_dict c s with
      | None => (ABad, s)
      | Some d =>
          match resolve_key d k s with
          | None => (AValue ERR_NOKEY TNil VNone, s)
          | Some a => let '(st, ty, v) := get_at a s in (AValue st ty v, s)
          end
      end
  | ORef c slot k =>
      match ctx_dict c s with
      | None => (ABad, s)
      | Some d =>
          match resolve_key d k s with
          | None => (AStatus ERR_NOKEY, s)
          | Some a =>
              (AStatus KDUMP_OK,
               {| base := base s; overlays := overlays s; ctxs := ctxs s;
                  refs := set_nth_opt slot a (refs s); iters := iters s |})
          end
      end
  | OSubRef c slot' slot nf sub =>
      match ctx_dict c s, nth_error (refs s) slot with
      | Some d, Some (Some a) =>
          match resolve d nf (snd a ++ sub) s with
          | None => (AStatus ERR_NOKEY, s)
          | Some a' =>
              (AStatus KDUMP_OK,
               {| base := base s; overlays := overlays s; ctxs := ctxs s;
                  refs := set_nth_opt slot' a' (refs s); iters := iters s |})
          end
      | _, _ => (ABad, s)
      end
  | ORefGet c slot =>
      match ctx_dict c s, nth_error (refs s) slot with
      | Some _, Some (Some a) => let '(st, ty, v) := get_at a s in (AValue st ty v, s)
      | _, _ => (ABad, s)
      end
  | ORefSet c slot ty v =>
      match ctx_dict c s, nth_error (refs s) slot with
      | Some _, Some (Some a) => let '(st, s') := check_set a ty v s in (AStatus st, s')
      | _, _ => (ABad, s)
      end
  | OSetSub c slot nf sub ty v =>
      match ctx_dict c s, nth_error (refs s) slot with
      | Some d, Some (Some a) =>
          match resolve d nf (snd a ++ sub) s with
          | None => (AStatus ERR_NOKEY, s)
          | Some a' => let '(st, s') := check_set a' ty v s in (AStatus st, s')
          end
      | _, _ => (ABad, s)
      end
  | ORefInfo slot =>
      match nth_error (refs s) slot with
      | Some (Some a) =>
          match addr_node a s with
          | Some n => (AInfo (aty n) (aisset n), s)
          | None => (ABad, s)
          end
      | _ => (ABad, s)
      end
  | OIterStart c islot k =>
      match ctx_dict c s with
      | None => (ABad, s)
      | Some d =>
          match resolve_key d k s with
          | None => (AIter ERR_NOKEY None KDUMP_OK TNil VNone, drop_iter islot s)
          | Some a => iter_start_at a islot s
          end
      end
  | OIterStartRef c islot slot =>
      match ctx_dict c s, nth_error (refs s) slot with
      | Some _, Some (Some a) => iter_start_at a islot s
      | _, _ => (ABad, s)
      end
  | OIterNext c islot =>
      match ctx_dict c s, nth_error (iters s) islot with
      | Some _, None | Some _, Some None => (ANoIter, s)
      | Some _, Some (Some (a, pos)) =>
          match pos with
          | None => (AIter ERR_INVALID None KDUMP_OK TNil VNone, s)   (* "End of iteration" *)
          | Some i =>
              match addr_node a s with
              | Some n =>
                  let pos' := first_set (akids n) (S i) in
                  let s' := {| base := base s; overlays := overlays s; ctxs := ctxs s;
                               refs := refs s;
                               iters := set_nth_opt islot (a, pos') (iters s) |} in
                  (iter_out a pos' s', s')
              | None => (ABad, s)
              end
          end
      | _, _ => (ABad, s)
      end
  | OClone from xlat =>
      match ctx_dict from s with
      | None => (ABad, s)
      | Some d =>
          if xlat then
            match d, make_overlay (base s) with
            | O, Some ov =>
                (ACtx (length (ctxs s)),
                 {| base := base s; overlays := overlays s ++ [Some ov];
                    ctxs := ctxs s ++ [Some (S (length (overlays s)))];
                    refs := refs s; iters := iters s |})
            | _, _ => (ABad, s)       (* the model covers XLAT clones of the original dictionary *)
            end
          else
            (ACtx (length (ctxs s)),
             {| base := base s; overlays := overlays s; ctxs := ctxs s ++ [Some d];
                refs := refs s; iters := iters s |})
      end
  | OFree c =>
      match c, ctx_dict c s with
      | S _, Some d =>
          (* the overlay dies with its only context *)
          let ovs := match d with
                     | S k => replace_nth k None (overlays s)
                     | O => overlays s
                     end in
          (AStatus KDUMP_OK,
           {| base := base s; overlays := ovs; ctxs := replace_nth c None (ctxs s);
              refs := refs s; iters := iters s |})
      | _, _ => (ABad, s)
      end
  | OIterSet c islot bypath ty v =>
      match ctx_dict c s, nth_error (iters s) islot with
      | Some _, None | Some _, Some None => (ANoIter, s)
      | Some d, Some (Some (a, Some i)) =>
          match addr_node a s with
          | Some n =>
              match nth_error (akids n) i with
              | Some ch =>
                  if bypath then
                    match resolve d false (snd a ++ [akey ch]) s with
                    | None => (AStatus ERR_NODATA, s)
                    | Some a' => let '(st, s') := check_set a' ty v s in (AStatus st, s')
                    end
                  else let '(st, s') := check_set (fst a, snd a ++ [akey ch]) ty v s in (AStatus st, s')
              | None => (ABad, s)
              end
          | None => (ABad, s)
          end
      | Some _, Some (Some (_, None)) => (ANoIter, s)          (* at the end: no position *)
      | None, _ => (ABad, s)
      end
  | OClearVolatile c =>
      (* clear_volatile on every dictionary of the context's fallback chain *)
      match ctx_dict c s with
      | None => (ABad, s)
      | Some d =>
          let ovs := match d with
                     | S k => match nth_error (overlays s) k with
                              | Some (Some ov) => replace_nth k (Some (fst (clear_volatile ov))) (overlays s)
                              | _ => overlays s
                              end
                     | O => overlays s
                     end in
          (AStatus KDUMP_OK,
           {| base := fst (clear_volatile (base s)); overlays := ovs; ctxs := ctxs s;
              refs := refs s; iters := iters s |})
      end
  | ODerive c p v =>
      match ctx_dict c s with
      | None => (ABad, s)
      | Some d =>
          match resolve d false p s with
          | Some a => (AStatus KDUMP_OK, update_addr a (store_default v) true s)
          | None => (AStatus ERR_NOKEY, s)
          end
      end
  end.

Fixpoint arun (ops : list aop) (s : astate) : list aout :=
  match ops with
  | [] => []
  | o :: t => let '(r, s') := astep o s in r :: arun t s'
  end.

Definition afinal (ops : list aop) (s : astate) : astate :=
  fold_left (fun st o => snd (astep o st)) ops s.

Definition ainit (root : anode) : astate :=
  {| base := root; overlays := []; ctxs := [Some O]; refs := []; iters := [] |}.

(** all set attributes below a node, in iteration order (what a recursive walk
    with iterators prints) *)
Fixpoint dump_set (prefix : path) (n : anode) : list (path * atype * aval) :=
  let 'ANode k t s p v kids := n in
  flat_map (fun ch => if aisset ch
                      then (prefix ++ [akey ch], aty ch, aval_of ch) :: dump_set (prefix ++ [akey ch]) ch
                      else []) kids.

(** decidable well-formedness of a dictionary tree: an attribute with a value
    has a parent with a value; sibling keys are distinct *)
Fixpoint anc_okb (n : anode) : bool :=
  let 'ANode _ _ s _ _ kids := n in
  forallb (fun ch => (negb (aisset ch) || s) && anc_okb ch) kids.

Fixpoint nodupb (l : list bytes) : bool :=
  match l with
  | [] => true
  | x :: t => negb (existsb (bytes_eqb x) t) && nodupb t
  end.

Fixpoint uniqb (n : anode) : bool :=
  let 'ANode _ _ _ _ _ kids := n in nodupb (map akey kids) && forallb uniqb kids.

(** a set whose post-set hook fails (e.g. [linux.vmcoreinfo.raw] with a row that
    the parser rejects): set_attr has marked the ancestors and stored the value
    BEFORE it runs the hook; the hook's status is returned and everything stays
    as after a successful set *)
Definition hook_fails (st : status) (r : aout * astate) : aout * astate :=
  match r with
  | (AStatus KDUMP_OK, s') => (AStatus st, s')
  | _ => r
  end.
Definition astep_hookfail (st : status) (c : nat) (k : akeyarg) (ty : atype) (v : aval) (s : astate)
  : aout * astate := hook_fails st (astep (OSet c k ty v) s).
