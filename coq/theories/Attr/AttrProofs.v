(** Proofs about [Attr/AttrTree.v]: the tree of attributes is a dictionary from
    paths to typed entries ([AttrSpec.d_*]): get/set/clear laws, iteration, what
    survives a re-open, what a clone sees. *)
From Coq Require Import NArith ZArith List Bool Lia.
From KdV Require Import Base.Wrap64 Attr.AttrBase Attr.ListFacts Attr.AttrTree Attr.AttrSpec.
Import ListNotations.
Local Open Scope N_scope.

(** * strings and paths *)

Lemma beqb_eq a : forall b, bytes_eqb a b = true <-> a = b.
Proof.
  induction a as [|x a IH]; intros [|y b]; cbn; split; intro H; try discriminate; try reflexivity.
  - apply andb_prop in H as [H1 H2]. apply N.eqb_eq in H1. apply IH in H2. congruence.
  - injection H as -> ->. rewrite N.eqb_refl. cbn. now apply IH.
Qed.

Lemma beqb_refl a : bytes_eqb a a = true.
Proof. now apply beqb_eq. Qed.

Lemma peqb_eq a : forall b, path_eqb a b = true <-> a = b.
Proof.
  induction a as [|x a IH]; intros [|y b]; cbn; split; intro H; try discriminate; try reflexivity.
  - apply andb_prop in H as [H1 H2]. apply beqb_eq in H1. apply IH in H2. congruence.
  - injection H as -> ->. rewrite beqb_refl. cbn. now apply IH.
Qed.

Lemma peqb_refl a : path_eqb a a = true.
Proof. now apply peqb_eq. Qed.

Lemma prefix_refl a : prefix a a = true.
Proof. induction a as [|x a IH]; [reflexivity|]. cbn. now rewrite beqb_refl. Qed.

Lemma prefix_cons x a y b : prefix (x :: a) (y :: b) = bytes_eqb x y && prefix a b.
Proof. reflexivity. Qed.

Lemma strict_prefix_cons x a y b :
  strict_prefix (x :: a) (y :: b) = bytes_eqb x y && strict_prefix a b.
Proof.
  unfold strict_prefix. cbn [prefix path_eqb].
  destruct (bytes_eqb x y); [reflexivity|]. reflexivity.
Qed.

Lemma strict_prefix_nil_l b : strict_prefix [] b = negb (match b with [] => true | _ => false end).
Proof. destruct b; reflexivity. Qed.

(** * children *)

Lemma child_index_lt k l i : child_index k l = Some i -> (i < length l)%nat.
Proof.
  revert i. induction l as [|n l IH]; intros i; cbn [child_index]; [discriminate|].
  destruct (bytes_eqb (akey n) k).
  - intro H. injection H as <-. cbn. lia.
  - destruct (child_index k l) as [j|]; [|discriminate].
    intro H. injection H as <-. specialize (IH j eq_refl). cbn. lia.
Qed.

Lemma child_index_key k l i m :
  child_index k l = Some i -> nth_error l i = Some m -> akey m = k.
Proof.
  revert i. induction l as [|n l IH]; intros i; cbn [child_index]; [discriminate|].
  destruct (bytes_eqb (akey n) k) eqn:E.
  - intro H. injection H as <-. cbn. intro H. injection H as <-. now apply beqb_eq.
  - destruct (child_index k l) as [j|]; [|discriminate].
    intro H. injection H as <-. cbn. now apply IH.
Qed.

(** replacing a child by a node with the same key does not move anything *)
Lemma child_index_replace k l i x c :
  child_index c l = Some i -> akey x = c ->
  child_index k (replace_nth i x l) = child_index k l.
Proof.
  revert i. induction l as [|n l IH]; intros i; cbn [child_index]; [discriminate|].
  destruct (bytes_eqb (akey n) c) eqn:E.
  - intro H. injection H as <-. intro Hx. cbn [replace_nth child_index].
    apply beqb_eq in E. now rewrite Hx, <- E.
  - destruct (child_index c l) as [j|] eqn:Ej; [|discriminate].
    intro H. injection H as <-. intro Hx. cbn [replace_nth child_index].
    now rewrite (IH j eq_refl Hx).
Qed.

Lemma nth_error_replace_same {A} i (x : A) l :
  (i < length l)%nat -> nth_error (replace_nth i x l) i = Some x.
Proof.
  revert i. induction l as [|a l IH]; intros [|i] H; cbn in *; try lia; try reflexivity.
  apply IH. lia.
Qed.

Lemma nth_error_replace_other {A} i j (x : A) l :
  i <> j -> nth_error (replace_nth i x l) j = nth_error l j.
Proof.
  revert i j. induction l as [|a l IH]; intros [|i] [|j] H; cbn; try reflexivity; try congruence.
  apply IH. congruence.
Qed.

Lemma replace_nth_length {A} i (x : A) l : length (replace_nth i x l) = length l.
Proof. revert i. induction l as [|a l IH]; intros [|i]; cbn; auto. Qed.

Lemma child_replace_same l i x c :
  child_index c l = Some i -> akey x = c -> child c (replace_nth i x l) = Some x.
Proof.
  intros Hi Hx. unfold child. rewrite (child_index_replace c l i x c Hi Hx), Hi.
  apply nth_error_replace_same. now apply child_index_lt in Hi.
Qed.

Lemma child_index_inj k k' l i :
  child_index k l = Some i -> child_index k' l = Some i -> k = k'.
Proof.
  intros H1 H2.
  assert (Hlt : (i < length l)%nat) by now apply child_index_lt in H1.
  destruct (nth_error l i) as [m|] eqn:E.
  - rewrite <- (child_index_key k l i m H1 E). now apply (child_index_key k' l i m).
  - apply nth_error_None in E. lia.
Qed.

Lemma child_replace_other l i x c k :
  child_index c l = Some i -> akey x = c -> k <> c ->
  child k (replace_nth i x l) = child k l.
Proof.
  intros Hi Hx Hk. unfold child. rewrite (child_index_replace k l i x c Hi Hx).
  destruct (child_index k l) as [j|] eqn:Ej; [|reflexivity].
  apply nth_error_replace_other. intro E. subst j.
  apply Hk. now apply (child_index_inj k c l i).
Qed.

(** * node_at after update_at *)

Definition keeps_key (f : anode -> anode) : Prop := forall n, akey (f n) = akey n.

Lemma store_val_key v : keeps_key (store_val v).
Proof. intros [k t s p x kids]. reflexivity. Qed.
Lemma store_default_key v : keeps_key (store_default v).
Proof. intros [k t s p x kids]. reflexivity. Qed.
Lemma clear_node_key : keeps_key clear_node.
Proof. intros [k t s p x kids]. reflexivity. Qed.

Lemma update_at_key p f inst : keeps_key f -> forall n, akey (fst (update_at p f inst n)) = akey n.
Proof.
  intros Hf n. destruct p as [|c rest]; cbn [update_at]; [apply Hf|].
  destruct (child_index c (akids n)) as [i|]; [|reflexivity].
  destruct (nth_error (akids n) i) as [m|]; [|reflexivity].
  destruct (update_at rest f inst m) as [m' up].
  destruct n as [k t s pe v kids]. destruct up; reflexivity.
Qed.

Lemma node_at_cons c rest n :
  node_at (c :: rest) n = match child c (akids n) with Some m => node_at rest m | None => None end.
Proof. reflexivity. Qed.

Lemma child_some c l m :
  child c l = Some m -> exists i, child_index c l = Some i /\ nth_error l i = Some m.
Proof.
  unfold child. destruct (child_index c l) as [i|]; [|discriminate]. eauto.
Qed.

(** the shape of an updated ancestor *)
Lemma update_at_cons c rest f inst n i m :
  child_index c (akids n) = Some i -> nth_error (akids n) i = Some m ->
  let '(m', up) := update_at rest f inst m in
  update_at (c :: rest) f inst n =
  (ANode (akey n) (aty n) (if up then true else aisset n) (apersist n) (aval_of n)
         (replace_nth i m' (akids n)), up && negb (aisset n)).
Proof.
  intros Hi Hm. cbn [update_at]. rewrite Hi, Hm.
  destruct (update_at rest f inst m) as [m' up].
  destruct n as [k t s pe v kids]. destruct up; reflexivity.
Qed.

(** (a) the target holds [f] of the old node *)
Lemma node_at_update_same p f inst : keeps_key f -> forall n m,
  node_at p n = Some m -> node_at p (fst (update_at p f inst n)) = Some (f m).
Proof.
  intro Hf. induction p as [|c rest IH]; intros n m H.
  - cbn in *. now injection H as ->.
  - rewrite node_at_cons in H. destruct (child c (akids n)) as [ch|] eqn:Ec; [|discriminate].
    destruct (child_some _ _ _ Ec) as (i & Hi & Hn).
    pose proof (update_at_cons c rest f inst n i ch Hi Hn) as Hu.
    pose proof (update_at_key rest f inst Hf ch) as Hk.
    destruct (update_at rest f inst ch) as [ch' up] eqn:Eu. rewrite Hu. cbn [fst].
    rewrite node_at_cons. cbn [akids] . cbn [fst] in Hk.
    rewrite (child_replace_same (akids n) i ch' c Hi).
    + specialize (IH ch m H). now rewrite Eu in IH.
    + rewrite Hk. now apply (child_index_key c (akids n) i ch).
Qed.

(** * the dictionary of a tree *)

Definition dict_of (n : anode) : dictionary := fun q => option_map entry_of (node_at q n).

(** every attribute with a value has ancestors with a value (instantiate_path
    keeps it so; clear_attr clears whole subtrees) *)
Definition anc_closed (n : anode) : Prop :=
  forall q m, node_at q n = Some m -> aisset m = true ->
  forall q', strict_prefix q' q = true ->
  exists a, node_at q' n = Some a /\ aisset a = true.

Lemma anc_closed_child n c ch :
  anc_closed n -> child c (akids n) = Some ch -> anc_closed ch.
Proof.
  intros H Hc q m Hq Hs q' Hp.
  destruct (H (c :: q) m) with (q' := c :: q') as (a & Ha & Hsa).
  - rewrite node_at_cons, Hc. exact Hq.
  - exact Hs.
  - rewrite strict_prefix_cons, beqb_refl. exact Hp.
  - rewrite node_at_cons, Hc in Ha. eauto.
Qed.

Lemma update_at_noinst p f : forall n, snd (update_at p f false n) = false.
Proof.
  induction p as [|c rest IH]; intro n; cbn [update_at]; [reflexivity|].
  destruct (child_index c (akids n)) as [i|]; [|reflexivity].
  destruct (nth_error (akids n) i) as [m|]; [|reflexivity].
  specialize (IH m). destruct (update_at rest f false m) as [m' up]. cbn [snd] in IH. subst up.
  destruct n as [k t s pe v kids]. reflexivity.
Qed.

Definition deq (d1 d2 : dictionary) : Prop := forall q, d1 q = d2 q.

Lemma below_unset_ext r : forall d1 d2, deq d1 d2 -> below_unset d1 r = below_unset d2 r.
Proof.
  induction r as [|c r IH]; intros d1 d2 H; [reflexivity|]. cbn [below_unset].
  unfold unset_at. rewrite (H []). f_equal. apply IH. intro z. apply H.
Qed.

Lemma inst_reach_ext q : forall p d1 d2, deq d1 d2 -> inst_reach d1 q p = inst_reach d2 q p.
Proof.
  induction q as [|x q IH]; intros [|y p] d1 d2 H; cbn [inst_reach]; try reflexivity.
  - apply below_unset_ext. intro z. apply H.
  - f_equal. apply IH. intro z. apply H.
Qed.

Lemma dict_of_child n c ch : child c (akids n) = Some ch ->
  deq (fun z => dict_of n (c :: z)) (dict_of ch).
Proof. intros H z. unfold dict_of. now rewrite node_at_cons, H. Qed.

(** the instantiate walk reaches [n] iff every attribute between [n] (included)
    and the target (excluded) is without a value *)
Lemma up_spec p f : forall n m,
  node_at p n = Some m -> snd (update_at p f true n) = below_unset (dict_of n) p.
Proof.
  induction p as [|c rest IH]; intros n m Hn; [reflexivity|].
  rewrite node_at_cons in Hn. destruct (child c (akids n)) as [ch|] eqn:Ec; [|discriminate].
  destruct (child_some _ _ _ Ec) as (i & Hi & Hnth).
  pose proof (update_at_cons c rest f true n i ch Hi Hnth) as Hs.
  specialize (IH ch m Hn).
  destruct (update_at rest f true ch) as [ch' up] eqn:Eu. rewrite Hs. cbn [snd] in *.
  cbn [below_unset]. rewrite (below_unset_ext rest _ _ (dict_of_child n c ch Ec)), <- IH.
  unfold unset_at, dict_of. cbn [node_at option_map entry_of e_set]. apply andb_comm.
Qed.

Lemma node_at_store_val_below v n c r :
  node_at (c :: r) (store_val v n) = node_at (c :: r) n.
Proof. destruct n as [k t s p x kids]. reflexivity. Qed.

Lemma entry_store_val v n :
  entry_of (store_val v n) =
  {| e_ty := aty n; e_set := true; e_persist := true;
     e_val := match aty n with TDir => aval_of n | _ => v end |}.
Proof. destruct n as [k t s p x kids]. reflexivity. Qed.

(** setting: the tree's dictionary becomes [d_set] of itself *)
Theorem dict_set v p : forall n m,
  node_at p n = Some m ->
  forall q, dict_of (fst (update_at p (store_val v) true n)) q = d_set p v (dict_of n) q.
Proof.
  induction p as [|c rest IH]; intros n m Hn q.
  - cbn [update_at fst]. unfold dict_of, d_set.
    destruct q as [|c' r].
    + cbn [node_at option_map path_eqb]. now rewrite entry_store_val.
    + rewrite node_at_store_val_below.
      destruct (node_at (c' :: r) n) as [x|]; [|reflexivity]. reflexivity.
  - rewrite node_at_cons in Hn. destruct (child c (akids n)) as [ch|] eqn:Ec; [|discriminate].
    destruct (child_some _ _ _ Ec) as (i & Hi & Hnth).
    pose proof (update_at_cons c rest (store_val v) true n i ch Hi Hnth) as Hs.
    pose proof (update_at_key rest (store_val v) true (store_val_key v) ch) as Hk.
    pose proof (up_spec rest (store_val v) ch m Hn) as Hup.
    destruct (update_at rest (store_val v) true ch) as [ch' up] eqn:Eu. rewrite Hs. cbn [fst snd] in *.
    assert (Hkc : akey ch' = c) by (rewrite Hk; now apply (child_index_key c (akids n) i ch)).
    unfold d_set. destruct q as [|c' r].
    + (* the ancestor itself *)
      unfold dict_of at 1 2. cbn [node_at option_map path_eqb inst_reach].
      rewrite (below_unset_ext rest _ _ (dict_of_child n c ch Ec)), <- Hup.
      unfold entry_of; cbn [aty aisset apersist aval_of e_ty e_set e_persist e_val].
      destruct up; [reflexivity|]. destruct n as [k t s pe x kids]. reflexivity.
    + unfold dict_of at 1 2. rewrite !node_at_cons. cbn [akids].
      destruct (bytes_eqb c' c) eqn:Ecc.
      * apply beqb_eq in Ecc. subst c'.
        rewrite (child_replace_same (akids n) i ch' c Hi Hkc), Ec.
        pose proof (IH ch m Hn r) as H.
        rewrite Eu in H. cbn [fst] in H. unfold dict_of at 1, d_set in H. rewrite H.
        cbn [path_eqb inst_reach]. rewrite beqb_refl. cbn [andb].
        rewrite (inst_reach_ext r rest _ _ (dict_of_child n c ch Ec)). reflexivity.
      * assert (Hne : c' <> c) by (intro E; subst; rewrite beqb_refl in Ecc; discriminate).
        rewrite (child_replace_other (akids n) i ch' c c' Hi Hkc Hne).
        cbn [path_eqb inst_reach]. rewrite Ecc. cbn [andb].
        destruct (child c' (akids n)) as [x|]; [|reflexivity].
        destruct (node_at r x); reflexivity.
Qed.

(** clearing *)
Lemma child_map_clear c l : child c (map clear_node l) = option_map clear_node (child c l).
Proof.
  unfold child.
  assert (H : child_index c (map clear_node l) = child_index c l).
  { induction l as [|n l IH]; [reflexivity|]. cbn [map child_index].
    rewrite clear_node_key, IH. reflexivity. }
  rewrite H. destruct (child_index c l) as [i|]; [|reflexivity].
  rewrite nth_error_map. reflexivity.
Qed.

Lemma node_at_clear q : forall n, node_at q (clear_node n) = option_map clear_node (node_at q n).
Proof.
  induction q as [|c r IH]; intro n; [reflexivity|].
  rewrite !node_at_cons. destruct n as [k t s p v kids]. cbn [clear_node akids].
  rewrite child_map_clear. destruct (child c kids) as [m|]; [apply IH|reflexivity].
Qed.

Lemma entry_clear n :
  entry_of (clear_node n) =
  {| e_ty := aty n; e_set := false; e_persist := apersist n; e_val := aval_of n |}.
Proof. destruct n as [k t s p x kids]. reflexivity. Qed.

Theorem dict_clear p : forall n m,
  node_at p n = Some m ->
  forall q, dict_of (fst (update_at p clear_node false n)) q = d_clear p (dict_of n) q.
Proof.
  induction p as [|c rest IH]; intros n m Hn q.
  - cbn [update_at fst]. unfold dict_of, d_clear. rewrite node_at_clear. cbn [prefix].
    destruct (node_at q n) as [x|]; [|reflexivity]. cbn [option_map]. now rewrite entry_clear.
  - rewrite node_at_cons in Hn. destruct (child c (akids n)) as [ch|] eqn:Ec; [|discriminate].
    destruct (child_some _ _ _ Ec) as (i & Hi & Hnth).
    pose proof (update_at_cons c rest clear_node false n i ch Hi Hnth) as Hs.
    pose proof (update_at_key rest clear_node false clear_node_key ch) as Hk.
    pose proof (update_at_noinst rest clear_node ch) as Hno.
    destruct (update_at rest clear_node false ch) as [ch' up] eqn:Eu. rewrite Hs.
    cbn [fst snd] in *. subst up.
    assert (Hkc : akey ch' = c) by (rewrite Hk; now apply (child_index_key c (akids n) i ch)).
    unfold dict_of, d_clear. destruct q as [|c' r].
    + cbn [node_at option_map prefix]. destruct n as [k t s pe v kids]. reflexivity.
    + rewrite !node_at_cons. cbn [akids]. rewrite prefix_cons.
      destruct (bytes_eqb c' c) eqn:Ecc.
      * apply beqb_eq in Ecc. subst c'. rewrite beqb_refl.
        rewrite (child_replace_same (akids n) i ch' c Hi Hkc), Ec.
        pose proof (IH ch m Hn r) as H. rewrite Eu in H. cbn [fst] in H.
        unfold dict_of, d_clear in H. exact H.
      * assert (Hne : c' <> c) by (intro E; subst; rewrite beqb_refl in Ecc; discriminate).
        rewrite (child_replace_other (akids n) i ch' c c' Hi Hkc Hne).
        assert (Ecc' : bytes_eqb c c' = false).
        { destruct (bytes_eqb c c') eqn:E; [|reflexivity]. apply beqb_eq in E. congruence. }
        rewrite Ecc'. cbn [andb].
        destruct (child c' (akids n)) as [x|]; [|reflexivity].
        destruct (node_at r x); reflexivity.
Qed.

(** * dictionary-level consequences *)

Lemma prefix_trans a : forall b c, prefix a b = true -> prefix b c = true -> prefix a c = true.
Proof.
  induction a as [|x a IH]; intros [|y b] [|z c]; cbn; try discriminate; try reflexivity.
  intros H1 H2. apply andb_prop in H1 as [E1 H1]. apply andb_prop in H2 as [E2 H2].
  apply beqb_eq in E1, E2. subst. rewrite beqb_refl. cbn. eapply IH; eauto.
Qed.

Lemma prefix_antisym a : forall b, prefix a b = true -> prefix b a = true -> a = b.
Proof.
  induction a as [|x a IH]; intros [|y b]; cbn; try discriminate; try reflexivity.
  intros H1 H2. apply andb_prop in H1 as [E1 H1]. apply andb_prop in H2 as [_ H2].
  apply beqb_eq in E1. subst. f_equal. now apply IH.
Qed.

Lemma strict_prefix_spec a b :
  strict_prefix a b = true <-> prefix a b = true /\ a <> b.
Proof.
  unfold strict_prefix. rewrite andb_true_iff, negb_true_iff. split; intros [H1 H2]; split; auto.
  - intro E. apply peqb_eq in E. congruence.
  - destruct (path_eqb a b) eqn:E; [|reflexivity]. apply peqb_eq in E. contradiction.
Qed.

Lemma strict_prefix_trans_l a b c :
  strict_prefix a b = true -> prefix b c = true -> strict_prefix a c = true.
Proof.
  intros H1 H2. apply strict_prefix_spec in H1 as [H1 Hne]. apply strict_prefix_spec. split.
  - eapply prefix_trans; eauto.
  - intro E. subst c. apply Hne. now apply prefix_antisym.
Qed.

Definition dclosed (d : dictionary) : Prop :=
  forall q e, d q = Some e -> e_set e = true ->
  forall q', strict_prefix q' q = true -> exists e', d q' = Some e' /\ e_set e' = true.

Lemma dclosed_deq d1 d2 : deq d1 d2 -> dclosed d1 -> dclosed d2.
Proof.
  intros He H q e Hq Hs q' Hp. rewrite <- He in Hq.
  destruct (H q e Hq Hs q' Hp) as (e' & H1 & H2). exists e'. now rewrite <- He.
Qed.

Lemma anc_closed_dclosed n : anc_closed n <-> dclosed (dict_of n).
Proof.
  unfold anc_closed, dclosed, dict_of. split.
  - intros H q e Hq Hs q' Hp. destruct (node_at q n) as [m|] eqn:Em; [|discriminate].
    cbn in Hq. injection Hq as <-. destruct (H q m Em Hs q' Hp) as (a & Ha & Hsa).
    exists (entry_of a). rewrite Ha. auto.
  - intros H q m Hq Hs q' Hp.
    destruct (H q (entry_of m)) with (q' := q') as (e' & He & Hse); auto.
    + now rewrite Hq.
    + destruct (node_at q' n) as [a|]; [|discriminate]. cbn in He. injection He as <-. eauto.
Qed.

(** ancestors of an existing attribute exist *)
Lemma node_at_prefix q' : forall q n m, node_at q n = Some m -> prefix q' q = true ->
  exists a, node_at q' n = Some a.
Proof.
  induction q' as [|c r IH]; intros q n m Hq Hp; [cbn; eauto|].
  destruct q as [|c2 r2]; [discriminate|]. rewrite prefix_cons in Hp.
  apply andb_prop in Hp as [E Hp]. apply beqb_eq in E. subst c2.
  rewrite node_at_cons in *. destruct (child c (akids n)) as [ch|]; [|discriminate]. eauto.
Qed.

(** a value that was set is what get returns (by path; a reference or an
    iterator position is the same address) ... *)
Lemma d_get_set_same p v d e :
  d p = Some e ->
  d_get p (d_set p v d) = (KDUMP_OK, e_ty e, match e_ty e with TDir => e_val e | _ => v end).
Proof. intro H. unfold d_get, d_set. rewrite H, peqb_refl. reflexivity. Qed.

Lemma below_unset_false_nil d : below_unset d [] = true.
Proof. reflexivity. Qed.

Lemma inst_reach_prefix q : forall p d, inst_reach d q p = true -> strict_prefix q p = true.
Proof.
  induction q as [|x q IH]; intros [|y p] d H; cbn [inst_reach] in H; try discriminate.
  - reflexivity.
  - apply andb_prop in H as [E H]. rewrite strict_prefix_cons, E. cbn. eapply IH; eauto.
Qed.

(** ... until it is set again or cleared: a set elsewhere does not change it *)
Lemma d_get_set_other p q v d :
  prefix q p = false -> d_get q (d_set p v d) = d_get q d.
Proof.
  intro H. unfold d_get, d_set. destruct (d q) as [e|]; [|reflexivity].
  assert (E1 : path_eqb q p = false).
  { destruct (path_eqb q p) eqn:E; [|reflexivity]. apply peqb_eq in E. subst. now rewrite prefix_refl in H. }
  assert (E2 : inst_reach d q p = false).
  { destruct (inst_reach d q p) eqn:E; [|reflexivity]. apply inst_reach_prefix in E.
    unfold strict_prefix in E. rewrite H in E. discriminate. }
  now rewrite E1, E2.
Qed.

(** a set never takes a value away from an ancestor, and never changes its type,
    value or persistence; the ancestors reached by the walk get a value *)
Lemma d_get_set_ancestor p q v d e :
  strict_prefix q p = true -> d q = Some e ->
  d_set p v d q = Some {| e_ty := e_ty e; e_set := e_set e || inst_reach d q p;
                          e_persist := e_persist e; e_val := e_val e |}.
Proof.
  intros H Hq. unfold d_set. rewrite Hq.
  assert (E1 : path_eqb q p = false).
  { destruct (path_eqb q p) eqn:E; [|reflexivity]. apply peqb_eq in E.
    apply strict_prefix_spec in H as [_ H]. contradiction. }
  rewrite E1. destruct (inst_reach d q p); [now rewrite orb_true_r|].
  rewrite orb_false_r. now destruct e.
Qed.

(** clearing makes the attribute and everything below it report no value ... *)
Lemma d_get_clear_below p q d :
  prefix p q = true -> fst (fst (d_get q (d_clear p d))) <> KDUMP_OK.
Proof.
  intro H. unfold d_get, d_clear. destruct (d q) as [e|]; cbn; [|discriminate].
  rewrite H. cbn. discriminate.
Qed.

(** ... and changes nothing else *)
Lemma d_get_clear_other p q d :
  prefix p q = false -> d_get q (d_clear p d) = d_get q d.
Proof.
  intro H. unfold d_get, d_clear. destruct (d q) as [e|]; [|reflexivity]. now rewrite H.
Qed.

(** * one checked set on a tree *)

Definition tset (p : path) (ty : atype) (v : aval) (n : anode) : status * anode :=
  let '(st, s) := check_set (O, p) ty v (ainit n) in (st, base s).

(** the same step on a dictionary *)
Definition d_step (p : path) (ty : atype) (v : aval) (d : dictionary) : status * dictionary :=
  match d p with
  | None => (ERR_NOKEY, d)
  | Some e =>
      match ty with
      | TNil => (KDUMP_OK, d_clear p d)
      | _ => if atype_eqb ty (e_ty e) then (KDUMP_OK, d_set p v d) else (ERR_INVALID, d)
      end
  end.

Lemma tset_unfold p ty v n :
  tset p ty v n =
  match node_at p n with
  | None => (ERR_NOKEY, n)
  | Some m =>
      match ty with
      | TNil => (KDUMP_OK, fst (update_at p clear_node false n))
      | _ => if negb (atype_eqb ty (aty m)) then (ERR_INVALID, n)
             else (KDUMP_OK, fst (update_at p (store_val v) true n))
      end
  end.
Proof.
  unfold tset, check_set, addr_node. cbn [fst snd dict_root ainit base].
  destruct (node_at p n) as [m|]; [|reflexivity].
  destruct ty; try reflexivity; destruct (atype_eqb _ (aty m)); reflexivity.
Qed.

Lemma tset_step p ty v n :
  fst (tset p ty v n) = fst (d_step p ty v (dict_of n)) /\
  deq (dict_of (snd (tset p ty v n))) (snd (d_step p ty v (dict_of n))).
Proof.
  rewrite tset_unfold. unfold d_step.
  assert (Hd : dict_of n p = option_map entry_of (node_at p n)) by reflexivity. rewrite Hd.
  destruct (node_at p n) as [m|] eqn:Hm; cbn [option_map].
  2:{ cbn [fst snd]. split; [reflexivity|intro q; reflexivity]. }
  assert (Hty : e_ty (entry_of m) = aty m) by reflexivity. rewrite Hty.
  assert (Hok : forall b, (if negb b then (ERR_INVALID, n)
                           else (KDUMP_OK, fst (update_at p (store_val v) true n))) =
                          (if b then (KDUMP_OK, fst (update_at p (store_val v) true n))
                           else (ERR_INVALID, n))) by (intros []; reflexivity).
  destruct ty.
  - cbn [fst snd]. split; [reflexivity|intro q; apply (dict_clear p n m Hm)].
  - rewrite Hok. destruct (atype_eqb TDir (aty m)); cbn [fst snd];
      (split; [reflexivity|intro q; first [apply (dict_set v p n m Hm)|reflexivity]]).
  - rewrite Hok. destruct (atype_eqb TNum (aty m)); cbn [fst snd];
      (split; [reflexivity|intro q; first [apply (dict_set v p n m Hm)|reflexivity]]).
  - rewrite Hok. destruct (atype_eqb TAddr (aty m)); cbn [fst snd];
      (split; [reflexivity|intro q; first [apply (dict_set v p n m Hm)|reflexivity]]).
  - rewrite Hok. destruct (atype_eqb TStr (aty m)); cbn [fst snd];
      (split; [reflexivity|intro q; first [apply (dict_set v p n m Hm)|reflexivity]]).
  - rewrite Hok. destruct (atype_eqb TBmp (aty m)); cbn [fst snd];
      (split; [reflexivity|intro q; first [apply (dict_set v p n m Hm)|reflexivity]]).
  - rewrite Hok. destruct (atype_eqb TBlob (aty m)); cbn [fst snd];
      (split; [reflexivity|intro q; first [apply (dict_set v p n m Hm)|reflexivity]]).
Qed.

(** * histories of checked sets and clears *)

Definition top := (path * atype * aval)%type.

Fixpoint ttrace (ops : list top) (n : anode) : list status * anode :=
  match ops with
  | [] => ([], n)
  | (p, ty, v) :: t =>
      let '(st, n') := tset p ty v n in
      let '(l, nf) := ttrace t n' in (st :: l, nf)
  end.

Fixpoint dtrace (ops : list top) (d : dictionary) : list status * dictionary :=
  match ops with
  | [] => ([], d)
  | (p, ty, v) :: t =>
      let '(st, d') := d_step p ty v d in
      let '(l, df) := dtrace t d' in (st :: l, df)
  end.

Lemma d_step_deq p ty v d1 d2 :
  deq d1 d2 ->
  fst (d_step p ty v d1) = fst (d_step p ty v d2) /\
  deq (snd (d_step p ty v d1)) (snd (d_step p ty v d2)).
Proof.
  intro He. unfold d_step. rewrite (He p).
  destruct (d2 p) as [e|]; [|split; [reflexivity|exact He]].
  assert (Hs : deq (d_set p v d1) (d_set p v d2)).
  { intro q. unfold d_set. rewrite (He q). now rewrite (inst_reach_ext q p d1 d2 He). }
  assert (Hc : deq (d_clear p d1) (d_clear p d2)) by (intro q; unfold d_clear; now rewrite (He q)).
  destruct ty; cbn [fst snd]; try (split; [reflexivity|exact Hc]);
    destruct (atype_eqb _ (e_ty e)); cbn [fst snd]; split; auto.
Qed.

Lemma dtrace_deq ops : forall d1 d2, deq d1 d2 ->
  fst (dtrace ops d1) = fst (dtrace ops d2) /\ deq (snd (dtrace ops d1)) (snd (dtrace ops d2)).
Proof.
  induction ops as [|[[p ty] v] t IH]; intros d1 d2 He; [split; [reflexivity|exact He]|].
  cbn [dtrace]. destruct (d_step_deq p ty v d1 d2 He) as [H1 H2].
  destruct (d_step p ty v d1) as [s1 e1], (d_step p ty v d2) as [s2 e2]. cbn [fst snd] in *. subst s2.
  destruct (IH e1 e2 H2) as [H3 H4].
  destruct (dtrace t e1) as [l1 f1], (dtrace t e2) as [l2 f2]. cbn [fst snd] in *. subst l2.
  split; [reflexivity|exact H4].
Qed.

(** every history of sets, clears and refused sets on a tree is the same
    history on its dictionary: same statuses, same resulting dictionary *)
Theorem history_refines ops : forall n,
  fst (ttrace ops n) = fst (dtrace ops (dict_of n)) /\
  deq (dict_of (snd (ttrace ops n))) (snd (dtrace ops (dict_of n))).
Proof.
  induction ops as [|[[p ty] v] t IH]; intros n; [split; [reflexivity|intro q; reflexivity]|].
  cbn [ttrace dtrace]. destruct (tset_step p ty v n) as (H1 & H2).
  destruct (tset p ty v n) as [st n'], (d_step p ty v (dict_of n)) as [st' d']. cbn [fst snd] in *. subst st'.
  destruct (IH n') as [H4 H5].
  destruct (dtrace_deq t (dict_of n') d' H2) as [H6 H7].
  destruct (ttrace t n') as [l nf], (dtrace t (dict_of n')) as [l1 f1], (dtrace t d') as [l2 f2].
  cbn [fst snd] in *. subst. split; [reflexivity|].
  intro q. rewrite (H5 q). apply H7.
Qed.

(** a set with the wrong type is refused and changes nothing *)
Lemma type_mismatch p ty v n m :
  node_at p n = Some m -> ty <> TNil -> atype_eqb ty (aty m) = false ->
  tset p ty v n = (ERR_INVALID, n).
Proof.
  intros Hm Hn Ht. rewrite tset_unfold, Hm, Ht. destruct ty; try reflexivity. contradiction.
Qed.

(** * iteration *)

Fixpoint iter_from (fuel : nat) (kids : list anode) (i : nat) : list nat :=
  match fuel with
  | O => []
  | S f => match first_set kids i with
           | Some j => j :: iter_from f kids (S j)
           | None => []
           end
  end.

(** positions visited by kdump_attr_iter_start followed by kdump_attr_iter_next until the end *)
Definition listing (kids : list anode) : list nat := iter_from (S (length kids)) kids O.

Lemma first_set_cons_S a l i : first_set (a :: l) (S i) = option_map S (first_set l i).
Proof. cbn [first_set]. destruct (first_set l i); reflexivity. Qed.

Lemma first_set_cons_0 a l :
  first_set (a :: l) O = if aisset a then Some O else option_map S (first_set l O).
Proof. cbn [first_set]. destruct (aisset a); [reflexivity|]. destruct (first_set l O); reflexivity. Qed.

Lemma iter_from_cons_S f a l : forall i, iter_from f (a :: l) (S i) = map S (iter_from f l i).
Proof.
  induction f as [|f IH]; intro i; [reflexivity|]. cbn [iter_from]. rewrite first_set_cons_S.
  destruct (first_set l i) as [j|]; cbn [option_map map]; [|reflexivity]. now rewrite IH.
Qed.

Lemma first_set_lt l : forall i j, first_set l i = Some j -> (i <= j < length l)%nat.
Proof.
  induction l as [|a l IH]; intros i j; [discriminate|].
  destruct i as [|i].
  - rewrite first_set_cons_0. destruct (aisset a).
    + intro H. injection H as <-. cbn. lia.
    + destruct (first_set l O) as [k|] eqn:E; [|discriminate]. cbn. intro H. injection H as <-.
      specialize (IH O k E). lia.
  - rewrite first_set_cons_S. destruct (first_set l i) as [k|] eqn:E; [|discriminate].
    cbn. intro H. injection H as <-. specialize (IH i k E). lia.
Qed.

(** more fuel than positions left changes nothing *)
Lemma iter_from_fuel l : forall f i, (length l < f + i)%nat ->
  iter_from (S f) l i = iter_from f l i.
Proof.
  intros f. induction f as [|f IH]; intros i H.
  - cbn [iter_from]. destruct (first_set l i) as [j|] eqn:E; [|reflexivity].
    apply first_set_lt in E. lia.
  - cbn [iter_from]. destruct (first_set l i) as [j|] eqn:E; [|reflexivity].
    f_equal. pose proof (first_set_lt l i j E). change (iter_from (S f) l (S j) = iter_from f l (S j)).
    apply IH. lia.
Qed.

(** a complete iteration visits exactly the set children, each once, in sibling order *)
Theorem listing_spec kids :
  map (fun j => nth_error kids j) (listing kids) = map Some (filter aisset kids).
Proof.
  unfold listing. induction kids as [|a l IH]; [reflexivity|].
  cbn [length]. change (iter_from (S (S (length l))) (a :: l) O) with
    (match first_set (a :: l) O with
     | Some j => j :: iter_from (S (length l)) (a :: l) (S j)
     | None => []
     end).
  rewrite first_set_cons_0. cbn [filter]. destruct (aisset a).
  - rewrite iter_from_cons_S. cbn [map nth_error]. f_equal.
    rewrite map_map. cbn [nth_error]. exact IH.
  - destruct (first_set l O) as [j|] eqn:E; cbn [option_map].
    + rewrite iter_from_cons_S. cbn [map nth_error].
      (* the listing of l starts at the same j *)
      assert (Hl : iter_from (S (length l)) l O = j :: iter_from (length l) l (S j))
        by (cbn [iter_from]; now rewrite E).
      rewrite Hl in IH. cbn [map] in IH. rewrite <- IH. f_equal.
      rewrite map_map. cbn [nth_error].
      rewrite (iter_from_fuel l (length l) (S j)) by lia. reflexivity.
    + assert (Hl : iter_from (S (length l)) l O = []) by (cbn [iter_from]; now rewrite E).
      rewrite Hl in IH. exact IH.
Qed.

Lemma iter_from_increasing f l : forall i, 
  forall j, In j (iter_from f l i) -> (i <= j)%nat.
Proof.
  induction f as [|f IH]; intros i j; [intros []|]. cbn [iter_from].
  destruct (first_set l i) as [k|] eqn:E; [|intros []].
  pose proof (first_set_lt l i k E) as Hlt. intros [<-|Hin]; [lia|]. specialize (IH (S k) j Hin). lia.
Qed.

Lemma iter_from_nodup f l : forall i, NoDup (iter_from f l i).
Proof.
  induction f as [|f IH]; intro i; [constructor|]. cbn [iter_from].
  destruct (first_set l i) as [k|]; [|constructor]. constructor; [|apply IH].
  intro H. apply iter_from_increasing in H. lia.
Qed.

(** * re-open: clear_volatile *)

Fixpoint has_persist (n : anode) : bool :=
  let 'ANode _ _ _ p _ kids := n in p || existsb has_persist kids.

Fixpoint anode_ind' (P : anode -> Prop)
  (H : forall k t s p v kids, Forall P kids -> P (ANode k t s p v kids)) (n : anode) : P n :=
  match n with
  | ANode k t s p v kids =>
      H k t s p v kids
        ((fix go (l : list anode) : Forall P l :=
            match l with
            | [] => Forall_nil P
            | x :: r => Forall_cons x (anode_ind' P H x) (go r)
            end) kids)
  end.

Lemma cv_persist n : snd (clear_volatile n) = has_persist n.
Proof.
  induction n as [k t s p v kids IH] using anode_ind'.
  cbn [clear_volatile has_persist snd]. f_equal.
  induction kids as [|a l IHl]; [reflexivity|].
  inversion IH as [|? ? Ha Hl]; subst. cbn [map existsb]. rewrite Ha. f_equal. now apply IHl.
Qed.

Lemma cv_key n : akey (fst (clear_volatile n)) = akey n.
Proof. destruct n as [k t s p v kids]. reflexivity. Qed.

Lemma cv_entry n :
  entry_of (fst (clear_volatile n)) =
  {| e_ty := aty n; e_set := (if has_persist n then aisset n else false);
     e_persist := apersist n; e_val := aval_of n |}.
Proof.
  pose proof (cv_persist n) as H. destruct n as [k t s p v kids].
  cbn [clear_volatile snd fst] in *. unfold entry_of. cbn [aty aisset apersist aval_of].
  rewrite <- H. reflexivity.
Qed.

Lemma cv_kids n : akids (fst (clear_volatile n)) = map (fun m => fst (clear_volatile m)) (akids n).
Proof. destruct n as [k t s p v kids]. cbn [clear_volatile fst akids]. now rewrite map_map. Qed.

Lemma child_map_cv c l :
  child c (map (fun m => fst (clear_volatile m)) l) = option_map (fun m => fst (clear_volatile m)) (child c l).
Proof.
  unfold child.
  assert (H : child_index c (map (fun m => fst (clear_volatile m)) l) = child_index c l).
  { induction l as [|n l IH]; [reflexivity|]. cbn [map child_index]. rewrite cv_key, IH. reflexivity. }
  rewrite H. destruct (child_index c l) as [i|]; [|reflexivity]. now rewrite nth_error_map.
Qed.

Lemma cv_node_at q : forall n,
  node_at q (fst (clear_volatile n)) = option_map (fun m => fst (clear_volatile m)) (node_at q n).
Proof.
  induction q as [|c r IH]; intro n; [reflexivity|].
  rewrite !node_at_cons, cv_kids, child_map_cv.
  destruct (child c (akids n)) as [m|]; [apply IH|reflexivity].
Qed.

(** [x] is [m] or below it *)
Inductive desc : anode -> anode -> Prop :=
| desc_refl m : desc m m
| desc_kid m k x : In k (akids m) -> desc k x -> desc m x.

Lemma has_persist_desc n : has_persist n = true -> exists x, desc n x /\ apersist x = true.
Proof.
  induction n as [k t s p v kids IH] using anode_ind'. cbn [has_persist].
  intro H. apply orb_true_iff in H as [H|H].
  - exists (ANode k t s p v kids). split; [constructor|exact H].
  - apply existsb_exists in H as (a & Ha & Hp).
    destruct (proj1 (Forall_forall _ _) IH a Ha Hp) as (x & Hd & Hx).
    exists x. split; [|exact Hx]. eapply desc_kid; [exact Ha|exact Hd].
Qed.

(** after a re-open an attribute has a value iff it had one and it, or an
    attribute below it, was set by the application; types, values and the
    persistent marks are untouched *)
Theorem reopen_spec q n m :
  node_at q n = Some m ->
  dict_of (fst (clear_volatile n)) q =
  Some {| e_ty := aty m; e_set := (if has_persist m then aisset m else false);
          e_persist := apersist m; e_val := aval_of m |}.
Proof. intro H. unfold dict_of. rewrite cv_node_at, H. cbn [option_map]. now rewrite cv_entry. Qed.

Lemma persistent_has_persist m : apersist m = true -> has_persist m = true.
Proof. destruct m as [k t s p v kids]. cbn. now intros ->. Qed.

(** * clones *)

(** the dictionary of a KDUMP_CLONE_XLAT clone holds a copy of [addrxlat] and nothing else *)
Definition overlay_ok (ov : anode) : Prop := map akey (akids ov) = [s_addrxlat].

Lemma make_overlay_ok b ov : make_overlay b = Some ov -> overlay_ok ov.
Proof.
  unfold make_overlay. destruct (child s_addrxlat (akids b)) as [ax|] eqn:Eax; [|discriminate].
  destruct (child s_default (akids ax)); [|discriminate].
  destruct (child s_force (akids ax)); [|discriminate].
  destruct (child s_ostype (akids ax)); [|discriminate].
  destruct (child_some _ _ _ Eax) as (i & Hi & Hn).
  pose proof (child_index_key _ _ _ _ Hi Hn) as Hk.
  destruct ax as [k t s p v kids]. cbn [clone_leafdir]. intro H. injection H as <-.
  unfold overlay_ok. cbn. cbn in Hk. now rewrite Hk.
Qed.

Definition keeps_kid_keys (f : anode -> anode) : Prop :=
  forall n, map akey (akids (f n)) = map akey (akids n).

Lemma store_val_kid_keys v : keeps_kid_keys (store_val v).
Proof. intros [k t s p x kids]. reflexivity. Qed.
Lemma store_default_kid_keys v : keeps_kid_keys (store_default v).
Proof. intros [k t s p x kids]. reflexivity. Qed.
Lemma clear_node_kid_keys : keeps_kid_keys clear_node.
Proof.
  intros [k t s p x kids]. cbn [clear_node akids]. rewrite map_map.
  apply map_ext. intro a. apply clear_node_key.
Qed.

Lemma map_replace_nth {A B} (g : A -> B) i x l :
  map g (replace_nth i x l) = replace_nth i (g x) (map g l).
Proof. revert i. induction l as [|a l IH]; intros [|i]; cbn; try reflexivity. now rewrite IH. Qed.

Lemma replace_nth_same {A} i (x : A) l : nth_error l i = Some x -> replace_nth i x l = l.
Proof.
  revert i. induction l as [|a l IH]; intros [|i]; cbn; intro H; try discriminate; try reflexivity.
  - now injection H as ->.
  - now rewrite IH.
Qed.

(** an update keeps the keys of the children of the root *)
Lemma update_at_kid_keys p f inst n :
  keeps_key f -> keeps_kid_keys f ->
  map akey (akids (fst (update_at p f inst n))) = map akey (akids n).
Proof.
  intros Hk Hkk. destruct p as [|c rest]; cbn [update_at fst]; [apply Hkk|].
  destruct (child_index c (akids n)) as [i|] eqn:Hi; [|reflexivity].
  destruct (nth_error (akids n) i) as [m|] eqn:Hm; [|reflexivity].
  pose proof (update_at_key rest f inst Hk m) as Hkm.
  destruct (update_at rest f inst m) as [m' up]. cbn [fst] in Hkm.
  assert (Hn : akids (fst (let 'ANode k t s pe v kids := if up then mark_set n else n in
                           (ANode k t s pe v (replace_nth i m' kids), up && negb (aisset n))))
               = replace_nth i m' (akids n)).
  { destruct n as [k t s pe v kids]. destruct up; reflexivity. }
  rewrite Hn, map_replace_nth, Hkm. apply replace_nth_same.
  rewrite nth_error_map, Hm. reflexivity.
Qed.

Lemma update_at_overlay_ok p f inst ov :
  keeps_key f -> keeps_kid_keys f -> overlay_ok ov -> overlay_ok (fst (update_at p f inst ov)).
Proof. intros Hk Hkk H. unfold overlay_ok. now rewrite update_at_kid_keys. Qed.

(** through a KDUMP_CLONE_XLAT clone every key outside [addrxlat] resolves to
    the original dictionary's attribute *)
Lemma resolve_clone_shared s k ov c rest :
  nth_error (overlays s) k = Some (Some ov) -> overlay_ok ov -> c <> s_addrxlat ->
  resolve (S k) false (c :: rest) s = resolve O false (c :: rest) s.
Proof.
  intros Hov Hok Hc. unfold resolve, addr_node, dict_root. cbn [fst snd]. rewrite Hov.
  rewrite node_at_cons.
  assert (Hch : child c (akids ov) = None).
  { unfold overlay_ok in Hok. destruct (akids ov) as [|x [|y l]]; try discriminate.
    cbn in Hok. injection Hok as Hx. unfold child. cbn [child_index].
    destruct (bytes_eqb (akey x) c) eqn:E; [|reflexivity].
    apply beqb_eq in E. congruence. }
  rewrite Hch. reflexivity.
Qed.

(** ... so getting and setting such a key through the clone is getting and
    setting it through the original context *)
Theorem clone_xlat_same s k ov c0 c1 p0 rest ty v :
  ctx_dict c0 s = Some O -> ctx_dict c1 s = Some (S k) ->
  nth_error (overlays s) k = Some (Some ov) -> overlay_ok ov -> p0 <> s_addrxlat ->
  astep (OGet c1 (Some (false, p0 :: rest))) s = astep (OGet c0 (Some (false, p0 :: rest))) s /\
  astep (OSet c1 (Some (false, p0 :: rest)) ty v) s = astep (OSet c0 (Some (false, p0 :: rest)) ty v) s.
Proof.
  intros H0 H1 Hov Hok Hp. cbn [astep]. rewrite H0, H1. cbn [resolve_key].
  rewrite (resolve_clone_shared s k ov p0 rest Hov Hok Hp). split; reflexivity.
Qed.

(** a clone that shares the dictionary (flags = 0) is indistinguishable *)
Theorem clone_shared_same s c0 c1 :
  ctx_dict c1 s = ctx_dict c0 s -> ctx_dict c0 s <> None ->
  forall k ty v,
  astep (OGet c1 k) s = astep (OGet c0 k) s /\
  astep (OSet c1 k ty v) s = astep (OSet c0 k ty v) s /\
  (forall isl, astep (OIterStart c1 isl k) s = astep (OIterStart c0 isl k) s) /\
  (forall sl, astep (ORef c1 sl k) s = astep (ORef c0 sl k) s).
Proof.
  intros H Hn k ty v. cbn [astep]. rewrite H. repeat split; reflexivity.
Qed.

(** what the clone operation itself creates *)
Lemma clone_creates s from xlat r s' :
  astep (OClone from xlat) s = (r, s') -> r <> ABad ->
  base s' = base s /\
  (xlat = false -> overlays s' = overlays s /\ ctx_dict (length (ctxs s)) s' = ctx_dict from s) /\
  (xlat = true -> exists ov, overlays s' = overlays s ++ [Some ov] /\ overlay_ok ov /\
                  ctx_dict (length (ctxs s)) s' = Some (S (length (overlays s)))).
Proof.
  cbn [astep]. destruct (ctx_dict from s) as [d|] eqn:Hd; [|intros H; injection H as <- <-; congruence].
  destruct xlat.
  - destruct d as [|d']; [|intros H; injection H as <- <-; congruence].
    destruct (make_overlay (base s)) as [ov|] eqn:Hov; [|intros H; injection H as <- <-; congruence].
    intros H _. injection H as <- <-. cbn [base overlays]. split; [reflexivity|]. split; [discriminate|].
    intros _. exists ov. split; [reflexivity|]. split; [now apply make_overlay_ok in Hov|].
    unfold ctx_dict. cbn [ctxs]. rewrite nth_error_app2 by lia. now rewrite Nat.sub_diag.
  - intros H _. injection H as <- <-. cbn [base overlays]. split; [reflexivity|]. split; [|discriminate].
    intros _. split; [reflexivity|]. unfold ctx_dict at 1. cbn [ctxs].
    rewrite nth_error_app2 by lia. rewrite Nat.sub_diag. reflexivity.
Qed.

(** * the executable dictionary ([dl_*], what the check replays) is the function one *)

Definition dl_dict (l : alist) : dictionary := fun q => dl_find q l.

Lemma dl_find_map_set (g : dictionary) p v t q :
  dl_find q (map (fun qe : path * entry =>
         let '(q0, e) := qe in
         if path_eqb q0 p then
           (q0, {| e_ty := e_ty e; e_set := true; e_persist := true;
                   e_val := match e_ty e with TDir => e_val e | _ => v end |})
         else if inst_reach g q0 p then
           (q0, {| e_ty := e_ty e; e_set := true; e_persist := e_persist e; e_val := e_val e |})
         else (q0, e)) t) =
  match dl_find q t with
  | None => None
  | Some e =>
      if path_eqb q p then
        Some {| e_ty := e_ty e; e_set := true; e_persist := true;
                e_val := match e_ty e with TDir => e_val e | _ => v end |}
      else if inst_reach g q p then
        Some {| e_ty := e_ty e; e_set := true; e_persist := e_persist e; e_val := e_val e |}
      else Some e
  end.
Proof.
  induction t as [|[q0 e] t IH]; [reflexivity|].
  cbn [map dl_find].
  destruct (path_eqb q0 p) eqn:E1; cbn [dl_find].
  - destruct (path_eqb q0 q) eqn:E2.
    + apply peqb_eq in E2. subst q0. now rewrite E1.
    + exact IH.
  - destruct (inst_reach g q0 p) eqn:E3; cbn [dl_find].
    + destruct (path_eqb q0 q) eqn:E2.
      * apply peqb_eq in E2. subst q0. now rewrite E1, E3.
      * exact IH.
    + destruct (path_eqb q0 q) eqn:E2.
      * apply peqb_eq in E2. subst q0. now rewrite E1, E3.
      * exact IH.
Qed.

Lemma dl_find_set p v l q : dl_find q (dl_set p v l) = d_set p v (dl_dict l) q.
Proof. unfold d_set, dl_dict, dl_set. apply dl_find_map_set. Qed.

Lemma dl_find_clear p l q : dl_find q (dl_clear p l) = d_clear p (dl_dict l) q.
Proof.
  unfold d_clear, dl_dict. induction l as [|[q0 e] t IH]; [reflexivity|].
  cbn [dl_clear map dl_find].
  destruct (prefix p q0) eqn:E1; cbn [dl_find]; destruct (path_eqb q0 q) eqn:E2;
    try exact IH; apply peqb_eq in E2; subst q0; now rewrite E1.
Qed.

Lemma dl_get_d_get p l : dl_get p l = d_get p (dl_dict l).
Proof. reflexivity. Qed.

Lemma dl_check_set_step p ty v l :
  fst (dl_check_set p ty v l) = fst (d_step p ty v (dl_dict l)) /\
  deq (dl_dict (snd (dl_check_set p ty v l))) (snd (d_step p ty v (dl_dict l))).
Proof.
  unfold dl_check_set, d_step.
  assert (Hd : dl_dict l p = dl_find p l) by reflexivity. rewrite Hd.
  destruct (dl_find p l) as [e|]; [|split; [reflexivity|intro q; reflexivity]].
  destruct ty; cbn [fst snd];
    try (split; [reflexivity|intro q; apply dl_find_clear]);
    destruct (atype_eqb _ (e_ty e)); cbn [fst snd]; split; try reflexivity;
    intro q; first [apply dl_find_set|reflexivity].
Qed.

(** the association list the check starts from ([flatten] of the initial tree)
    is the tree's dictionary, provided sibling keys are unique *)
Fixpoint uniq (n : anode) : Prop :=
  let 'ANode _ _ _ _ _ kids := n in
  NoDup (map akey kids) /\
  (fix all (l : list anode) : Prop := match l with [] => True | x :: r => uniq x /\ all r end) kids.

Lemma flatten_unfold pre n :
  flatten pre n = (pre, entry_of n) :: flat_map (fun ch => flatten (pre ++ [akey ch]) ch) (akids n).
Proof. destruct n as [k t s p v kids]. reflexivity. Qed.

Lemma prefix_app_l pre : forall q, prefix pre (pre ++ q) = true.
Proof. induction pre as [|x pre IH]; intro q; [reflexivity|]. cbn. now rewrite beqb_refl, IH. Qed.

Lemma prefix_app_diff pre k c r : k <> c -> prefix (pre ++ [k]) (pre ++ c :: r) = false.
Proof.
  intro H. induction pre as [|x pre IH]; cbn.
  - destruct (bytes_eqb k c) eqn:E; [|reflexivity]. apply beqb_eq in E. contradiction.
  - now rewrite beqb_refl, IH.
Qed.

Lemma flatten_keys n : forall pre k e, In (k, e) (flatten pre n) -> prefix pre k = true.
Proof.
  induction n as [k0 t s p v kids IH] using anode_ind'. intros pre k e.
  rewrite flatten_unfold. cbn [akids]. intros [H|H].
  - injection H as <- _. apply prefix_refl.
  - apply in_flat_map in H as (ch & Hch & Hin).
    pose proof (proj1 (Forall_forall _ _) IH ch Hch (pre ++ [akey ch]) k e Hin) as Hp.
    eapply prefix_trans; [|exact Hp]. apply prefix_app_l.
Qed.

Lemma dl_find_none t l : (forall k e, In (k, e) l -> path_eqb k t = false) -> dl_find t l = None.
Proof.
  induction l as [|[k e] l IH]; intro H; [reflexivity|]. cbn [dl_find].
  rewrite (H k e (or_introl eq_refl)). apply IH. intros k' e' Hin. apply (H k' e'). now right.
Qed.

Lemma dl_find_app t l1 l2 :
  dl_find t (l1 ++ l2) = match dl_find t l1 with Some e => Some e | None => dl_find t l2 end.
Proof.
  induction l1 as [|[k e] l1 IH]; [reflexivity|]. cbn [app dl_find].
  destruct (path_eqb k t); [reflexivity|exact IH].
Qed.

Lemma no_match ch pre k c r :
  k <> c -> dl_find (pre ++ c :: r) (flatten (pre ++ [k]) ch) = None.
Proof.
  intro H. apply dl_find_none. intros key e Hin.
  destruct (path_eqb key (pre ++ c :: r)) eqn:E; [|reflexivity].
  apply peqb_eq in E. subst key. apply flatten_keys in Hin.
  rewrite (prefix_app_diff pre k c r H) in Hin. discriminate.
Qed.

Lemma child_cons_ne a l c : akey a <> c -> child c (a :: l) = child c l.
Proof.
  intro H. unfold child. cbn [child_index].
  destruct (bytes_eqb (akey a) c) eqn:E; [apply beqb_eq in E; contradiction|].
  destruct (child_index c l); reflexivity.
Qed.

Lemma child_cons_eq a l : child (akey a) (a :: l) = Some a.
Proof. unfold child. cbn [child_index]. now rewrite beqb_refl. Qed.

Lemma path_eqb_app_cons pre c r : path_eqb pre (pre ++ c :: r) = false.
Proof. induction pre as [|x pre IH]; [reflexivity|]. cbn. now rewrite beqb_refl, IH. Qed.

Theorem flatten_dict n : uniq n -> forall pre q,
  dl_find (pre ++ q) (flatten pre n) = option_map entry_of (node_at q n).
Proof.
  induction n as [k0 t s p v kids IH] using anode_ind'. intros [Hnd Hall] pre q.
  rewrite flatten_unfold. cbn [akids dl_find]. destruct q as [|c r].
  - rewrite app_nil_r, peqb_refl. reflexivity.
  - rewrite path_eqb_app_cons. rewrite node_at_cons. cbn [akids].
    clear k0 t s p v.
    induction kids as [|a l IHl]; [reflexivity|].
    inversion IH as [|? ? Ha Hl]; subst. cbn [map] in Hnd. inversion Hnd as [|? ? Hnotin Hnd']; subst.
    destruct Hall as [Hua Hul]. cbn [flat_map]. rewrite dl_find_app.
    destruct (bytes_eqb (akey a) c) eqn:E.
    + apply beqb_eq in E. subst c. rewrite child_cons_eq.
      replace (pre ++ akey a :: r) with ((pre ++ [akey a]) ++ r) by (now rewrite <- app_assoc).
      rewrite (Ha Hua (pre ++ [akey a]) r).
      destruct (node_at r a) as [m|]; [reflexivity|]. cbn [option_map].
      rewrite <- app_assoc. cbn [app].
      apply dl_find_none. intros key e Hin.
      apply in_flat_map in Hin as (b & Hb & Hin).
      destruct (path_eqb key (pre ++ akey a :: r)) eqn:Ek; [|reflexivity].
      apply peqb_eq in Ek. subst key. apply flatten_keys in Hin.
      assert (Hne : akey b <> akey a).
      { intro Heq. apply Hnotin. rewrite <- Heq. now apply in_map. }
      rewrite (prefix_app_diff pre (akey b) (akey a) r Hne) in Hin. discriminate.
    + assert (Hne : akey a <> c) by (intro Heq; subst; rewrite beqb_refl in E; discriminate).
      rewrite (no_match a pre (akey a) c r Hne), (child_cons_ne a l c Hne).
      apply IHl; assumption.
Qed.

(** * reading *)

(** kdump_get_attr on the original dictionary is [d_get] on the tree's dictionary *)
Lemma get_at_dict q s : get_at (O, q) s = d_get q (dict_of (base s)).
Proof.
  unfold get_at, addr_node, d_get, dict_of. cbn [fst snd dict_root].
  destruct (node_at q (base s)) as [m|]; [|reflexivity]. cbn [option_map entry_of e_set e_ty e_val].
  reflexivity.
Qed.

(** a reference, a sub-reference and an iterator position are addresses: reading
    through them is reading the attribute at that address *)
Lemma ref_get_is_get c slot a s d :
  ctx_dict c s = Some d -> nth_error (refs s) slot = Some (Some a) ->
  astep (ORefGet c slot) s = (let '(st, ty, v) := get_at a s in AValue st ty v, s).
Proof.
  intros Hc Hr. cbn [astep]. rewrite Hc, Hr. destruct (get_at a s) as [[st ty] v]. reflexivity.
Qed.

Lemma iter_pos_is_get dir i n ch s :
  addr_node dir s = Some n -> nth_error (akids n) i = Some ch ->
  iter_out dir (Some i) s =
  let '(st2, ty, v) := get_at (fst dir, snd dir ++ [akey ch]) s in
  AIter KDUMP_OK (Some (akey ch)) st2 ty v.
Proof. intros Hn Hc. unfold iter_out. now rewrite Hn, Hc. Qed.

(** clearing on the tree: the attribute and everything below it report no value,
    everything else reads as before *)
Theorem tree_clear_subtree p n m :
  node_at p n = Some m ->
  let n' := fst (update_at p clear_node false n) in
  (forall q, prefix p q = true -> fst (fst (d_get q (dict_of n'))) <> KDUMP_OK) /\
  (forall q, prefix p q = false -> d_get q (dict_of n') = d_get q (dict_of n)).
Proof.
  intros Hm n'. split; intros q Hq.
  - pose proof (d_get_clear_below p q (dict_of n) Hq) as H.
    unfold d_get in *. unfold n'. rewrite (dict_clear p n m Hm q). exact H.
  - pose proof (d_get_clear_other p q (dict_of n) Hq) as H.
    unfold d_get in *. unfold n'. rewrite (dict_clear p n m Hm q). exact H.
Qed.

(** what stays after a re-open *)
Theorem reopen_keeps q n m :
  node_at q n = Some m ->
  let d' := dict_of (fst (clear_volatile n)) in
  (* an attribute the application set keeps its value *)
  (apersist m = true -> d_get q d' = d_get q (dict_of n)) /\
  (* an attribute that still has a value had it before, and it or something below
     it carries the application's mark *)
  (fst (fst (d_get q d')) = KDUMP_OK ->
   d_get q d' = d_get q (dict_of n) /\ exists x, desc m x /\ apersist x = true).
Proof.
  intros Hm d'. unfold d', d_get. rewrite (reopen_spec q n m Hm).
  unfold dict_of. rewrite Hm. cbn [option_map entry_of e_set e_ty e_val]. split.
  - intro Hp. now rewrite (persistent_has_persist m Hp).
  - destruct (has_persist m) eqn:Hh.
    + intros _. split; [reflexivity|]. now apply has_persist_desc.
    + cbn. discriminate.
Qed.

(** * a decidable sufficient condition for [anc_closed] (checked on the initial
      dictionary of every run) *)
Lemma anc_okb_unfold n :
  anc_okb n = forallb (fun ch => (negb (aisset ch) || aisset n) && anc_okb ch) (akids n).
Proof. destruct n as [k t s p v kids]. reflexivity. Qed.

Lemma child_in c l m : child c l = Some m -> In m l.
Proof.
  intro H. destruct (child_some _ _ _ H) as (i & _ & Hn). eapply nth_error_In; eauto.
Qed.

Lemma anc_okb_path q : forall n m,
  anc_okb n = true -> node_at q n = Some m -> aisset m = true -> q <> [] ->
  aisset n = true /\
  forall q', strict_prefix q' q = true -> exists a, node_at q' n = Some a /\ aisset a = true.
Proof.
  induction q as [|c r IH]; intros n m Hok Hn Hs Hne; [congruence|].
  rewrite node_at_cons in Hn. destruct (child c (akids n)) as [ch|] eqn:Ec; [|discriminate].
  rewrite anc_okb_unfold in Hok.
  pose proof (proj1 (forallb_forall _ _) Hok ch (child_in _ _ _ Ec)) as Hch.
  apply andb_prop in Hch as [Hpar Hokch].
  destruct r as [|c2 r2].
  - cbn in Hn. injection Hn as <-. rewrite Hs in Hpar. cbn in Hpar.
    split; [exact Hpar|]. intros q' Hq'. destruct q' as [|x q'].
    + exists n. auto.
    + rewrite strict_prefix_cons in Hq'. apply andb_prop in Hq' as [_ Hq'].
      destruct q'; discriminate.
  - destruct (IH ch m Hokch Hn Hs ltac:(discriminate)) as [Hsch Hpre].
    rewrite Hsch in Hpar. cbn in Hpar. split; [exact Hpar|].
    intros q' Hq'. destruct q' as [|x q'].
    + exists n. auto.
    + rewrite strict_prefix_cons in Hq'. apply andb_prop in Hq' as [Ex Hq'].
      apply beqb_eq in Ex. subst x. rewrite node_at_cons, Ec.
      destruct q' as [|y q''].
      * exists ch. auto.
      * apply Hpre. exact Hq'.
Qed.

Theorem anc_okb_sound n : anc_okb n = true -> anc_closed n.
Proof.
  intros Hok q m Hn Hs q' Hq'.
  destruct q as [|c r]; [destruct q'; discriminate|].
  exact (proj2 (anc_okb_path (c :: r) n m Hok Hn Hs ltac:(discriminate)) q' Hq').
Qed.

Lemma nodupb_sound l : nodupb l = true -> NoDup l.
Proof.
  induction l as [|x t IH]; [constructor|]. cbn [nodupb]. intro H.
  apply andb_prop in H as [H1 H2]. constructor; [|now apply IH].
  intro Hin. apply negb_true_iff in H1.
  assert (existsb (bytes_eqb x) t = true) by (apply existsb_exists; exists x; split; [exact Hin|apply beqb_refl]).
  congruence.
Qed.

Theorem uniqb_sound n : uniqb n = true -> uniq n.
Proof.
  induction n as [k t s p v kids IH] using anode_ind'. cbn [uniqb uniq]. intro H.
  apply andb_prop in H as [H1 H2]. split; [now apply nodupb_sound|].
  induction kids as [|a l IHl]; [exact I|].
  inversion IH as [|? ? Ha Hl]; subst. cbn [forallb] in H2. apply andb_prop in H2 as [Hua Hul].
  cbn [map nodupb] in H1. apply andb_prop in H1 as [_ H1]. split; [now apply Ha|now apply IHl].
Qed.

(** * iteration interleaved with sets and clears *)

Definition set_at (l : list anode) (i : nat) : bool :=
  match nth_error l i with Some ch => aisset ch | None => false end.

Lemma first_set_some l : forall s p,
  first_set l s = Some p ->
  (s <= p)%nat /\ set_at l p = true /\ forall i, (s <= i < p)%nat -> set_at l i = false.
Proof.
  induction l as [|a l IH]; intros s p; [discriminate|].
  destruct s as [|s].
  - rewrite first_set_cons_0. destruct (aisset a) eqn:Ea.
    + intro H. injection H as <-. unfold set_at. cbn. rewrite Ea. repeat split; auto. intros i Hi. lia.
    + destruct (first_set l O) as [k|] eqn:E; [|discriminate]. cbn. intro H. injection H as <-.
      destruct (IH O k E) as (_ & Hs & Hb). split; [lia|]. split; [exact Hs|].
      intros [|i] Hi; [unfold set_at; cbn; exact Ea|]. apply (Hb i). lia.
  - rewrite first_set_cons_S. destruct (first_set l s) as [k|] eqn:E; [|discriminate]. cbn.
    intro H. injection H as <-. destruct (IH s k E) as (Hle & Hs & Hb).
    split; [lia|]. split; [exact Hs|]. intros [|i] Hi; [lia|]. apply (Hb i). lia.
Qed.

Lemma first_set_none l : forall s, first_set l s = None -> forall i, (s <= i)%nat -> set_at l i = false.
Proof.
  induction l as [|a l IH]; intros s H i Hi; [unfold set_at; now destruct i|].
  destruct s as [|s].
  - rewrite first_set_cons_0 in H. destruct (aisset a) eqn:Ea; [discriminate|].
    destruct (first_set l O) eqn:E; [discriminate|].
    destruct i as [|i]; [unfold set_at; cbn; exact Ea|]. apply (IH O E i). lia.
  - rewrite first_set_cons_S in H. destruct (first_set l s) eqn:E; [discriminate|].
    destruct i as [|i]; [lia|]. apply (IH s E i). lia.
Qed.

(** the step to the next position looks only at the siblings after the current
    one: whether the current child (or an earlier one) still has a value is irrelevant *)
Lemma first_set_ext l : forall l' s,
  (forall i, (s <= i)%nat -> set_at l i = set_at l' i) -> length l = length l' ->
  first_set l s = first_set l' s.
Proof.
  induction l as [|a l IH]; intros [|a' l'] s H Hl; try discriminate; [reflexivity|].
  destruct s as [|s].
  - rewrite !first_set_cons_0. pose proof (H O (le_n _)) as H0. unfold set_at in H0. cbn in H0.
    rewrite H0. destruct (aisset a'); [reflexivity|]. f_equal. apply IH; [|now injection Hl].
    intros i Hi. apply (H (S i)). lia.
  - rewrite !first_set_cons_S. f_equal. apply IH; [|now injection Hl].
    intros i Hi. apply (H (S i)). lia.
Qed.

(** an iteration whose j-th call (start, next, next, ...) sees the children in
    state [ks j] (anything may have been set or cleared between the calls) *)
Fixpoint iter_run (fuel : nat) (ks : nat -> list anode) (j : nat) (start : nat) : list nat :=
  match fuel with
  | O => []
  | S f => match first_set (ks j) start with
           | Some p => p :: iter_run f ks (S j) (S p)
           | None => []
           end
  end.

(** where the k-th call starts looking *)
Definition call_start (start : nat) (ps : list nat) (k : nat) : nat :=
  match k with O => start | S k' => S (nth k' ps O) end.

Theorem iter_run_spec fuel : forall ks j start k p,
  nth_error (iter_run fuel ks j start) k = Some p ->
  let s := call_start start (iter_run fuel ks j start) k in
  (s <= p)%nat /\ set_at (ks (j + k)%nat) p = true /\
  forall i, (s <= i < p)%nat -> set_at (ks (j + k)%nat) i = false.
Proof.
  induction fuel as [|f IH]; intros ks j start k p H; [destruct k; discriminate|].
  cbn [iter_run] in *. destruct (first_set (ks j) start) as [q|] eqn:E; [|destruct k; discriminate].
  destruct k as [|k].
  - cbn in H. injection H as <-. cbn [call_start]. rewrite Nat.add_0_r. now apply first_set_some.
  - cbn [nth_error] in H. specialize (IH ks (S j) (S q) k p H). cbn zeta in IH.
    replace (j + S k)%nat with (S j + k)%nat by lia.
    destruct k as [|k']; cbn [call_start nth] in *; exact IH.
Qed.

(** positions only move forward: nothing is yielded twice *)
Lemma iter_run_increasing fuel : forall ks j start p,
  In p (iter_run fuel ks j start) -> (start <= p)%nat.
Proof.
  induction fuel as [|f IH]; intros ks j start p; [intros []|]. cbn [iter_run].
  destruct (first_set (ks j) start) as [q|] eqn:E; [|intros []].
  apply first_set_some in E as [Hle _]. intros [<-|Hin]; [exact Hle|].
  specialize (IH ks (S j) (S q) p Hin). lia.
Qed.

Lemma iter_run_nodup fuel : forall ks j start, NoDup (iter_run fuel ks j start).
Proof.
  induction fuel as [|f IH]; intros ks j start; [constructor|]. cbn [iter_run].
  destruct (first_set (ks j) start) as [q|]; [|constructor]. constructor; [|apply IH].
  intro H. apply iter_run_increasing in H. lia.
Qed.

(** when the iteration ends, no sibling after the last position has a value *)
Lemma iter_run_end fuel : forall ks j start,
  (length (iter_run fuel ks j start) < fuel)%nat ->
  let ps := iter_run fuel ks j start in
  forall i, (call_start start ps (length ps) <= i)%nat -> set_at (ks (j + length ps)%nat) i = false.
Proof.
  induction fuel as [|f IH]; intros ks j start Hl; [lia|]. cbn [iter_run] in *.
  destruct (first_set (ks j) start) as [q|] eqn:E.
  - cbn [length] in *. specialize (IH ks (S j) (S q) ltac:(lia)). cbn zeta in IH.
    intros i Hi. replace (j + S (length (iter_run f ks (S j) (S q))))%nat
      with (S j + length (iter_run f ks (S j) (S q)))%nat by lia.
    apply IH. destruct (iter_run f ks (S j) (S q)) as [|x t] eqn:Er; cbn [call_start length nth] in *; exact Hi.
  - cbn [length call_start]. rewrite Nat.add_0_r. intros i Hi. now apply (first_set_none _ _ E).
Qed.

(** a clone copies the value AND the flags of every attribute that has a value
    (copy_data: isset, persist), so that what the application set stays
    persistent in the clone's private copy; attributes without a value are
    copied as such *)
Lemma clone_node_flags n :
  akey (clone_node n) = akey n /\ aty (clone_node n) = aty n /\
  aisset (clone_node n) = aisset n /\
  (aisset n = true -> apersist (clone_node n) = apersist n /\ aval_of (clone_node n) = aval_of n) /\
  (aisset n = false -> apersist (clone_node n) = false).
Proof. destruct n as [k t s p v kids]. cbn. destruct s; repeat split; intros; try discriminate; reflexivity. Qed.

(** hence a re-open through the clone keeps it there exactly as in the original *)
Lemma clone_then_reopen_keeps n :
  aisset n = true -> apersist n = true ->
  entry_of (fst (clear_volatile (clone_node n))) =
  {| e_ty := aty n; e_set := true; e_persist := true; e_val := aval_of n |}.
Proof.
  intros Hs Hp. rewrite cv_entry.
  destruct (clone_node_flags n) as (_ & Ht & Hi & Hv & _). destruct (Hv Hs) as [Hpp Hvv].
  rewrite Ht, Hi, Hpp, Hvv, Hs, Hp.
  rewrite (persistent_has_persist (clone_node n)) by (rewrite Hpp; exact Hp). reflexivity.
Qed.

(** a failing post-set hook changes the status only *)
Lemma hookfail_state st c k ty v s :
  snd (astep_hookfail st c k ty v s) = snd (astep (OSet c k ty v) s) /\
  (fst (astep (OSet c k ty v) s) = AStatus KDUMP_OK -> fst (astep_hookfail st c k ty v s) = AStatus st) /\
  (fst (astep (OSet c k ty v) s) <> AStatus KDUMP_OK ->
   fst (astep_hookfail st c k ty v s) = fst (astep (OSet c k ty v) s)).
Proof.
  unfold astep_hookfail, hook_fails. destruct (astep (OSet c k ty v) s) as [r s']. cbn.
  destruct r as [st0| | | | | |]; try (repeat split; congruence).
  destruct st0; repeat split; congruence.
Qed.

Lemma hookfail_spec st p ty v l :
  snd (dl_check_set_hookfail st p ty v l) = snd (dl_check_set p ty v l) /\
  fst (dl_check_set_hookfail st p ty v l) =
  (if status_eqb (fst (dl_check_set p ty v l)) KDUMP_OK then st else fst (dl_check_set p ty v l)).
Proof.
  unfold dl_check_set_hookfail. destruct (dl_check_set p ty v l) as [s0 l']. cbn.
  destruct s0; split; reflexivity.
Qed.
