(** Proofs about [Attr/AttrChain.v]: lookup through any level of a chain of
    dictionaries, creation through any level, freeing a dictionary. *)
From Coq Require Import NArith List Bool Arith Lia.
From KdV Require Import Base.Wrap64 Attr.AttrBase Attr.AttrHash Attr.AttrHashProofs Attr.AttrChain.
Import ListNotations.

(** * lookup *)
Section Lookup.
Variable hash : bytes -> N.
Variable tmpl : cpath -> N.
Hypothesis tmpl_inj : forall a b, tmpl a = tmpl b -> a = b.

(** for every hash function: the lookup through level [i] returns the attribute
    of the first dictionary in the chain of [i] whose table has the path *)
Theorem chain_lookup s i dir key :
  no_leading_dot key ->
  lookup_chain hash tmpl s i dir key =
  match first_owner s (chain s i) (dir ++ split_on DOT key) with
  | Some k => Some (k, dir ++ split_on DOT key)
  | None => None
  end.
Proof.
  intro Hk. unfold lookup_chain. induction (chain s i) as [|k rest IH]; [reflexivity|].
  cbn [lookup_in first_owner].
  rewrite (lookup_hash_key hash tmpl tmpl_inj (table s k) dir key Hk).
  destruct (in_dec (list_eq_dec (list_eq_dec N.eq_dec)) (dir ++ split_on DOT key) (table s k)) as [Hin|Hn];
    destruct (in_dec cpath_eq_dec (dir ++ split_on DOT key) (table s k)) as [Hin'|Hn']; try contradiction.
  - reflexivity.
  - exact IH.
Qed.
End Lookup.

(** * well-formed states *)
Definition alive (s : cstate) (k : nat) : Prop :=
  exists d, dict_at s k = Some d /\ d_alive d = true.

Record inv (s : cstate) : Prop := {
  inv_owner : forall a, In a (attrs s) -> a_table a = a_tree a;
  inv_alive : forall a, In a (attrs s) -> alive s (a_table a);
  (* the parent directory of an attribute is in the same table (the roots have no parent) *)
  inv_closed : forall a q c, In a (attrs s) -> a_path a = q ++ [c] -> In q (table s (a_table a))
}.

Lemma in_table s k p : In p (table s k) <-> exists a, In a (attrs s) /\ a_table a = k /\ a_path a = p.
Proof.
  unfold table. rewrite in_map_iff. split.
  - intros (a & Hp & Hin). apply filter_In in Hin as [Hin Hk]. apply Nat.eqb_eq in Hk. eauto.
  - intros (a & Hin & Hk & Hp). exists a. split; [exact Hp|]. apply filter_In. split; [exact Hin|].
    now apply Nat.eqb_eq.
Qed.

(** owner_dict finds the attribute's own dictionary whenever it is on the chain *)
Lemma owner_in_spec ks a : In (a_table a) ks -> owner_in ks a = Some (a_table a).
Proof.
  induction ks as [|k rest IH]; intro H; [contradiction|].
  destruct rest as [|k2 rest'].
  - destruct H as [->|[]]. reflexivity.
  - cbn [owner_in]. destruct (Nat.eqb k (a_table a)) eqn:E.
    + apply Nat.eqb_eq in E. now subst.
    + destruct H as [H|H]; [subst; rewrite Nat.eqb_refl in E; discriminate|]. now apply IH.
Qed.

Lemma owner_dict_spec s i a : In (a_table a) (chain s i) -> owner_dict s i a = a_table a.
Proof. intro H. unfold owner_dict. now rewrite owner_in_spec. Qed.

Lemma table_create s i parent c k :
  table (create s i parent c) k =
  if Nat.eqb (owner_dict s i parent) k then (a_path parent ++ [c]) :: table s k else table s k.
Proof.
  unfold table, create. cbn [attrs filter a_table].
  destruct (Nat.eqb (owner_dict s i parent) k); reflexivity.
Qed.

Lemma chain_fuel_dicts f : forall s s' j, dicts s' = dicts s -> chain_fuel f s' j = chain_fuel f s j.
Proof.
  induction f as [|f IH]; intros s s' j H; [reflexivity|]. cbn [chain_fuel]. unfold dict_at. rewrite H.
  destruct (nth_error (dicts s) j) as [d|]; [|reflexivity]. destruct (d_fallback d); [|reflexivity].
  now rewrite (IH s s').
Qed.

Lemma chain_create s i parent c j : chain (create s i parent c) j = chain s j.
Proof. unfold chain. now apply chain_fuel_dicts. Qed.

(** * creation *)

(** creating below a directory reached through level [i] keeps the state well-formed:
    the new attribute is hashed where it is linked *)
Theorem create_inv s i parent c :
  inv s -> In parent (attrs s) -> In (a_table parent) (chain s i) -> inv (create s i parent c).
Proof.
  intros [Ho Ha Hc] Hp Hch. pose proof (owner_dict_spec s i parent Hch) as Hod.
  split.
  - intros a [<-|Hin]; [cbn; rewrite Hod; now apply Ho|now apply Ho].
  - intros a [<-|Hin]; cbn [a_table]; [rewrite Hod; exact (Ha parent Hp)|exact (Ha a Hin)].
  - intros a q x Hin Hpath. rewrite table_create.
    destruct Hin as [<-|Hin].
    + cbn [a_path a_table] in *. apply app_inj_tail in Hpath as [<- _].
      rewrite Nat.eqb_refl. right. apply in_table. exists parent. now rewrite Hod.
    + destruct (Nat.eqb (owner_dict s i parent) (a_table a)); [right|]; eapply Hc; eauto.
Qed.

(** ... and the new attribute is found through EVERY level that sees the parent
    directory, whichever level it was created through *)
Theorem create_visible s i parent c i' :
  inv s -> In parent (attrs s) -> In (a_table parent) (chain s i) ->
  first_owner s (chain s i') (a_path parent) = Some (a_table parent) ->
  first_owner (create s i parent c) (chain (create s i parent c) i') (a_path parent ++ [c])
  = Some (a_table parent).
Proof.
  intros [Ho Ha Hc] Hp Hch. rewrite chain_create. pose proof (owner_dict_spec s i parent Hch) as Hod.
  induction (chain s i') as [|k rest IH]; [discriminate|].
  cbn [first_owner]. rewrite table_create, Hod.
  destruct (in_dec cpath_eq_dec (a_path parent) (table s k)) as [Hin|Hn].
  - intro H. injection H as ->. rewrite Nat.eqb_refl.
    destruct (in_dec cpath_eq_dec _ _) as [_|Hx]; [reflexivity|]. exfalso. apply Hx. now left.
  - intro H. destruct (Nat.eqb (a_table parent) k) eqn:E.
    + apply Nat.eqb_eq in E. subst k. exfalso. apply Hn. apply in_table. exists parent. auto.
    + destruct (in_dec cpath_eq_dec (a_path parent ++ [c]) (table s k)) as [Hin'|_]; [|now apply IH].
      (* a dictionary that has the new path would have the parent's path too *)
      exfalso. apply Hn. apply in_table in Hin' as (a & Hina & Hk & Hpa). subst k.
      exact (Hc a (a_path parent) c Hina Hpa).
Qed.

(** * freeing *)

Lemma dict_at_kill_other k : forall ds j, j <> k -> nth_error (kill k ds) j = nth_error ds j.
Proof.
  induction k as [|k IH]; intros [|d t] j H; cbn; try reflexivity.
  - destruct j; [congruence|reflexivity].
  - destruct j; [reflexivity|]. cbn. apply IH. congruence.
Qed.

(** freeing any dictionary (a leaf, or one in the middle of a chain once nothing
    refers to it) removes every attribute of its hash table with it: no attribute
    that stays has its table entry in the freed dictionary, nothing dangles, and
    the state stays well-formed *)
Theorem free_safe s k :
  inv s ->
  (forall a, In a (attrs (free_dict s k)) -> a_table a <> k) /\
  (forall a, ~ dangling (free_dict s k) a) /\
  inv (free_dict s k).
Proof.
  intros [Ho Ha Hc].
  assert (Hrem : forall a, In a (attrs (free_dict s k)) -> In a (attrs s) /\ a_table a <> k).
  { intros a Hin. cbn in Hin. apply filter_In in Hin as [Hin Hk]. split; [exact Hin|].
    apply negb_true_iff, Nat.eqb_neq in Hk. rewrite (Ho a Hin). exact Hk. }
  assert (Halive : forall a, In a (attrs (free_dict s k)) -> alive (free_dict s k) (a_table a)).
  { intros a Hin. destruct (Hrem a Hin) as [Hin0 Hne]. destruct (Ha a Hin0) as (d & Hd & Hal).
    exists d. split; [|exact Hal]. unfold dict_at. cbn [dicts free_dict]. now rewrite dict_at_kill_other. }
  split; [intros a Hin; exact (proj2 (Hrem a Hin))|]. split.
  - intros a [Hin Hdead]. destruct (Halive a Hin) as (d & Hd & Hal). rewrite Hd in Hdead. congruence.
  - split.
    + intros a Hin. apply Ho. exact (proj1 (Hrem a Hin)).
    + exact Halive.
    + intros a q c Hin Hp. destruct (Hrem a Hin) as [Hin0 Hne].
      pose proof (Hc a q c Hin0 Hp) as Hq. apply in_table in Hq as (b & Hb & Hbt & Hbp).
      apply in_table. exists b. split; [|auto]. cbn. apply filter_In. split; [exact Hb|].
      apply negb_true_iff, Nat.eqb_neq. rewrite <- (Ho b Hb), Hbt. exact Hne.
Qed.

Lemma kill_dead k : forall ds d, nth_error ds k = Some d ->
  match nth_error (kill k ds) k with Some d' => d_alive d' = false | None => True end.
Proof.
  induction k as [|k IH]; intros [|d0 t] d Hd; cbn in *; try discriminate; [reflexivity|].
  eapply IH; eauto.
Qed.

(** what goes wrong without the walk: if the new attribute is hashed into another
    dictionary of the chain than the one it is linked in, freeing that dictionary
    leaves it dangling *)
Lemma misplaced_dangles s k a :
  In a (attrs s) -> a_table a = k -> a_tree a <> k ->
  (exists d, dict_at s k = Some d) -> dangling (free_dict s k) a.
Proof.
  intros Hin Ht Htr (d & Hd). split.
  - cbn. apply filter_In. split; [exact Hin|]. now apply negb_true_iff, Nat.eqb_neq.
  - rewrite Ht. unfold dict_at in *. cbn [dicts free_dict]. eapply kill_dead; eauto.
Qed.

(** a KDUMP_CLONE_XLAT clone of level [i]: a new leaf dictionary with private copies *)
Theorem clone_inv s i priv :
  inv s -> (forall p q c, In p priv -> p = q ++ [c] -> In q priv) ->
  inv (clone_xlat s i priv).
Proof.
  intros [Ho Ha Hc] Hpc. set (n := length (dicts s)).
  assert (Hold : forall a, In a (attrs s) -> a_table a <> n).
  { intros a Hin E. destruct (Ha a Hin) as (d & Hd & _). unfold dict_at in Hd.
    assert (Hlt : a_table a < length (dicts s)) by (apply nth_error_Some; rewrite Hd; discriminate).
    unfold n in E. lia. }
  split.
  - intros a Hin. cbn in Hin. apply in_app_iff in Hin as [Hin|Hin]; [|now apply Ho].
    apply in_map_iff in Hin as (p & <- & _). reflexivity.
  - intros a Hin. cbn in Hin. apply in_app_iff in Hin as [Hin|Hin].
    + apply in_map_iff in Hin as (p & <- & _). cbn [a_table]. eexists. split.
      { unfold dict_at. cbn [dicts clone_xlat]. rewrite nth_error_app2 by lia. rewrite Nat.sub_diag. reflexivity. }
      reflexivity.
    + destruct (Ha a Hin) as (d & Hd & Hal). exists d. split; [|exact Hal].
      unfold dict_at in *. cbn [dicts clone_xlat]. rewrite nth_error_app1; [exact Hd|].
      apply nth_error_Some. rewrite Hd. discriminate.
  - intros a q c Hin Hp. cbn in Hin. apply in_table. apply in_app_iff in Hin as [Hin|Hin].
    + apply in_map_iff in Hin as (p & <- & Hpin). cbn [a_path a_table] in *.
      exists {| a_path := q; a_table := n; a_tree := n |}. split; [|auto].
      cbn. apply in_app_iff. left. apply in_map_iff. exists q. split; [reflexivity|]. eapply Hpc; eauto.
    + pose proof (Hc a q c Hin Hp) as Hq. apply in_table in Hq as (b & Hb & Hbt & Hbp).
      exists b. split; [|auto]. cbn. apply in_app_iff. now right.
Qed.

(** * a concrete chain: the original dictionary and two XLAT clones on top of each other *)
Definition nm_linux : bytes := [108; 105]%N.
Definition nm_xlat : bytes := [97; 120]%N.
Definition nm_new : bytes := [110]%N.
Definition s_root : cstate :=
  {| dicts := [{| d_alive := true; d_fallback := None; d_refs := 1 |}];
     attrs := [ {| a_path := []; a_table := 0; a_tree := 0 |};
                {| a_path := [nm_linux]; a_table := 0; a_tree := 0 |};
                {| a_path := [nm_xlat]; a_table := 0; a_tree := 0 |} ] |}.
Definition s_chain3 : cstate := clone_xlat (clone_xlat s_root 0 [[]; [nm_xlat]]) 1 [[]; [nm_xlat]].
Definition a_linux : cattr := {| a_path := [nm_linux]; a_table := 0; a_tree := 0 |}.

Lemma s_root_inv : inv s_root.
Proof.
  split.
  - intros a [<-|[<-|[<-|[]]]]; reflexivity.
  - intros a [<-|[<-|[<-|[]]]]; eexists; (split; [reflexivity|reflexivity]).
  - intros a q c [<-|[<-|[<-|[]]]] H; cbn in H.
    + destruct q; discriminate.
    + destruct q as [|x [|y q]]; try discriminate. now left.
    + destruct q as [|x [|y q]]; try discriminate. now left.
Qed.

Lemma priv_closed : forall p q c, In p [[]; [nm_xlat]] -> p = q ++ [c] -> In q [[]; [nm_xlat]].
Proof.
  intros p q c [<-|[<-|[]]] H.
  - destruct q; discriminate.
  - destruct q as [|x [|y q]]; try discriminate. now left.
Qed.

Lemma s_chain3_inv : inv s_chain3.
Proof. apply clone_inv; [apply clone_inv; [exact s_root_inv|exact priv_closed]|exact priv_closed]. Qed.

(** the chain of the top clone walks all three dictionaries; [linux] is owned by
    the original dictionary, [addrxlat] by whichever level is asked *)
Example chain3_walk : chain s_chain3 2 = [2; 1; 0]. Proof. reflexivity. Qed.
Example chain3_linux : map (fun i => first_owner s_chain3 (chain s_chain3 i) [nm_linux]) [0; 1; 2]
  = [Some 0; Some 0; Some 0]. Proof. reflexivity. Qed.
Example chain3_xlat : map (fun i => first_owner s_chain3 (chain s_chain3 i) [nm_xlat]) [0; 1; 2]
  = [Some 0; Some 1; Some 2]. Proof. reflexivity. Qed.
(** creating linux.n through the TOP clone hashes it into the original dictionary
    (two steps down the chain), and every level sees it *)
Example chain3_create :
  owner_dict s_chain3 2 a_linux = 0 /\
  map (fun i => first_owner (create s_chain3 2 a_linux nm_new)
                            (chain (create s_chain3 2 a_linux nm_new) i) [nm_linux; nm_new]) [0; 1; 2]
  = [Some 0; Some 0; Some 0].
Proof. split; reflexivity. Qed.
(** the same with the worst hash function (everything collides) through the C-level lookup *)
Example chain3_lookup_hash :
  lookup_chain (fun _ => 0%N) (fun p => N.of_nat (length p)) (create s_chain3 2 a_linux nm_new) 2
               [nm_linux] nm_new = Some (0, [nm_linux; nm_new]).
Proof. vm_compute. reflexivity. Qed.
(** freeing the middle clone: its private attributes go, nothing dangles *)
Example chain3_free_middle :
  map a_table (attrs (free_dict s_chain3 1)) = [2; 2; 0; 0; 0].
Proof. reflexivity. Qed.

(** * the executable operations keep the state well-formed *)
Lemma nth_add_ref k up : forall ds j,
  nth_error (add_ref k up ds) j =
  match nth_error ds j with
  | Some d => Some (if Nat.eqb j k then {| d_alive := d_alive d; d_fallback := d_fallback d;
                       d_refs := if up then S (d_refs d) else pred (d_refs d) |} else d)
  | None => None
  end.
Proof.
  induction k as [|k IH]; intros [|d t] j; cbn.
  - now destruct j.
  - destruct j; [reflexivity|]. cbn. now destruct (nth_error t j).
  - now destruct j.
  - destruct j; [reflexivity|]. cbn. apply IH.
Qed.

Lemma inv_same_attrs s s' :
  attrs s' = attrs s -> (forall k, alive s k -> alive s' k) -> inv s -> inv s'.
Proof.
  intros Ha Hal [Ho Hl Hc]. split.
  - intros a Hin. rewrite Ha in Hin. now apply Ho.
  - intros a Hin. rewrite Ha in Hin. apply Hal. now apply Hl.
  - intros a q c Hin Hp. rewrite Ha in Hin. unfold table. rewrite Ha. exact (Hc a q c Hin Hp).
Qed.

Lemma add_ref_inv s k up : inv s -> inv {| dicts := add_ref k up (dicts s); attrs := attrs s |}.
Proof.
  apply inv_same_attrs; [reflexivity|]. intros j (d & Hd & Hal). unfold alive, dict_at in *. cbn [dicts].
  rewrite nth_add_ref, Hd. eexists. split; [reflexivity|]. now destruct (Nat.eqb j k).
Qed.

Theorem clone_shared_inv s k : inv s -> inv (clone_shared s k).
Proof. apply add_ref_inv. Qed.

Theorem clone_xlat_ref_inv s i priv :
  inv s -> (forall p q c, In p priv -> p = q ++ [c] -> In q priv) -> inv (clone_xlat_ref s i priv).
Proof. intros H Hp. apply clone_inv; [now apply add_ref_inv|exact Hp]. Qed.

Theorem release_inv fuel : forall s k, inv s -> inv (release fuel s k).
Proof.
  induction fuel as [|f IH]; intros s k H; [exact H|]. cbn [release].
  destruct (dict_at s k) as [d|]; [|exact H]. destruct (d_alive d); [|exact H].
  destruct (Nat.leb (d_refs d) 1).
  - pose proof (proj2 (proj2 (free_safe s k H))) as H'. destruct (d_fallback d); [now apply IH|exact H'].
  - now apply add_ref_inv.
Qed.

Theorem release_no_dangling fuel s k a : inv s -> ~ dangling (release fuel s k) a.
Proof.
  intros H [Hin Hd]. destruct (inv_alive _ (release_inv fuel s k H) a Hin) as (d & Hd' & Hal).
  rewrite Hd' in Hd. congruence.
Qed.

Lemma first_owner_in s ks p k : first_owner s ks p = Some k -> In k ks /\ In p (table s k).
Proof.
  induction ks as [|k0 rest IH]; [discriminate|]. cbn [first_owner].
  destruct (in_dec cpath_eq_dec p (table s k0)) as [Hin|_].
  - intro E. injection E as <-. split; [now left|exact Hin].
  - intro E. destruct (IH E). split; [now right|assumption].
Qed.

Lemma attr_in_spec s k p a : attr_in s k p = Some a -> In a (attrs s) /\ a_table a = k /\ a_path a = p.
Proof.
  intro H. apply find_some in H as [Hin Hb]. apply andb_true_iff in Hb as [Hk Hp].
  apply Nat.eqb_eq in Hk. destruct (cpath_eq_dec (a_path a) p); [|discriminate]. auto.
Qed.

Theorem create_path_inv : forall todo s i done, inv s -> inv (create_path s i done todo).
Proof.
  induction todo as [|c rest IH]; intros s i done H; [exact H|]. cbn [create_path].
  destruct (first_owner s (chain s i) (done ++ [c])); [now apply IH|].
  destruct (first_owner s (chain s i) done) as [k|] eqn:Ek; [|exact H].
  destruct (attr_in s k done) as [parent|] eqn:Ep; [|exact H].
  apply attr_in_spec in Ep as (Hin & Hk & _). apply first_owner_in in Ek as [Hch _].
  apply IH. apply create_inv; [exact H|exact Hin|now rewrite Hk].
Qed.

Theorem invb_sound s : invb s = true -> inv s.
Proof.
  unfold invb. rewrite forallb_forall. intro H. split.
  - intros a Hin. specialize (H a Hin). apply andb_true_iff in H as [H _]. apply andb_true_iff in H as [H _].
    now apply Nat.eqb_eq.
  - intros a Hin. specialize (H a Hin). apply andb_true_iff in H as [H _]. apply andb_true_iff in H as [_ H].
    unfold alive. destruct (dict_at s (a_table a)) as [d|]; [|discriminate]. eauto.
  - intros a q c Hin Hp. specialize (H a Hin). apply andb_true_iff in H as [_ H].
    rewrite Hp, rev_app_distr in H. cbn in H. rewrite rev_involutive in H.
    destruct (in_dec cpath_eq_dec q (table s (a_table a))); [assumption|discriminate].
Qed.

Lemma prefixb_app : forall p q r, prefixb p q = true -> prefixb p (q ++ r) = true.
Proof.
  induction p as [|x p IH]; intros [|y q] r H; cbn in *; try reflexivity; try discriminate.
  destruct (list_eq_dec N.eq_dec x y); [now apply IH|discriminate].
Qed.

Lemma prefixb_length : forall p q, prefixb p q = true -> length p <= length q.
Proof.
  induction p as [|x p IH]; intros [|y q] H; cbn in *; try lia; try discriminate.
  destruct (list_eq_dec N.eq_dec x y); [apply IH in H; lia|discriminate].
Qed.

(** removing an attribute with everything below it (or only what is below it) *)
Theorem remove_below_inv s i p strict : inv s -> inv (remove_below s i p strict).
Proof.
  intros H. unfold remove_below. destruct (first_owner s (chain s i) p) as [k|]; [|exact H].
  destruct H as [Ho Ha Hc].
  set (f := fun a : cattr => negb (Nat.eqb (a_tree a) k && prefixb p (a_path a) &&
                                   (negb strict || Nat.ltb (length p) (length (a_path a))))).
  split.
  - intros a Hin. cbn in Hin. apply filter_In in Hin as [Hin _]. now apply Ho.
  - intros a Hin. cbn in Hin. apply filter_In in Hin as [Hin _]. exact (Ha a Hin).
  - intros a q c Hin Hp. cbn in Hin. apply filter_In in Hin as [Hin Hf].
    pose proof (Hc a q c Hin Hp) as Hq. apply in_table in Hq as (b & Hb & Hbt & Hbp).
    apply in_table. exists b. split; [|auto]. cbn. apply filter_In. split; [exact Hb|].
    apply negb_true_iff. apply negb_true_iff in Hf.
    destruct (Nat.eqb (a_tree b) k && prefixb p (a_path b) &&
              (negb strict || Nat.ltb (length p) (length (a_path b)))) eqn:E; [|reflexivity].
    exfalso. apply andb_true_iff in E as [E E3]. apply andb_true_iff in E as [E1 E2].
    apply Nat.eqb_eq in E1. rewrite Hbp in E2.
    assert (T : a_tree a = k) by (rewrite <- (Ho a Hin), <- Hbt, (Ho b Hb); exact E1).
    rewrite T, Nat.eqb_refl, Hp, (prefixb_app p q [c] E2) in Hf. cbn in Hf.
    apply orb_false_iff in Hf as [_ Hf]. apply Nat.ltb_ge in Hf.
    apply prefixb_length in E2. rewrite app_length in Hf. cbn in Hf. lia.
Qed.
