(** C13 — what "a typed hierarchical dictionary" means, independent of how the
    library stores attributes.

    The key space is a fixed set of paths (the templates); every key has a
    type, may hold a value, and remembers whether the application set it
    (persistent).  The dictionary is an association list from paths to entries
    ([dl_*], executable: the correspondence check replays every history on it);
    [d_*] state the same operations on the function [path -> option entry]. *)
From Coq Require Import NArith ZArith List Bool.
From KdV Require Import Base.Wrap64 Attr.AttrBase Attr.AttrTree.
Import ListNotations.
Local Open Scope N_scope.

Record entry := { e_ty : atype; e_set : bool; e_persist : bool; e_val : aval }.

Fixpoint path_eqb (a b : path) : bool :=
  match a, b with
  | [], [] => true
  | x :: a', y :: b' => bytes_eqb x y && path_eqb a' b'
  | _, _ => false
  end.

(** [a] is a prefix of [b] (possibly equal) *)
Fixpoint prefix (a b : path) : bool :=
  match a, b with
  | [], _ => true
  | x :: a', y :: b' => bytes_eqb x y && prefix a' b'
  | _ :: _, [] => false
  end.

Definition strict_prefix (a b : path) : bool := prefix a b && negb (path_eqb a b).

(** ** the dictionary as a function *)
Definition dictionary := path -> option entry.

Definition d_get (p : path) (d : dictionary) : status * atype * aval :=
  match d p with
  | None => (ERR_NOKEY, TNil, VNone)
  | Some e => if e_set e then (KDUMP_OK, e_ty e, e_val e) else (ERR_NODATA, TNil, VNone)
  end.

(** Ancestors.  Setting a key gives a value to the directories above it — the
    library walks from the parent upwards and stops at the first directory that
    has a value already (a directory can be without a value although something
    below it has one: [addrxlat] in a new context).  [inst_reach d q p]: [q] is
    a proper ancestor of [p] and every directory strictly between them is
    without a value in [d]. *)
Definition unset_at (d : dictionary) (q : path) : bool :=
  match d q with Some e => negb (e_set e) | None => true end.

Fixpoint below_unset (d : dictionary) (rest : path) : bool :=
  match rest with
  | [] => true
  | c :: r => unset_at d [] && below_unset (fun z => d (c :: z)) r
  end.

Fixpoint inst_reach (d : dictionary) (q p : path) : bool :=
  match q, p with
  | [], c :: rest => below_unset (fun z => d (c :: z)) rest
  | x :: q', y :: p' => bytes_eqb x y && inst_reach (fun z => d (x :: z)) q' p'
  | _, [] => false
  end.

(** setting [p] to [v]: the key holds [v] and is persistent; the ancestors
    reached by the walk have a value; nothing else changes *)
Definition d_set (p : path) (v : aval) (d : dictionary) : dictionary :=
  fun q =>
    match d q with
    | None => None
    | Some e =>
        if path_eqb q p then
          Some {| e_ty := e_ty e; e_set := true; e_persist := true;
                  e_val := match e_ty e with TDir => e_val e | _ => v end |}
        else if inst_reach d q p then
          Some {| e_ty := e_ty e; e_set := true; e_persist := e_persist e; e_val := e_val e |}
        else Some e
    end.

(** clearing [p]: [p] and everything below it have no value *)
Definition d_clear (p : path) (d : dictionary) : dictionary :=
  fun q =>
    match d q with
    | None => None
    | Some e =>
        if prefix p q
        then Some {| e_ty := e_ty e; e_set := false; e_persist := e_persist e; e_val := e_val e |}
        else Some e
    end.

(** ** the dictionary as an association list (each key once) *)
Definition alist := list (path * entry).

Fixpoint dl_find (p : path) (l : alist) : option entry :=
  match l with
  | [] => None
  | (q, e) :: t => if path_eqb q p then Some e else dl_find p t
  end.

Definition dl_get (p : path) (l : alist) : status * atype * aval :=
  match dl_find p l with
  | None => (ERR_NOKEY, TNil, VNone)
  | Some e => if e_set e then (KDUMP_OK, e_ty e, e_val e) else (ERR_NODATA, TNil, VNone)
  end.

Definition dl_set (p : path) (v : aval) (l : alist) : alist :=
  map (fun qe =>
         let '(q, e) := qe in
         if path_eqb q p then
           (q, {| e_ty := e_ty e; e_set := true; e_persist := true;
                  e_val := match e_ty e with TDir => e_val e | _ => v end |})
         else if inst_reach (fun x => dl_find x l) q p then
           (q, {| e_ty := e_ty e; e_set := true; e_persist := e_persist e; e_val := e_val e |})
         else (q, e)) l.

(** a value read from the dump file: like [dl_set], but not persistent *)
Definition dl_derive (p : path) (v : aval) (l : alist) : alist :=
  map (fun qe =>
         let '(q, e) := qe in
         if path_eqb q p then
           (q, {| e_ty := e_ty e; e_set := true; e_persist := false;
                  e_val := match e_ty e with TDir => e_val e | _ => v end |})
         else if inst_reach (fun x => dl_find x l) q p then
           (q, {| e_ty := e_ty e; e_set := true; e_persist := e_persist e; e_val := e_val e |})
         else (q, e)) l.

Definition dl_clear (p : path) (l : alist) : alist :=
  map (fun qe =>
         let '(q, e) := qe in
         if prefix p q
         then (q, {| e_ty := e_ty e; e_set := false; e_persist := e_persist e; e_val := e_val e |})
         else (q, e)) l.

(** opening another file: a key keeps its value iff it, or a key below it, is persistent *)
Definition dl_keeps (q : path) (l : alist) : bool :=
  existsb (fun re => prefix q (fst re) && e_persist (snd re)) l.

Definition dl_clear_volatile (l : alist) : alist :=
  map (fun qe =>
         let '(q, e) := qe in
         if dl_keeps q l then (q, e)
         else (q, {| e_ty := e_ty e; e_set := false; e_persist := e_persist e; e_val := e_val e |})) l.

(** the set children of a directory: keys one component longer *)
Definition is_child (p q : path) : bool :=
  prefix p q && Nat.eqb (length q) (S (length p)).

Definition dl_children (p : path) (l : alist) : list bytes :=
  flat_map (fun qe => if is_child p (fst qe) && e_set (snd qe)
                      then [last (fst qe) []] else []) l.

(** all children of a directory with their "has a value" flag, in the order of
    the list (the order in which an iteration passes them) *)
Definition dl_kids (p : path) (l : alist) : list (bytes * bool) :=
  flat_map (fun qe => if is_child p (fst qe) then [(last (fst qe) [], e_set (snd qe))] else []) l.

(** the first child with a value; [dl_next_from k]: the first one after child [k] *)
Fixpoint dl_first (kids : list (bytes * bool)) : option bytes :=
  match kids with
  | [] => None
  | (k, s) :: t => if s then Some k else dl_first t
  end.

Fixpoint dl_next_from (cur : bytes) (kids : list (bytes * bool)) : option bytes :=
  match kids with
  | [] => None
  | (k, _) :: t => if bytes_eqb k cur then dl_first t else dl_next_from cur t
  end.

(** one checked set through the API: (status, new dictionary) *)
Definition dl_check_set (p : path) (ty : atype) (v : aval) (l : alist) : status * alist :=
  match dl_find p l with
  | None => (ERR_NOKEY, l)
  | Some e =>
      match ty with
      | TNil => (KDUMP_OK, dl_clear p l)
      | _ => if atype_eqb ty (e_ty e) then (KDUMP_OK, dl_set p v l) else (ERR_INVALID, l)
      end
  end.

(** the association list of a tree (all keys, preorder; the root is []) *)
Definition entry_of (n : anode) : entry :=
  {| e_ty := aty n; e_set := aisset n; e_persist := apersist n; e_val := aval_of n |}.

Fixpoint flatten (prefix : path) (n : anode) : alist :=
  let 'ANode k t s p v kids := n in
  (prefix, {| e_ty := t; e_set := s; e_persist := p; e_val := v |})
    :: flat_map (fun ch => flatten (prefix ++ [akey ch]) ch) kids.

(** the dictionary after a set whose post-set hook fails is the dictionary after
    the set; only the status is the hook's *)
Definition dl_check_set_hookfail (st : status) (p : path) (ty : atype) (v : aval) (l : alist) : status * alist :=
  match dl_check_set p ty v l with
  | (KDUMP_OK, l') => (st, l')
  | r => r
  end.
